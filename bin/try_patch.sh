#!/bin/bash
# try_patch.sh <patch.diff> [ids...] : apply a patch to /repo, run the quick checks, undo it; prints one line per check
cd "$(dirname "$0")/.."
patch=$1; shift
ids=${@:-C01 C02 C03 C04 C05 C06 C07 C08 C09 C10 C11 C12 C13 C14 C15 C16 C17 C18 C19 C20}
git -C /repo apply "$patch" || exit 2
for p in $ids; do
  out=$(bin/check $p --tier quick 2>&1); rc=$?
  echo "$p exit=$rc $(echo "$out" | grep -c '^VIOLATION') violation lines; $(echo "$out" | grep '^VIOLATION' | head -1 | cut -c1-120)"
done
git -C /repo checkout -- .
(cd harness && CARGO_NET_OFFLINE=true cargo build --offline --quiet 2>/dev/null)
