#!/bin/bash
# background job (vp run --with-repo): full seed x check matrix on private copies of /verif and /repo
set -e
export VERIF_REPO="$VP_RUN_REPO"
sed -i "s#/repo/crates#$VP_RUN_REPO/crates#" harness/Cargo.toml
bin/setup
python3 bin/seed_matrix.py MATRIX.md
cat MATRIX.md
