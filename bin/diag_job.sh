#!/bin/bash
# background job (vp run --with-repo): every seeded change against its own property's check, on private copies
set -e
export VERIF_REPO="$VP_RUN_REPO"
export MATRIX_ONLY_OWN=1
sed -i "s#/repo/crates#$VP_RUN_REPO/crates#" harness/Cargo.toml
bin/setup
python3 bin/seed_matrix.py DIAG.md
cat DIAG.md
