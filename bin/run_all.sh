#!/bin/bash
# run every claimed check of a tier in sequence; summary lines to stdout
cd "$(dirname "$0")/.."
tier=${1:-quick}
for p in C01 C02 C03 C04 C05 C06 C07 C08 C09 C10 C11 C12 C13 C14 C15 C16 C17 C18 C19 C20; do
  /usr/bin/time -f "$p wall %es maxrss %MkB" bin/check $p --tier $tier 2>&1 | grep -v '^KNOWN-FINDING' | tail -2
done
