#!/usr/bin/env python3
"""Rewrite lean/SignaloModel/Props/C??.lean in one clean layout from what each file lists now plus ADD below:
imports, a doc header, `#check @thm` for every property theorem (prints the statement), `#print axioms thm`
(audited by bin/check). Run after adding theorems; the theorem inventory lives in the Props files themselves."""
import json, re, sys
from pathlib import Path

VERIF = Path(__file__).resolve().parent.parent
PROPS = VERIF / "lean" / "SignaloModel" / "Props"
TITLES = {json.loads(l)["id"]: json.loads(l)["title"] for l in open(VERIF / "properties.jsonl")}

# theorem -> (property, module to import) to add to the inventories
ADD = {}
for a in sys.argv[1:]:
    pid, thm, mod = a.split(":")
    ADD.setdefault(pid, []).append((thm, mod))

for pid, title in sorted(TITLES.items()):
    f = PROPS / f"{pid}.lean"
    s = f.read_text()
    imports = re.findall(r"^import (\S+)", s, re.M)
    names = []
    for n in re.findall(r"#check @(\S+)", s) + re.findall(r"^#print axioms (\S+)", s, re.M):
        n = n.rstrip("`;")
        if n not in names:
            names.append(n)
    for thm, mod in ADD.get(pid, []):
        if mod not in imports:
            imports.append(mod)
        if thm not in names:
            names.insert(0, thm)
    out = [f"import {m}" for m in imports]
    out += ["/-!", f"# {pid} — {title}", "",
            f"The property theorems for {pid}: `#check` prints each statement, `#print axioms` its axioms;",
            f"`bin/check {pid}` re-elaborates this file on every run and audits the axiom lists.", "-/",
            "open SignaloModel", ""]
    out += [f"#check @{n}" for n in names] + [""] + [f"#print axioms {n}" for n in names]
    f.write_text("\n".join(out) + "\n")
    print(pid, len(names))
