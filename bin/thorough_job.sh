#!/bin/bash
# background job (vp run --with-repo): the whole thorough tier, seeds 1 and 11, on private copies of /verif and /repo
set -e
export VERIF_REPO="$VP_RUN_REPO"
sed -i "s#/repo/crates#$VP_RUN_REPO/crates#" harness/Cargo.toml
bin/setup
bin/run_all.sh thorough
VERIF_SEED=11 bin/run_all.sh thorough
