"""Per-property configuration of bin/check: generators, build profiles, the specification clauses that
belong to the property, what makes a generated case non-trivial."""

COMMON_MODELLED = [
    "modelled, not verified: circular-buffer 1.2.1 (as a list with push_back/pop semantics), num-traits, guts, core/alloc, rustc code generation",
    "generic code observed at the harness's instantiations (exact rationals Q, f64, i64) and const widths 0..9,16; theorems cover all widths",
]


def P(generators, clauses, rule, nontrivial=("*",), profiles=("debug",), extra_modelled=(), assumptions=(), diff_ops=None):
    return {
        "generators": list(generators),
        "clauses": list(clauses),
        "rule": rule,
        "nontrivial_flags": list(nontrivial),
        "profiles": list(profiles),
        "modelled_not_verified": COMMON_MODELLED + list(extra_modelled),
        "assumptions": list(assumptions),
        # operations whose model/implementation disagreement unties THIS property's theorems (None = all)
        "diff_ops": diff_ops,
    }


PROPS = {
    "C02": P(["C02"], ["C02."],
             "exhaustive: all sequences over a 3-letter alphabet of length N+3 for N<=4 (thorough: 4 letters, N<=5); random: tie-heavy / wide / monotone / alternating / plateau / spike shapes of length <= 6N for N in {1..9,16}; f64 with NaN injected. A case counts as non-trivial when it has >= 3 ops and the window slid, a tie occurred, the list head moved or a NaN was in the window; distinct = distinct op text.",
             nontrivial=["slid", "tie", "median.head-moved", "nan"],
             extra_modelled=["unsafe/MaybeUninit initialisation in median.rs (memory behaviour) is outside the model"]),
    "C17": P(["C17"], ["C17."],
             "as C02, with min()/median()/max() read before the first and after every sample",
             nontrivial=["slid", "tie", "median.head-moved"]),
    "C03": P(["C03"], ["C03."],
             "Mean<Q,N>, N in {1..9,16}: random rationals (non-zero first sample), constants, integer shapes, lengths <= 5N+2, public guts compared; paired histories sharing their last N samples (finite memory). Non-trivial: >= 3 ops and the window slid.",
             nontrivial=["slid"]),
    "C04": P(["C04"], ["C04."],
             "Max/Min/Bounds<Q,N>: exhaustive 3-letter sequences of length N+3 (N<=3); random shapes N in {1..9,16}; state injection through FromGuts with time in usize::MAX-(N+2)..usize::MAX and consistent taps, continued across the rebase; debug (overflow checks) and release profiles. Non-trivial: >= 3 ops and slid window, pop from the back, rebase, or injected state.",
             nontrivial=["slid", "deque.popped", "deque.rebase", "inject"], profiles=("debug", "release")),
    "C05": P(["C05", "C05p"], ["C05."],
             "Convolve<Q,N> with random asymmetric kernels (plain and normalised, zero-sum kernels included), Delay<Q,N> for N in {0..9,16}; non-zero first sample; taps and config compared. Non-trivial: >= 3 ops and the tap ring slid past the edge padding. Presets: all 13 Savitzky-Golay filters at f64 and f32 (bit-exact against the model built from the regenerated tables), on ramps a+b*n, constants and random signals.",
             nontrivial=["slid", "multi"]),
    "C06": P(["C06"], ["C06."],
             "Kalman<Q>: random (r,q,a,b,c) with c != 0 and unit configurations (a=c=1,b=0,r>=0,q>0); measurement-only and (measurement, control) calls mixed; covariance read through guts; paired plain / zero-control instances. Non-trivial: >= 3 ops and at least two samples.",
             nontrivial=["multi"]),
    "C07": P(["C07"], ["C07."],
             "all ten Daubechies orders at f64 and f32: preset configurations and every output compared bit-exactly with the model built from the regenerated tables (normalisation, reversal, sign alternation in float arithmetic); analysis outputs fed into the synthesis filter; impulse at the edge, inner impulse, step, constant and bounded random inputs of length 3N+4; reconstruction / two-convolution clauses evaluated in exact rationals. Non-trivial: >= 3 ops, at least two samples.",
             nontrivial=["multi"]),
    "C08": P(["C08"], ["C08."],
             "Threshold / Schmitt / Debounce with samples drawn within 1 of the thresholds (equal-to-threshold hit constantly), low <,=,> high, debounce thresholds 0..5 and usize::MAX, counter injected at usize::MAX-3..usize::MAX; f64 with NaN. Non-trivial: >= 3 ops and a toggle / hold / mismatch / saturation flag.",
             nontrivial=["schmitt.toggled", "schmitt.held", "debounce.mismatch", "debounce.saturated", "debounce.on", "multi"],
             profiles=("debug", "release")),
    "C09": P(["C09"], ["C09."],
             "all sequences over a 3-letter alphabet of length 5 (thorough: 7) through Slopes, Peaks (values) and Peaks (slopes) with the value-path/slope-path comparison; random shapes with NaN. Non-trivial: >= 3 ops.",
             nontrivial=["multi"]),
    "C01": P(["C01"], ["C01."],
             "all 65 binary nestings of k<=6 probe stages (Pipe::new and `|`, random UnitPipe wrappers) over stateful, mutually non-commuting stages defined by the harness itself (running sum plus offset, affine map, one-sample lag, running maximum — so that a defect of a library filter cannot raise a C01 alarm) fed random samples, with the per-stage invocation log compared; the same with a source as first stage (FromIter / Take<Increment> / a scripted NON-fused source that reports the end and yields again; pulled past the end) and with a sink as last stage (finalised mid-stream and at the end). Non-trivial: >= 3 ops and at least two stages.",
             nontrivial=["pipe.k2", "pipe.k3", "pipe.k4", "pipe.k5", "pipe.k6"]),
    "C10": P(["C10"], ["C10.", "C20.source-cache"],
             "enumerated: every adapter over the empty / one-element / three-element / infinite source with counts 0..3, all depth-2 combinations with the edge pad, all chains of two leaves; random adapter trees of depth <= 3 (12 adapters), pulled 4..16 times (past the end); Peek with random peek/pull interleavings; Cache with cached() after every pull. Non-trivial: >= 3 ops and an adapter (not a bare leaf) involved.",
             nontrivial=["take", "take0", "skip", "skip0", "chain", "cycle", "repeat", "repeat0", "padc", "padc0", "pade", "pade0", "cache", "roundtrip"]),
    "C11": P(["C11"], ["C11."],
             "all nine sinks over exact rationals: empty, one and up to 8 samples (random rationals, constants, integer shapes), fed through Sink::sink or Filter::filter, finalised after every sample. Non-trivial: >= 3 ops and at least two samples.",
             nontrivial=["sink.multi", "sink.fin-many"]),
    "C12": P(["C12"], ["C12.", "C20.cached"],
             "every resettable filter kind (22 kinds + cache wrappers over 9 inner kinds): random configuration, history long enough to fill windows, reset, configuration compared, then the reset instance and a freshly constructed one fed identical inputs (outputs must coincide), further resets at random points. Non-trivial: >= 3 ops and a reset executed.",
             nontrivial=["reset"],
             # value disagreements of a single filter belong to that filter's property; C12 is decided by the
             # reset-vs-fresh differential, the configuration before vs after (as the implementation prints it) and
             # the cache slot
             diff_ops=["same", "reset", "fresh", "new"]),
    "C13": P(["C13"], ["C13."],
             "exp::Mean<Q> and median::exp::Median<Q>: gains in [0,1] (end points included) and outside; random rationals, constants. Non-trivial: >= 3 ops, at least two samples.",
             nontrivial=["multi"]),
    "C14": P(["C14"], ["C14."],
             "AlphaBeta<Q>: random (alpha, beta), random rationals and constants; velocity/value guts compared. Non-trivial: >= 3 ops, at least two samples.",
             nontrivial=["multi"]),
    "C15": P(["C15"], ["C15."],
             "Differentiate<Q>, Integrate<Q> alone and composed both ways (outputs of one fed to the other); closed forms and the two composition laws. Non-trivial: >= 3 ops.",
             nontrivial=["multi"]),
    "C16": P(["C16"], ["C16."],
             "sliding MeanVariance<Q,N> and exponential MeanVariance<Q>: paired runs x and x+c, plus the plain mean filter on x; mean equality, variance >= 0, zero on constants, offset invariance. Non-trivial: >= 3 ops.",
             nontrivial=["slid", "warmup", "multi"]),
    "C18": P(["C18"], ["C18."],
             "Hampel<f64,N>, Hampel<f32,N>: all sequences over {0,1,5} of length 6 for N<=3 and thresholds {0,1,3}; random slowly varying signals with gross outliers, widths 1..9, thresholds {0,0.5,1,2,3}; outputs compared bit-exactly with the model at Lean Float/Float32; the property's clauses (two-valued, first unchanged, inlier passes, outlier replaced) evaluated in exact rationals. Non-trivial: >= 3 ops and an inlier or outlier clause applied.",
             nontrivial=["hampel.inlier", "hampel.outlier"]),
    "C19": P(["C19"], ["C19."],
             "op programs (3..25 ops; thorough 40) of filter / clone / guts round trip (to a new instance and in place) / reset / drop over Median, Mean, Max, Min, Bounds, Convolve, Delay and Cache-wrapped ones, widths 1..6, instantiated at an instrumented sample type; after every op the global ledger of live samples is compared with the sum of the models' owned counts, double drops / clones of dead values are counted as errors; all instances dropped at the end (ledger must be empty). Non-trivial: >= 3 ops and a non-empty ledger at some point.",
             nontrivial=["ledger.nonempty"], diff_ops=["live"]),
    "C20": P(["C20"], ["C20."],
             "every filter kind: copy by clone or by guts round-trip at a random point; identical continuations must coincide, different continuations must be independent (copy equals a fresh instance replaying the copy's history); cache wrapper against the bare filter. Non-trivial: >= 3 ops and a copy made.",
             nontrivial=["clone", "gutsrt"],
             diff_ops=["same", "cfg", "clone", "gutsrt", "fresh", "new"]),
}

FLOATS = ("Float rounding is outside every theorem (theorems are over exact ordered fields / arbitrary total orders); "
          "generic code is exercised at exact rationals, float-only code bit-exactly.")
TIE = ("Tie to the code: hand-written algorithm-faithful Lean model, executed by the compiled driver on the same operation "
       "sequences the real crates (linked from /repo's working tree) execute; any API-observable difference is reported. "
       "The tie is sampled (generated + exhaustive small scopes), not proved. ")

CLAIMS = {
    "C02": {"text": "Theorems (all widths N>=1, all lengths, ties, warm-up) AT THE LEVEL THE DRIVER EXECUTES: Registry run of the median filter never panics and its k-th output is Spec.lowerMedian of Spec.window N history (median_registry_correct), window member without panic for merely dual orders (median_registry_robust); underneath: the literal pointer-level model of median.rs never panics and returns the lower median of the last min(k,N) samples for total orders (medianL_correct, medianL_one), and a window member without panic for merely dual partial orders (medianL_robust); proved by refinement of a list-level algorithm with an invariant. Correspondence: outputs of Median<Q,N>/Median<f64,N> vs model vs specification on exhaustive small scopes and random shapes.",
            "note": TIE + "unsafe/MaybeUninit memory behaviour of median.rs is outside the model. " + FLOATS},
    "C03": {"text": "Theorems over any commutative ring with ANY division operation (fields; truncating integer division = 'the sample type's own arithmetic'): registry run output k = Spec.windowMean (mean_registry_correct), finite memory (mean_registry_forgets), constants reproduced over fields of characteristic 0 (mean_registry_const); underneath: the ring-buffer running-sum model keeps taps = last min(k,N) samples, sum = their sum, weight = their count, so the output is sum/count (minv_step); finite memory (mean_forgets). Correspondence over exact rationals incl. public guts.",
            "note": TIE + "Integer instantiation (truncating division) is not separately modelled. " + FLOATS},
    "C04": {"text": "Theorems (all N>=1 with N+1 <= 2^64-1, any total order) at registry level: the run never panics and output k = Spec.extremum of Spec.window (max_registry_correct, min_registry_correct); underneath, for any counter bound M>N: the monotonic-deque model with the bounded, rebasing counter never fails a checked operation and returns the window maximum / minimum (max_correct, min_correct, runB_correct from any shifted reachable state, through any number of rebases). Correspondence in debug (overflow checks) and release builds including states injected at usize::MAX-j.",
            "note": TIE + "usize is modelled by a parametric bound M; the driver runs M = 2^64-1."},
    "C05": {"text": "Theorems over commutative rings at registry level: convolution output k = Spec.firAt (conv_registry_correct), delay output k = x[max(k-N,0)] (delay_registry_correct); the filter is linear (conv_registry_linear: run on a*x+b*y = a*run(x)+b*run(y)); the normalising constructor yields unit gain whenever the coefficient sum is non-zero and leaves a zero-sum kernel alone (normalized_sum, normalized_of_sum_zero; over fields), so the filter built from it reproduces constants (conv_registry_normalized_const); a FIR reproduces the ramp a+b*m exactly iff sum = 1 and first moment = 0 (convL_ramp) and every regenerated Savitzky-Golay table has sum within 1e-5 of 1 and first moment within 1e-4 of 0 (sg_moments); underneath: stateful tap-ring model = closed form FIR with edge padding (conv_closed_form, taps_invariant, push loop terminates: pushLoop_fill), linearity, shift invariance, constant gain; delay closed form incl. N=0; Savitzky-Golay tables (regenerated from the source on every run) within 5e-6 of the closed-form least-squares end-point coefficients (sg_close, decide +kernel). Correspondence: Convolve/Delay<Q,N> with random kernels, normalisation, guts.",
            "note": TIE + "Preset tables are tied by the translator gen/extract_tables.py (regex extraction, fails loudly). " + FLOATS},
    "C06": {"text": "Theorems: one Kalman::process call = one step of the textbook recursion Spec.kalmanTextbook, for EVERY sample type and configuration (kalman_step_textbook, kalman_state: no algebraic law needed); over ordered fields: hull and non-negative covariance for a=c=1,b=0,r>=0,q>0 over whole streams (kalman_hull, kalman_step_hull; at registry level kalman_registry_hull, kalman_registry_cov_nonneg); plain = zero control (kalman_zero_control). The textbook recursion is an executable specification evaluated against the implementation on every run (exact rationals).",
            "note": TIE + FLOATS},
    "C07": {"text": "At registry level (what the driver executes): analyze_registry_correct (the two outputs are the edge-padded convolutions with the two configured kernels, any kernels), synthesize_registry_correct (sum of the two convolutions of the two input streams), daubechies_registry_reconstructs (for EVERY provided table, the registry analysis filter followed by the registry synthesis filter on any finite signal bounded by B reproduces it delayed by N-1 within 1e-8*B). Underneath, theorem db_reconstructs: for EVERY provided order, every input bounded by B and every index n, |Synthesize(Analyze x)[n] - x[n-(N-1)]| <= 1e-8*B in exact arithmetic, with the kernels derived exactly as daubechies.rs derives them from its (regenerated) table — via cascade_kernel (analysis then synthesis = one edge-padded FIR with kernel low'*low + high'*high, any kernels), convL_residual_bound and the table theorem db_residuals. Further, over commutative rings / ordered fields: feeding one edge-padded FIR into another is the edge-padded FIR of the kernel product (convL_polyMul), error bound |convL r x n| <= (sum |r|) * B (convL_bound), delayed unit impulse picks x[n-d] (convL_delta); for each of the ten coefficient tables, REGENERATED from daubechies.rs on every run and processed exactly as the macro does (normalise, reverse, alternate signs): reconstruction residual <= 1e-8, low-pass gain 1, |high-pass gain| <= 1e-8 (db_residuals, db_low_gain, db_high_gain, db_lengths by decide +kernel). Correspondence: f64/f32 presets bit-exact against the model at Lean Float/Float32, cascade outputs against the reconstruction bound.",
            "note": TIE + "Tables are tied by the translator gen/extract_tables.py. " + FLOATS},
    "C08": {"text": "Theorems: Schmitt step = reference automaton for every low/high (schmitt_ref); debounce counter saturating at any bound M = min(run length, M) and on <=> run >= threshold whenever threshold <= M (debounce_eq_min, debounce_on_iff, runLenFrom_spec). Correspondence incl. samples equal to thresholds, NaN, counter injected at usize::MAX, debug + release.",
            "note": TIE},
    "C09": {"text": "Theorems: peaks closed form on x[n-2],x[n-1],x[n] for total orders (peaks_correct), slope decision (slopeOf_lin), value-driven = slope-driven Peaks for any comparison (peaks_value_eq_slope). Correspondence: all 3-letter sequences, NaN, both Peaks impls against each other.",
            "note": TIE},
    "C01": {"text": "Theorems: a registry filter wrapped as a stage yields exactly the filter's own output stream (stage_run_leafOut), and — about a deep embedding of pipe shapes over ARBITRARY stateful stages (any number of leaves, any nesting, unit wrappers): the output stream equals feeding each stage the complete output stream of its predecessor (run_eq_seq), shapes with the same leaf sequence are observationally equal (run_congr), one output per input (length_run); source pipes answer the source's items pushed through the stages and `none` exactly where the source does, without touching the stages (pulls_eq, runOpt_none_iff); finalising a sink pipe = finalising the sink after the filtered samples (finalize_eq). Correspondence: real Pipe/UnitPipe/BitOr code over probe stages, all nestings k<=6, logs compared.",
            "note": TIE + "Monomorphised (statically typed) nestings are represented by the dynamically dispatched enum over the same generic impls."},
    "C10": {"text": "Theorems: Peek under EVERY interleaving of peek and pull (peek_correct); every adapter machine implements its iterator analogue for every inner machine (take, skip, chain, cycle, repeat, constant, increment, both pads incl. the repaired edge pad with count 0 / one element / empty, cache) and therefore every adapter tree of any depth does, fused end included (tree_correct); peek laws (peek_then_pull, peek_idem, peek_pull_plain). Correspondence: enumerated and random trees of depth <= 3 over the real adapters. For sources that are NOT fused (an end marker may be followed by further items) theorems on raw answer sequences: Peek = Peekable over the raw answers, end markers included (peek_raw_correct); Chain = the first source's answers up to its first end marker, then the second's, never polling the first again (pulls_chain); Take = the first n raw answers, then end markers (pulls_take); the cache wrapper passes raw answers through (pulls_cache). Adapter trees over scripted non-fused leaves are run against the same adapter machines.",
            "note": TIE + "FromIter is modelled over a list iterator (fused)."},
    "C11": {"text": "Theorems: min / max / bounds / last / sum / collect sinks hold exactly Spec.extremum / getLast? / Spec.sum / the samples, for every sample type (min_feed … collect_feed, statistics_feed); over ordered fields the Welford state is (n, batch mean, sum of squared deviations) (welford_correct), finalize = batch mean and unbiased sample variance with divisor n-1 (mean_finalize, meanVar_finalize), none exactly for the empty sequence (finalize_empty); underneath: the Welford state keeps count = n, mean = batch mean, M2 = sum of squared deviations (winv_step); batch statistics are executable specifications checked against all nine sinks on every run (finalize and running-filter paths).",
            "note": TIE + FLOATS},
    "C12": {"text": "Theorems over the registry of all 24 filter models + wrappers (any nesting): construct from configuration c, feed ANY history, reset: the result IS c.init (reset_after_history), via reset = init(config) (reset_eq_init) and: no filter call ever changes the configuration (config_filter, config_run; for the median / Hampel: the number of ring slots, step_length); configuration unchanged by reset (config_reset); hence identical response to every later input (run_reset_eq_fresh). Correspondence: every resettable filter, reset after random histories, compared with the model and with a freshly constructed real instance fed the same inputs.",
            "note": TIE + "The theorem is structural (the model's reset is transcribed from each impl Reset); whether the code's reset forgets something is decided by the correspondence and by the real reset-vs-fresh differential."},
    "C13": {"text": "Theorems over ordered fields, gains in [0,1], all lengths: EMA and exponential-median outputs stay in any interval containing the samples (ema_hull, emed_hull), constants reproduced (ema_const); at registry level ema_registry_hull / emedian_registry_hull, and the filters' runs ARE the recurrences y[n] = y[n-1] + w(x[n] - y[n-1]) (ema_registry_correct) and pre-average -> clamp -> mid-gain step of the exponential median (emedian_registry_correct, Spec.emedRec). The recurrences are also executable specification clauses evaluated on every output of the implementation (exact rationals).",
            "note": TIE + FLOATS},
    "C14": {"text": "Theorems over commutative rings: alpha-beta run is linear in the input (ab_linear: superposition with arbitrary scalars), constants reproduced exactly (ab_const); at registry level (what the driver executes): alphaBeta_registry_correct (run = recurrence Spec.abRec), alphaBeta_registry_linear / _scale / _offset / _const. The recurrence is also an executable specification clause evaluated on every output of the implementation.",
            "note": TIE + FLOATS},
    "C15": {"text": "Theorems over additive commutative groups, all lengths: integrate(differentiate(x)) = x - x0, differentiate(integrate(x)) = 0 :: tail (int_diff, diff_int); at registry level: differentiate_registry_correct (0, then x[k]-x[k-1]), integrate_registry_correct (running sum), and the two compositions of registry runs (integrate_differentiate_registry, differentiate_integrate_registry). Correspondence: both filters alone (with resets, copies, guts round trips) and composed both ways.",
            "note": TIE},
    "C16": {"text": "Theorems at registry level: the mean component of every output equals the registry's mean / exponential-mean filter output on the same samples, for every sample type (meanVar_registry_mean_eq, emeanVar_registry_mean_eq); over ordered fields meanVar_registry_nonneg, meanVar_registry_const, emeanVar_registry_nonneg (gain in [0,1]), emeanVar_registry_offset. Underneath: mean output = mean filter output for both variants (emv_mean_eq, smv_mean_eq); sliding variant: variance >= 0 (smv_var_nonneg) and zero on constants (smv_var_const) over ordered fields, offset invariance FALSE of the code (smv_offset_counterexample: 13/18 vs 331/6); exponential variant, gain in [0,1]: variance >= 0 (emv_var_nonneg), offset invariance (emv_offset). Sliding variant: mean equality, non-negativity and zero-on-constants are checked against the specification on every run; offset invariance is FALSE of the code (reads the running sum) — machine-checked counter-example, recorded as a known finding.",
            "note": TIE + "Known finding sliding-mv-reads-sum (KNOWN_FINDINGS.txt). " + FLOATS},
    "C17": {"text": "Theorems at registry level (widths >= 2): after any history min() = Spec.minimum, median() = Spec.lowerMedian of the window, max() = the LATEST sample (median_registry_accessors); nothing before the first sample (median_registry_accessors_init); machine-checked counter-example to the max clause (median_max_counterexample). Underneath: on the pointer-level model min() = window minimum, median() = lower median (accessors_L via refinement); max() provably returns the latest sample (acc_max_is_latest) — the property's max clause is false of the code, recorded as a known finding. Correspondence: all three accessors before the first and after every sample.",
            "note": TIE + "Known finding median-max-accessor (KNOWN_FINDINGS.txt)."},
    "C18": {"text": "Theorems over ordered fields at registry level (widths >= 2): output k = decision applied to minimum / lower median / latest sample of the window of the min(k,N) samples BEFORE sample k (hampel_registry); never a third value, first unchanged (hampelOut_two_valued, hampelOut_first); inlier passes (hampelOut_inlier); outlier beyond t*f*max-distance replaced (hampelOut_outlier). Underneath (threshold >= 0, factor > 0): the decision returns the sample or the median and nothing else (decide_two_valued, decide_first), passes every sample within t*f*(median-min) (decide_inlier), replaces every sample beyond t*f*D for any bound D on the two distances the filter reads (decide_outlier, decide_const_window); the window statistics it reads are those of the median model (C02/C17 theorems). Correspondence: bit-exact at Float/Float32; the property's clauses evaluated in exact rationals on every output.",
            "note": TIE + "The decision theorems are about exact arithmetic; the bit-exact correspondence covers rounding. Hampel reads Median::max() (latest sample, see C17 finding): the property's clauses are phrased so that they hold of it."},
    "C19": {"text": "PARTIAL (ownership logic only). Theorems: what each windowed filter's model state owns after construction, reset (= fresh), after a step of the mean (min(k,N) taps + sum + weight), convolution (N coefficients + N taps) and delay (N taps) filters, and, at registry level for every history from Default: the median filter owns exactly min(k,N) values (owned_median_registry, via the refinement invariant), the moving average min(k,N) taps + sum + weight (owned_mean_registry), the convolution its N coefficients and N taps (owned_convolve_registry), the delay N taps (owned_delay_registry), and each min/max deque between 1 and min(k,N) entries whatever the clock rebasing (owned_max_registry, owned_min_registry, owned_bounds_registry: the ring never overflows, so push_back never evicts behind the algorithm's back); copies are the identity on states (run_append). Correspondence: the harness's live-instance ledger of an instrumented sample type equals the sum of the models' owned counts after every operation of random filter/clone/guts/reset/drop programs, no double drop or use of a dead value is ever recorded, and the ledger is empty once everything is dropped.",
            "note": TIE + "What this cannot exhibit: reads of uninitialised memory / use after free inside the MaybeUninit + raw-read block of median.rs and inside circular-buffer (runtime truth, outside any executable model); the exact owned count of the min/max deques is data dependent (bounded by theorem, matched exactly by the correspondence)."},
    "C20": {"text": "Theorems over the registry: runs compose (run_append: a continuation depends only on the state reached, which is all Clone / guts carry), cache and unit wrappers return exactly the wrapped filter's outputs and remember the last (cache_filter, cache_run, cache_slot, unit_run); source cache (cache_correct, cache_slot). Correspondence: clone / guts round trip at random points of every filter kind, identical and diverging continuations, copy vs fresh replay, cache vs bare filter.",
            "note": TIE + "Unit-system wrappers (dimensioned feature) are modelled; their correspondence run is listed in DESIGN.md."},
}

NOT_APPLICABLE = {}
