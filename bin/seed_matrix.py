#!/usr/bin/env python3
"""seed_matrix.py [out.md] — applies every seeded change in turn to the repository (VERIF_REPO, default /repo), runs every
claimed quick check against it, undoes it, and writes the matrix seed x check (1 = VIOLATION reported).
Used to see (a) that every seed is caught by its own property's check and (b) which other checks fire."""
import json, os, re, subprocess, sys
from pathlib import Path
V = Path(__file__).resolve().parent.parent
REPO = os.environ.get("VERIF_REPO", "/repo")
out = Path(sys.argv[1]) if len(sys.argv) > 1 else V / "seeded" / "MATRIX.md"
props = [json.loads(l)["id"] for l in open(V / "properties.jsonl")]
seeds = sorted(p.name for p in (V / "seeded").iterdir() if (p / "patch.diff").exists())
rows = []
def sh(cmd):
    return subprocess.run(cmd, shell=True, cwd=V, stdout=subprocess.PIPE, stderr=subprocess.STDOUT, text=True)
base = {}
for pid in props:
    r = sh(f"bin/check {pid} --tier quick")
    base[pid] = r.returncode
print("baseline", base, flush=True)
for s in seeds:
    r = sh(f"git -C {REPO} apply {V}/seeded/{s}/patch.diff")
    if r.returncode != 0:
        rows.append((s, {p: "patch-failed" for p in props})); continue
    res = {}
    try:
        # MATRIX_ONLY_OWN=1: only the seed's own property's check (the diagonal of the matrix)
        only_own = os.environ.get("MATRIX_ONLY_OWN") == "1"
        for pid in props:
            if only_own and pid != s[:3]:
                res[pid] = "-"
                continue
            r = sh(f"bin/check {pid} --tier quick")
            tag = str(r.returncode)
            if "no-failing-input-found" in r.stdout: tag += "n"
            if "MACHINERY-ERROR" in r.stdout: tag = "E"
            res[pid] = tag
    finally:
        sh(f"git -C {REPO} checkout -- .")
    rows.append((s, res))
    print(s, res, flush=True)
L = ["# Seeded changes x checks", "",
     "`1` = VIOLATION with a concrete replay, `1n` = VIOLATION … no-failing-input-found, `0` = check passes, `E` = machinery error.",
     f"Baseline (unchanged tree): {'all 0' if all(v == 0 for v in base.values()) else base}", "",
     "| seed | " + " | ".join(props) + " |", "|---|" + "---|" * len(props)]
for s, res in rows:
    own = s[:3]
    L.append(f"| {s} | " + " | ".join(("**" + res[p] + "**") if p == own else res[p] for p in props) + " |")
out.write_text("\n".join(L) + "\n")
print("written", out)
