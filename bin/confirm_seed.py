#!/usr/bin/env python3
"""confirm_seed.py <worktree> <seed-id> <property> <demo-relpath>

Confirms a seeded change delivered in a scratch worktree (change applied, demo present, patch.diff at its root):
  1. with the change: the workspace builds, every pre-existing test passes, the demo FAILS;
  2. without the change (git apply -R): the demo PASSES;
then runs the registered quick check(s) of the property against /repo with the patch applied (and undoes it),
and stores patch, demo and meta.json under /verif/seeded/<seed-id>/.
"""
import json
import os
import re
import shutil
import subprocess
import sys
from pathlib import Path

VERIF = Path(__file__).resolve().parent.parent


def run(cmd, cwd, timeout=3000):
    e = dict(os.environ, CARGO_NET_OFFLINE="true")
    p = subprocess.run(cmd, cwd=cwd, shell=True, stdout=subprocess.PIPE, stderr=subprocess.STDOUT, text=True, timeout=timeout, env=e)
    return p.returncode, p.stdout


def test_summary(txt):
    ok = sum(int(m) for m in re.findall(r"test result: ok\. (\d+) passed", txt))
    failed = sum(int(m) for m in re.findall(r"test result: FAILED\. \d+ passed; (\d+) failed", txt))
    return ok, failed


def main():
    wt, sid, prop, demo = Path(sys.argv[1]), sys.argv[2], sys.argv[3], sys.argv[4]
    checks = sys.argv[5:] or [prop]
    patch = wt / "patch.diff"
    demo_path = wt / demo
    demo_name = demo_path.stem
    crate = demo.split("/")[1]
    pkg = {"filters": "signalo_filters", "sources": "signalo_sources", "sinks": "signalo_sinks", "pipes": "signalo_pipes",
           "traits": "signalo_traits"}[crate]
    meta = {"seed": sid, "property": prop, "demo": demo, "ran": []}
    # 1. with the change: existing suite (demo moved aside), then the demo
    tmp_demo = wt / (demo_name + ".rs.aside")
    shutil.move(demo_path, tmp_demo)
    rc, out = run("cargo test --workspace --offline --no-fail-fast", wt)
    ok, failed = test_summary(out)
    meta["ran"].append({"cmd": "with change: cargo test --workspace --offline --no-fail-fast (demo moved aside)", "rc": rc, "passed": ok, "failed": failed})
    shutil.move(tmp_demo, demo_path)
    suite_ok = rc == 0 and failed == 0 and ok >= 98
    feats = os.environ.get("DEMO_FEATURES", "")
    if feats:
        demo_name = demo_name + " --features " + feats
    rc, out = run(f"cargo test -p {pkg} --offline --test {demo_name}", wt)
    meta["ran"].append({"cmd": f"with change: cargo test -p {pkg} --test {demo_name}", "rc": rc, "summary": test_summary(out)})
    demo_fails = rc != 0
    # 2. without the change
    rc, out = run("git apply -R patch.diff", wt)
    assert rc == 0, out
    rc, out = run(f"cargo test -p {pkg} --offline --test {demo_name}", wt)
    meta["ran"].append({"cmd": f"without change: cargo test -p {pkg} --test {demo_name}", "rc": rc, "summary": test_summary(out)})
    demo_passes = rc == 0
    run("git apply patch.diff", wt)
    meta["confirmed"] = bool(suite_ok and demo_fails and demo_passes)
    meta["existing_suite_passes_with_change"] = suite_ok
    meta["demo_fails_with_change"] = demo_fails
    meta["demo_passes_without_change"] = demo_passes
    # 3. my checks against /repo with the patch applied
    rc, out = run(f"git -C /repo apply {patch}", VERIF)
    assert rc == 0, out
    meta["checks"] = []
    try:
        for c in checks:
            rc, out = run(f"bin/check {c} --tier quick", VERIF)
            lines = [l for l in out.splitlines() if l.startswith(("VIOLATION", "KNOWN-FINDING", c + " quick"))]
            entry = {"check": c, "exit": rc, "output": [l[:300] for l in lines]}
            m = re.search(r"VIOLATION property=\S+ replay=(\S+)", out)
            if m and Path(m.group(1)).exists():
                rp = json.load(open(m.group(1)))
                entry["replay"] = {k: rp.get(k) for k in ("kind", "component", "clause", "ops", "observed", "report", "correspondence", "detail")}
            meta["checks"].append(entry)
    finally:
        run("git -C /repo checkout -- .", VERIF)
    meta["caught_by"] = [c["check"] for c in meta["checks"] if c["exit"] == 1]
    # 4. store
    dst = VERIF / "seeded" / sid
    dst.mkdir(parents=True, exist_ok=True)
    shutil.copy(patch, dst / "patch.diff")
    shutil.copy(demo_path, dst / demo_path.name)
    notes = wt / "NOTES.md"
    if notes.exists():
        shutil.copy(notes, dst / "NOTES.md")
        meta["needs_to_manifest"] = "see NOTES.md"
    (dst / "meta.json").write_text(json.dumps(meta, indent=1))
    print(json.dumps({k: meta[k] for k in ("seed", "confirmed", "caught_by")}, indent=1))
    for c in meta["checks"]:
        print(c["check"], "exit", c["exit"], *c["output"][:2], sep="\n  ")


if __name__ == "__main__":
    main()
