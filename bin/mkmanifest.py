#!/usr/bin/env python3
"""writes MANIFEST.json from bin/props.py (claimed checks) and properties.jsonl (ids)"""
import json, sys
from pathlib import Path
V = Path(__file__).resolve().parent.parent
sys.path.insert(0, str(V / "bin"))
from props import PROPS, CLAIMS, NOT_APPLICABLE
ids = [json.loads(l)["id"] for l in open(V / "properties.jsonl")]
checks = []
for pid in ids:
    if pid not in PROPS or pid not in CLAIMS:
        continue
    c = CLAIMS[pid]
    checks.append({
        "property_id": pid,
        "quick_cmd": f"bin/check {pid} --tier quick",
        "thorough_cmd": f"bin/check {pid} --tier thorough",
        "evidence_file": f"evidence/{pid}.json",
        "replay_cmd_template": f"bin/check {pid} --replay {{path}}",
        "engine": "lean4-proof+correspondence",
        "level_claimed": {"category": "proof", "text": c["text"], "design_ref": c.get("design_ref", f"DESIGN.md §5 {pid}")},
        "level_note": c["note"],
        "technique": c.get("technique", "Lean 4 theorems about an executable model of the code (kernel-checked, axioms audited) + differential correspondence check model vs. real code on every run"),
    })
na = [{"property_id": i, "reason": NOT_APPLICABLE.get(i, "check under construction in this session; will be claimed (see DESIGN.md §5)")}
      for i in ids if i not in {c["property_id"] for c in checks}]
m = {
    "version": 1,
    "setup_cmd": "bin/setup",
    "hooks": {"guard": "--cfg signalo_verif", "enable": "no source hooks are needed: every observation point is public API; the harness links /repo/crates/* by path and rebuilds them from the working tree on every run",
              "baseline_off_cmd": "cd /repo && cargo test --workspace --no-fail-fast --offline", "source_commits": [], "add_only": True},
    "engines": [{"name": "lean4-proof+correspondence", "path": "bin/check", "serves_properties": [c["property_id"] for c in checks],
                 "kind_free_text": "Lean 4.33 models + theorems (lean/SignaloModel), compiled model driver, Rust harness linking the real crates, python orchestrator"}],
    "checks": checks,
    "not_applicable": na,
    "notes": "See DESIGN.md. Known findings: KNOWN_FINDINGS.txt.",
}
(V / "MANIFEST.json").write_text(json.dumps(m, indent=1))
print(f"{len(checks)} checks, {len(na)} not claimed")
