#!/bin/bash
# background job (vp run --with-repo): behaviour-preserving refactorings (harmless/R*) against the checks their scope
# touches, on private copies of /verif and /repo; every line must read `exit=0 0 violation lines`
set -e
export VERIF_REPO="$VP_RUN_REPO"
sed -i "s#/repo/crates#$VP_RUN_REPO/crates#" harness/Cargo.toml
bin/setup
for r in ${HARMLESS:-R10 R12 R14 R15 R17 R19 R20 R22 R23 R24}; do
  git -C "$VP_RUN_REPO" apply "$PWD/harmless/$r/patch.diff" || { echo "$r APPLY-FAILED"; continue; }
  for p in C01 C02 C03 C04 C05 C06 C07 C08 C09 C10 C11 C12 C13 C14 C15 C16 C17 C18 C19 C20; do
    out=$(bin/check $p --tier quick 2>&1) && rc=0 || rc=$?
    echo "$r $p exit=$rc $(echo "$out" | grep -c '^VIOLATION') violation lines; $(echo "$out" | grep '^VIOLATION' | head -1 | cut -c1-120)"
  done
  git -C "$VP_RUN_REPO" checkout -- .
done
echo HARMLESS-JOB-DONE
