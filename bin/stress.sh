#!/bin/bash
# stress.sh "<ids>" "<seeds>" [tier]: the given checks over several generator seeds on the tree as it is; prints what did not exit 0
cd "$(dirname "$0")/.."
tier=${3:-quick}
for s in $2; do
  for p in $1; do
    VERIF_SEED=$s bin/check $p --tier $tier 2>&1 | grep -E "VIOLATION|$tier:|MACHINERY" | grep -v "exit 0" | sed "s/^/seed $s: /" | cut -c1-220
  done
done
echo "stress done"
