//! C01: statically typed pipes whose stages, sink and source are zero-sized types acting on state outside
//! themselves (thread-locals) — the shape a memory-mapped device, a logger or a global counter has. The dynamic
//! trees of other.rs box every operand, so they can never exercise code that treats operands differently by type
//! (size, `Copy`, …); these fixed nestings can. Each variant is described to the model in the same
//! `shape= leaves= sink=|source=` vocabulary as the dynamic pipes, so the driver needs to know nothing about them.
use crate::q::Q;
use crate::val::*;
use signalo_pipes::{pipe::Pipe, unit_pipe::UnitPipe};
use signalo_traits::{Filter, Finalize, Sink, Source};
use std::cell::{Cell, RefCell};
#[allow(unused_imports)]
use std::ops::BitOr;

thread_local! {
    static ZLOG: RefCell<Vec<Vec<Q>>> = RefCell::new(Vec::new());
    static ZSINK: RefCell<Vec<Q>> = RefCell::new(Vec::new());
    static ZSRC: Cell<i64> = Cell::new(0);
}

pub fn reset_world() {
    ZLOG.with(|l| *l.borrow_mut() = vec![Vec::new(), Vec::new(), Vec::new()]);
    ZSINK.with(|s| s.borrow_mut().clear());
    ZSRC.with(|c| c.set(0));
}
pub fn log(stages: usize) -> String {
    ZLOG.with(|l| l.borrow().iter().take(stages).map(|v| render_list(v.iter())).collect::<Vec<_>>().join(" | "))
}

/// `x ↦ A·x + B`, recording every input under stage index `IDX`
#[derive(Clone, Copy, Default)]
pub struct ZAff<const IDX: usize, const A: i64, const B: i64>;
impl<const IDX: usize, const A: i64, const B: i64> Filter<Q> for ZAff<IDX, A, B> {
    type Output = Q;
    fn filter(&mut self, x: Q) -> Q {
        ZLOG.with(|l| l.borrow_mut()[IDX].push(x));
        Q::int(A) * x + Q::int(B)
    }
}
/// collects into the thread-local
#[derive(Clone, Copy, Default)]
pub struct ZCollect;
impl Sink<Q> for ZCollect {
    fn sink(&mut self, x: Q) {
        ZSINK.with(|s| s.borrow_mut().push(x));
    }
}
impl Finalize for ZCollect {
    type Output = String;
    fn finalize(self) -> String {
        ZSINK.with(|s| s.borrow().clone()).r()
    }
}
/// `take(LIMIT, incr(0, 1))` counting in the thread-local
#[derive(Clone, Copy, Default)]
pub struct ZSrc<const LIMIT: i64>;
impl<const LIMIT: i64> Source for ZSrc<LIMIT> {
    type Output = Q;
    fn source(&mut self) -> Option<Q> {
        ZSRC.with(|c| {
            let n = c.get();
            if n < LIMIT {
                c.set(n + 1);
                Some(Q::int(n))
            } else {
                None
            }
        })
    }
}

/// a dual-role last stage, as every accumulating sink of the library is: `Filter` (the running sum), `Sink`, `Finalize`
/// (the sum), acting on the thread-local — the last stage of a `source | … | sink` pipeline that is run by pulling it
#[derive(Clone, Copy, Default)]
pub struct ZSum;
fn zsum_push(x: Q) -> Q {
    ZSINK.with(|s| {
        s.borrow_mut().push(x);
        s.borrow().iter().fold(Q::int(0), |a, b| a + *b)
    })
}
impl Filter<Q> for ZSum {
    type Output = Q;
    fn filter(&mut self, x: Q) -> Q {
        zsum_push(x)
    }
}
impl Sink<Q> for ZSum {
    fn sink(&mut self, x: Q) {
        zsum_push(x);
    }
}
impl Finalize for ZSum {
    type Output = String;
    fn finalize(self) -> String {
        ZSINK.with(|s| s.borrow().iter().fold(Q::int(0), |a, b| a + *b)).r()
    }
}

type Z0 = ZAff<0, -1, 0>;
type Z1 = ZAff<1, 2, 1>;
type Z2 = ZAff<2, 1, 3>;
type S = ZSrc<4>;
pub const LEAVES: [&str; 3] = ["p_affine;a=-1;b=0", "p_affine;a=2;b=1", "p_affine;a=1;b=3"];
pub const SOURCE: &str = "take(4,incr(0,1))";

pub enum ZPipe {
    F1(Pipe<Z0, Z1>),
    F2(Pipe<Pipe<Z0, Z1>, Z2>),
    F3(Pipe<Z0, Pipe<Z1, Z2>>),
    F4(<Pipe<Z0, Z1> as BitOr<Z2>>::Output),
    F5(Pipe<UnitPipe<Z0>, UnitPipe<Z1>>),
    K1(Option<Pipe<Z0, ZCollect>>),
    K2(Option<Pipe<Pipe<Z0, Z1>, ZCollect>>),
    K3(Option<Pipe<Z0, Pipe<Z1, ZCollect>>>),
    K4(Option<Pipe<Z0, UnitPipe<ZCollect>>>),
    #[cfg(feature = "or_sink")]
    K5(Option<<Pipe<Z0, Z1> as BitOr<ZCollect>>::Output>),
    K6(Option<Pipe<UnitPipe<Z0>, Pipe<Z1, Pipe<Z2, ZCollect>>>>),
    S1(Pipe<S, Z0>),
    S2(Pipe<Pipe<S, Z0>, Z1>),
    S3(Pipe<S, Pipe<Z0, Z1>>),
    S4(Pipe<UnitPipe<S>, Z0>),
    /// source first, dual-role sink last: pulled like a source, then finalised
    X1(Option<Pipe<S, ZSum>>),
    X2(Option<Pipe<Pipe<S, Z0>, ZSum>>),
    X3(Option<Pipe<S, Pipe<Z0, ZSum>>>),
    #[cfg(feature = "or_source")]
    S5(<Pipe<S, Z0> as BitOr<Z1>>::Output),
}

/// (name, shape, number of stages, role) — role 'f' filter, 'k' sink-terminated, 's' source-headed
pub fn menu() -> Vec<(&'static str, &'static str, usize, char)> {
    let mut m = vec![
        ("F1", "P(L0,L1)", 2, 'f'),
        ("F2", "P(P(L0,L1),L2)", 3, 'f'),
        ("F3", "P(L0,P(L1,L2))", 3, 'f'),
        ("F4", "O(P(L0,L1),L2)", 3, 'f'),
        ("F5", "P(U(L0),U(L1))", 2, 'f'),
        ("K1", "P(L0,K)", 1, 'k'),
        ("K2", "P(P(L0,L1),K)", 2, 'k'),
        ("K3", "P(L0,P(L1,K))", 2, 'k'),
        ("K4", "P(L0,U(K))", 1, 'k'),
        ("K6", "P(U(L0),P(L1,P(L2,K)))", 3, 'k'),
        ("S1", "P(S,L0)", 1, 's'),
        ("S2", "P(P(S,L0),L1)", 2, 's'),
        ("S3", "P(S,P(L0,L1))", 2, 's'),
        ("S4", "P(U(S),L0)", 1, 's'),
        // the same nestings built with `Default::default()` instead of `Pipe::new` (all stages are zero-sized `Default`s)
        ("F2d", "P(P(L0,L1),L2)", 3, 'f'),
        ("K2d", "P(P(L0,L1),K)", 2, 'k'),
        ("S1d", "P(S,L0)", 1, 's'),
        ("S2d", "P(P(S,L0),L1)", 2, 's'),
        ("S4d", "P(U(S),L0)", 1, 's'),
        ("X2d", "P(P(S,L0),L1)", 2, 'x'),
        ("X1", "P(S,L0)", 1, 'x'),
        ("X2", "P(P(S,L0),L1)", 2, 'x'),
        ("X3", "P(S,P(L0,L1))", 2, 'x'),
    ];
    if cfg!(feature = "or_sink") {
        m.push(("K5", "O(P(L0,L1),K)", 2, 'k'));
    }
    if cfg!(feature = "or_source") {
        m.push(("S5", "O(P(S,L0),L1)", 2, 's'));
    }
    m
}

/// the `new … pipe …` line of a menu entry
pub fn describe(name: &str) -> String {
    let (_, shape, k, role) = *menu().iter().find(|e| e.0 == name).expect("harness: unknown static pipe");
    let leaves = LEAVES[..k].join("|");
    if role == 'x' {
        // the last leaf is the running sum (to the model: an accumulating stage with offset 0)
        let mut l: Vec<&str> = LEAVES[..k - 1].to_vec();
        l.push("p_acc;a=0");
        return format!("pipe shape={} leaves={} source={} static={}", shape, l.join("|"), SOURCE, name);
    }
    match role {
        'f' => format!("pipe shape={} leaves={} static={}", shape, leaves, name),
        'k' => format!("pipe shape={} leaves={} sink=own_collect static={}", shape, leaves, name),
        _ => format!("pipe shape={} leaves={} source={} static={}", shape, leaves, SOURCE, name),
    }
}

pub fn stages(name: &str) -> usize {
    menu().iter().find(|e| e.0 == name).expect("harness: unknown static pipe").2
}

pub fn build(name: &str) -> ZPipe {
    reset_world();
    match name {
        "F1" => ZPipe::F1(Pipe::new(ZAff, ZAff)),
        "F2" => ZPipe::F2(Pipe::new(Pipe::new(ZAff, ZAff), ZAff)),
        "F3" => ZPipe::F3(Pipe::new(ZAff, Pipe::new(ZAff, ZAff))),
        "F4" => ZPipe::F4(Pipe::new(ZAff::<0, -1, 0>, ZAff::<1, 2, 1>) | ZAff::<2, 1, 3>),
        "F5" => ZPipe::F5(Pipe::new(UnitPipe::new(ZAff), UnitPipe::new(ZAff))),
        "K1" => ZPipe::K1(Some(Pipe::new(ZAff, ZCollect))),
        "K2" => ZPipe::K2(Some(Pipe::new(Pipe::new(ZAff, ZAff), ZCollect))),
        "K3" => ZPipe::K3(Some(Pipe::new(ZAff, Pipe::new(ZAff, ZCollect)))),
        "K4" => ZPipe::K4(Some(Pipe::new(ZAff, UnitPipe::new(ZCollect)))),
        #[cfg(feature = "or_sink")]
        "K5" => ZPipe::K5(Some(Pipe::new(ZAff::<0, -1, 0>, ZAff::<1, 2, 1>) | ZCollect)),
        "K6" => ZPipe::K6(Some(Pipe::new(UnitPipe::new(ZAff), Pipe::new(ZAff, Pipe::new(ZAff, ZCollect))))),
        "S1" => ZPipe::S1(Pipe::new(ZSrc, ZAff)),
        "S2" => ZPipe::S2(Pipe::new(Pipe::new(ZSrc, ZAff), ZAff)),
        "S3" => ZPipe::S3(Pipe::new(ZSrc, Pipe::new(ZAff, ZAff))),
        "S4" => ZPipe::S4(Pipe::new(UnitPipe::new(ZSrc), ZAff)),
        "F2d" => ZPipe::F2(Default::default()),
        "K2d" => ZPipe::K2(Some(Default::default())),
        "S1d" => ZPipe::S1(Default::default()),
        "S2d" => ZPipe::S2(Default::default()),
        "S4d" => ZPipe::S4(Default::default()),
        "X2d" => ZPipe::X2(Some(Default::default())),
        "X1" => ZPipe::X1(Some(Pipe::new(ZSrc, ZSum))),
        "X2" => ZPipe::X2(Some(Pipe::new(Pipe::new(ZSrc, ZAff), ZSum))),
        "X3" => ZPipe::X3(Some(Pipe::new(ZSrc, Pipe::new(ZAff, ZSum)))),
        #[cfg(feature = "or_source")]
        "S5" => ZPipe::S5(Pipe::new(ZSrc::<4>, ZAff::<0, -1, 0>) | ZAff::<1, 2, 1>),
        _ => panic!("harness: unknown static pipe"),
    }
}

impl ZPipe {
    pub fn filter(&mut self, x: Q) -> Q {
        match self {
            ZPipe::F1(p) => p.filter(x),
            ZPipe::F2(p) => p.filter(x),
            ZPipe::F3(p) => p.filter(x),
            ZPipe::F4(p) => p.filter(x),
            ZPipe::F5(p) => p.filter(x),
            _ => panic!("harness: pf on a non-filter static pipe"),
        }
    }
    pub fn source(&mut self) -> Option<Q> {
        match self {
            ZPipe::S1(p) => p.source(),
            ZPipe::S2(p) => p.source(),
            ZPipe::S3(p) => p.source(),
            ZPipe::S4(p) => p.source(),
            ZPipe::X1(p) => p.as_mut().unwrap().source(),
            ZPipe::X2(p) => p.as_mut().unwrap().source(),
            ZPipe::X3(p) => p.as_mut().unwrap().source(),
            #[cfg(feature = "or_source")]
            ZPipe::S5(p) => p.source(),
            _ => panic!("harness: ppull on a non-source static pipe"),
        }
    }
    pub fn sink(&mut self, x: Q) {
        match self {
            ZPipe::K1(p) => p.as_mut().unwrap().sink(x),
            ZPipe::K2(p) => p.as_mut().unwrap().sink(x),
            ZPipe::K3(p) => p.as_mut().unwrap().sink(x),
            ZPipe::K4(p) => p.as_mut().unwrap().sink(x),
            #[cfg(feature = "or_sink")]
            ZPipe::K5(p) => p.as_mut().unwrap().sink(x),
            ZPipe::K6(p) => p.as_mut().unwrap().sink(x),
            _ => panic!("harness: psink on a non-sink static pipe"),
        }
    }
    pub fn finalize(&mut self) -> String {
        match self {
            ZPipe::K1(p) => p.take().unwrap().finalize(),
            ZPipe::K2(p) => p.take().unwrap().finalize(),
            ZPipe::K3(p) => p.take().unwrap().finalize(),
            ZPipe::K4(p) => p.take().unwrap().finalize(),
            #[cfg(feature = "or_sink")]
            ZPipe::K5(p) => p.take().unwrap().finalize(),
            ZPipe::K6(p) => p.take().unwrap().finalize(),
            // (method-call syntax on the concrete type, as a user would write it)
            ZPipe::X1(p) => p.take().unwrap().finalize(),
            ZPipe::X2(p) => p.take().unwrap().finalize(),
            ZPipe::X3(p) => p.take().unwrap().finalize(),
            _ => panic!("harness: pfin on a non-sink static pipe"),
        }
    }
}
