//! Exact rationals for the harness: i128 numerator/denominator, always normalised, den > 0.
//! Overflow panics (the harness catches the unwind and discards the case).
use num_traits::{Num, One, Signed, Zero};
use std::cmp::Ordering;
use std::fmt;
use std::ops::{Add, Div, Mul, Neg, Rem, Sub};

#[derive(Clone, Copy, Debug, PartialEq, Eq)]
pub struct Q {
    n: i128,
    d: i128,
}

fn gcd(mut a: i128, mut b: i128) -> i128 {
    a = a.abs();
    b = b.abs();
    while b != 0 {
        let t = a % b;
        a = b;
        b = t;
    }
    a
}

impl Q {
    pub fn new(n: i128, d: i128) -> Self {
        assert!(d != 0, "Q: zero denominator");
        let g = gcd(n, d).max(1);
        let (mut n, mut d) = (n / g, d / g);
        if d < 0 {
            n = n.checked_neg().expect("Q overflow");
            d = d.checked_neg().expect("Q overflow");
        }
        Q { n, d }
    }
    pub fn int(n: i64) -> Self {
        Q { n: n as i128, d: 1 }
    }
}

impl fmt::Display for Q {
    fn fmt(&self, f: &mut fmt::Formatter) -> fmt::Result {
        if self.d == 1 {
            write!(f, "{}", self.n)
        } else {
            write!(f, "{}/{}", self.n, self.d)
        }
    }
}

fn cm(a: i128, b: i128) -> i128 {
    a.checked_mul(b).expect("Q overflow")
}
fn ca(a: i128, b: i128) -> i128 {
    a.checked_add(b).expect("Q overflow")
}

impl Add for Q {
    type Output = Q;
    fn add(self, o: Q) -> Q {
        Q::new(ca(cm(self.n, o.d), cm(o.n, self.d)), cm(self.d, o.d))
    }
}
impl Sub for Q {
    type Output = Q;
    fn sub(self, o: Q) -> Q {
        self + (-o)
    }
}
impl Mul for Q {
    type Output = Q;
    fn mul(self, o: Q) -> Q {
        Q::new(cm(self.n, o.n), cm(self.d, o.d))
    }
}
impl Div for Q {
    type Output = Q;
    fn div(self, o: Q) -> Q {
        assert!(o.n != 0, "Q: division by zero");
        Q::new(cm(self.n, o.d), cm(self.d, o.n))
    }
}
impl Rem for Q {
    type Output = Q;
    fn rem(self, _o: Q) -> Q {
        // exact division: the remainder of a field is zero
        Q::int(0)
    }
}
impl Neg for Q {
    type Output = Q;
    fn neg(self) -> Q {
        Q { n: self.n.checked_neg().expect("Q overflow"), d: self.d }
    }
}
impl Zero for Q {
    fn zero() -> Q {
        Q::int(0)
    }
    fn is_zero(&self) -> bool {
        self.n == 0
    }
}
impl One for Q {
    fn one() -> Q {
        Q::int(1)
    }
}
impl Num for Q {
    type FromStrRadixErr = ();
    fn from_str_radix(_s: &str, _r: u32) -> Result<Q, ()> {
        Err(())
    }
}
impl PartialOrd for Q {
    fn partial_cmp(&self, o: &Q) -> Option<Ordering> {
        Some(cm(self.n, o.d).cmp(&cm(o.n, self.d)))
    }
}
impl Signed for Q {
    fn abs(&self) -> Q {
        Q { n: self.n.abs(), d: self.d }
    }
    fn abs_sub(&self, o: &Q) -> Q {
        if *self <= *o { Q::int(0) } else { *self - *o }
    }
    fn signum(&self) -> Q {
        Q::int(self.n.signum() as i64)
    }
    fn is_positive(&self) -> bool {
        self.n > 0
    }
    fn is_negative(&self) -> bool {
        self.n < 0
    }
}

impl Q {
    pub fn num(&self) -> i128 {
        self.n
    }
    pub fn den(&self) -> i128 {
        self.d
    }
    pub fn is_int(&self) -> bool {
        self.d == 1
    }
    /// exact conversion of a (small) dyadic rational to f64; panics if not representable
    pub fn to_f64_exact(&self) -> f64 {
        let f = (self.n as f64) / (self.d as f64);
        assert!(Q::from_f64_exact(f) == *self, "harness: value not representable as f64");
        f
    }
    pub fn to_i64_exact(&self) -> i64 {
        assert!(self.d == 1, "harness: value is not an integer");
        i64::try_from(self.n).expect("harness: integer out of range")
    }
    /// exact value of a finite f64 (panics on overflow of i128)
    pub fn from_f64_exact(f: f64) -> Q {
        assert!(f.is_finite(), "harness: non-finite float");
        if f == 0.0 {
            return Q::int(0);
        }
        let bits = f.to_bits();
        let sign = if (bits >> 63) != 0 { -1i128 } else { 1i128 };
        let exp = ((bits >> 52) & 0x7ff) as i64;
        let frac = (bits & ((1u64 << 52) - 1)) as i128;
        let (mant, e) = if exp == 0 { (frac, -1074i64) } else { (frac | (1i128 << 52), exp - 1075) };
        if e >= 0 {
            assert!(e < 60, "Q overflow");
            Q::new(sign * mant * (1i128 << e), 1)
        } else {
            // reduce the mantissa by its trailing zeros first
            let tz = mant.trailing_zeros() as i64;
            let shift = (-e).min(tz);
            let mant = mant >> shift;
            let e = -e - shift;
            assert!(e < 120, "Q overflow");
            Q::new(sign * mant, 1i128 << e)
        }
    }
}

impl std::ops::AddAssign for Q {
    fn add_assign(&mut self, o: Q) {
        *self = *self + o;
    }
}
impl std::iter::Sum for Q {
    fn sum<I: Iterator<Item = Q>>(iter: I) -> Q {
        iter.fold(Q::int(0), |a, b| a + b)
    }
}

impl Default for Q {
    fn default() -> Q {
        Q::int(0)
    }
}
