//! Correspondence harness: drives the real signalo crates (linked by path from /repo) with generated
//! operation sequences and writes `<op> => <result>` lines for the Lean model driver.
mod filt;
mod gen;
mod gen2;
mod gen3;
mod interp;
mod other;
mod prng;
mod q;
mod tracked;
mod val;
mod zpipes;

use std::io::Write;

fn arg(args: &[String], name: &str) -> Option<String> {
    args.iter().position(|a| a == name).and_then(|i| args.get(i + 1).cloned())
}

fn main() {
    interp::install_panic_hook();
    interp::start_watchdog();
    let args: Vec<String> = std::env::args().collect();
    let mode = args.get(1).map(|s| s.as_str()).unwrap_or("");
    match mode {
        "gen" => {
            let prop = args.get(2).expect("usage: gen <prop> --tier T --seed N --out FILE");
            let tier = gen::Tier { thorough: arg(&args, "--tier").as_deref() == Some("thorough") };
            let seed: u64 = arg(&args, "--seed").and_then(|s| s.parse().ok()).unwrap_or(0);
            let out = arg(&args, "--out").expect("--out FILE");
            let mut rng = prng::Rng::new(seed);
            // a generator that consults the code under test must survive its misbehaviour; should one not, say so
            let cases = match std::panic::catch_unwind(std::panic::AssertUnwindSafe(|| gen::generate(prop, &mut rng, &tier))) {
                Ok(c) => c,
                Err(_) => {
                    println!("HARNESS-GEN-PANIC {}", interp::last_panic());
                    std::process::exit(5);
                }
            };
            let (text, st) = interp::run_cases_watched(cases, 0);
            let mut f = std::fs::File::create(&out).expect("cannot create output file");
            writeln!(f, "# seed {} tier {} profile {} property {}", seed,
                if tier.thorough { "thorough" } else { "quick" },
                if cfg!(debug_assertions) { "debug" } else { "release" }, prop).unwrap();
            f.write_all(text.as_bytes()).unwrap();
            println!(
                "HARNESS cases={} discarded_overflow={} ops={} panics={}",
                st.cases, st.discarded, st.ops, st.panics
            );
            for m in st.panic_msgs {
                println!("HARNESS-PANIC {}", m);
            }
        }
        "replay" => {
            // re-execute the op lines of a file (anything after " => " is ignored)
            let inp = arg(&args, "--in").expect("--in FILE");
            let out = arg(&args, "--out").expect("--out FILE");
            let text = std::fs::read_to_string(&inp).expect("cannot read input file");
            let mut cases: Vec<Vec<String>> = Vec::new();
            for line in text.lines() {
                let op = line.split(" => ").next().unwrap().trim();
                if op.is_empty() || op.starts_with('#') {
                    continue;
                }
                if op.starts_with("case ") || cases.is_empty() {
                    cases.push(Vec::new());
                    if op.starts_with("case ") {
                        continue;
                    }
                }
                cases.last_mut().unwrap().push(op.to_string());
            }
            let (text, st) = interp::run_cases_watched(cases, 0);
            std::fs::write(&out, text).expect("cannot write output file");
            println!(
                "HARNESS cases={} discarded_overflow={} ops={} panics={}",
                st.cases, st.discarded, st.ops, st.panics
            );
            for m in st.panic_msgs {
                println!("HARNESS-PANIC {}", m);
            }
        }
        _ => {
            eprintln!("usage: harness gen <prop> --tier quick|thorough --seed N --out FILE | replay --in FILE --out FILE");
            std::process::exit(2);
        }
    }
}
