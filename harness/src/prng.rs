//! splitmix64: every random choice of the harness derives from one seed.
#[derive(Clone)]
pub struct Rng(pub u64);

impl Rng {
    pub fn new(seed: u64) -> Self {
        Rng(seed ^ 0x9E37_79B9_7F4A_7C15)
    }
    pub fn next(&mut self) -> u64 {
        self.0 = self.0.wrapping_add(0x9E37_79B9_7F4A_7C15);
        let mut z = self.0;
        z = (z ^ (z >> 30)).wrapping_mul(0xBF58_476D_1CE4_E5B9);
        z = (z ^ (z >> 27)).wrapping_mul(0x94D0_49BB_1331_11EB);
        z ^ (z >> 31)
    }
    /// uniform in `0..n` (n > 0)
    pub fn below(&mut self, n: u64) -> u64 {
        self.next() % n
    }
    /// uniform in `lo..=hi`
    pub fn range(&mut self, lo: i64, hi: i64) -> i64 {
        lo + (self.below((hi - lo + 1) as u64) as i64)
    }
    pub fn chance(&mut self, num: u64, den: u64) -> bool {
        self.below(den) < num
    }
    pub fn pick<'a, T>(&mut self, xs: &'a [T]) -> &'a T {
        &xs[self.below(xs.len() as u64) as usize]
    }
    pub fn fork(&mut self) -> Rng {
        Rng(self.next())
    }
}
