//! Case generators, one per property. A case is a list of op lines run from an empty instance table.
//! Every random choice derives from the seed; sizes depend on the tier.
use crate::interp::Interp;
use crate::prng::Rng;

pub type Case = Vec<String>;

pub struct Tier {
    pub thorough: bool,
}
impl Tier {
    /// `q` in the quick tier, `t` in the thorough tier
    pub fn n(&self, q: usize, t: usize) -> usize {
        if self.thorough { t } else { q }
    }
}

pub const WIDTHS: [usize; 10] = [1, 2, 3, 4, 5, 6, 7, 8, 9, 16];

// ---- values ------------------------------------------------------------------------------

pub fn rat(rng: &mut Rng) -> String {
    let n = rng.range(-20, 20);
    let d = *rng.pick(&[1, 1, 1, 1, 2, 2, 3, 4, 5, 8, 10]);
    crate::q::Q::new(n as i128, d as i128).to_string()
}
pub fn small_rat(rng: &mut Rng, zero_ok: bool) -> String {
    loop {
        let n = rng.range(-3, 3);
        let d = *rng.pick(&[1, 1, 2]);
        if n != 0 || zero_ok {
            return crate::q::Q::new(n as i128, d as i128).to_string();
        }
    }
}
pub fn rat_nonzero(rng: &mut Rng) -> String {
    loop {
        let r = rat(rng);
        if r != "0" {
            return r;
        }
    }
}
pub fn rat_pos(rng: &mut Rng) -> String {
    let n = rng.range(1, 20);
    let d = *rng.pick(&[1, 1, 2, 3, 4, 5, 8, 10]);
    crate::q::Q::new(n as i128, d as i128).to_string()
}
pub fn unit_rat(rng: &mut Rng) -> String {
    // a gain in [0, 1], end points included with noticeable probability
    let d = *rng.pick(&[1, 2, 3, 4, 5, 8, 10]);
    let n = rng.range(0, d);
    crate::q::Q::new(n as i128, d as i128).to_string()
}

/// sequence shapes over integers
pub fn int_seq(rng: &mut Rng, len: usize) -> Vec<i64> {
    match rng.below(7) {
        0 => (0..len).map(|_| rng.range(0, 2)).collect(),                 // heavy ties
        1 => (0..len).map(|_| rng.range(-3, 3)).collect(),                // ties
        2 => (0..len).map(|_| rng.range(-1000, 1000)).collect(),          // wide
        3 => {
            let s = rng.range(-50, 50);
            let d = rng.range(-3, 3);
            (0..len).map(|i| s + d * i as i64).collect()                  // monotone / constant
        }
        4 => (0..len).map(|i| if i % 2 == 0 { rng.range(0, 3) } else { rng.range(5, 9) }).collect(), // alternating
        5 => {
            // plateaus
            let mut v = Vec::new();
            while v.len() < len {
                let x = rng.range(-5, 5);
                for _ in 0..rng.range(1, 4) {
                    v.push(x);
                }
            }
            v.truncate(len);
            v
        }
        _ => {
            // mostly constant with spikes
            let c = rng.range(-5, 5);
            (0..len).map(|_| if rng.chance(1, 5) { rng.range(-100, 100) } else { c }).collect()
        }
    }
}

pub fn rat_seq(rng: &mut Rng, len: usize) -> Vec<String> {
    match rng.below(4) {
        0 => int_seq(rng, len).into_iter().map(|x| x.to_string()).collect(),
        1 => {
            let c = rat_nonzero(rng);
            (0..len).map(|_| c.clone()).collect()
        }
        _ => (0..len).map(|i| if i == 0 { rat_nonzero(rng) } else { rat(rng) }).collect(),
    }
}

pub fn int_seq_in(rng: &mut Rng, lo: i64, hi: i64) -> Vec<i64> {
    let len = rng.range(lo, hi) as usize;
    int_seq(rng, len)
}
pub fn rat_seq_in(rng: &mut Rng, lo: i64, hi: i64) -> Vec<String> {
    let len = rng.range(lo, hi) as usize;
    rat_seq(rng, len)
}

/// all sequences of length `len` over `0..alphabet`
pub fn all_seqs(alphabet: usize, len: usize) -> Vec<Vec<i64>> {
    let mut out = vec![vec![]];
    for _ in 0..len {
        let mut next = Vec::with_capacity(out.len() * alphabet);
        for s in &out {
            for a in 0..alphabet {
                let mut t = s.clone();
                t.push(a as i64);
                next.push(t);
            }
        }
        out = next;
    }
    out
}

fn csv(v: &[String]) -> String {
    if v.is_empty() { "-".to_string() } else { v.join(",") }
}

// ---- the kinds: a random `new` line (without `new <id>`) and a matching random input ----------

#[derive(Clone)]
pub struct KindInst {
    pub params: String,
    pub kind: &'static str,
    pub width: usize,
    /// values that matter to the kind (thresholds, predicate): inputs are drawn near them
    pub pivots: Vec<i64>,
    pub two_inputs: bool,
    pub slope_input: bool,
    /// `Some("f64" | "f32")`: inputs are float bit patterns
    pub float: Option<&'static str>,
}

pub const KINDS: [&str; 29] = [
    "unit",
    "hampel", "sg", "daub_analyze", "daub_synth",
    "median", "mean", "max", "min", "bounds", "convolve", "convolve_norm", "delay", "differentiate",
    "integrate", "kalman", "alphabeta", "ema", "emedian", "meanvar", "emeanvar", "threshold",
    "schmitt", "debounce", "slopes", "peaks", "peaks_slopes", "cache", "cache2",
];

pub fn random_kind(rng: &mut Rng, kind: &'static str) -> KindInst {
    // a harness rebuilt without its optional features (see Cargo.toml) has no unit-system wrappers
    let kind = if kind == "unit" && !cfg!(feature = "units") { "cache" } else { kind };
    let n = *rng.pick(&[1usize, 2, 3, 4, 5]);
    let outs2 = || "out=-7,11".to_string();
    let outs3 = || "out=21,22,23".to_string();
    let mut k = KindInst { params: String::new(), kind, width: n, pivots: vec![], two_inputs: false, slope_input: false, float: None };
    k.params = match kind {
        "median" | "mean" | "max" | "min" | "bounds" | "meanvar" => format!("{} N={}", kind, n),
        "delay" => {
            let n = *rng.pick(&[0usize, 1, 2, 3, 5]);
            k.width = n;
            format!("delay N={}", n)
        }
        "convolve" | "convolve_norm" => {
            let c: Vec<String> = (0..n).map(|_| rat(rng)).collect();
            format!("{} c={}", kind, csv(&c))
        }
        "differentiate" | "integrate" => kind.to_string(),
        "hampel" | "sg" | "daub_analyze" | "daub_synth" => {
            let ty = *rng.pick(&["f64", "f32"]);
            k.float = Some(ty);
            let bits = |x: f64| if ty == "f64" { format!("x{:016x}", x.to_bits()) } else { format!("y{:08x}", (x as f32).to_bits()) };
            match kind {
                "hampel" => format!("hampel N={} thr={} T={}", n, bits(*rng.pick(&[0.0, 0.5, 1.0, 2.0, 3.0])), ty),
                "sg" => {
                    k.width = rng.range(1, 13) as usize;
                    format!("sg W={} T={}", k.width, ty)
                }
                "daub_analyze" => {
                    k.width = 2 * rng.range(1, 10) as usize;
                    format!("daub_analyze O={} T={}", k.width, ty)
                }
                _ => {
                    k.width = 2 * rng.range(1, 10) as usize;
                    k.two_inputs = true;
                    format!("daub_synth O={} T={}", k.width, ty)
                }
            }
        }
        "kalman" => {
            if rng.chance(1, 3) {
                format!("kalman r={} q={} a=1 b=0 c=1", unit_rat(rng), rat_pos(rng))
            } else {
                format!("kalman r={} q={} a={} b={} c={}", rng.range(0, 4), rng.range(1, 4), small_rat(rng, false), small_rat(rng, true), small_rat(rng, false))
            }
        }
        "alphabeta" => format!("alphabeta alpha={} beta={}", rat(rng), rat(rng)),
        "ema" => format!("ema w={}", if rng.chance(3, 4) { unit_rat(rng) } else { rat(rng) }),
        "emedian" => {
            if rng.chance(3, 4) {
                format!("emedian pre={} mid={} post={}", unit_rat(rng), unit_rat(rng), unit_rat(rng))
            } else {
                format!("emedian pre={} mid={} post={}", rat(rng), rat(rng), rat(rng))
            }
        }
        "emeanvar" => format!("emeanvar w={}", unit_rat(rng)),
        "threshold" => {
            let t = rng.range(-3, 3);
            k.pivots = vec![t];
            format!("threshold thr={} {}", t, outs2())
        }
        "schmitt" => {
            let (a, b) = (rng.range(-3, 3), rng.range(-3, 3));
            k.pivots = vec![a, b];
            format!("schmitt low={} high={} {}", a, b, outs2())
        }
        "debounce" => {
            let p = rng.range(0, 1);
            k.pivots = vec![p];
            let thr = if rng.chance(1, 8) { usize::MAX } else { rng.below(6) as usize };
            format!("debounce thr={} pred={} {}", thr, p, outs2())
        }
        "slopes" => format!("slopes {}", outs3()),
        "peaks" => format!("peaks {}", outs3()),
        "peaks_slopes" => {
            k.slope_input = true;
            format!("peaks_slopes {}", outs3())
        }
        "unit" => {
            let inner = *rng.pick(&["median", "mean", "kalman", "schmitt", "ema", "convolve", "delay", "max", "debounce", "integrate"]);
            let i = random_kind(rng, inner);
            k.pivots = i.pivots.clone();
            k.width = i.width;
            // the wrapped Kalman filter is driven through its one-argument form
            format!("unit inner={}", i.params)
        }
        "cache" | "cache2" => {
            let inner = *rng.pick(&["median", "mean", "kalman", "schmitt", "bounds", "ema", "convolve", "meanvar", "debounce"]);
            let inner = if inner == "meanvar" && !cfg!(feature = "cache_any") { "mean" } else { inner };
            let i = random_kind(rng, inner);
            k.pivots = i.pivots.clone();
            k.width = i.width;
            format!("cache inner={}", i.params)
        }
        other => panic!("harness: no generator for kind {}", other),
    };
    k
}

pub fn random_input(rng: &mut Rng, k: &KindInst) -> String {
    if let Some(ty) = k.float {
        let mut one = |rng: &mut Rng| {
            let x = match rng.below(3) {
                0 => rng.range(-24, 24) as f64 / 8.0,
                1 => rng.range(-3, 3) as f64,
                _ => (rng.range(-100_000, 100_000) as f64) / 1000.0,
            };
            if ty == "f64" { format!("x{:016x}", x.to_bits()) } else { format!("y{:08x}", (x as f32).to_bits()) }
        };
        return if k.two_inputs { format!("{} {}", one(rng), one(rng)) } else { one(rng) };
    }
    if k.slope_input {
        return rng.range(0, 2).to_string();
    }
    if k.kind == "debounce" && !k.pivots.is_empty() && rng.chance(2, 3) {
        // (runs of the predicate: the counter is mostly NOT zero when something else happens to the filter)
        return k.pivots[0].to_string();
    }
    if !k.pivots.is_empty() && rng.chance(4, 5) {
        let p = *rng.pick(&k.pivots);
        return (p + rng.range(-1, 1)).to_string();
    }
    if k.kind == "unit" && k.params.contains("inner=kalman") {
        return if rng.chance(1, 2) { rng.range(-9, 9).to_string() } else { small_rat(rng, true) };
    }
    if k.kind == "kalman" {
        let z = if rng.chance(1, 2) { rng.range(-9, 9).to_string() } else { small_rat(rng, true) };
        return if rng.chance(1, 2) { format!("{} {}", z, small_rat(rng, true)) } else { z };
    }
    match rng.below(3) {
        0 => rng.range(-3, 3).to_string(),
        _ => rat(rng),
    }
}

// ---- generators --------------------------------------------------------------------------

fn median_case(n: usize, t: &str, vals: &[String], acc_every: bool) -> Case {
    let mut c = vec![format!("new 1 median N={}{}", n, t)];
    if acc_every {
        c.push("acc 1 min".into());
        c.push("acc 1 med".into());
        c.push("acc 1 max".into());
    }
    for v in vals {
        // "reset": the filter starts over (window empty, accessors report nothing)
        c.push(if v == "reset" { "reset 1".to_string() } else { format!("f 1 {}", v) });
        if acc_every {
            c.push("acc 1 min".into());
            c.push("acc 1 med".into());
            c.push("acc 1 max".into());
        }
    }
    c
}

/// C02 (and C17 with `acc_every`): moving median
pub fn gen_median(rng: &mut Rng, tier: &Tier, acc_every: bool) -> Vec<Case> {
    let mut cases = Vec::new();
    // (a) exhaustive small scope: all sequences over {0,1,2} of length N+3 (prefixes included)
    let (alpha, maxn) = if tier.thorough { (4, 5) } else { (3, if acc_every { 3 } else { 4 }) };
    for n in 1..=maxn {
        let len = if tier.thorough { (n + 3).min(7) } else { n + 3 };
        for s in all_seqs(alpha, len) {
            let vals: Vec<String> = s.iter().map(|x| x.to_string()).collect();
            cases.push(median_case(n, "", &vals, acc_every));
        }
    }
    // (b) random shapes, all instantiated widths
    for &n in WIDTHS.iter() {
        for _ in 0..tier.n(25, 400) {
            let len = rng.range(1, (6 * n as i64).min(60)) as usize;
            let mut vals: Vec<String> = int_seq(rng, len).iter().map(|x| x.to_string()).collect();
            if rng.chance(1, 4) {
                let at = rng.range(0, vals.len() as i64) as usize;
                vals.insert(at, "reset".to_string());
            }
            cases.push(median_case(n, "", &vals, acc_every));
        }
        // (c) partial order: f64 with NaN
        for _ in 0..tier.n(10, 150) {
            let len = rng.range(1, (4 * n as i64).min(40)) as usize;
            let vals: Vec<String> = int_seq(rng, len)
                .iter()
                .map(|x| if rng.chance(1, 5) { "nan".to_string() } else { x.to_string() })
                .collect();
            cases.push(median_case(n, " T=f64", &vals, acc_every));
        }
        // NaN patterns: NaN first, NaN bursts of various lengths during warm-up and in a full window,
        // each followed by enough ordinary samples for the NaNs to leave the window again
        for burst in 1..=n.min(6) {
            for lead in [0usize, 1, 2, n, n + 1] {
                let mut vals: Vec<String> = int_seq(rng, lead).iter().map(|x| x.to_string()).collect();
                vals.extend((0..burst).map(|_| "nan".to_string()));
                vals.extend(int_seq(rng, n + 3).iter().map(|x| x.to_string()));
                cases.push(median_case(n, " T=f64", &vals, acc_every));
            }
        }
    }
    cases.extend(small_int_cases(rng, tier, &["median"]));
    // values equal under `==` and different bit for bit (zeros of either sign at the sample type `fz`): what the filter
    // and its accessors hand out is a member of the CURRENT window, not a value equal to one
    for _ in 0..tier.n(60, 600) {
        let n = *rng.pick(&[1usize, 2, 3, 3, 4, 5]);
        let len = rng.range(n as i64, 3 * n as i64 + 4) as usize;
        let run = rng.chance(1, 2);
        let mut vals: Vec<String> = Vec::new();
        for i in 0..len {
            let v = if run {
                // a block of +0 followed by a block of -0 (period = the width: each arrival equals the sample it evicts)
                if (i / n) % 2 == 0 { "0" } else { "-0" }
            } else {
                *rng.pick(&["0", "-0", "0", "-0", "1", "-1"])
            };
            vals.push(v.to_string());
        }
        cases.push(median_case(n, " T=fz", &vals, acc_every));
    }
    {
        let n = *rng.pick(&[2usize, 3, 4, 5, 8]);
        cases.extend(long_cases(rng, &[format!("median N={}", n)]));
    }
    // a sample type with a niche (`bool`): empty slots must read as empty — before the first sample and all through the
    // warm-up the filter and its accessors know only the samples they were given
    for _ in 0..(if cfg!(feature = "order_only") { tier.n(30, 300) } else { 0 }) {
        let n = *rng.pick(&[1usize, 2, 3, 4, 5]);
        let mut vals: Vec<String> = (0..rng.range(1, 2 * n as i64 + 2)).map(|_| (*rng.pick(&["1", "1", "0"])).to_string()).collect();
        if rng.chance(1, 3) {
            let at = rng.range(0, vals.len() as i64) as usize;
            vals.insert(at, "reset".to_string());
        }
        cases.push(median_case(n, " T=bl", &vals, true));
    }
    // a sample type with drop glue (one that owns something): what the filter and its accessors report does not depend
    // on how the samples are moved in and out of the slots
    for _ in 0..tier.n(40, 400) {
        let n = rng.range(1, 6) as usize;
        let vals: Vec<String> = (0..rng.range(1, 3 * n as i64 + 3)).map(|_| rng.range(-6, 6).to_string()).collect();
        cases.push(median_case(n, " T=tracked", &vals, true));
    }
    // (d) widths beyond the range of a small index type
    for &n in WIDE_WIDTHS.iter() {
        for _ in 0..tier.n(1, 3) {
            let len = n + rng.range(5, 40) as usize;
            let vals: Vec<String> = int_seq(rng, len).iter().map(|x| x.to_string()).collect();
            cases.push(median_case(n, "", &vals, acc_every));
        }
    }
    cases
}

pub const WIDE_WIDTHS: [usize; 4] = [255, 256, 257, 300];

/// filters that select or hand on samples, fed zeros of either sign (sample type `fz`): what comes out is one of the
/// samples that went in, as the value it is
fn signed_zero_cases(rng: &mut Rng, tier: &Tier, kinds: &[&str]) -> Vec<Case> {
    let mut cases = Vec::new();
    for kind in kinds {
        for _ in 0..tier.n(20, 200) {
            let n = *rng.pick(&[1usize, 2, 3, 4]);
            let mut c = vec![format!("new 1 {} N={} T=fz", kind, n)];
            for _ in 0..rng.range(2, 3 * n as i64 + 4) {
                c.push(format!("f 1 {}", rng.pick(&["0", "-0", "0", "-0", "1", "-1", "2"])));
            }
            cases.push(c);
        }
    }
    cases
}

/// more samples through ONE instance than a 16-bit counter can count ("all sequence lengths")
pub const LONG_RUN: usize = 65_536 + 300;

/// one long run per given construction line; the model driver keeps a bounded history for these (`long`)
fn long_cases(rng: &mut Rng, news: &[String]) -> Vec<Case> {
    let mut cases = Vec::new();
    for new in news {
        let mut c = vec![format!("new 1 {}", new), "long 1 1024".to_string()];
        // (a debounce filter with a threshold beyond 65 536 gets one unbroken run of its predicate)
        let constant = new.starts_with("debounce thr=70000");
        for i in 0..(if constant { LONG_RUN + 5000 } else { LONG_RUN }) {
            c.push(format!("f 1 {}", if constant { if i == 0 { 0 } else { 1 } } else { rng.range(-9, 9) }));
        }
        cases.push(c);
    }
    cases
}

/// the order-only filters at `u8` and `i8`, ends of the range included
fn small_int_cases(rng: &mut Rng, tier: &Tier, kinds: &[&str]) -> Vec<Case> {
    let mut cases = Vec::new();
    for (t, vals) in [("u8", [0i64, 1, 2, 127, 128, 254, 255]), ("i8", [-128i64, -127, -1, 0, 1, 126, 127])] {
        for kind in kinds {
            for _ in 0..tier.n(25, 300) {
                let n = *rng.pick(&[1usize, 2, 3, 4, 5]);
                let mut c = vec![format!("new 1 {} N={} T={}", kind, n, t)];
                for _ in 0..rng.range(1, 3 * n as i64 + 3) {
                    c.push(format!("f 1 {}", rng.pick(&vals)));
                    if *kind == "median" && rng.chance(1, 3) {
                        c.push("acc 1 min".into());
                        c.push("acc 1 med".into());
                    }
                }
                cases.push(c);
            }
        }
    }
    cases
}

/// one long run of a windowed filter at each of the wide widths
fn wide_cases(rng: &mut Rng, tier: &Tier, kind: &str, obs: &[&str]) -> Vec<Case> {
    let mut cases = Vec::new();
    for &n in WIDE_WIDTHS.iter() {
        for _ in 0..tier.n(1, 3) {
            let mut c = vec![format!("new 1 {} N={}", kind, n)];
            let len = n + rng.range(5, 40) as usize;
            for x in int_seq(rng, len) {
                c.push(format!("f 1 {}", x));
            }
            for o in obs {
                c.push(format!("guts 1 {}", o));
            }
            cases.push(c);
        }
        // monotone ramps and a triangle wave: the deques of max / min grow to the full width there (a random signal keeps
        // them short), and everything that is done per window position happens at every position
        if kind == "max" || kind == "min" {
            for shape in 0..3 {
                let mut c = vec![format!("new 1 {} N={}", kind, n)];
                for i in 0..(2 * n + 40) as i64 {
                    let x = match shape {
                        0 => -i,
                        1 => i,
                        _ => { let p = (n as i64) + 3; let r = i % (2 * p); if r < p { r } else { 2 * p - r } }
                    };
                    c.push(format!("f 1 {}", x));
                }
                c.push("guts 1 time".into());
                cases.push(c);
            }
        }
    }
    cases
}

/// C03: moving average over exact rationals, guts compared
pub fn gen_mean(rng: &mut Rng, tier: &Tier) -> Vec<Case> {
    let mut cases = Vec::new();
    for &n in WIDTHS.iter() {
        for _ in 0..tier.n(30, 500) {
            let len = rng.range(1, 5 * n as i64 + 2) as usize;
            let mut c = vec![format!("new 1 mean N={}", n)];
            for v in rat_seq(rng, len) {
                c.push(format!("f 1 {}", v));
                if rng.chance(1, 3) {
                    c.push("guts 1 mean".into());
                    c.push("guts 1 taps".into());
                    c.push("guts 1 weight".into());
                }
            }
            if rng.chance(1, 4) {
                // a reset filter is a moving average again: the window starts over
                c.push("reset 1".into());
                let len2 = rng.range(1, 3 * n as i64 + 2) as usize;
                for v in rat_seq(rng, len2) {
                    c.push(format!("f 1 {}", v));
                }
                c.push("guts 1 taps".into());
            }
            cases.push(c);
        }
    }
    // arbitrary (sum, taps, weight) states re-injected through `from_guts`: one step is `sum - evicted + new`, the
    // weight grows until the ring is full - whatever the state says
    for &n in &[1usize, 2, 3, 5] {
        for k in 0..=n {
            for _ in 0..tier.n(3, 30) {
                let taps: Vec<String> = (0..k).map(|_| rat(rng)).collect();
                let mut c = vec![format!(
                    "inject 1 mean N={} taps={} mean={} weight={}{}",
                    n, csv(&taps), opt_rat(rng), rat_nonzero(rng), if rng.chance(1, 3) { " via=statemut" } else { "" }
                )];
                for _ in 0..rng.range(1, n as i64 + 3) {
                    c.push(format!("f 1 {}", rat(rng)));
                    c.push("guts 1 mean".into());
                    c.push("guts 1 weight".into());
                }
                cases.push(c);
            }
        }
    }
    // a ring filled to the brim whose sum and weight are what a history of exactly those taps leaves behind: that IS a
    // reached state, the window-mean clause applies from the first sample on (it pins down the order of the taps too)
    for &n in &[1usize, 2, 3, 5, 8] {
        for _ in 0..tier.n(6, 60) {
            let taps: Vec<i64> = (0..n).map(|_| rng.range(-9, 9)).collect();
            let sum: i64 = taps.iter().sum();
            let ts: Vec<String> = taps.iter().map(|x| x.to_string()).collect();
            let mut c = vec![format!("inject 1 mean N={} taps={} mean={} weight={}", n, csv(&ts), sum, n)];
            for _ in 0..rng.range(1, 2 * n as i64 + 3) {
                c.push(format!("f 1 {}", rat(rng)));
            }
            c.push("guts 1 taps".into());
            cases.push(c);
        }
    }
    // machine integers: the division truncates toward zero (negative sums included)
    for &n in WIDTHS.iter() {
        for _ in 0..tier.n(20, 300) {
            let mut c = vec![format!("new 1 mean N={} T=i64", n)];
            for x in int_seq_in(rng, 1, 4 * n as i64 + 2) {
                c.push(format!("f 1 {}", x));
                if rng.chance(1, 4) {
                    c.push("guts 1 mean".into());
                    c.push("guts 1 weight".into());
                }
            }
            if rng.chance(1, 3) {
                c.push("reset 1".into());
                c.push(format!("f 1 {}", rng.range(-9, 9)));
            }
            cases.push(c);
        }
    }
    cases.extend(wide_cases(rng, tier, "mean", &["mean", "weight"]));
    {
        let n = *rng.pick(&[2usize, 3, 4, 7]);
        cases.extend(long_cases(rng, &[format!("mean N={}", n)]));
    }
    // machine integers whose window sums all fit while larger intermediate sums would not: every sample lies within
    // +-(i64::MAX / N), so any N consecutive samples sum within range (the arithmetic the property prescribes -
    // subtract the evicted sample, then add the new one - never leaves it either); "the sample type's own
    // arithmetic" includes its bounds (debug profile: overflow panics)
    for &n in WIDTHS.iter() {
        for _ in 0..tier.n(10, 100) {
            let bound = i64::MAX / n as i64;
            let mut c = vec![format!("new 1 mean N={} T=i64", n)];
            for _ in 0..rng.range(n as i64 + 1, 3 * n as i64 + 3) {
                let x = match rng.below(4) {
                    0 => bound,
                    1 => bound - rng.range(0, 1000),
                    2 => -(bound - rng.range(0, 1000)),
                    _ => rng.range(-1000, 1000),
                };
                c.push(format!("f 1 {}", x));
            }
            cases.push(c);
        }
    }
    // the smallest machine integers at the widest window their arithmetic can hold (the weight counts up to N = MAX of
    // the type) and at small widths with samples as large as the window sum allows: every sum the property's formula
    // forms — and the weight — is representable, so the mean is owed (no step may need more room than that)
    for (t, n, vals) in [
        ("u8", 255usize, vec![0i64, 1]),
        ("u8", 255, vec![1]),
        ("i8", 127, vec![0, 1]),
        ("i8", 127, vec![-1, 0]),
        ("u8", 3, vec![0, 1, 40, 85]),
        ("i8", 5, vec![-25, -1, 0, 1, 25]),
    ] {
        for _ in 0..tier.n(1, 3) {
            let mut c = vec![format!("new 1 mean N={} T={}", n, t)];
            for _ in 0..(n + rng.range(3, 30) as usize) {
                c.push(format!("f 1 {}", rng.pick(&vals)));
            }
            c.push("guts 1 weight".into());
            cases.push(c);
        }
    }
    // at floats: an infinity or a NaN inside the window makes the window sum — and the mean — an infinity or a NaN, for
    // as long as that sample is among the most recent min(k, N)
    for _ in 0..tier.n(40, 400) {
        let t = *rng.pick(&["f64", "f32"]);
        let n = rng.range(1, 5) as usize;
        let mut c = vec![format!("new 1 mean N={} T={}", n, t)];
        for _ in 0..rng.range(2, 3 * n as i64 + 3) {
            let x = if rng.chance(1, 4) { *rng.pick(&[f64::INFINITY, f64::NEG_INFINITY, f64::NAN]) } else { rng.range(-8, 8) as f64 / 2.0 };
            c.push(format!("f 1 {}", fbits_nan(t, x)));
        }
        cases.push(c);
    }
    // finite memory: two histories that agree on the last N samples continue identically
    for &n in &[1usize, 2, 3, 5] {
        for _ in 0..tier.n(20, 200) {
            let mut c = vec![format!("new 1 mean N={}", n), format!("new 2 mean N={}", n)];
            for v in rat_seq_in(rng, 0, 6) {
                c.push(format!("f 1 {}", v));
            }
            for v in rat_seq_in(rng, 0, 6) {
                c.push(format!("f 2 {}", v));
            }
            let shared = rat_seq_in(rng, n as i64, n as i64 + 4);
            for (i, v) in shared.iter().enumerate() {
                c.push(format!("f 1 {}", v));
                c.push(format!("f 2 {}", v));
                if i + 1 >= n {
                    c.push("same 1 2 C03.finite-memory".into());
                }
            }
            cases.push(c);
        }
    }
    cases
}

/// run one operation of a generator's private instance; `None` if the code under test panicked
pub fn try_exec(it: &mut Interp, line: &str, trace: &mut Vec<String>) -> Option<String> {
    trace.push(line.to_string());
    it.exec(line).ok()
}

pub(crate) fn deque_inject_cases(rng: &mut Rng, tier: &Tier, kind: &str, cases: &mut Vec<Case>) {
    // run the real filter from Default, read its guts, shift all timestamps so that `time` sits at
    // usize::MAX - j, re-inject through FromGuts and continue across the rebase
    for n in 1..=6usize {
        for j in 0..=(n + 2) {
            for _ in 0..tier.n(3, 40) {
                // the generator reads the real filter's state; should the filter misbehave here (panic, nonsense
                // state), the operations so far become a case of their own: the run reports what went wrong
                let mut it = Interp::default();
                let mut trace: Vec<String> = Vec::new();
                let pre = int_seq_in(rng, 0, 2 * n as i64 + 1);
                let mut lines = vec![format!("new 1 {} N={}", kind, n)];
                lines.extend(pre.iter().map(|x| format!("f 1 {}", x)));
                let mut ok = lines.iter().all(|l| try_exec(&mut it, l, &mut trace).is_some());
                let mut time = 0usize;
                let mut taps2: Vec<String> = vec![];
                // mostly the top of the range (the rebase); sometimes a clock about to cross 2^63, 2^32, 2^31 or 2^16 — where a
                // signed or narrowed copy of it would change sign or wrap
                let base: usize = match rng.below(8) {
                    0 => 1usize << 63,
                    1 => 1usize << 32,
                    2 => 1usize << 31,
                    3 => 1usize << 16,
                    _ => usize::MAX,
                };
                let target = base - j;
                if ok {
                    let parsed = (|| -> Option<(usize, Vec<String>)> {
                        let time: usize = try_exec(&mut it, "guts 1 time", &mut trace)?.parse().ok()?;
                        let taps = try_exec(&mut it, "guts 1 taps", &mut trace)?;
                        let shift = target.checked_sub(time)?;
                        let mut v = vec![];
                        if taps != "-" {
                            for t in taps.split_whitespace() {
                                let (val, ts) = t.split_once(':')?;
                                v.push(format!("{}:{}", val, ts.parse::<usize>().ok()?.checked_add(shift)?));
                            }
                        }
                        Some((time, v))
                    })();
                    match parsed {
                        Some((t, v)) => {
                            time = t;
                            taps2 = v;
                        }
                        None => ok = false,
                    }
                }
                let _ = time;
                if !ok {
                    cases.push(trace);
                    continue;
                }
                let hist: Vec<String> = pre.iter().map(|x| x.to_string()).collect();
                let mut c = vec![format!(
                    "inject 1 {} N={} time={} taps={} hist={}{}",
                    kind, n, target, csv(&taps2), csv(&hist), if rng.chance(1, 4) { " via=statemut" } else { "" }
                )];
                for x in int_seq(rng, 3 * n + 3) {
                    c.push(format!("f 1 {}", x));
                    if rng.chance(1, 4) {
                        c.push("guts 1 time".into());
                    }
                }
                cases.push(c);
            }
        }
    }
}

/// C04: moving min / max / bounds, including states near `usize::MAX`
pub fn gen_deque(rng: &mut Rng, tier: &Tier) -> Vec<Case> {
    let mut cases = Vec::new();
    for kind in ["max", "min", "bounds"] {
        for n in 1..=3usize {
            for s in all_seqs(3, n + 3) {
                let mut c = vec![format!("new 1 {} N={}", kind, n)];
                c.extend(s.iter().map(|x| format!("f 1 {}", x)));
                cases.push(c);
            }
        }
        for &n in WIDTHS.iter() {
            for _ in 0..tier.n(20, 300) {
                let len = rng.range(1, (5 * n as i64).min(60)) as usize;
                let mut c = vec![format!("new 1 {} N={}", kind, n)];
                for x in int_seq(rng, len) {
                    c.push(format!("f 1 {}", x));
                    if kind != "bounds" && rng.chance(1, 6) {
                        c.push("guts 1 time".into());
                        c.push("guts 1 taps".into());
                    }
                }
                cases.push(c);
            }
        }
    }
    deque_inject_cases(rng, tier, "max", &mut cases);
    deque_inject_cases(rng, tier, "min", &mut cases);
    cases.extend(small_int_cases(rng, tier, &["max", "min", "bounds"]));
    cases.extend(signed_zero_cases(rng, tier, &["max", "min", "bounds"]));
    {
        let n = *rng.pick(&[1usize, 2, 3, 5]);
        cases.extend(long_cases(rng, &[format!("max N={}", n), format!("min N={}", n), format!("bounds N={}", n)]));
    }
    cases.extend(wide_cases(rng, tier, "max", &["time"]));
    cases.extend(wide_cases(rng, tier, "min", &["time"]));
    cases
}

/// C05 (generic part): convolution with random asymmetric kernels, normalisation, delay
pub fn gen_conv(rng: &mut Rng, tier: &Tier) -> Vec<Case> {
    let mut cases = Vec::new();
    // machine integers: the normalising constructor divides every coefficient by the sum (exactly here: all
    // coefficients are multiples of the sum), the filter is an integer FIR
    for &n in &[1usize, 2, 3, 4, 5] {
        for _ in 0..tier.n(6, 60) {
            let norm = rng.chance(2, 3);
            let c: Vec<i64> = if norm {
                // multiples of a common factor g whose quotients sum to one: the sum is g
                let g = *rng.pick(&[2i64, 3, -2, 5, -7, 10]);
                let mut q: Vec<i64> = (0..n - 1).map(|_| rng.range(-4, 4)).collect();
                let s: i64 = q.iter().sum();
                q.push(1 - s);
                q.iter().map(|x| x * g).collect()
            } else {
                (0..n).map(|_| rng.range(-6, 6)).collect()
            };
            let cs: Vec<String> = c.iter().map(|x| x.to_string()).collect();
            let mut case = vec![
                format!("new 1 {} c={} T=i64", if norm { "convolve_norm" } else { "convolve" }, cs.join(",")),
                "cfg 1".to_string(),
            ];
            let constant = rng.chance(1, 3);
            let v = rng.range(-9, 9);
            for _ in 0..rng.range(1, 2 * n as i64 + 3) {
                case.push(format!("f 1 {}", if constant { v } else { rng.range(-9, 9) }));
            }
            case.push("guts 1 taps".into());
            cases.push(case);
        }
    }
    // tap rings filled by hand to every level 0..N and re-injected through `from_guts` (the public state allows
    // it): the filter tops the ring up with the current sample, then behaves as ever
    for &n in &[1usize, 2, 3, 4, 5] {
        for k in 0..=n {
            for _ in 0..tier.n(2, 20) {
                let taps: Vec<String> = (0..k).map(|_| rat(rng)).collect();
                let first = if rng.chance(1, 2) {
                    let kernel: Vec<String> = (0..n).map(|_| rat(rng)).collect();
                    format!("inject 1 convolve c={} taps={}", kernel.join(","), csv(&taps))
                } else {
                    format!("inject 1 delay N={} taps={}", n, csv(&taps))
                };
                let mut c = vec![first, "guts 1 taps".to_string()];
                for _ in 0..rng.range(1, n as i64 + 3) {
                    c.push(format!("f 1 {}", rat_nonzero(rng)));
                    if rng.chance(1, 2) {
                        c.push("guts 1 taps".into());
                    }
                }
                cases.push(c);
            }
        }
    }
    for &n in WIDTHS.iter() {
        for _ in 0..tier.n(20, 300) {
            let kernel: Vec<String> = (0..n).map(|_| rat(rng)).collect();
            let kind = if rng.chance(1, 2) { "convolve" } else { "convolve_norm" };
            let kernel = if kind == "convolve_norm" && rng.chance(1, 4) && n >= 2 {
                // zero-sum kernel: normalisation must leave it alone
                let mut k: Vec<i64> = (0..n - 1).map(|_| rng.range(-5, 5)).collect();
                let s: i64 = k.iter().sum();
                k.push(-s);
                k.iter().map(|x| x.to_string()).collect()
            } else {
                kernel
            };
            let mut c = vec![format!("new 1 {} c={}", kind, csv(&kernel)), "cfg 1".to_string()];
            for v in rat_seq_in(rng, 1, 3 * n as i64 + 2) {
                c.push(format!("f 1 {}", v));
                if rng.chance(1, 5) {
                    c.push("guts 1 taps".into());
                }
            }
            cases.push(c);
        }
    }
    for &n in &[0usize, 1, 2, 3, 4, 5, 6, 7, 8, 9, 16] {
        for _ in 0..tier.n(15, 200) {
            let mut c = vec![format!("new 1 delay N={}", n)];
            for v in rat_seq_in(rng, 1, 3 * n as i64 + 3) {
                c.push(format!("f 1 {}", v));
            }
            cases.push(c);
        }
    }
    cases.extend(wide_cases(rng, tier, "delay", &[]));
    cases.extend(signed_zero_cases(rng, tier, &["delay"]));
    // normalised float kernels at any absolute scale: small integers times a power of two (exact), the sum non-zero —
    // however tiny in absolute terms, "the coefficient sum is non-zero" and a constant signal comes back
    for t in ["f64", "f32"] {
        let (lo, hi) = if t == "f32" { (-120, 120) } else { (-1000, 1000) };
        for _ in 0..tier.n(25, 250) {
            let n = rng.range(1, 6) as usize;
            let ints: Vec<i64> = loop {
                let v: Vec<i64> = (0..n).map(|_| rng.range(-4, 4)).collect();
                if v.iter().sum::<i64>() != 0 {
                    break v;
                }
            };
            let scale = 2f64.powi(if rng.chance(1, 4) { rng.range(-3, 3) } else { rng.range(lo, hi) } as i32);
            let kernel: Vec<String> = ints.iter().map(|c| fbits(t, *c as f64 * scale)).collect();
            let mut c = vec![format!("new 1 convolve_norm c={} T={}", kernel.join(","), t), "cfg 1".to_string()];
            let x = fbits(t, rng.range(-12, 12) as f64 / 4.0);
            for _ in 0..(n + 2) {
                c.push(format!("f 1 {}", x));
            }
            cases.push(c);
        }
    }
    // kernels with structure: palindromes, a second half that REPEATS the first (not a palindrome), all taps equal,
    // zeros inside — whatever a filter concludes from the shape of its kernel, the output is still the FIR sum
    for _ in 0..tier.n(60, 600) {
        let n = rng.range(2, 9) as usize;
        let half: Vec<i64> = (0..(n + 1) / 2).map(|_| rng.range(-4, 4)).collect();
        let mut k: Vec<i64> = match rng.below(4) {
            0 => { let mut v = half[..n / 2].to_vec(); if n % 2 == 1 { v.push(half[n / 2]); } let mut r = half[..n / 2].to_vec(); r.reverse(); v.extend(r); v }
            1 => { let mut v = half[..n / 2].to_vec(); if n % 2 == 1 { v.push(rng.range(-4, 4)); } v.extend(half[..n / 2].to_vec()); v }
            2 => vec![rng.range(-3, 3); n],
            _ => (0..n).map(|_| if rng.chance(1, 2) { 0 } else { rng.range(-4, 4) }).collect(),
        };
        k.truncate(n);
        let kernel: Vec<String> = k.iter().map(|x| x.to_string()).collect();
        let kind = if rng.chance(1, 4) { "convolve_norm" } else { "convolve" };
        let mut c = vec![format!("new 1 {} c={}", kind, kernel.join(","))];
        for _ in 0..(n + rng.range(2, 8) as usize) {
            c.push(format!("f 1 {}", rng.range(-6, 6)));
        }
        cases.push(c);
    }
    // kernels longer than any small block size (17, 20, 24, 33, 40 taps), plain and normalised
    for &n in &[17usize, 20, 24, 33, 40] {
        for _ in 0..tier.n(2, 12) {
            let kernel: Vec<String> = (0..n).map(|_| rng.range(-5, 5).to_string()).collect();
            let kind = if rng.chance(1, 3) { "convolve_norm" } else { "convolve" };
            let mut c = vec![format!("new 1 {} c={}", kind, kernel.join(","))];
            for _ in 0..(n + rng.range(3, 12) as usize) {
                c.push(format!("f 1 {}", rng.range(-6, 6)));
            }
            c.push("guts 1 taps".into());
            cases.push(c);
        }
    }
    let dn = rng.range(1, 5);
    cases.extend(long_cases(rng, &["convolve c=1,-2,3".to_string(), format!("delay N={}", dn)]));
    cases
}

/// one instance of `kind` fed random inputs, with the kind's guts read along the way
fn single_kind_cases(rng: &mut Rng, kind: &'static str, count: usize, maxlen: i64, guts: &[&str]) -> Vec<Case> {
    let mut cases = Vec::new();
    for _ in 0..count {
        let k = random_kind(rng, kind);
        let mut c = vec![format!("new 1 {}", k.params), "cfg 1".to_string()];
        for _ in 0..rng.range(1, maxlen) {
            if rng.chance(1, 12) {
                // a reset in mid-stream: the recurrences must start over
                c.push("reset 1".into());
            }
            c.push(format!("f 1 {}", random_input(rng, &k)));
            for g in guts {
                if rng.chance(1, 3) {
                    c.push(format!("guts 1 {}", g));
                }
            }
        }
        cases.push(c);
    }
    cases
}

/// arbitrary states re-injected through `from_guts` (the recurrences are one-step statements about any state)
fn injected_cases(rng: &mut Rng, count: usize, first: &dyn Fn(&mut Rng) -> String, two_inputs: bool, guts: &[&str]) -> Vec<Case> {
    let mut cases = Vec::new();
    for _ in 0..count {
        // a third of the hand-built states are written through `StateMut::state_mut` into a freshly constructed filter
        // instead of being passed to `from_guts`
        let via = if rng.chance(1, 3) { " via=statemut" } else { "" };
        let mut c = vec![format!("{}{}", first(rng), via)];
        for g in guts {
            c.push(format!("guts 1 {}", g));
        }
        for _ in 0..rng.range(1, 5) {
            let x = if rng.chance(1, 2) { rng.range(-9, 9).to_string() } else { small_rat(rng, true) };
            if two_inputs && rng.chance(1, 2) {
                c.push(format!("f 1 {} {}", x, small_rat(rng, true)));
            } else {
                c.push(format!("f 1 {}", x));
            }
            for g in guts {
                if rng.chance(1, 2) {
                    c.push(format!("guts 1 {}", g));
                }
            }
        }
        cases.push(c);
    }
    cases
}
fn opt_rat(rng: &mut Rng) -> String {
    if rng.chance(1, 4) { "none".to_string() } else { rat(rng) }
}

/// C06
pub fn gen_kalman(rng: &mut Rng, tier: &Tier) -> Vec<Case> {
    let mut cases = single_kind_cases(rng, "kalman", tier.n(300, 4000), 9, &["cov", "value"]);
    cases.extend(injected_cases(
        rng,
        tier.n(80, 800),
        &|rng| {
            let k = random_kind(rng, "kalman");
            format!("inject 1 {} cov={} value={}", k.params, rat(rng), opt_rat(rng))
        },
        true,
        &["cov", "value"],
    ));
    // plain measurement == measurement paired with a zero control input
    for _ in 0..tier.n(100, 1000) {
        let k = random_kind(rng, "kalman");
        let mut c = vec![format!("new 1 {}", k.params), format!("new 2 {}", k.params)];
        for _ in 0..rng.range(1, 7) {
            let z = rat(rng);
            c.push(format!("f 1 {}", z));
            c.push(format!("f 2 {} 0", z));
            c.push("same 1 2 C06.plain-eq-zero-control".into());
        }
        cases.push(c);
    }
    // the estimate and the covariance ARE the filter's state: a filter that has run for a long time (its covariance at
    // its floating-point fixed point) and then gets the state of another one written over its own — through `state_mut`,
    // or by `clone_from` — continues exactly as that other one does
    for _ in 0..tier.n(8, 60) {
        let t = *rng.pick(&["f64", "f32"]);
        let (r, q, a, cc) = *rng.pick(&[(2.0, 1.0, 1.0, 1.0), (0.5, 3.0, 0.875, -2.0), (0.25, 0.125, -1.5, 0.5), (1.0, 1.0, 1.0, 1.0), (0.0, 1.0, 1.0, 1.0)]);
        let mut c = vec![
            format!("new 1 kalman r={} q={} a={} b={} c={} T={}", fbits(t, r), fbits(t, q), fbits(t, a), fbits(t, 0.0), fbits(t, cc), t),
            "fresh 1 2".to_string(),
        ];
        for _ in 0..rng.range(70, 220) {
            c.push(format!("f 1 {}", fbits(t, rng.range(-16, 16) as f64 / 4.0)));
        }
        for _ in 0..rng.range(0, 3) {
            c.push(format!("f 2 {}", fbits(t, rng.range(-16, 16) as f64 / 4.0)));
        }
        c.push((if rng.chance(3, 4) { "stset 1 2" } else { "clonefrom 1 2" }).to_string());
        for _ in 0..rng.range(2, 6) {
            let x = fbits(t, rng.range(-16, 16) as f64 / 4.0);
            c.push(format!("f 1 {}", x));
            c.push(format!("f 2 {}", x));
            c.push("same 1 2 C06.state-determines-future".into());
        }
        cases.push(c);
    }
    cases
}

/// a first sample that is a value but not a rational: infinities, zeros of either sign, NaN, the ends of the range
fn special_first(rng: &mut Rng, t: &str) -> String {
    let x: f64 = *rng.pick(&[f64::INFINITY, f64::NEG_INFINITY, -0.0, 0.0, f64::NAN, 1.5, -3.0]);
    let edge = rng.chance(1, 4);
    if t == "f64" {
        let v = if edge { *rng.pick(&[f64::MAX, f64::MIN, f64::MIN_POSITIVE, 5e-324]) } else { x };
        format!("x{:016x}", if v.is_nan() { 0x7ff8_0000_0000_0000 } else { v.to_bits() })
    } else {
        let v = if edge { *rng.pick(&[f32::MAX, f32::MIN, f32::MIN_POSITIVE, 1e-45]) } else { x as f32 };
        format!("y{:08x}", if v.is_nan() { 0x7fc0_0000 } else { v.to_bits() })
    }
}
fn fbits_nan(t: &str, x: f64) -> String {
    if x.is_nan() { (if t == "f64" { "x7ff8000000000000" } else { "y7fc00000" }).to_string() } else { fbits(t, x) }
}
fn fbits(t: &str, x: f64) -> String {
    if t == "f64" { format!("x{:016x}", x.to_bits()) } else { format!("y{:08x}", (x as f32).to_bits()) }
}
/// the recursive smoothers / trackers at a float type: the first sample — after construction and after a reset — comes
/// back as the value it is
fn float_first_cases(rng: &mut Rng, n: usize, kinds: &[&str]) -> Vec<Case> {
    let mut cases = Vec::new();
    for _ in 0..n {
        let t = *rng.pick(&["f64", "f32"]);
        let g = |rng: &mut Rng| fbits(t, *rng.pick(&[0.0, 0.25, 0.5, 1.0, 0.75]));
        let new = match *rng.pick(kinds) {
            "ema" => format!("new 1 ema w={} T={}", g(rng), t),
            "emedian" => format!("new 1 emedian pre={} mid={} post={} T={}", g(rng), g(rng), g(rng), t),
            _ => format!("new 1 alphabeta alpha={} beta={} T={}", g(rng), g(rng), t),
        };
        let mut c = vec![new];
        if rng.chance(1, 3) {
            // a constant signal, at any magnitude the type can hold, is reproduced exactly
            let big = if t == "f64" { f64::MAX } else { f32::MAX as f64 };
            let x = *rng.pick(&[big, -big, big / 2.0, big / 2.0 * 1.5, -big / 4.0 * 3.0, 1.0, -3.5, 1e-30]);
            for _ in 0..rng.range(2, 5) {
                c.push(format!("f 1 {}", fbits(t, x)));
            }
        } else {
            c.push(format!("f 1 {}", special_first(rng, t)));
            for _ in 0..rng.range(0, 3) {
                c.push(format!("f 1 {}", fbits(t, rng.range(-8, 8) as f64 / 4.0)));
            }
        }
        if rng.chance(1, 2) {
            c.push("reset 1".into());
            c.push(format!("f 1 {}", special_first(rng, t)));
        }
        cases.push(c);
    }
    cases
}

/// C13
pub fn gen_smooth(rng: &mut Rng, tier: &Tier) -> Vec<Case> {
    let mut cases = single_kind_cases(rng, "ema", tier.n(300, 3000), 10, &["mean"]);
    cases.extend(injected_cases(
        rng,
        tier.n(60, 600),
        &|rng| {
            let k = random_kind(rng, "ema");
            format!("inject 1 {} mean={}", k.params, opt_rat(rng))
        },
        false,
        &["mean"],
    ));
    cases.extend(single_kind_cases(rng, "emedian", tier.n(300, 3000), 8, &["median"]));
    cases.extend(injected_cases(
        rng,
        tier.n(60, 600),
        &|rng| {
            let k = random_kind(rng, "emedian");
            format!("inject 1 {} spre={} spost={} median={}", k.params, opt_rat(rng), opt_rat(rng), opt_rat(rng))
        },
        false,
        &["median"],
    ));
    // constant signals are reproduced exactly
    for kind in ["ema", "emedian"] {
        for _ in 0..tier.n(50, 500) {
            let k = random_kind(rng, kind);
            let v = rat_nonzero(rng);
            let mut c = vec![format!("new 1 {}", k.params)];
            for _ in 0..rng.range(1, 6) {
                c.push(format!("f 1 {}", v));
            }
            cases.push(c);
        }
    }
    cases.extend(float_first_cases(rng, tier.n(60, 600), &["ema", "emedian"]));
    cases
}

/// C14
pub fn gen_alphabeta(rng: &mut Rng, tier: &Tier) -> Vec<Case> {
    let mut cases = single_kind_cases(rng, "alphabeta", tier.n(400, 4000), 10, &["velocity", "value"]);
    cases.extend(injected_cases(
        rng,
        tier.n(80, 800),
        &|rng| {
            let k = random_kind(rng, "alphabeta");
            format!("inject 1 {} velocity={} value={}", k.params, rat(rng), opt_rat(rng))
        },
        false,
        &["velocity", "value"],
    ));
    for _ in 0..tier.n(100, 1000) {
        let k = random_kind(rng, "alphabeta");
        let v = rat_nonzero(rng);
        let mut c = vec![format!("new 1 {}", k.params)];
        for _ in 0..rng.range(1, 7) {
            c.push(format!("f 1 {}", v));
        }
        cases.push(c);
    }
    // samples that hit the filter's own prediction exactly (zero residual) while the velocity is non-zero, mixed
    // with ordinary samples; locked trackers (alpha = beta = 1) on ramps; dyadic gains
    use crate::q::Q;
    for _ in 0..tier.n(150, 1500) {
        let (a, b) = match rng.below(3) {
            0 => (Q::int(1), Q::int(1)),
            1 => (Q::new(1, 2), *rng.pick(&[Q::new(1, 2), Q::new(1, 8), Q::int(1)])),
            _ => (Q::new(rng.range(-8, 8) as i128, 4), Q::new(rng.range(-8, 8) as i128, 8)),
        };
        let mut c = vec![format!("new 1 alphabeta alpha={} beta={}", a, b)];
        let mut st: Option<(Q, Q)> = None; // (position, velocity) of the textbook recurrence
        for _ in 0..rng.range(3, 10) {
            let x = match st {
                Some((p, v)) if rng.chance(1, 2) => p + v,
                _ => Q::int(rng.range(-6, 6)),
            };
            st = Some(match st {
                None => (x, Q::int(0)),
                Some((p, v)) => {
                    let pred = p + v;
                    let r = x - pred;
                    (pred + a * r, v + b * r)
                }
            });
            c.push(format!("f 1 {}", x));
        }
        c.push("guts 1 velocity".into());
        cases.push(c);
    }
    cases.extend(float_first_cases(rng, tier.n(40, 400), &["alphabeta"]));
    cases
}

/// C15
pub fn gen_diffint(rng: &mut Rng, tier: &Tier) -> Vec<Case> {
    let mut cases = Vec::new();
    for _ in 0..tier.n(300, 3000) {
        let vals = rat_seq_in(rng, 1, 10);
        // alone, and both compositions by feeding one instance's output to the other
        let mut it = Interp::default();
        it.exec("new 1 differentiate").unwrap();
        it.exec("new 2 integrate").unwrap();
        let mut c = vec![
            "new 1 differentiate".to_string(),
            "new 2 integrate".to_string(),
            "new 3 integrate".to_string(),
            "new 4 differentiate".to_string(),
        ];
        let mut overflow = false;
        for v in &vals {
            let (d, i) = match (it.exec(&format!("f 1 {}", v)), it.exec(&format!("f 2 {}", v))) {
                (Ok(d), Ok(i)) => (d, i),
                _ => {
                    overflow = true;
                    break;
                }
            };
            c.push(format!("f 1 {}", v));
            c.push(format!("f 2 {}", v));
            c.push(format!("f 3 {}", d)); // integrate(differentiate(x))
            c.push(format!("f 4 {}", i)); // differentiate(integrate(x))
        }
        if !overflow {
            c.push(format!("compose int-diff 3 x0={} xn={}", vals[0], vals[vals.len() - 1]));
            c.push(format!("compose diff-int 4 n={} xn={}", vals.len(), vals[vals.len() - 1]));
            cases.push(c);
        }
    }
    cases.extend(injected_cases(rng, tier.n(30, 300), &|rng| format!("inject 1 integrate value={}", rat(rng)), false, &["value"]));
    cases.extend(injected_cases(rng, tier.n(30, 300), &|rng| format!("inject 1 differentiate value={}", opt_rat(rng)), false, &["value"]));
    // a partially ordered / non-finite sample type: f64 with NaN among small integers (exact in f64). The first
    // output of the differentiator is zero whatever the first sample is
    for _ in 0..tier.n(60, 600) {
        let mut c = vec!["new 1 differentiate T=f64".to_string(), "new 2 integrate T=f64".to_string()];
        for i in 0..rng.range(1, 8) {
            let v = if rng.chance(1, 4) || (i == 0 && rng.chance(1, 2)) { "nan".to_string() } else { rng.range(-9, 9).to_string() };
            c.push(format!("f 1 {}", v));
            c.push(format!("f 2 {}", v));
            if rng.chance(1, 6) {
                c.push("reset 1".into());
                c.push("reset 2".into());
            }
        }
        cases.push(c);
    }
    // after a reset the first difference / the running sum start over
    for _ in 0..tier.n(60, 600) {
        let mut c = vec!["new 1 differentiate".to_string(), "new 2 integrate".to_string()];
        for round in 0..rng.range(2, 3) {
            if round > 0 {
                c.push("reset 1".into());
                c.push("reset 2".into());
            }
            for v in rat_seq_in(rng, 1, 5) {
                c.push(format!("f 1 {}", v));
                c.push(format!("f 2 {}", v));
            }
        }
        cases.push(c);
    }
    cases.extend(long_cases(rng, &["integrate".to_string(), "differentiate".to_string()]));
    // machine integers: unsigned types (no negation, nothing below zero) and the signed minimum (no negative) — every
    // running sum / every difference the property names is representable, so it is owed; no step may need more room
    for _ in 0..tier.n(30, 300) {
        let (t, vals): (&str, Vec<i64>) = match rng.below(4) {
            0 => ("u8", vec![0, 1, 2, 7, 40, 100]),
            1 => ("i8", vec![-128, -100, -3, 0, 1, 5, 60, 127]),
            2 => ("i64", vec![i64::MIN, i64::MIN + 7, -5, 0, 3, 1 << 40, i64::MAX]),
            _ => ("u8", vec![0, 255, 1, 254]),
        };
        let (lo, hi): (i128, i128) = match t { "u8" => (0, 255), "i8" => (-128, 127), _ => (i64::MIN as i128, i64::MAX as i128) };
        let integ = rng.chance(2, 3);
        let mut c = vec![format!("new 1 {} T={}", if integ { "integrate" } else { "differentiate" }, t)];
        let mut sum: i128 = 0;
        let mut prev: Option<i128> = None;
        for _ in 0..rng.range(1, 9) {
            let x = *rng.pick(&vals) as i128;
            let fits = if integ { sum + x >= lo && sum + x <= hi } else { prev.map_or(true, |p| x - p >= lo && x - p <= hi) };
            if !fits {
                continue;
            }
            sum += x;
            prev = Some(x);
            c.push(format!("f 1 {}", x));
        }
        if c.len() > 1 {
            cases.push(c);
        }
    }
    // zeros of either sign next to each other (their difference and their sum are zeros too, of a sign the operands
    // determine): every sequence over {+0, -0, 1, -1} of length 3 (thorough: 4)
    for kind in ["differentiate_b", "integrate_b"] {
        for s in all_seqs(4, if tier.thorough { 4 } else { 3 }) {
            let mut c = vec![format!("new 1 {} T=f32", kind)];
            for i in s {
                let x: f32 = [0.0f32, -0.0, 1.0, -1.0][i as usize];
                c.push(format!("f 1 y{:08x}", x.to_bits()));
            }
            cases.push(c);
        }
    }
    // at f32 on the bit-pattern protocol: infinities, NaN, jumps larger than the mantissa — each output is ONE operation
    // of the type's own arithmetic on the inputs, so it is compared bit for bit
    for _ in 0..tier.n(80, 800) {
        let kind = if rng.chance(1, 2) { "differentiate_b" } else { "integrate_b" };
        let mut c = vec![format!("new 1 {} T=f32", kind)];
        for _ in 0..rng.range(2, 9) {
            let x: f32 = match rng.below(9) {
                0 => f32::INFINITY,
                1 => f32::NEG_INFINITY,
                2 => f32::NAN,
                3 => (1u64 << 30) as f32,
                4 => -0.0,
                5 => 1e-30,
                _ => rng.range(-12, 12) as f32,
            };
            c.push(format!("f 1 y{:08x}", if x.is_nan() { 0x7fc0_0000 } else { x.to_bits() }));
            if rng.chance(1, 6) {
                c.push((*rng.pick(&["reset 1", "clone 1 1", "gutsrt 1 1"])).to_string());
            }
        }
        cases.push(c);
    }
    cases
}

/// C16
pub fn gen_meanvar(rng: &mut Rng, tier: &Tier) -> Vec<Case> {
    let mut cases = Vec::new();
    for (kind, reps) in [("meanvar", tier.n(250, 3000)), ("emeanvar", tier.n(250, 3000))] {
        for _ in 0..reps {
            let k = random_kind(rng, kind);
            let vals = rat_seq_in(rng, 1, 3 * k.width as i64 + 3);
            let offset = rng.range(-100, 100);
            let mean_kind = if kind == "meanvar" { format!("mean N={}", k.width) } else { format!("ema {}", &k.params["emeanvar ".len()..]) };
            let mut c = vec![format!("new 1 {}", k.params), format!("new 2 {}", k.params), format!("new 3 {}", mean_kind)];
            for v in &vals {
                let shifted = (crate::val::parse_val(v), offset);
                let sv = match shifted.0 {
                    crate::val::Val::Q(q) => (q + crate::q::Q::int(offset)).to_string(),
                    _ => unreachable!(),
                };
                c.push(format!("f 1 {}", v));
                c.push(format!("f 2 {}", sv));
                c.push(format!("f 3 {}", v));
                c.push("same 1 2 C16.offset-invariant 1".into());
                c.push("same 1 3 C16.mean-eq-mean-filter 0".into());
            }
            cases.push(c);
        }
    }
    // at floats, next to the exponential mean filter of the same gain: the mean output is that filter's output, value for
    // value — for a first sample that is an infinity, a NaN or a zero of either sign too (after construction, after a reset)
    for _ in 0..tier.n(40, 400) {
        let t = *rng.pick(&["f64", "f32"]);
        let w = fbits(t, *rng.pick(&[0.125, 0.25, 0.5, 0.75, 1.0]));
        let mut c = vec![format!("new 1 emeanvar w={} T={}", w, t), format!("new 3 ema w={} T={}", w, t)];
        for round in 0..rng.range(1, 2) {
            if round > 0 {
                c.push("reset 1".into());
                c.push("reset 3".into());
            }
            let mut xs = vec![special_first(rng, t)];
            for _ in 0..rng.range(0, 3) {
                xs.push(fbits(t, rng.range(-8, 8) as f64 / 4.0));
            }
            for x in xs {
                c.push(format!("f 1 {}", x));
                c.push(format!("f 3 {}", x));
                c.push("same 1 3 C16.mean-eq-mean-filter 0".into());
            }
        }
        cases.push(c);
    }
    cases.extend(long_cases(rng, &["meanvar N=3".to_string()]));
    {
        // … and one long run next to the real mean filter of the same width, compared sample by sample
        let n = *rng.pick(&[3usize, 5, 6]);
        let mut c = vec![format!("new 1 meanvar N={}", n), format!("new 3 mean N={}", n), "long 1 1024".to_string(), "long 3 1024".to_string()];
        for _ in 0..LONG_RUN {
            let x = rng.range(-9, 9);
            c.push(format!("f 1 {}", x));
            c.push(format!("f 3 {}", x));
            c.push("same 1 3 C16.mean-eq-mean-filter 0".into());
        }
        cases.push(c);
    }
    // the exponential mean-variance filter holds two exponential means of its own; hand-built (the state is public),
    // they may carry a width that differs from the filter's configuration. Its mean output is then what THAT inner mean
    // filter emits — compared with a real exponential mean of the same width and state fed the same samples
    for _ in 0..tier.n(40, 400) {
        let (w, mw, vw) = (unit_rat(rng), unit_rat(rng), unit_rat(rng));
        let m = opt_rat(rng);
        let via = |rng: &mut Rng| if rng.chance(1, 3) { " via=statemut" } else { "" };
        let mut c = vec![
            format!("inject 1 emeanvar w={} mw={} vw={} mean={} var={}{}", w, mw, vw, m, opt_rat(rng), via(rng)),
            format!("inject 3 ema w={} mean={}{}", mw, m, via(rng)),
        ];
        for _ in 0..rng.range(2, 7) {
            let x = rat(rng);
            c.push(format!("f 1 {}", x));
            c.push(format!("f 3 {}", x));
            c.push("same 1 3 C16.mean-eq-mean-filter 0".into());
        }
        cases.push(c);
    }
    cases
}

/// C08
pub fn gen_classify8(rng: &mut Rng, tier: &Tier) -> Vec<Case> {
    let mut cases = Vec::new();
    for kind in ["threshold", "schmitt", "debounce"] {
        cases.extend(single_kind_cases(rng, kind, tier.n(300, 3000), 14, if kind == "schmitt" { &["on"] } else if kind == "debounce" { &["count"] } else { &[] }));
    }
    // partial order: NaN samples
    for kind in ["threshold", "schmitt"] {
        for _ in 0..tier.n(100, 1000) {
            let k = random_kind(rng, kind);
            let mut c = vec![format!("new 1 {} T=f64", k.params)];
            for _ in 0..rng.range(1, 12) {
                let p = *rng.pick(&k.pivots);
                c.push(if rng.chance(1, 4) { "f 1 nan".to_string() } else { format!("f 1 {}", p + rng.range(-1, 1)) });
            }
            cases.push(c);
        }
    }
    // run counter (and threshold) next to the powers of two a narrower integer would wrap at
    for base in [1usize << 32, 1usize << 31, 1usize << 16, 1usize << 8, 1usize << 63] {
        for j in 0..=3usize {
            for _ in 0..tier.n(4, 40) {
                let p = rng.range(0, 1);
                let thr = *rng.pick(&[1usize, 3, 5, base - 1, base, base + 5, base + (base >> 1)]);
                let mut c = vec![format!("inject 1 debounce thr={} pred={} out=-7,11 count={}", thr, p, base - j)];
                for _ in 0..rng.range(2, 9) {
                    c.push(format!("f 1 {}", if rng.chance(7, 8) { p } else { 1 - p }));
                    c.push("guts 1 count".into());
                }
                cases.push(c);
            }
        }
    }
    // run counter injected near usize::MAX
    for j in 0..=3usize {
        for _ in 0..tier.n(20, 200) {
            let p = rng.range(0, 1);
            let thr = *rng.pick(&[0usize, 1, 3, usize::MAX - 1, usize::MAX]);
            let mut c = vec![format!("inject 1 debounce thr={} pred={} out=-7,11 count={}", thr, p, usize::MAX - j)];
            for _ in 0..rng.range(1, 8) {
                c.push(format!("f 1 {}", if rng.chance(5, 6) { p } else { 1 - p }));
                c.push("guts 1 count".into());
            }
            cases.push(c);
        }
    }
    cases.extend(long_cases(rng, &["threshold thr=1 out=-7,11".to_string(), "schmitt low=-2 high=3 out=-7,11".to_string(), "debounce thr=3 pred=1 out=-7,11".to_string(), "debounce thr=70000 pred=1 out=-7,11".to_string()]));
    cases
}

/// C09
pub fn gen_classify9(rng: &mut Rng, tier: &Tier) -> Vec<Case> {
    let mut cases = Vec::new();
    // all order patterns: every sequence over {0,1,2} of length 6
    for s in all_seqs(3, if tier.thorough { 7 } else { 5 }) {
        let mut it = Interp::default();
        let mut trace = Vec::new();
        let _ = try_exec(&mut it, "new 9 slopes out=0,1,2", &mut trace);
        let mut c = vec![
            "new 1 slopes out=21,22,23".to_string(),
            "new 2 peaks out=21,22,23".to_string(),
            "new 3 peaks_slopes out=21,22,23".to_string(),
        ];
        for x in &s {
            // the slope code fed to the slope-driven instance is what the real slope filter says; if that filter
            // panics or answers outside {0,1,2}, the value-driven instances still run (and report it)
            let code = match try_exec(&mut it, &format!("f 9 {}", x), &mut trace) {
                Some(code) if ["0", "1", "2"].contains(&code.as_str()) => code,
                _ => "1".to_string(),
            };
            c.push(format!("f 1 {}", x));
            c.push(format!("f 2 {}", x));
            c.push(format!("f 3 {}", code));
            c.push("same 2 3 C09.value-eq-slope-path".into());
        }
        cases.push(c);
    }
    for _ in 0..tier.n(150, 2000) {
        let len = rng.range(1, 14) as usize;
        let nan = rng.chance(1, 2);
        let t = if nan { " T=f64" } else { "" };
        let mut c = vec![format!("new 1 slopes out=21,22,23{}", t), format!("new 2 peaks out=21,22,23{}", t)];
        for x in int_seq(rng, len) {
            let v = if nan && rng.chance(1, 5) { "nan".to_string() } else { x.to_string() };
            c.push(format!("f 1 {}", v));
            c.push(format!("f 2 {}", v));
        }
        cases.push(c);
    }
    cases.extend(long_cases(rng, &["slopes out=21,22,23".to_string(), "peaks out=21,22,23".to_string()]));
    // the slope-driven peak detector on ANY slope sequence ("and all slope sequences"), not only those a slope filter
    // produces from the start of a signal (whose first slope is always flat): exhaustively up to length 4, then random
    let mut slope_seqs: Vec<Vec<i64>> = Vec::new();
    for len in 1..=4 {
        slope_seqs.extend(all_seqs(3, len));
    }
    for _ in 0..tier.n(40, 400) {
        slope_seqs.push((0..rng.range(5, 12)).map(|_| rng.below(3) as i64).collect());
    }
    for s in slope_seqs {
        let mut c = vec!["new 1 peaks_slopes out=21,22,23".to_string()];
        for (i, code) in s.iter().enumerate() {
            c.push(format!("f 1 {}", code));
            if i == 1 && rng.chance(1, 6) {
                c.push("reset 1".into());
            }
        }
        cases.push(c);
    }
    // the smallest machine integers, ends of the range included: rising / falling is a matter of ORDER — an unsigned type
    // has nothing below zero, and the step from one end of a signed type to the other does not fit the type
    for (t, vals) in [("u8", [0i64, 1, 2, 127, 128, 254, 255]), ("i8", [-128i64, -127, -1, 0, 1, 126, 127])] {
        for kind in ["slopes", "peaks"] {
            for _ in 0..tier.n(25, 250) {
                let mut c = vec![format!("new 1 {} out=21,22,23 T={}", kind, t)];
                for _ in 0..rng.range(2, 9) {
                    c.push(format!("f 1 {}", rng.pick(&vals)));
                }
                cases.push(c);
            }
        }
    }
    // hand-assembled states of the detectors (their state is public): a stream handed over mid-way — from samples to
    // slopes, from one detector to another. The "previous slope" of a peak detector is what its state says it is; the
    // nested slope filter's memory is given either the same value or another one (the slope-driven path does not read it)
    for _ in 0..tier.n(80, 800) {
        let opt_code = |rng: &mut Rng| (*rng.pick(&["none", "0", "1", "2"])).to_string();
        let via = if rng.chance(1, 3) { " via=statemut" } else { "" };
        let mut c = Vec::new();
        match rng.below(3) {
            0 => {
                let prev = opt_code(rng);
                let mem = if rng.chance(1, 2) { prev.clone() } else { opt_code(rng) };
                c.push(format!("inject 1 peaks_slopes out=21,22,23 prev={} mem={}{}", prev, mem, via));
                for _ in 0..rng.range(1, 5) {
                    c.push(format!("f 1 {}", rng.below(3)));
                }
            }
            1 => {
                c.push(format!("inject 1 peaks out=21,22,23 prev={} slope={}{}", opt_rat(rng), opt_code(rng), via));
                for x in rat_seq_in(rng, 1, 5) {
                    c.push(format!("f 1 {}", x));
                }
            }
            _ => {
                c.push(format!("inject 1 slopes out=21,22,23 input={}{}", opt_rat(rng), via));
                for x in rat_seq_in(rng, 1, 4) {
                    c.push(format!("f 1 {}", x));
                }
            }
        }
        cases.push(c);
    }
    // composite-like samples (`3~`: what `(3.0, NaN)` is among lexicographically compared tuples — unequal even to itself,
    // yet greater / smaller than other values): still rising / falling against a different predecessor, flat otherwise
    for _ in 0..(if cfg!(feature = "order_only") { tier.n(80, 800) } else { 0 }) {
        let mut c = vec!["new 1 slopes out=21,22,23 T=sn".to_string(), "new 2 peaks out=21,22,23 T=sn".to_string()];
        let len = rng.range(2, 12) as usize;
        for x in int_seq(rng, len) {
            let v = if rng.chance(1, 3) { format!("{}~", x) } else { x.to_string() };
            c.push(format!("f 1 {}", v));
            c.push(format!("f 2 {}", v));
        }
        cases.push(c);
    }
    cases
}

/// C12: reset == freshly constructed, configuration unchanged
pub fn gen_reset(rng: &mut Rng, tier: &Tier) -> Vec<Case> {
    let mut cases = Vec::new();
    for kind in KINDS.iter() {
        for _ in 0..tier.n(25, 300) {
            let k = random_kind(rng, kind);
            let mut c = vec![format!("new 1 {}", k.params), "cfg 1".to_string()];
            let pre = rng.range(0, 3 * k.width as i64 + 4);
            for _ in 0..pre {
                c.push(format!("f 1 {}", random_input(rng, &k)));
            }
            c.push("reset 1".into());
            c.push("cfg 1".into());
            c.push("fresh 1 2".into());
            for _ in 0..rng.range(1, 2 * k.width as i64 + 4) {
                let x = random_input(rng, &k);
                c.push(format!("f 1 {}", x));
                c.push(format!("f 2 {}", x));
                c.push("same 1 2 C12.reset-eq-fresh".into());
                if rng.chance(1, 8) {
                    c.push("reset 1".into());
                    c.push("reset 2".into());
                }
            }
            if kind.starts_with("cache") {
                c.push("reset 1".into());
                c.push("acc 1 cached".into());
            }
            cases.push(c);
        }
        // a reset after EVERY prefix of one history: instance 2 is a copy reset at that point, instance 3 is fresh;
        // both get the next two samples of the history
        for _ in 0..tier.n(8, 80) {
            let k = random_kind(rng, kind);
            let mut c = vec![format!("new 1 {}", k.params)];
            let xs: Vec<String> = (0..rng.range(3, 2 * k.width as i64 + 7)).map(|_| random_input(rng, &k)).collect();
            for i in 0..xs.len() {
                c.push(format!("f 1 {}", xs[i]));
                c.push("clone 1 2".into());
                c.push("reset 2".into());
                c.push("fresh 1 3".into());
                for x in xs.iter().skip(i + 1).take(2) {
                    c.push(format!("f 2 {}", x));
                    c.push(format!("f 3 {}", x));
                    c.push("same 2 3 C12.reset-eq-fresh".into());
                }
            }
            cases.push(c);
        }
    }
    // a cache wrapper whose inner filter has a past the wrapper did not see (fed directly, the wrapper taken apart and put
    // together again) — with nothing remembered yet, or something: reset makes the whole thing fresh
    for _ in 0..tier.n(60, 600) {
        let k = random_kind(rng, "cache");
        let mut c = vec![format!("new 1 {}", k.params)];
        for _ in 0..rng.range(1, 2 * k.width as i64 + 3) {
            let x = random_input(rng, &k);
            c.push(if rng.chance(2, 3) { format!("fi 1 {}", x) } else { format!("f 1 {}", x) });
        }
        c.push("acc 1 cached".into());
        if rng.chance(1, 2) {
            c.push("sm 1".into());
            c.push("acc 1 cached".into());
        }
        c.push("reset 1".into());
        c.push("acc 1 cached".into());
        c.push("fresh 1 2".into());
        for _ in 0..rng.range(2, k.width as i64 + 4) {
            let x = random_input(rng, &k);
            c.push(format!("f 1 {}", x));
            c.push(format!("f 2 {}", x));
            c.push("same 1 2 C12.reset-eq-fresh".into());
        }
        cases.push(c);
    }
    // the windowed filters with running sums at floats: once an infinity or a NaN has passed through, the sums are
    // poisoned for good (`inf - inf`) — a reset filter has no such past
    for _ in 0..tier.n(60, 600) {
        let t = *rng.pick(&["f64", "f32"]);
        let n = *rng.pick(&[1usize, 1, 2, 3]);
        let kind = *rng.pick(&["mean", "mean", "meanvar", "delay"]);
        let mut c = vec![format!("new 1 {} N={} T={}", kind, n, t)];
        let special = |rng: &mut Rng| *rng.pick(&[f64::INFINITY, f64::NEG_INFINITY, f64::NAN, 1.5, -2.0, 0.0]);
        for _ in 0..rng.range(1, 2 * n as i64 + 2) {
            let x = special(rng);
            c.push(format!("f 1 {}", fbits_nan(t, x)));
        }
        c.push("reset 1".into());
        c.push("fresh 1 2".into());
        for _ in 0..rng.range(2, n as i64 + 3) {
            let x = fbits(t, rng.range(-8, 8) as f64 / 2.0);
            c.push(format!("f 1 {}", x));
            c.push(format!("f 2 {}", x));
            c.push("same 1 2 C12.reset-eq-fresh".into());
        }
        cases.push(c);
    }
    // reset of a deque whose clock is about to run out (the public state re-injected with shifted time stamps): a reset
    // filter is a fresh filter whatever its past
    for kind in ["max", "min"] {
        let mut dq: Vec<Case> = Vec::new();
        deque_inject_cases(rng, tier, kind, &mut dq);
        for c in dq {
            if !c[0].starts_with("inject ") || !rng.chance(1, 4) {
                continue;
            }
            let n = c[0].split(' ').find(|t| t.starts_with("N=")).unwrap().to_string();
            let mut v = vec![c[0].clone()];
            for l in c.iter().skip(1).filter(|l| l.starts_with("f ")).take(rng.range(0, 3) as usize) {
                v.push(l.clone());
            }
            v.push("reset 1".into());
            v.push(format!("new 2 {} {}", kind, n));
            for _ in 0..rng.range(2, 8) {
                let x = rng.range(-9, 9);
                v.push(format!("f 1 {}", x));
                v.push(format!("f 2 {}", x));
                v.push("same 1 2 C12.reset-eq-fresh".into());
            }
            cases.push(v);
        }
    }
    // the generic filters at float types: reset, then bit for bit what a freshly constructed filter answers
    for _ in 0..tier.n(60, 600) {
        let t = if rng.chance(3, 4) { "f64" } else { "f32" };
        let mut c = vec![format!("new 1 {}", float_kind_line(rng, t))];
        for _ in 0..rng.range(1, 9) {
            // (a quarter of the samples before the reset are not finite or at the ends of the range: whatever the state
            // became, a reset filter is a fresh one)
            c.push(format!("f 1 {}", if rng.chance(1, 4) { special_first(rng, t) } else { float_sample(rng, t) }));
        }
        c.push("reset 1".into());
        c.push("fresh 1 2".into());
        for _ in 0..rng.range(2, 8) {
            let x = float_sample(rng, t);
            c.push(format!("f 1 {}", x));
            c.push(format!("f 2 {}", x));
            c.push("same 1 2 C12.reset-eq-fresh".into());
        }
        cases.push(c);
    }
    // integrate / differentiate at f32 with non-finite samples before the reset: whatever the accumulator held — an
    // infinity, a NaN — a reset filter starts from zero / from nothing
    for _ in 0..tier.n(40, 400) {
        let kind = if rng.chance(2, 3) { "integrate_b" } else { "differentiate_b" };
        let mut c = vec![format!("new 1 {} T=f32", kind)];
        let special = |rng: &mut Rng| -> String {
            let x: f32 = match rng.below(6) {
                0 => f32::INFINITY,
                1 => f32::NEG_INFINITY,
                2 => f32::NAN,
                3 => f32::MAX,
                _ => rng.range(-12, 12) as f32,
            };
            format!("y{:08x}", if x.is_nan() { 0x7fc0_0000 } else { x.to_bits() })
        };
        for _ in 0..rng.range(1, 6) {
            c.push(format!("f 1 {}", special(rng)));
        }
        c.push("reset 1".into());
        c.push("fresh 1 2".into());
        for _ in 0..rng.range(2, 6) {
            let x = format!("y{:08x}", (rng.range(-12, 12) as f32).to_bits());
            c.push(format!("f 1 {}", x));
            c.push(format!("f 2 {}", x));
            c.push("same 1 2 C12.reset-eq-fresh".into());
        }
        cases.push(c);
    }
    // composite filters keep a copy of a parameter inside each inner filter; the state is public, so a filter may be
    // handed inner filters whose copy differs from its own configuration. A freshly constructed filter derives the
    // inner copies from its configuration, so a reset one must as well.
    for _ in 0..tier.n(20, 200) {
        let w = unit_rat(rng);
        let (fresh, inject) = if rng.chance(1, 2) {
            let inner = |rng: &mut Rng| if rng.chance(1, 4) { w.clone() } else { unit_rat(rng) };
            (
                format!("emeanvar w={}", w),
                format!("emeanvar w={} mw={} vw={} mean={} var={}", w, inner(rng), inner(rng), opt_rat(rng), opt_rat(rng)),
            )
        } else {
            let (m, q) = (unit_rat(rng), unit_rat(rng));
            (
                format!("emedian pre={} mid={} post={}", w, m, q),
                format!(
                    "emedian pre={} mid={} post={} ipre={} ipost={} spre={} spost={} median={}",
                    w, m, q, unit_rat(rng), unit_rat(rng), opt_rat(rng), opt_rat(rng), opt_rat(rng)
                ),
            )
        };
        let mut c = vec![format!("inject 1 {}", inject), "cfg 1".to_string(), "reset 1".to_string(), "cfg 1".to_string(), format!("new 2 {}", fresh)];
        for _ in 0..rng.range(2, 6) {
            let x = rat(rng);
            c.push(format!("f 1 {}", x));
            c.push(format!("f 2 {}", x));
            c.push("same 1 2 C12.reset-eq-fresh".into());
        }
        cases.push(c);
    }
    cases
}

/// a generic filter at a float type (bit-pattern protocol): construction line and whether it takes gains
fn float_kind_line(rng: &mut Rng, t: &str) -> String {
    let g = |rng: &mut Rng| fbits(t, *rng.pick(&[0.1, 0.25, 0.5, 0.3, 0.9, 1.0]));
    match rng.below(8) {
        0 => format!("mean N={} T={}", rng.range(2, 5), t),
        1 => format!("meanvar N={} T={}", rng.range(2, 5), t),
        2 => format!("delay N={} T={}", rng.range(1, 4), t),
        3 => format!("emeanvar w={} T={}", g(rng), t),
        4 => format!("kalman r={} q={} a={} b={} c={} T={}", g(rng), g(rng), fbits(t, 1.0), fbits(t, 0.0), fbits(t, 1.0), t),
        5 => format!("ema w={} T={}", g(rng), t),
        6 => format!("emedian pre={} mid={} post={} T={}", g(rng), g(rng), g(rng), t),
        _ => format!("alphabeta alpha={} beta={} T={}", g(rng), g(rng), t),
    }
}
/// samples whose sums and products round: non-dyadic values at mixed magnitudes
fn float_sample(rng: &mut Rng, t: &str) -> String {
    let x = match rng.below(6) {
        0 => 1e16,
        1 => -1e16,
        2 => rng.range(-1000, 1000) as f64 / 7.0,
        3 => rng.range(-9, 9) as f64 * 0.1,
        4 => 1.0,
        _ => rng.range(-100_000, 100_000) as f64 * 1e-3,
    };
    fbits(t, x)
}

/// C20: copies (clone / guts round trip) continue identically and independently; cache transparent
pub fn gen_copy(rng: &mut Rng, tier: &Tier) -> Vec<Case> {
    let mut cases = Vec::new();
    for kind in KINDS.iter() {
        for _ in 0..tier.n(25, 300) {
            let k = random_kind(rng, kind);
            let mut c = vec![format!("new 1 {}", k.params)];
            let mut history = Vec::new();
            for _ in 0..rng.range(0, 3 * k.width as i64 + 4) {
                let x = random_input(rng, &k);
                c.push(format!("f 1 {}", x));
                history.push(x);
            }
            let via = if rng.chance(1, 2) { "clone" } else { "gutsrt" };
            c.push(format!("{} 1 2", via));
            // same continuation → same outputs
            for _ in 0..rng.range(1, k.width as i64 + 3) {
                let x = random_input(rng, &k);
                c.push(format!("f 1 {}", x));
                c.push(format!("f 2 {}", x));
                c.push("same 1 2 C20.copy-continues".into());
                history.push(x);
            }
            // different continuations → independent; the copy equals a fresh instance replaying its history
            c.push(format!("{} 1 3", if via == "clone" { "gutsrt" } else { "clone" }));
            c.push("fresh 1 4".into());
            for x in &history {
                c.push(format!("f 4 {}", x));
            }
            for _ in 0..rng.range(1, 2 * k.width as i64 + 3) {
                let x = random_input(rng, &k);
                let y = random_input(rng, &k);
                c.push(format!("f 1 {}", x));
                c.push(format!("f 3 {}", y));
                c.push(format!("f 4 {}", y));
                c.push("same 3 4 C20.copy-eq-replay".into());
                if kind.starts_with("cache") {
                    c.push("acc 1 cached".into());
                    c.push("acc 3 cached".into());
                }
            }
            cases.push(c);
        }
        // zeros of either sign in the window of an order-based filter at the moment of the copy: which of two samples
        // that compare equal the filter goes on to report is part of its state too
        if *kind == "max" {
            for _ in 0..tier.n(30, 300) {
                let k2 = *rng.pick(&["max", "min", "bounds"]);
                let n = rng.range(2, 5) as usize;
                let mut c = vec![format!("new 1 {} N={} T=fz", k2, n)];
                for _ in 0..rng.range(1, n as i64 + 1) {
                    c.push(format!("f 1 {}", rng.pick(&["0", "-0", "0", "-0", "-1", "1"])));
                }
                c.push((if rng.chance(2, 3) { "gutsrt 1 2" } else { "clone 1 2" }).to_string());
                for _ in 0..rng.range(1, n as i64 + 1) {
                    let x = *rng.pick(&["-1", "1", "-2", "2", "0", "-0"]);
                    c.push(format!("f 1 {}", x));
                    c.push(format!("f 2 {}", x));
                    c.push("same 1 2 C20.copy-continues".into());
                }
                cases.push(c);
            }
        }
        // the state re-injected IN PLACE: a filter that has a past of its own gets its state overwritten (through
        // `state_mut`, or by `clone_from`) with a copy of the state of another one — a fresh one, or one elsewhere in
        // its stream; from then on it is a copy of that one, nothing of its own past remains
        for _ in 0..tier.n(10, 100) {
            let k = random_kind(rng, kind);
            let mut c = vec![format!("new 1 {}", k.params), "fresh 1 2".to_string()];
            for _ in 0..rng.range(1, 2 * k.width as i64 + 3) {
                c.push(format!("f 1 {}", random_input(rng, &k)));
            }
            if rng.chance(1, 2) {
                for _ in 0..rng.range(1, k.width as i64 + 2) {
                    c.push(format!("f 2 {}", random_input(rng, &k)));
                }
            }
            c.push((if rng.chance(2, 3) { "stset 1 2" } else { "clonefrom 1 2" }).to_string());
            for _ in 0..rng.range(1, 2 * k.width as i64 + 3) {
                let x = random_input(rng, &k);
                c.push(format!("f 1 {}", x));
                c.push(format!("f 2 {}", x));
                c.push("same 1 2 C20.copy-continues".into());
            }
            cases.push(c);
        }
        // every split point of one history: before each sample a clone and a guts copy are taken, all three get the
        // sample (and one more), the copies are then discarded - a copy taken in ANY reachable state must agree
        for _ in 0..tier.n(8, 80) {
            let k = random_kind(rng, kind);
            let mut c = vec![format!("new 1 {}", k.params)];
            let mut made6 = false;
            for _ in 0..rng.range(2, 2 * k.width as i64 + 6) {
                c.push("clone 1 2".into());
                c.push("gutsrt 1 3".into());
                c.push("fresh 1 5".into());
                c.push("clonefrom 5 1".into());
                // … and into a destination with a past of its own (instance 6 lives on across the iterations and is fed
                // other samples than the original)
                if !made6 {
                    c.push("fresh 1 6".into());
                    made6 = true;
                }
                c.push("clonefrom 6 1".into());
                if kind.starts_with("cache") {
                    c.push("acc 5 cached".into());
                    // a copy of a warm cache remembers what the original remembers, before it is fed anything
                    c.push("acc 2 cached".into());
                    c.push("acc 3 cached".into());
                }
                let x = random_input(rng, &k);
                let y = random_input(rng, &k);
                c.push(format!("f 2 {}", x));
                c.push(format!("f 3 {}", x));
                c.push(format!("f 5 {}", x));
                c.push(format!("f 6 {}", x));
                c.push(format!("f 1 {}", x));
                c.push("same 1 2 C20.copy-continues".into());
                c.push("same 1 3 C20.copy-continues".into());
                c.push("same 1 5 C20.copy-continues".into());
                c.push("same 1 6 C20.copy-continues".into());
                // one step further on the copies only: the original must be unaffected by what its copies are fed
                c.push(format!("f 2 {}", y));
                c.push(format!("f 3 {}", y));
                c.push("same 2 3 C20.copy-continues".into());
                for _ in 0..rng.range(0, 3) {
                    c.push(format!("f 6 {}", random_input(rng, &k)));
                }
            }
            cases.push(c);
        }
    }
    // windows holding incomparable samples (NaN) through every kind of copy: a copy is a copy whatever the samples are
    for _ in 0..tier.n(60, 600) {
        let n = *rng.pick(&[2usize, 3, 4, 5]);
        let kind = *rng.pick(&["median", "median", "slopes out=21,22,23", "threshold thr=1 out=-7,11", "schmitt low=-1 high=2 out=-7,11"]);
        let first = if kind == "median" { format!("median N={} T=f64", n) } else { format!("{} T=f64", kind) };
        let mut c = vec![format!("new 1 {}", first)];
        for _ in 0..rng.range(2, 3 * n as i64 + 3) {
            c.push("clone 1 2".into());
            c.push("gutsrt 1 3".into());
            c.push("fresh 1 5".into());
            c.push("clonefrom 5 1".into());
            let x = if rng.chance(1, 3) { "nan".to_string() } else { rng.range(-4, 4).to_string() };
            for id in [2, 3, 5, 1] {
                c.push(format!("f {} {}", id, x));
            }
            c.push("same 1 2 C20.copy-continues".into());
            c.push("same 1 3 C20.copy-continues".into());
            c.push("same 1 5 C20.copy-continues".into());
        }
        cases.push(c);
    }
    // the generic filters at float types: a copy continues with EXACTLY the original's outputs — bit for bit, on samples
    // whose arithmetic rounds (whatever a filter's outputs depend on, a copy must carry all of it)
    for _ in 0..tier.n(120, 1200) {
        let t = if rng.chance(3, 4) { "f64" } else { "f32" };
        let mut c = vec![format!("new 1 {}", float_kind_line(rng, t))];
        for _ in 0..rng.range(3, 14) {
            c.push("clone 1 2".into());
            c.push("gutsrt 1 3".into());
            c.push("fresh 1 5".into());
            c.push("clonefrom 5 1".into());
            let x = float_sample(rng, t);
            for id in [2, 3, 5, 1] {
                c.push(format!("f {} {}", id, x));
            }
            c.push("same 1 2 C20.copy-continues".into());
            c.push("same 1 3 C20.copy-continues".into());
            c.push("same 1 5 C20.copy-continues".into());
        }
        cases.push(c);
    }
    cases
}

/// wrapper transparency: `cache(kind)` / `unit(kind)` against the bare kind
pub fn gen_cache(rng: &mut Rng, tier: &Tier) -> Vec<Case> {
    let mut cases = Vec::new();
    for _ in 0..(if cfg!(feature = "units") { tier.n(150, 1500) } else { 0 }) {
        let k = random_kind(rng, "unit");
        let bare = k.params["unit inner=".len()..].to_string();
        let mut c = vec![format!("new 1 {}", k.params), format!("new 2 {}", bare), "cfg 1".to_string()];
        for _ in 0..rng.range(1, 2 * k.width as i64 + 4) {
            let x = random_input(rng, &k);
            c.push(format!("f 1 {}", x));
            c.push(format!("f 2 {}", x));
            c.push("same 1 2 C20.unit-transparent".into());
        }
        cases.push(c);
    }
    for _ in 0..tier.n(150, 1500) {
        let k = random_kind(rng, "cache");
        let bare = k.params["cache inner=".len()..].to_string();
        let mut c = vec![format!("new 1 {}", k.params), format!("new 2 {}", bare), "acc 1 cached".to_string()];
        for _ in 0..rng.range(1, 2 * k.width as i64 + 4) {
            let x = random_input(rng, &k);
            c.push(format!("f 1 {}", x));
            c.push(format!("f 2 {}", x));
            c.push("same 1 2 C20.cache-transparent".into());
            c.push("acc 1 cached".into());
            if rng.chance(1, 5) {
                // looking at the wrapper's state through `state_mut` changes nothing — it still remembers its last result
                c.push("sm 1".into());
                c.push("acc 1 cached".into());
            }
        }
        cases.push(c);
    }
    // values that are equal under `==` and different bit for bit (IEEE zeros of either sign, told apart on the protocol
    // by the sample type `fz`): "the most recent result" is the value the wrapped filter returned, not one equal to it
    for _ in 0..tier.n(40, 400) {
        let n = *rng.pick(&[1usize, 1, 2, 3]);
        let mut c = vec![
            format!("new 1 cache inner=median N={} T=fz", n),
            format!("new 2 median N={} T=fz", n),
            "acc 1 cached".to_string(),
        ];
        for i in 0..rng.range(2, 8) {
            let x = *rng.pick(&["0", "-0", "0", "-0", "1", "-1"]);
            c.push(format!("f 1 {}", x));
            c.push(format!("f 2 {}", x));
            c.push("same 1 2 C20.cache-transparent".into());
            c.push("acc 1 cached".into());
            if i == 2 && rng.chance(1, 2) {
                c.push("clone 1 3".into());
                c.push("acc 3 cached".into());
            }
        }
        cases.push(c);
    }
    cases
}

/// Properties of a single filter quantify over its histories, and a filter's history may contain a reset, a copy
/// (`Clone`) or a state extraction / re-injection (`IntoGuts` / `FromGuts`) after which the same filter carries on:
/// a fraction of the generated single-filter cases gets one of the three inserted.
///  * reset tail: `reset` of every instance, then all the case's operations once more;
///  * copy / guts round trip at a random point: every instance is replaced by its copy (ids + 50) from there on.
fn with_lifecycle(cases: Vec<Case>, rng: &mut Rng) -> Vec<Case> {
    let mut out = Vec::with_capacity(cases.len() + cases.len() / 4);
    for c in cases {
        let news: Vec<String> =
            c.iter().filter(|l| l.starts_with("new ")).map(|l| l.split(' ').nth(1).unwrap().to_string()).collect();
        let plain = c.iter().all(|l| {
            let op = l.split(' ').next().unwrap();
            matches!(op, "new" | "f" | "acc" | "guts" | "cfg" | "same" | "compose")
        }) && !news.is_empty()
            && c.iter().take(news.len()).all(|l| l.starts_with("new "))
            && c.iter().all(|l| !l.contains("src="))
            // (running sums / differences at a bounded integer type are representable for THIS history only)
            && !c.iter().any(|l| {
                l.starts_with("new ")
                    && (l.contains(" integrate T=") || l.contains(" differentiate T="))
                    && (l.ends_with("T=u8") || l.ends_with("T=i8") || l.ends_with("T=i64"))
            })
            && c.len() > news.len();
        if !plain || !rng.chance(1, 4) {
            out.push(c);
            continue;
        }
        let body: Vec<String> = c[news.len()..].to_vec();
        let mut v = c.clone();
        // inputs of the case's own body, by instance: what a used destination of `clone_from` is fed beforehand
        let inputs_of = |id: &str| -> Vec<String> {
            body.iter().filter(|l| l.starts_with(&format!("f {} ", id))).map(|l| l[format!("f {} ", id).len()..].to_string()).collect()
        };
        // rewinding is only meaningful where all instances of the case are in step: right after an observation
        let in_step: Vec<usize> = (1..body.len())
            .filter(|&i| body[i].starts_with("f ") && (news.len() == 1 || !body[i - 1].starts_with("f ")))
            .collect();
        let pick = match rng.below(9) {
            // (no rewinding where an instance's inputs encode the history of the whole signal: `compose` lines, the
            // slope-driven peak detector fed by an external slope filter)
            5 | 8 if in_step.is_empty() || c.iter().any(|l| l.starts_with("compose") || l.contains("peaks_slopes")) => 0,
            k => k,
        };
        match pick {
            0 => {
                for id in &news {
                    v.push(format!("reset {}", id));
                }
                v.extend(body.iter().cloned());
            }
            7 => {
                // a second filter built from the configuration the first one hands out (`with_config(f.config())`, the
                // "another channel like this one" idiom): fed the same samples, it owes the same answers
                for id in &news {
                    v.push(format!("freshcfg {} {}", id, id.parse::<u64>().unwrap() + 50));
                }
                for l in &body {
                    let mut t: Vec<String> = l.split(' ').map(|x| x.to_string()).collect();
                    if t[0] == "f" && news.contains(&t[1]) {
                        t[1] = (t[1].parse::<u64>().unwrap() + 50).to_string();
                        v.push(t.join(" "));
                    }
                }
            }
            6 => {
                // the state looked at through `StateMut::state_mut` (the only way to inspect a live filter) after some of
                // the samples — before whatever the case observes next: looking changes nothing
                let tail: Vec<String> = v.split_off(news.len());
                for l in tail {
                    let is_f = l.starts_with("f ");
                    let id = l.split(' ').nth(1).unwrap_or("").to_string();
                    v.push(l);
                    if is_f && news.contains(&id) && rng.chance(1, 2) {
                        v.push(format!("sm {}", id));
                    }
                }
            }
            5 | 8 => {
                // rewind to a snapshot: `filter.clone_from(&snapshot)` (5), or the snapshot's STATE written over the
                // filter's in place through `state_mut` (8), where the snapshot is a pristine instance and the filter has
                // been used — afterwards the filter is what the snapshot is, nothing of its own past remains
                let at = news.len() + *rng.pick(&in_step);
                let tail: Vec<String> = v.split_off(at);
                for id in &news {
                    let snap = id.parse::<u64>().unwrap() + 50;
                    v.push(format!("fresh {} {}", id, snap));
                    v.push(format!("{} {} {}", if pick == 5 { "clonefrom" } else { "stset" }, id, snap));
                }
                v.extend(tail);
            }
            k => {
                let at = news.len() + rng.range(0, body.len() as i64) as usize;
                let op = if k == 1 { "clone" } else if k == 2 { "gutsrt" } else { "clonefrom" };
                let tail: Vec<String> = v.split_off(at);
                for id in &news {
                    let copy = id.parse::<u64>().unwrap() + 50;
                    if op == "clonefrom" {
                        // `Clone::clone_from` into an existing instance of the same type: freshly constructed (k = 3),
                        // or one that has a past of its own (k = 4) — none of which may survive
                        v.push(format!("fresh {} {}", id, copy));
                        let ins = inputs_of(id);
                        if k == 4 && !ins.is_empty() {
                            for _ in 0..rng.range(1, 7) {
                                v.push(format!("f {} {}", copy, rng.pick(&ins)));
                            }
                        }
                        v.push(format!("clonefrom {} {}", copy, id));
                    } else {
                        v.push(format!("{} {} {}", op, id, copy));
                    }
                }
                for l in tail {
                    let mut t: Vec<String> = l.split(' ').map(|x| x.to_string()).collect();
                    let idx: &[usize] = match t[0].as_str() {
                        "same" => &[1, 2],
                        "compose" => &[2],
                        _ => &[1],
                    };
                    for &i in idx {
                        if news.contains(&t[i]) {
                            t[i] = (t[i].parse::<u64>().unwrap() + 50).to_string();
                        }
                    }
                    v.push(t.join(" "));
                }
            }
        }
        out.push(c);
        out.push(v);
    }
    out
}

/// Value coincidences: "fast paths" and skipped updates hide behind a sample that happens to equal something the
/// filter holds or just produced (the evicted sample, the running mean, the prediction, the previous output). A
/// fraction of the plain single-instance exact-rational cases is re-run on the real filter while some of their
/// samples are replaced by: the previous output, an earlier input, the linear extrapolation of the last two
/// outputs (a tracker's prediction), or the sum of the last few inputs. Any input is a legitimate input, so this
/// only steers the workload; a variant on which the filter panics or the rationals overflow is dropped.
fn with_coincidences(cases: Vec<Case>, rng: &mut Rng) -> Vec<Case> {
    use crate::q::Q;
    use crate::val::{parse_val, Val};
    let as_q = |s: &str| -> Option<Q> {
        let ok = !s.is_empty()
            && s.split('/').count() <= 2
            && s.split('/').all(|t| !t.is_empty() && t.trim_start_matches('-').chars().all(|ch| ch.is_ascii_digit()) && t != "-");
        if !ok {
            return None;
        }
        match parse_val(s) {
            Val::Q(q) => Some(q),
            _ => None,
        }
    };
    let mut out = Vec::with_capacity(cases.len() + cases.len() / 4);
    for c in cases {
        let eligible = c.len() > 2
            && c[0].starts_with("new 1 ")
            && !c[0].contains(" T=") // exact rationals only (machine integers and floats have their own workloads)
            && !c[0].contains("peaks_slopes") // (its inputs are slope codes, not samples)
            && c[1..].iter().all(|l| {
                let t: Vec<&str> = l.split(' ').collect();
                match t[0] {
                    "f" => t.len() == 3 && t[1] == "1" && as_q(t[2]).is_some(),
                    "acc" | "guts" | "cfg" | "reset" => t.get(1) == Some(&"1"),
                    _ => false,
                }
            });
        if !eligible || !rng.chance(1, 4) {
            out.push(c);
            continue;
        }
        let mut it = Interp::default();
        let mut v = vec![c[0].clone()];
        let mut ok = it.exec(&c[0]).is_ok();
        let (mut ins, mut outs): (Vec<Q>, Vec<Q>) = (Vec::new(), Vec::new());
        for l in &c[1..] {
            if !ok {
                break;
            }
            let mut line = l.clone();
            if l.starts_with("f ") && !ins.is_empty() && rng.chance(2, 5) {
                let (choice, pick, k) = (rng.below(5), rng.below(ins.len() as u64) as usize, rng.range(1, 4) as usize);
                // the exact rationals of the harness panic on i128 overflow: such a candidate is simply not used
                let cand = std::panic::catch_unwind(std::panic::AssertUnwindSafe(|| match choice {
                    0 => outs.last().copied(),
                    1 => Some(ins[pick]),
                    2 if outs.len() >= 2 => Some(outs[outs.len() - 1] + (outs[outs.len() - 1] - outs[outs.len() - 2])),
                    3 => Some(Q::int(0)), // the other special value: `is_zero` short cuts
                    _ => {
                        let k = k.min(ins.len());
                        Some(ins[ins.len() - k..].iter().fold(Q::int(0), |a, b| a + *b))
                    }
                }))
                .unwrap_or(None);
                if let Some(x) = cand {
                    line = format!("f 1 {}", x);
                }
            }
            match it.exec(&line) {
                Ok(r) => {
                    if line.starts_with("f ") {
                        ins.push(as_q(line.split(' ').nth(2).unwrap()).unwrap());
                        if let Some(y) = as_q(r.trim()) {
                            outs.push(y);
                        }
                    } else if line.starts_with("reset ") {
                        ins.clear();
                        outs.clear();
                    }
                    v.push(line);
                }
                Err(_) => ok = false,
            }
        }
        out.push(c);
        if ok {
            out.push(v);
        }
    }
    out
}

pub fn generate(prop: &str, rng: &mut Rng, tier: &Tier) -> Vec<Case> {
    let cases = generate_plain(prop, rng, tier);
    match prop {
        "C02" | "C03" | "C04" | "C05" | "C05p" | "C06" | "C08" | "C09" | "C13" | "C14" | "C15" | "C16" | "C17" | "C18" => {
            let cases = with_coincidences(cases, rng);
            with_lifecycle(cases, rng)
        }
        _ => cases,
    }
}

fn generate_plain(prop: &str, rng: &mut Rng, tier: &Tier) -> Vec<Case> {
    match prop {
        "C02" => gen_median(rng, tier, false),
        "C17" => gen_median(rng, tier, true),
        "C03" => gen_mean(rng, tier),
        "C04" => gen_deque(rng, tier),
        "C05" => gen_conv(rng, tier),
        "C06" => gen_kalman(rng, tier),
        "C08" => gen_classify8(rng, tier),
        "C09" => gen_classify9(rng, tier),
        "C12" => gen_reset(rng, tier),
        "C13" => gen_smooth(rng, tier),
        "C14" => gen_alphabeta(rng, tier),
        "C15" => gen_diffint(rng, tier),
        "C16" => gen_meanvar(rng, tier),
        "C20" => {
            let mut c = gen_copy(rng, tier);
            c.extend(gen_cache(rng, tier));
            c.extend(crate::gen2::gen_source_cache(rng, tier));
            c.extend(crate::gen2::gen_unit_wrappers(rng, tier));
            c
        }
        p => crate::gen2::generate(p, rng, tier),
    }
}
