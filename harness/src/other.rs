//! Sinks, sources and pipes instances (ops `sink`, `fin`, `pull`, `peek`, … and `new <id> src|sink|pipe …`).
#[derive(Default)]
pub struct Other {}

impl Other {
    pub fn clear(&mut self) {}
    /// `Some(result)` if the line is one of this module's operations
    pub fn exec(&mut self, _toks: &[&str], _line: &str) -> Option<String> {
        None
    }
}
