//! Sources (C10), sinks (C11) and pipes (C01): dynamic trees built out of the *real* generic adapters
//! (`Take<BoxSrc>`, `Chain<BoxSrc, BoxSrc>`, `Pipe<Dyn, Dyn>`, …).
use crate::filt::{self, Inst};
use crate::q::Q;
use crate::val::*;
use signalo_pipes::{pipe::Pipe, unit_pipe::UnitPipe};
use signalo_sinks as sinks;
use signalo_sources as sources;
use signalo_traits::{Filter, Finalize, Sink, Source};
use std::cell::{Cell, RefCell};
use std::collections::HashMap;
use std::ops::BitOr;
use std::rc::Rc;

// ---- sources ----------------------------------------------------------------------------------

pub trait DynSource {
    fn pull(&mut self) -> Option<Q>;
    fn clone_box(&self) -> Box<dyn DynSource>;
    fn as_any(&self) -> &dyn std::any::Any;
    /// `self.clone_from(o)` on the concrete source type (false: the two are of different types)
    fn clone_from_dyn(&mut self, o: &dyn DynSource) -> bool;
}
impl<S> DynSource for S
where
    S: Source<Output = Q> + Clone + 'static,
{
    fn pull(&mut self) -> Option<Q> {
        self.source()
    }
    fn clone_box(&self) -> Box<dyn DynSource> {
        Box::new(self.clone())
    }
    fn as_any(&self) -> &dyn std::any::Any {
        self
    }
    fn clone_from_dyn(&mut self, o: &dyn DynSource) -> bool {
        match o.as_any().downcast_ref::<S>() {
            Some(s) => {
                Clone::clone_from(self, s);
                true
            }
            None => false,
        }
    }
}
pub struct BoxSrc(pub Box<dyn DynSource>);
impl Clone for BoxSrc {
    fn clone(&self) -> Self {
        BoxSrc(self.0.clone_box())
    }
}
impl Source for BoxSrc {
    type Output = Q;
    fn source(&mut self) -> Option<Q> {
        self.0.pull()
    }
}
fn bx<S: Source<Output = Q> + Clone + 'static>(s: S) -> BoxSrc {
    BoxSrc(Box::new(s))
}

struct P<'a> {
    s: &'a [u8],
    i: usize,
}
impl<'a> P<'a> {
    fn eat(&mut self, lit: &str) -> bool {
        if self.s[self.i..].starts_with(lit.as_bytes()) {
            self.i += lit.len();
            true
        } else {
            false
        }
    }
    fn expect(&mut self, c: u8) {
        assert!(self.i < self.s.len() && self.s[self.i] == c, "harness: source expression syntax");
        self.i += 1;
    }
    fn tok(&mut self) -> String {
        let st = self.i;
        while self.i < self.s.len() && !matches!(self.s[self.i], b',' | b')' | b']') {
            self.i += 1;
        }
        String::from_utf8(self.s[st..self.i].to_vec()).unwrap()
    }
    fn q(&mut self) -> Q {
        Q::from_val(parse_val(&self.tok()))
    }
    fn n(&mut self) -> usize {
        self.tok().parse().expect("harness: bad count")
    }
    fn expr(&mut self) -> BoxSrc {
        if self.eat("iter[") {
            let mut v = Vec::new();
            loop {
                if self.s[self.i] == b']' {
                    self.i += 1;
                    break;
                }
                if self.s[self.i] == b',' {
                    self.i += 1;
                    continue;
                }
                v.push(self.q());
            }
            bx(sources::from_iter::FromIter::from(v))
        } else if self.eat("const(") {
            let v = self.q();
            self.expect(b')');
            bx(sources::constant::Constant::new(v))
        } else if self.eat("incr(") {
            let a = self.q();
            self.expect(b',');
            let b = self.q();
            self.expect(b')');
            bx(sources::increment::Increment::new(a, b))
        } else if self.eat("burst[") {
            // a scripted leaf that is not fused: `-` = an end marker, items may follow it
            let st = self.i;
            while self.s[self.i] != b']' {
                self.i += 1;
            }
            let inner = std::str::from_utf8(&self.s[st..self.i]).unwrap().to_string();
            self.i += 1;
            let items = if inner.is_empty() {
                vec![]
            } else {
                inner.split(',').map(|t| if t == "-" { None } else { Some(Q::from_val(parse_val(t))) }).collect()
            };
            bx(BurstSrc { items, at: 0 })
        } else if self.eat("take(") {
            let n = self.n();
            self.expect(b',');
            let e = self.expr();
            self.expect(b')');
            bx(sources::take::Take::new(e, n))
        } else if self.eat("skip(") {
            let n = self.n();
            self.expect(b',');
            let e = self.expr();
            self.expect(b')');
            bx(sources::skip::Skip::new(e, n))
        } else if self.eat("chain(") {
            let a = self.expr();
            self.expect(b',');
            let b = self.expr();
            self.expect(b')');
            bx(sources::chain::Chain::new(a, b))
        } else if self.eat("cycle(") {
            let e = self.expr();
            self.expect(b')');
            bx(sources::cycle::Cycle::new(e))
        } else if self.eat("repeat(") {
            let v = self.q();
            self.expect(b',');
            let n = self.n();
            self.expect(b')');
            bx(sources::repeat::Repeat::new(v, n))
        } else if self.eat("padc(") {
            let v = self.q();
            self.expect(b',');
            let n = self.n();
            self.expect(b',');
            let e = self.expr();
            self.expect(b')');
            bx(sources::pad::constant::Pad::new(e, v, n))
        } else if self.eat("pade(") {
            let n = self.n();
            self.expect(b',');
            let e = self.expr();
            self.expect(b')');
            bx(sources::pad::edge::Pad::new(e, n))
        } else if self.eat("cache(") {
            let e = self.expr();
            self.expect(b')');
            bx(sources::cache::Cache::<BoxSrc, Q>::from(e))
        } else if self.eat("units(") {
            let e = self.expr();
            self.expect(b')');
            units_src(e)
        } else if self.eat("rtskip(") || self.eat("rtstep(") {
            // the into-iterator bridge driven through the PROVIDED methods of `Iterator` (`skip` / `step_by` are built on
            // `nth`), then turned back into a source
            let step = &self.s[self.i - 7..self.i] == b"rtstep(";
            let n = self.n();
            self.expect(b',');
            let e = self.expr();
            self.expect(b')');
            let it = sources::into_iter::IntoIter::from(e);
            let boxed: Box<dyn Iterator<Item = Q>> = if step { Box::new(it.step_by(n)) } else { Box::new(it.skip(n)) };
            bx(RtIt(Rc::new(RefCell::new(sources::from_iter::FromIter::from(boxed)))))
        } else if self.eat("rt(") {
            let e = self.expr();
            self.expect(b')');
            // a source turned into an iterator and back into a source
            let it = sources::into_iter::IntoIter::from(e);
            bx(RtSrc(Rc::new(RefCell::new(sources::from_iter::FromIter::from(it)))))
        } else {
            panic!("harness: unknown source expression at {}", self.i)
        }
    }
}

/// the source unit-system wrapper: items come out as metres; the harness unwraps them again
#[cfg(feature = "units")]
#[derive(Clone)]
struct UnitSrc(sources::unit_system::UnitSystem<BoxSrc, dimensioned::si::Meter<Q>>);
#[cfg(feature = "units")]
impl Source for UnitSrc {
    type Output = Q;
    fn source(&mut self) -> Option<Q> {
        use dimensioned::traits::Dimensioned;
        self.0.source().map(|m: dimensioned::si::Meter<Q>| *m.value_unsafe())
    }
}
#[cfg(feature = "units")]
fn units_src(e: BoxSrc) -> BoxSrc {
    bx(UnitSrc(sources::unit_system::UnitSystem::from(e)))
}
#[cfg(not(feature = "units"))]
fn units_src(_e: BoxSrc) -> BoxSrc {
    panic!("harness: built without the unit-system wrappers")
}

/// a plain summing sink whose `finalize` is not an `Option` (what the sink unit wrapper's `Finalize` needs)
#[derive(Clone, Default)]
pub struct SumSink(Q);
impl Sink<Q> for SumSink {
    fn sink(&mut self, x: Q) {
        self.0 = self.0 + x;
    }
}
impl Finalize for SumSink {
    type Output = Q;
    fn finalize(self) -> Q {
        self.0
    }
}
/// the harness's own collecting sink (C01: the pipe property must not depend on a library sink being right)
#[derive(Clone, Default)]
pub struct OwnCollect(Vec<Q>);
impl Sink<Q> for OwnCollect {
    fn sink(&mut self, x: Q) {
        self.0.push(x);
    }
}
impl Finalize for OwnCollect {
    type Output = Vec<Q>;
    fn finalize(self) -> Vec<Q> {
        self.0
    }
}
macro_rules! own_dyn_sink {
    ($ty:ty) => {
        impl DynSink for $ty {
            fn sink(&mut self, x: Val) {
                Sink::sink(self, Q::from_val(x))
            }
            fn ff(&mut self, _x: Val) -> String {
                panic!("harness: the harness's own sinks are not filters")
            }
            fn fin(&self) -> String {
                Finalize::finalize(self.clone()).r()
            }
            fn clone_box(&self) -> Box<dyn DynSink> {
                Box::new(self.clone())
            }
            fn as_any(&self) -> &dyn std::any::Any {
                self
            }
            fn clone_from_dyn(&mut self, o: &dyn DynSink) -> bool {
                match o.as_any().downcast_ref::<Self>() {
                    Some(s) => {
                        Clone::clone_from(self, s);
                        true
                    }
                    None => false,
                }
            }
        }
    };
}
own_dyn_sink!(OwnCollect);
own_dyn_sink!(SumSink);
#[cfg(feature = "units")]
#[derive(Clone)]
pub struct UnitSumSink(sinks::unit_system::UnitSystem<SumSink, dimensioned::si::Meter<Q>>);
#[cfg(feature = "units")]
impl DynSink for UnitSumSink {
    fn sink(&mut self, x: Val) {
        Sink::sink(&mut self.0, dimensioned::si::Meter::new(Q::from_val(x)))
    }
    fn ff(&mut self, x: Val) -> String {
        self.sink(x);
        self.fin()
    }
    fn fin(&self) -> String {
        use dimensioned::traits::Dimensioned;
        let m: dimensioned::si::Meter<Q> = Finalize::finalize(self.0.clone());
        m.value_unsafe().r()
    }
    fn clone_box(&self) -> Box<dyn DynSink> {
        Box::new(self.clone())
    }
    fn as_any(&self) -> &dyn std::any::Any {
        self
    }
    fn clone_from_dyn(&mut self, o: &dyn DynSink) -> bool {
        match o.as_any().downcast_ref::<Self>() {
            Some(s) => {
                Clone::clone_from(self, s);
                true
            }
            None => false,
        }
    }
}

/// `FromIter<IntoIter<BoxSrc>>` is not `Clone` (the library's `IntoIter` is not); share it instead.
/// Only used below adapters that never clone their inner source (the generator never puts `rt` under `cycle`).
#[derive(Clone)]
struct RtSrc(Rc<RefCell<sources::from_iter::FromIter<sources::into_iter::IntoIter<BoxSrc>>>>);
impl Source for RtSrc {
    type Output = Q;
    fn source(&mut self) -> Option<Q> {
        self.0.borrow_mut().source()
    }
}

#[derive(Clone)]
struct RtIt(Rc<RefCell<sources::from_iter::FromIter<Box<dyn Iterator<Item = Q>>>>>);
impl Source for RtIt {
    type Output = Q;
    fn source(&mut self) -> Option<Q> {
        self.0.borrow_mut().source()
    }
}

/// a scripted source that is NOT fused: it may answer `None` and later `Some` again
#[derive(Clone)]
struct BurstSrc {
    items: Vec<Option<Q>>,
    at: usize,
}
impl Source for BurstSrc {
    type Output = Q;
    fn source(&mut self) -> Option<Q> {
        let r = self.items.get(self.at).cloned().unwrap_or(None);
        self.at += 1;
        r
    }
}

pub fn parse_src(s: &str) -> BoxSrc {
    if let Some(rest) = s.strip_prefix("burst[") {
        let inner = &rest[..rest.len() - 1];
        let items = if inner.is_empty() {
            vec![]
        } else {
            inner.split(',').map(|t| if t == "-" { None } else { Some(Q::from_val(parse_val(t))) }).collect()
        };
        return bx(BurstSrc { items, at: 0 });
    }
    let mut p = P { s: s.as_bytes(), i: 0 };
    let e = p.expr();
    assert!(p.i == s.len(), "harness: trailing characters in source expression");
    e
}

enum SrcTop {
    Plain(BoxSrc),
    Peek(sources::peek::Peek<BoxSrc, Q>),
    Cache(sources::cache::Cache<BoxSrc, Q>),
}

// ---- sinks ------------------------------------------------------------------------------------

pub trait DynSink {
    fn sink(&mut self, x: Val);
    fn ff(&mut self, x: Val) -> String;
    fn fin(&self) -> String;
    fn clone_box(&self) -> Box<dyn DynSink>;
    fn as_any(&self) -> &dyn std::any::Any;
    /// `self.clone_from(o)` (both of the same concrete type)
    fn clone_from_dyn(&mut self, o: &dyn DynSink) -> bool;
}

impl<T: Render> Render for sinks::bounds::Output<T> {
    fn r(&self) -> String {
        format!("{} {}", self.min.r(), self.max.r())
    }
}
impl<T: Render> Render for sinks::mean_variance::Output<T> {
    fn r(&self) -> String {
        format!("{} {}", self.mean.r(), self.variance.r())
    }
}
impl<T: Render> Render for sinks::statistics::Output<T> {
    fn r(&self) -> String {
        format!("{} {} {} {}", self.min.r(), self.max.r(), self.mean.r(), self.variance.r())
    }
}

macro_rules! dyn_sink {
    ($ty:ty) => {
        dyn_sink!($ty, Q);
    };
    ($ty:ty, $t:ty) => {
        impl DynSink for $ty {
            fn sink(&mut self, x: Val) {
                Sink::sink(self, <$t>::from_val(x))
            }
            fn ff(&mut self, x: Val) -> String {
                Filter::filter(self, <$t>::from_val(x)).r()
            }
            fn fin(&self) -> String {
                Finalize::finalize(self.clone()).r()
            }
            fn clone_box(&self) -> Box<dyn DynSink> {
                Box::new(self.clone())
            }
            fn as_any(&self) -> &dyn std::any::Any {
                self
            }
            fn clone_from_dyn(&mut self, o: &dyn DynSink) -> bool {
                match o.as_any().downcast_ref::<Self>() {
                    Some(s) => {
                        Clone::clone_from(self, s);
                        true
                    }
                    None => false,
                }
            }
        }
    };
}
dyn_sink!(sinks::min::Min<Q>);
dyn_sink!(sinks::max::Max<Q>);
dyn_sink!(sinks::bounds::Bounds<Q>);
dyn_sink!(sinks::integrate::Integrate<Q>);
dyn_sink!(sinks::mean::Mean<Q>);
dyn_sink!(sinks::mean_variance::MeanVariance<Q>);
dyn_sink!(sinks::statistics::Statistics<Q>);
// partial order (NaN): the order-only sinks at f64
dyn_sink!(sinks::min::Min<f64>, f64);
dyn_sink!(sinks::max::Max<f64>, f64);
dyn_sink!(sinks::bounds::Bounds<f64>, f64);
// the arithmetic sinks in a machine integer's own arithmetic
dyn_sink!(sinks::mean::Mean<i64>, i64);
dyn_sink!(sinks::mean_variance::MeanVariance<i64>, i64);
dyn_sink!(sinks::statistics::Statistics<i64>, i64);
dyn_sink!(sinks::integrate::Integrate<i64>, i64);
// ... at floats that keep the sign of a zero on the protocol (what a sink hands back is a sample it received)
dyn_sink!(sinks::min::Min<Fz>, Fz);
dyn_sink!(sinks::max::Max<Fz>, Fz);
dyn_sink!(sinks::bounds::Bounds<Fz>, Fz);
impl DynSink for sinks::last::Last<Fz> {
    fn sink(&mut self, x: Val) {
        Sink::sink(self, Fz::from_val(x))
    }
    fn ff(&mut self, _x: Val) -> String {
        panic!("harness: Last is not a Filter")
    }
    fn fin(&self) -> String {
        Finalize::finalize(self.clone()).r()
    }
    fn clone_box(&self) -> Box<dyn DynSink> {
        Box::new(self.clone())
    }
    fn as_any(&self) -> &dyn std::any::Any {
        self
    }
    fn clone_from_dyn(&mut self, o: &dyn DynSink) -> bool {
        match o.as_any().downcast_ref::<Self>() {
            Some(s) => {
                Clone::clone_from(self, s);
                true
            }
            None => false,
        }
    }
}
// ... and at the smallest machine integers
dyn_sink!(sinks::min::Min<u8>, u8);
dyn_sink!(sinks::max::Max<u8>, u8);
dyn_sink!(sinks::bounds::Bounds<u8>, u8);
dyn_sink!(sinks::min::Min<i8>, i8);
dyn_sink!(sinks::max::Max<i8>, i8);
dyn_sink!(sinks::bounds::Bounds<i8>, i8);
impl DynSink for sinks::collect::Collect<Vec<Q>> {
    fn sink(&mut self, x: Val) {
        Sink::sink(self, Q::from_val(x))
    }
    fn ff(&mut self, x: Val) -> String {
        Filter::filter(self, Q::from_val(x)).r()
    }
    fn fin(&self) -> String {
        Finalize::finalize(self.clone()).r()
    }
    fn clone_box(&self) -> Box<dyn DynSink> {
        Box::new(self.clone())
    }
    fn as_any(&self) -> &dyn std::any::Any {
        self
    }
    fn clone_from_dyn(&mut self, o: &dyn DynSink) -> bool {
        match o.as_any().downcast_ref::<Self>() {
            Some(s) => {
                Clone::clone_from(self, s);
                true
            }
            None => false,
        }
    }
}
impl DynSink for sinks::last::Last<Q> {
    fn sink(&mut self, x: Val) {
        Sink::sink(self, Q::from_val(x))
    }
    fn ff(&mut self, _x: Val) -> String {
        panic!("harness: Last is not a Filter")
    }
    fn fin(&self) -> String {
        Finalize::finalize(self.clone()).r()
    }
    fn clone_box(&self) -> Box<dyn DynSink> {
        Box::new(self.clone())
    }
    fn as_any(&self) -> &dyn std::any::Any {
        self
    }
    fn clone_from_dyn(&mut self, o: &dyn DynSink) -> bool {
        match o.as_any().downcast_ref::<Self>() {
            Some(s) => {
                Clone::clone_from(self, s);
                true
            }
            None => false,
        }
    }
}

pub fn build_sink(kind: &str) -> Option<Box<dyn DynSink>> {
    Some(match kind {
        "sink_min" => Box::new(sinks::min::Min::<Q>::default()),
        "sink_max" => Box::new(sinks::max::Max::<Q>::default()),
        "sink_bounds" => Box::new(sinks::bounds::Bounds::<Q>::default()),
        "sink_last" => Box::new(sinks::last::Last::<Q>::default()),
        "sink_integrate" => Box::new(sinks::integrate::Integrate::<Q>::default()),
        "sink_mean" => Box::new(sinks::mean::Mean::<Q>::default()),
        "sink_meanvar" => Box::new(sinks::mean_variance::MeanVariance::<Q>::default()),
        "sink_stats" => Box::new(sinks::statistics::Statistics::<Q>::default()),
        "sink_collect" => Box::new(sinks::collect::Collect::<Vec<Q>>::default()),
        "own_collect" => Box::new(OwnCollect::default()),
        "own_sum" => Box::new(SumSink::default()),
        "sink_min_f64" => Box::new(sinks::min::Min::<f64>::default()),
        "sink_max_f64" => Box::new(sinks::max::Max::<f64>::default()),
        "sink_bounds_f64" => Box::new(sinks::bounds::Bounds::<f64>::default()),
        "sink_mean_i64" => Box::new(sinks::mean::Mean::<i64>::default()),
        "sink_meanvar_i64" => Box::new(sinks::mean_variance::MeanVariance::<i64>::default()),
        "sink_stats_i64" => Box::new(sinks::statistics::Statistics::<i64>::default()),
        "sink_integrate_i64" => Box::new(sinks::integrate::Integrate::<i64>::default()),
        "sink_min_fz" => Box::new(sinks::min::Min::<Fz>::default()),
        "sink_max_fz" => Box::new(sinks::max::Max::<Fz>::default()),
        "sink_bounds_fz" => Box::new(sinks::bounds::Bounds::<Fz>::default()),
        "sink_last_fz" => Box::new(sinks::last::Last::<Fz>::default()),
        "sink_min_u8" => Box::new(sinks::min::Min::<u8>::default()),
        "sink_max_u8" => Box::new(sinks::max::Max::<u8>::default()),
        "sink_bounds_u8" => Box::new(sinks::bounds::Bounds::<u8>::default()),
        "sink_min_i8" => Box::new(sinks::min::Min::<i8>::default()),
        "sink_max_i8" => Box::new(sinks::max::Max::<i8>::default()),
        "sink_bounds_i8" => Box::new(sinks::bounds::Bounds::<i8>::default()),
        #[cfg(feature = "units")]
        "sink_unit_sum" => Box::new(UnitSumSink(sinks::unit_system::UnitSystem::from(SumSink::default()))),
        _ => return None,
    })
}

// ---- pipes ------------------------------------------------------------------------------------

type Log = Rc<RefCell<Vec<Vec<Q>>>>;

/// stages defined by the harness itself: simple, stateful, mutually non-commuting (the pipe property must
/// not depend on any library filter being right)
#[derive(Clone)]
pub enum OwnStage {
    Acc { sum: Q, a: Q },
    Affine { a: Q, b: Q },
    Lag { prev: Q },
    RunMax { m: Option<Q> },
    /// a side chain: the stage owns a source pipe of its own (a constant through an identity stage) and polls it on
    /// every sample it processes — while the pipe it is a stage of is in the middle of one of ITS samples
    Side { pipe: Pipe<sources::constant::Constant<Q>, IdStage> },
}
#[derive(Clone)]
pub struct IdStage;
impl Filter<Q> for IdStage {
    type Output = Q;
    fn filter(&mut self, x: Q) -> Q {
        x
    }
}
impl OwnStage {
    fn step(&mut self, x: Q) -> Q {
        match self {
            OwnStage::Acc { sum, a } => {
                *sum = *sum + x;
                *sum + *a
            }
            OwnStage::Affine { a, b } => *a * x + *b,
            OwnStage::Lag { prev } => std::mem::replace(prev, x),
            OwnStage::Side { pipe } => x + pipe.source().expect("the side chain: an endless source pipe reported the end of its stream"),
            OwnStage::RunMax { m } => {
                let r = match m {
                    None => x,
                    Some(cur) => if x > *cur { x } else { *cur },
                };
                *m = Some(r);
                r
            }
        }
    }
}
pub fn parse_own_stage(l: &str) -> OwnStage {
    let parts: Vec<&str> = l.split(';').collect();
    let lkv = filt::parse_kv(&parts[1..]);
    let q = |k: &str| Q::from_val(parse_val(lkv.get(k).expect("harness: missing stage parameter")));
    match parts[0] {
        "p_acc" => OwnStage::Acc { sum: Q::int(0), a: q("a") },
        "p_affine" => OwnStage::Affine { a: q("a"), b: q("b") },
        "p_lag" => OwnStage::Lag { prev: q("init") },
        "p_max" => OwnStage::RunMax { m: None },
        "p_side" => OwnStage::Side { pipe: Pipe::new(sources::constant::Constant::new(q("b")), IdStage) },
        k => panic!("harness: not one of the harness's own stages: {}", k),
    }
}

thread_local! {
    /// how many times a stage of a clonable pipe has been cloned through ITS OWN `Clone` impl
    static STAGE_CLONES: Cell<u64> = Cell::new(0);
}
/// a stateful, clonable stage for the statically typed pipes that are copied (`clone`, `clone_from`). Its `Clone` is
/// hand-written (it counts): a copy of a pipe is made of copies of its stages made by the stages' own `Clone`
pub struct OStage(pub OwnStage);
impl Clone for OStage {
    fn clone(&self) -> Self {
        STAGE_CLONES.with(|c| c.set(c.get() + 1));
        OStage(self.0.clone())
    }
}
impl Filter<Q> for OStage {
    type Output = Q;
    fn filter(&mut self, x: Q) -> Q {
        self.0.step(x)
    }
}

/// statically typed, clonable pipes of stateful stages: a copy of a pipe (`clone()`, or `clone_from` into an
/// existing pipe of the same type) is a pipe of copies of all its stages
#[derive(Clone)]
pub enum CPipe {
    C1(Pipe<OStage, OStage>),
    C2(Pipe<Pipe<OStage, OStage>, OStage>),
    C3(Pipe<OStage, Pipe<OStage, OStage>>),
    C4(<Pipe<OStage, OStage> as BitOr<OStage>>::Output),
    C5(Pipe<UnitPipe<OStage>, OStage>),
}
pub const CPIPE_SHAPES: [(&str, &str, usize); 5] = [
    ("C1", "P(L0,L1)", 2),
    ("C2", "P(P(L0,L1),L2)", 3),
    ("C3", "P(L0,P(L1,L2))", 3),
    ("C4", "O(P(L0,L1),L2)", 3),
    ("C5", "P(U(L0),L1)", 2),
];
impl CPipe {
    pub fn build(name: &str, shape: &str, leaves: &str) -> CPipe {
        let (_, want, k) = *CPIPE_SHAPES.iter().find(|e| e.0 == name).expect("harness: unknown clonable static pipe");
        assert_eq!(shape, want, "harness: clonable static pipe described differently");
        let mut st: Vec<OStage> = leaves.split('|').map(|l| OStage(parse_own_stage(l))).collect();
        assert_eq!(st.len(), k, "harness: wrong number of stages");
        st.reverse();
        let mut next = || st.pop().unwrap();
        match name {
            "C1" => { let (a, b) = (next(), next()); CPipe::C1(Pipe::new(a, b)) }
            "C2" => { let (a, b, c) = (next(), next(), next()); CPipe::C2(Pipe::new(Pipe::new(a, b), c)) }
            "C3" => { let (a, b, c) = (next(), next(), next()); CPipe::C3(Pipe::new(a, Pipe::new(b, c))) }
            "C4" => { let (a, b, c) = (next(), next(), next()); CPipe::C4(Pipe::new(a, b) | c) }
            _ => { let (a, b) = (next(), next()); CPipe::C5(Pipe::new(UnitPipe::new(a), b)) }
        }
    }
    pub fn filter(&mut self, x: Q) -> Q {
        match self {
            CPipe::C1(p) => p.filter(x),
            CPipe::C2(p) => p.filter(x),
            CPipe::C3(p) => p.filter(x),
            CPipe::C4(p) => p.filter(x),
            CPipe::C5(p) => p.filter(x),
        }
    }
    /// `self.clone_from(other)` on the pipes themselves (both must be of the same static type)
    pub fn clone_from_pipe(&mut self, other: &CPipe) {
        match (self, other) {
            (CPipe::C1(a), CPipe::C1(b)) => a.clone_from(b),
            (CPipe::C2(a), CPipe::C2(b)) => a.clone_from(b),
            (CPipe::C3(a), CPipe::C3(b)) => a.clone_from(b),
            (CPipe::C4(a), CPipe::C4(b)) => a.clone_from(b),
            (CPipe::C5(a), CPipe::C5(b)) => a.clone_from(b),
            _ => panic!("harness: clone_from between pipes of different static types"),
        }
    }
}

pub enum ProbeInner {
    Lib(Box<dyn Inst>),
    Own(OwnStage),
}

/// a probe stage: a stage plus a record of every input it was invoked with
pub struct Probe {
    inner: ProbeInner,
    idx: usize,
    log: Log,
    /// how many probe stages of this pipe exist at the moment (a stage that owns something the sink reaches through a
    /// handle, or whose end of life has an effect, must still be there when the sink is finalised)
    alive: Rc<Cell<i64>>,
}
impl Drop for Probe {
    fn drop(&mut self) {
        self.alive.set(self.alive.get() - 1);
    }
}
impl Filter<Q> for Probe {
    type Output = Q;
    fn filter(&mut self, x: Q) -> Q {
        self.log.borrow_mut()[self.idx].push(x);
        match &mut self.inner {
            ProbeInner::Lib(inst) => {
                let r = inst.f(&[Val::Q(x)]);
                Q::from_val(parse_val(&r))
            }
            ProbeInner::Own(o) => o.step(x),
        }
    }
}

pub enum Dyn {
    Leaf(Probe),
    Unit(Box<UnitPipe<Dyn>>),
    Pipe(Box<Pipe<Dyn, Dyn>>),
    /// built with `|` from a `Pipe` / a `UnitPipe` on the left
    OrPipe(Box<<Pipe<Dyn, Dyn> as BitOr<Dyn>>::Output>),
    OrUnit(Box<<UnitPipe<Dyn> as BitOr<Dyn>>::Output>),
}
impl Filter<Q> for Dyn {
    type Output = Q;
    fn filter(&mut self, x: Q) -> Q {
        match self {
            Dyn::Leaf(p) => p.filter(x),
            Dyn::Unit(u) => u.filter(x),
            Dyn::Pipe(p) => p.filter(x),
            Dyn::OrPipe(p) => p.filter(x),
            Dyn::OrUnit(p) => p.filter(x),
        }
    }
}

pub enum SDyn {
    Src(BoxSrc),
    Unit(Box<UnitPipe<SDyn>>),
    Pipe(Box<Pipe<SDyn, Dyn>>),
    #[cfg(feature = "or_source")]
    OrPipe(Box<<Pipe<SDyn, Dyn> as BitOr<Dyn>>::Output>),
    #[cfg(feature = "or_source")]
    OrUnit(Box<<UnitPipe<SDyn> as BitOr<Dyn>>::Output>),
}
impl Source for SDyn {
    type Output = Q;
    fn source(&mut self) -> Option<Q> {
        match self {
            SDyn::Src(s) => s.source(),
            SDyn::Unit(u) => u.source(),
            SDyn::Pipe(p) => p.source(),
            #[cfg(feature = "or_source")]
            SDyn::OrPipe(p) => p.source(),
            #[cfg(feature = "or_source")]
            SDyn::OrUnit(p) => p.source(),
        }
    }
}

pub struct SinkLeaf {
    inner: Box<dyn DynSink>,
    alive: Rc<Cell<i64>>,
    /// the number of upstream stages that existed when this sink was finalised
    seen: Rc<Cell<i64>>,
}
impl Sink<Q> for SinkLeaf {
    fn sink(&mut self, x: Q) {
        self.inner.sink(Val::Q(x))
    }
}
impl Finalize for SinkLeaf {
    type Output = String;
    fn finalize(self) -> String {
        self.seen.set(self.alive.get());
        self.inner.fin()
    }
}

pub enum KDyn {
    Snk(SinkLeaf),
    Unit(Box<UnitPipe<KDyn>>),
    Pipe(Box<Pipe<Dyn, KDyn>>),
    #[cfg(feature = "or_sink")]
    OrPipe(Box<<Pipe<Dyn, Dyn> as BitOr<KDyn>>::Output>),
    #[cfg(feature = "or_sink")]
    OrUnit(Box<<UnitPipe<Dyn> as BitOr<KDyn>>::Output>),
}
impl Sink<Q> for KDyn {
    fn sink(&mut self, x: Q) {
        match self {
            KDyn::Snk(s) => s.sink(x),
            KDyn::Unit(u) => u.sink(x),
            KDyn::Pipe(p) => p.sink(x),
            #[cfg(feature = "or_sink")]
            KDyn::OrPipe(p) => p.sink(x),
            #[cfg(feature = "or_sink")]
            KDyn::OrUnit(p) => p.sink(x),
        }
    }
}
impl Finalize for KDyn {
    type Output = String;
    fn finalize(self) -> String {
        match self {
            KDyn::Snk(s) => s.finalize(),
            KDyn::Unit(u) => u.finalize(),
            KDyn::Pipe(p) => p.finalize(),
            #[cfg(feature = "or_sink")]
            KDyn::OrPipe(p) => p.finalize(),
            #[cfg(feature = "or_sink")]
            KDyn::OrUnit(p) => p.finalize(),
        }
    }
}

enum Sh {
    Leaf(usize),
    Src,
    Snk,
    Unit(Box<Sh>),
    Pipe(Box<Sh>, Box<Sh>),
    Or(Box<Sh>, Box<Sh>),
}

fn parse_shape(p: &mut P) -> Sh {
    if p.eat("L") {
        let st = p.i;
        while p.i < p.s.len() && p.s[p.i].is_ascii_digit() {
            p.i += 1;
        }
        Sh::Leaf(std::str::from_utf8(&p.s[st..p.i]).unwrap().parse().unwrap())
    } else if p.eat("S") {
        Sh::Src
    } else if p.eat("K") {
        Sh::Snk
    } else if p.eat("U(") {
        let i = parse_shape(p);
        p.expect(b')');
        Sh::Unit(Box::new(i))
    } else if p.eat("P(") {
        let a = parse_shape(p);
        p.expect(b',');
        let b = parse_shape(p);
        p.expect(b')');
        Sh::Pipe(Box::new(a), Box::new(b))
    } else if p.eat("O(") {
        let a = parse_shape(p);
        p.expect(b',');
        let b = parse_shape(p);
        p.expect(b')');
        Sh::Or(Box::new(a), Box::new(b))
    } else {
        panic!("harness: bad pipe shape")
    }
}

struct Parts {
    leaves: Vec<Option<Probe>>,
    source: Option<BoxSrc>,
    sink: Option<Box<dyn DynSink>>,
    alive: Rc<Cell<i64>>,
    seen: Rc<Cell<i64>>,
}

fn build_dyn(sh: &Sh, parts: &mut Parts) -> Dyn {
    match sh {
        Sh::Leaf(i) => Dyn::Leaf(parts.leaves[*i].take().expect("harness: leaf used twice")),
        Sh::Unit(i) => Dyn::Unit(Box::new(UnitPipe::new(build_dyn(i, parts)))),
        Sh::Pipe(a, b) => {
            let l = build_dyn(a, parts);
            let r = build_dyn(b, parts);
            Dyn::Pipe(Box::new(Pipe::new(l, r)))
        }
        Sh::Or(a, b) => {
            let l = build_dyn(a, parts);
            let r = build_dyn(b, parts);
            match l {
                Dyn::Pipe(p) => Dyn::OrPipe(Box::new(*p | r)),
                Dyn::Unit(u) => Dyn::OrUnit(Box::new(*u | r)),
                _ => panic!("harness: `|` needs a Pipe or UnitPipe on the left"),
            }
        }
        _ => panic!("harness: source/sink leaf inside a filter pipe"),
    }
}
fn build_sdyn(sh: &Sh, parts: &mut Parts) -> SDyn {
    match sh {
        Sh::Src => SDyn::Src(parts.source.take().expect("harness: no source")),
        Sh::Unit(i) => SDyn::Unit(Box::new(UnitPipe::new(build_sdyn(i, parts)))),
        Sh::Pipe(a, b) => {
            let l = build_sdyn(a, parts);
            let r = build_dyn(b, parts);
            SDyn::Pipe(Box::new(Pipe::new(l, r)))
        }
        Sh::Or(a, b) => {
            let l = build_sdyn(a, parts);
            let r = build_dyn(b, parts);
            #[cfg(feature = "or_source")]
            {
                match l {
                    SDyn::Pipe(p) => SDyn::OrPipe(Box::new(*p | r)),
                    SDyn::Unit(u) => SDyn::OrUnit(Box::new(*u | r)),
                    _ => panic!("harness: `|` needs a Pipe or UnitPipe on the left"),
                }
            }
            #[cfg(not(feature = "or_source"))]
            {
                SDyn::Pipe(Box::new(Pipe::new(l, r)))
            }
        }
        _ => panic!("harness: bad source pipe shape"),
    }
}
fn build_kdyn(sh: &Sh, parts: &mut Parts) -> KDyn {
    match sh {
        Sh::Snk => KDyn::Snk(SinkLeaf {
            inner: parts.sink.take().expect("harness: no sink"),
            alive: parts.alive.clone(),
            seen: parts.seen.clone(),
        }),
        Sh::Unit(i) => KDyn::Unit(Box::new(UnitPipe::new(build_kdyn(i, parts)))),
        Sh::Pipe(a, b) => {
            let l = build_dyn(a, parts);
            let r = build_kdyn(b, parts);
            KDyn::Pipe(Box::new(Pipe::new(l, r)))
        }
        Sh::Or(a, b) => {
            let l = build_dyn(a, parts);
            let r = build_kdyn(b, parts);
            #[cfg(feature = "or_sink")]
            {
                match l {
                    Dyn::Pipe(p) => KDyn::OrPipe(Box::new(*p | r)),
                    Dyn::Unit(u) => KDyn::OrUnit(Box::new(*u | r)),
                    _ => panic!("harness: `|` needs a Pipe or UnitPipe on the left"),
                }
            }
            #[cfg(not(feature = "or_sink"))]
            {
                KDyn::Pipe(Box::new(Pipe::new(l, r)))
            }
        }
        _ => panic!("harness: bad sink pipe shape"),
    }
}

enum PipeTop {
    F(Dyn),
    S(SDyn),
    K(Option<KDyn>),
    /// a statically typed pipe of zero-sized stages (zpipes.rs)
    Z(crate::zpipes::ZPipe, String),
    /// a statically typed, clonable pipe of stateful stages
    C(CPipe),
}
struct PipeInst {
    top: PipeTop,
    log: Log,
    /// operations replayed into a clone-free `finalize`: sinks are finalised by rebuilding
    fed: Vec<Q>,
    line: String,
    /// written by the sink leaf when it is finalised
    seen: Rc<Cell<i64>>,
    /// `seen` of the most recent `pfin` (the pipe is rebuilt afterwards)
    last_alive: Option<i64>,
}

// ---- the table --------------------------------------------------------------------------------

#[derive(Default)]
pub struct Other {
    srcs: HashMap<u32, SrcTop>,
    sinks: HashMap<u32, Box<dyn DynSink>>,
    pipes: HashMap<u32, PipeInst>,
}

fn id(s: &str) -> u32 {
    s.parse().expect("harness: bad instance id")
}

fn build_pipe(line: &str) -> PipeInst {
    let toks: Vec<&str> = line.split_whitespace().collect();
    let kv = filt::parse_kv(&toks[3..]);
    if let Some(name) = kv.get("static").filter(|n| n.starts_with('C')) {
        let log: Log = Rc::new(RefCell::new(Vec::new()));
        let c = CPipe::build(name, kv.get("shape").expect("harness: pipe without shape"), kv.get("leaves").expect("harness: no leaves"));
        return PipeInst { top: PipeTop::C(c), log, fed: Vec::new(), line: line.to_string(), seen: Rc::new(Cell::new(-1)), last_alive: None };
    }
    if let Some(name) = kv.get("static") {
        assert_eq!(toks[2..].join(" "), crate::zpipes::describe(name), "harness: static pipe described differently");
        let log: Log = Rc::new(RefCell::new(Vec::new()));
        return PipeInst {
            top: PipeTop::Z(crate::zpipes::build(name), name.to_string()),
            log,
            fed: Vec::new(),
            line: line.to_string(),
            seen: Rc::new(Cell::new(-1)),
            last_alive: None,
        };
    }
    let shape_s = kv.get("shape").expect("harness: pipe without shape");
    let mut p = P { s: shape_s.as_bytes(), i: 0 };
    let sh = parse_shape(&mut p);
    let leaves_s = kv.get("leaves").map(|s| s.as_str()).unwrap_or("-");
    let log: Log = Rc::new(RefCell::new(Vec::new()));
    let mut leaves = Vec::new();
    let alive = Rc::new(Cell::new(0i64));
    let seen = Rc::new(Cell::new(-1i64));
    if leaves_s != "-" {
        for (idx, l) in leaves_s.split('|').enumerate() {
            let parts: Vec<&str> = l.split(';').collect();
            let lkv = filt::parse_kv(&parts[1..]);
            log.borrow_mut().push(Vec::new());
            let q = |k: &str| Q::from_val(parse_val(lkv.get(k).expect("harness: missing stage parameter")));
            let inner = match parts[0] {
                "p_acc" => ProbeInner::Own(OwnStage::Acc { sum: Q::int(0), a: q("a") }),
                "p_affine" => ProbeInner::Own(OwnStage::Affine { a: q("a"), b: q("b") }),
                "p_lag" => ProbeInner::Own(OwnStage::Lag { prev: q("init") }),
                "p_max" => ProbeInner::Own(OwnStage::RunMax { m: None }),
                "p_side" => ProbeInner::Own(parse_own_stage(l)),
                kind => ProbeInner::Lib(filt::build(kind, &lkv)),
            };
            alive.set(alive.get() + 1);
            leaves.push(Some(Probe { inner, idx, log: log.clone(), alive: alive.clone() }));
        }
    }
    let mut parts = Parts {
        leaves,
        source: kv.get("source").map(|s| parse_src(s)),
        sink: kv.get("sink").map(|s| build_sink(s).expect("harness: unknown sink kind")),
        alive,
        seen: seen.clone(),
    };
    let top = if parts.source.is_some() {
        PipeTop::S(build_sdyn(&sh, &mut parts))
    } else if parts.sink.is_some() {
        PipeTop::K(Some(build_kdyn(&sh, &mut parts)))
    } else {
        PipeTop::F(build_dyn(&sh, &mut parts))
    };
    PipeInst { top, log, fed: Vec::new(), line: line.to_string(), seen, last_alive: None }
}

impl Other {
    pub fn clear(&mut self) {
        self.srcs.clear();
        self.sinks.clear();
        self.pipes.clear();
    }

    /// `Some(result)` if the line is one of this module's operations
    pub fn exec(&mut self, toks: &[&str], line: &str) -> Option<String> {
        match toks[0] {
            "new" if toks.len() >= 3 => match toks[2] {
                "src" => {
                    self.srcs.insert(id(toks[1]), SrcTop::Plain(parse_src(toks[3])));
                    Some("ok".into())
                }
                "peek" => {
                    self.srcs.insert(id(toks[1]), SrcTop::Peek(sources::peek::Peek::from(parse_src(toks[3]))));
                    Some("ok".into())
                }
                "scache" => {
                    self.srcs.insert(id(toks[1]), SrcTop::Cache(sources::cache::Cache::from(parse_src(toks[3]))));
                    Some("ok".into())
                }
                "pipe" => {
                    self.pipes.insert(id(toks[1]), build_pipe(line));
                    Some("ok".into())
                }
                k => build_sink(k).map(|s| {
                    self.sinks.insert(id(toks[1]), s);
                    "ok".to_string()
                }),
            },
            // an observation for the model driver only: it compares the answers the two sources gave last
            "ssame" | "ksame" | "plong" => Some("ok".into()),
            // `sclone a b`: b = a.clone() (the whole source, a pending look-ahead or cached item included)
            "sclone" => {
                let copy = match self.srcs.get(&id(toks[1])).expect("harness: unknown source id") {
                    SrcTop::Plain(b) => SrcTop::Plain(b.clone()),
                    SrcTop::Peek(p) => SrcTop::Peek(p.clone()),
                    SrcTop::Cache(c) => SrcTop::Cache(c.clone()),
                };
                self.srcs.insert(id(toks[2]), copy);
                Some("ok".into())
            }
            "sclonefrom" => {
                // `a.clone_from(&b)` on the concrete source types (both built from the same expression)
                let src = match self.srcs.get(&id(toks[2])).expect("harness: unknown source id") {
                    SrcTop::Plain(b) => SrcTop::Plain(b.clone()),
                    SrcTop::Peek(p) => SrcTop::Peek(p.clone()),
                    SrcTop::Cache(c) => SrcTop::Cache(c.clone()),
                };
                let dst = self.srcs.get_mut(&id(toks[1])).expect("harness: unknown source id");
                match (dst, &src) {
                    (SrcTop::Plain(a), SrcTop::Plain(b)) => {
                        let ok = a.0.clone_from_dyn(&*b.0);
                        assert!(ok, "harness: sclonefrom between sources of different types");
                    }
                    (SrcTop::Peek(a), SrcTop::Peek(b)) => a.clone_from(b),
                    (SrcTop::Cache(a), SrcTop::Cache(b)) => a.clone_from(b),
                    _ => panic!("harness: sclonefrom between sources of different kinds"),
                }
                Some("ok".into())
            }
            "pull" => {
                let s = self.srcs.get_mut(&id(toks[1])).expect("harness: unknown source id");
                Some(match s {
                    SrcTop::Plain(b) => b.source().r(),
                    SrcTop::Peek(p) => p.source().r(),
                    SrcTop::Cache(c) => c.source().r(),
                })
            }
            "peek" => match self.srcs.get_mut(&id(toks[1])).expect("harness: unknown source id") {
                SrcTop::Peek(p) => Some(p.peek().cloned().r()),
                _ => panic!("harness: peek on a source without Peek"),
            },
            "cached" => match self.srcs.get(&id(toks[1])).expect("harness: unknown source id") {
                SrcTop::Cache(c) => Some(c.cached().cloned().r()),
                _ => panic!("harness: cached on a source without Cache"),
            },
            "sink" => {
                let x = parse_val(toks[2]);
                self.sinks.get_mut(&id(toks[1])).expect("harness: unknown sink id").sink(x);
                Some("ok".into())
            }
            "ff" => {
                let x = parse_val(toks[2]);
                Some(self.sinks.get_mut(&id(toks[1])).expect("harness: unknown sink id").ff(x))
            }
            "fin" => Some(self.sinks[&id(toks[1])].fin()),
            // `kagree a b <clause>`: what the combined statistics sink `a` and the mean-variance sink `b` finalise to, side
            // by side (both have received the same samples)
            "kagree" => Some(format!("{} | {}", self.sinks[&id(toks[1])].fin(), self.sinks[&id(toks[2])].fin())),
            // copies of a sink: `kclone a b` (b = a.clone()), `kclonefrom a b` (a.clone_from(&b))
            "kclone" => {
                let c = self.sinks[&id(toks[1])].clone_box();
                self.sinks.insert(id(toks[2]), c);
                Some("ok".into())
            }
            "kclonefrom" => {
                let src = self.sinks[&id(toks[2])].clone_box();
                let ok = self.sinks.get_mut(&id(toks[1])).expect("harness: unknown sink id").clone_from_dyn(&*src);
                assert!(ok, "harness: kclonefrom between different sink types");
                Some("ok".into())
            }
            "pf" => {
                let x = Q::from_val(parse_val(toks[2]));
                match &mut self.pipes.get_mut(&id(toks[1])).expect("harness: unknown pipe id").top {
                    PipeTop::F(d) => Some(d.filter(x).r()),
                    PipeTop::Z(z, _) => Some(z.filter(x).r()),
                    PipeTop::C(c) => Some(c.filter(x).r()),
                    _ => panic!("harness: pf on a non-filter pipe"),
                }
            }
            // copies of statically typed pipes: `pclone a b` (b = a.clone()), `pclonefrom a b` (a.clone_from(&b))
            "pclone" | "pclonefrom" => {
                let (a, b) = (id(toks[1]), id(toks[2]));
                let before = STAGE_CLONES.with(|c| c.get());
                let mut counted = 0;
                if toks[0] == "pclone" {
                    let copy = match &self.pipes[&a].top {
                        PipeTop::C(c) => c.clone(),
                        _ => panic!("harness: pclone of a pipe that is not clonable"),
                    };
                    counted = STAGE_CLONES.with(|c| c.get()) - before;
                    let line = self.pipes[&a].line.clone();
                    self.pipes.insert(
                        b,
                        PipeInst { top: PipeTop::C(copy), log: Rc::new(RefCell::new(Vec::new())), fed: Vec::new(), line, seen: Rc::new(Cell::new(-1)), last_alive: None },
                    );
                } else {
                    let src = match &self.pipes[&b].top {
                        PipeTop::C(c) => c.clone(),
                        _ => panic!("harness: pclonefrom a pipe that is not clonable"),
                    };
                    let before2 = STAGE_CLONES.with(|c| c.get());
                    match &mut self.pipes.get_mut(&a).expect("harness: unknown pipe id").top {
                        PipeTop::C(c) => c.clone_from_pipe(&src),
                        _ => panic!("harness: pclonefrom into a pipe that is not clonable"),
                    }
                    counted = STAGE_CLONES.with(|c| c.get()) - before2;
                }
                let _ = before;
                Some(format!("clones={}", counted))
            }
            "ppull" => match &mut self.pipes.get_mut(&id(toks[1])).expect("harness: unknown pipe id").top {
                PipeTop::S(d) => Some(d.source().r()),
                PipeTop::Z(z, _) => Some(z.source().r()),
                _ => panic!("harness: ppull on a non-source pipe"),
            },
            "psink" => {
                let x = Q::from_val(parse_val(toks[2]));
                let p = self.pipes.get_mut(&id(toks[1])).expect("harness: unknown pipe id");
                p.fed.push(x);
                match &mut p.top {
                    PipeTop::K(Some(d)) => {
                        d.sink(x);
                        Some("ok".into())
                    }
                    PipeTop::Z(z, _) => {
                        z.sink(x);
                        Some("ok".into())
                    }
                    _ => panic!("harness: psink on a non-sink pipe"),
                }
            }
            "pfin" => {
                // `finalize` consumes the pipe; afterwards rebuild it and feed it the same samples again
                let i = id(toks[1]);
                let (line, fed) = {
                    let p = &self.pipes[&i];
                    (p.line.clone(), p.fed.clone())
                };
                let p = self.pipes.get_mut(&i).unwrap();
                let r = match &mut p.top {
                    PipeTop::K(d) => d.take().expect("harness: pipe already finalised").finalize(),
                    PipeTop::Z(z, _) => z.finalize(),
                    _ => panic!("harness: pfin on a non-sink pipe"),
                };
                let seen_now = p.seen.get();
                let mut again = build_pipe(&line);
                again.last_alive = Some(seen_now);
                if let PipeTop::K(Some(d)) = &mut again.top {
                    for x in &fed {
                        d.sink(*x);
                    }
                }
                if let PipeTop::Z(z, _) = &mut again.top {
                    for x in &fed {
                        z.sink(*x);
                    }
                }
                again.fed = fed;
                self.pipes.insert(i, again);
                Some(r)
            }
            // how many of the pipe's stages existed when its sink was finalised by the most recent `pfin`
            "palive" => Some(match self.pipes[&id(toks[1])].last_alive {
                Some(n) => format!("{}", n),
                None => "none".to_string(),
            }),
            "plog" => {
                let p = &self.pipes[&id(toks[1])];
                if let PipeTop::Z(_, name) = &p.top {
                    return Some(crate::zpipes::log(crate::zpipes::stages(name)));
                }
                let logs = p.log.borrow();
                if logs.is_empty() {
                    return Some("-".into());
                }
                Some(logs.iter().map(|l| render_list(l.iter())).collect::<Vec<_>>().join(" | "))
            }
            _ => None,
        }
    }
}
