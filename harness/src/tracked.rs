//! C19: an instrumented sample type. Every value registers itself in a global ledger when it is created
//! (constructed, cloned, or produced by arithmetic) and removes itself when dropped; a drop of an id that
//! is not live (double drop, drop of garbage) is recorded as an error instead of crashing.
use crate::q::Q;
use num_traits::{Num, One, Zero};
use std::cell::RefCell;
use std::collections::HashSet;
use std::ops::{Add, Div, Mul, Rem, Sub};

#[derive(Default)]
pub struct Ledger {
    live: HashSet<u64>,
    next: u64,
    pub created: u64,
    pub cloned: u64,
    pub dropped: u64,
    pub errors: u64,
}

thread_local! {
    static LEDGER: RefCell<Ledger> = RefCell::new(Ledger::default());
}

pub fn reset_ledger() {
    LEDGER.with(|l| *l.borrow_mut() = Ledger::default());
}
/// (live values, errors, created, cloned, dropped)
pub fn snapshot() -> (usize, u64, u64, u64, u64) {
    LEDGER.with(|l| {
        let l = l.borrow();
        (l.live.len(), l.errors, l.created, l.cloned, l.dropped)
    })
}

pub struct Tracked {
    pub q: Q,
    id: u64,
    /// always `true` in a real value. A `bool` gives the type a niche: `Option<Tracked>::None` is then NOT the all-zero
    /// bit pattern, as for any sample type with a `bool`, `char` or field-less enum inside — memory that is merely
    /// zeroed does not read as "no sample" but as a phantom sample that nobody constructed
    real: bool,
    /// under Miri every value also owns a heap cell, so that a double drop or a use after drop is undefined behaviour
    /// that the interpreter reports (natively the ledger does the counting without risking a crash)
    #[cfg(miri)]
    _cell: Box<u8>,
}

impl Tracked {
    pub fn new(q: Q) -> Tracked {
        let id = LEDGER.with(|l| {
            let mut l = l.borrow_mut();
            l.next += 1;
            l.created += 1;
            let id = l.next;
            l.live.insert(id);
            id
        });
        Tracked {
            q,
            id,
            real: true,
            #[cfg(miri)]
            _cell: Box::new(0),
        }
    }
}
impl Clone for Tracked {
    fn clone(&self) -> Tracked {
        tick("clone");
        let id = LEDGER.with(|l| {
            let mut l = l.borrow_mut();
            if !l.live.contains(&self.id) {
                l.errors += 1; // clone of a value that is not live: read after drop / before initialisation
            }
            l.next += 1;
            l.cloned += 1;
            let id = l.next;
            l.live.insert(id);
            id
        });
        Tracked {
            q: self.q,
            id,
            real: self.real,
            #[cfg(miri)]
            _cell: Box::new(0),
        }
    }
}
impl Drop for Tracked {
    fn drop(&mut self) {
        // the thread-local may already be gone at thread exit; nothing is tracked then
        let _ = LEDGER.try_with(|l| {
            let mut l = l.borrow_mut();
            l.dropped += 1;
            if !l.live.remove(&self.id) || !self.real {
                l.errors += 1;
            }
        });
    }
}
impl std::fmt::Debug for Tracked {
    fn fmt(&self, f: &mut std::fmt::Formatter) -> std::fmt::Result {
        write!(f, "{}#{}", self.q, self.id)
    }
}
impl PartialEq for Tracked {
    fn eq(&self, o: &Tracked) -> bool {
        self.q == o.q
    }
}
thread_local! {
    /// `Some(k)`: the k-th operation of the sample type from now on panics — an order comparison (an ordered float that
    /// rejects NaN), a `clone` (allocation failure of a heap-backed sample), an arithmetic operation (overflow of a
    /// checked number type); the budget disarms itself when it fires
    static OP_BUDGET: std::cell::Cell<Option<u64>> = std::cell::Cell::new(None);
    static OP_FIRED: std::cell::Cell<bool> = std::cell::Cell::new(false);
}
pub fn set_cmp_budget(b: Option<u64>) {
    OP_BUDGET.with(|c| c.set(b));
    OP_FIRED.with(|c| c.set(false));
}
pub fn cmp_budget_fired() -> bool {
    OP_FIRED.with(|c| c.get())
}
/// one operation of the sample type that user code could fail in
fn tick(what: &str) {
    let fire = OP_BUDGET.with(|c| match c.get() {
        Some(n) if n <= 1 => {
            c.set(None);
            true
        }
        Some(n) => {
            c.set(Some(n - 1));
            false
        }
        None => false,
    });
    if fire {
        OP_FIRED.with(|c| c.set(true));
        panic!("sample {} failed (operation budget of the instrumented sample type)", what);
    }
}
impl PartialOrd for Tracked {
    fn partial_cmp(&self, o: &Tracked) -> Option<std::cmp::Ordering> {
        tick("comparison");
        self.q.partial_cmp(&o.q)
    }
}
macro_rules! arith {
    ($tr:ident, $m:ident) => {
        impl $tr for Tracked {
            type Output = Tracked;
            fn $m(self, o: Tracked) -> Tracked {
                tick("arithmetic");
                Tracked::new($tr::$m(self.q, o.q))
            }
        }
    };
}
arith!(Add, add);
arith!(Sub, sub);
arith!(Mul, mul);
arith!(Div, div);
arith!(Rem, rem);
impl Zero for Tracked {
    fn zero() -> Tracked {
        Tracked::new(Q::zero())
    }
    fn is_zero(&self) -> bool {
        self.q.is_zero()
    }
}
impl One for Tracked {
    fn one() -> Tracked {
        Tracked::new(Q::one())
    }
}
impl Num for Tracked {
    type FromStrRadixErr = ();
    fn from_str_radix(_s: &str, _r: u32) -> Result<Tracked, ()> {
        Err(())
    }
}
