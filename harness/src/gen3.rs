//! Generators for the float-only code: Hampel (C18), Savitzky-Golay presets (C05), Daubechies presets (C07),
//! and for the ownership ledger (C19).
use crate::gen::{all_seqs, Case, Tier};
use crate::interp::Interp;
use crate::prng::Rng;

fn b64(x: f64) -> String {
    format!("x{:016x}", x.to_bits())
}
fn b32(x: f32) -> String {
    format!("y{:08x}", x.to_bits())
}
fn fb(t: &str, x: f64) -> String {
    if t == "f64" { b64(x) } else { b32(x as f32) }
}

fn float_value(rng: &mut Rng) -> f64 {
    if rng.chance(1, 40) {
        // the ends of the float range: infinities, huge and tiny magnitudes, a subnormal
        return *rng.pick(&[f64::INFINITY, f64::NEG_INFINITY, 1e300, -1e300, 1e-300, 5e-324, f64::MAX, 3.0e38, 1.0e-40]);
    }
    match rng.below(6) {
        0 | 1 => rng.range(-32, 32) as f64 / 8.0,               // small dyadics, many ties
        2 => rng.range(-3, 3) as f64,
        3 => (rng.range(-1_000_000, 1_000_000) as f64) / 1000.0, // decimals (inexact)
        4 => {
            // a gross outlier
            let s = if rng.chance(1, 2) { 1.0 } else { -1.0 };
            s * (100.0 + rng.range(0, 1000) as f64)
        }
        _ => (rng.next() as f64 / u64::MAX as f64) * 20.0 - 10.0,
    }
}

/// a sample lying exactly on (or one rounding step beside) the Hampel decision bound for the window `win`:
/// median +- threshold * 1.4826 * spread, computed in the sample type's own arithmetic and operation order
fn on_the_bound(rng: &mut Rng, t: &str, win: &[f64], thr: f64) -> f64 {
    let mut sorted: Vec<f64> = win.iter().copied().filter(|v| !v.is_nan()).collect();
    if sorted.is_empty() {
        return 0.0;
    }
    sorted.sort_by(|a, b| a.partial_cmp(b).unwrap());
    let med = sorted[(sorted.len() - 1) / 2];
    let last = *win.last().unwrap();
    let spread = match rng.below(3) {
        0 => med - sorted[0],
        1 => (last - med).abs(),
        _ => (med - sorted[0]).max(sorted[sorted.len() - 1] - med),
    };
    let sign = if rng.chance(1, 2) { 1.0 } else { -1.0 };
    let x = if t == "f64" {
        med + sign * ((spread * 1.4826f64) * thr)
    } else {
        (med as f32 + sign as f32 * ((spread as f32 * 1.4826f32) * thr as f32)) as f64
    };
    match rng.below(6) {
        0 => x + sign * x.abs() * 1e-7, // just outside
        1 => x - sign * x.abs() * 1e-7, // just inside
        _ => x,
    }
}

/// C18
pub fn gen_hampel(rng: &mut Rng, tier: &Tier) -> Vec<Case> {
    let mut cases = Vec::new();
    let thresholds = [0.0, 0.5, 1.0, 2.0, 3.0];
    // exhaustive: {0, 1, 5}^6
    let alphabet = [0.0, 1.0, 5.0];
    for n in 1..=(if tier.thorough { 5 } else { 3 }) {
        for thr in [0.0, 1.0, 3.0] {
            for s in all_seqs(3, if tier.thorough { 7 } else { 6 }) {
                let mut c = vec![format!("new 1 hampel N={} thr={} T=f64", n, b64(thr))];
                c.extend(s.iter().map(|i| format!("f 1 {}", b64(alphabet[*i as usize]))));
                cases.push(c);
            }
        }
    }
    for t in ["f64", "f32"] {
        for n in 1..=9usize {
            for _ in 0..tier.n(40, 600) {
                let thr = *rng.pick(&thresholds);
                let mut c = vec![format!("new 1 hampel N={} thr={} T={}", n, fb(t, thr), t), "cfg 1".to_string()];
                // mostly slowly varying signal with outliers
                let base = float_value(rng);
                let dyadic = rng.chance(1, 2);
                let mut win: Vec<f64> = Vec::new(); // the raw samples in the window, oldest first
                for _ in 0..rng.range(1, 3 * n as i64 + 4) {
                    let mut x = match rng.below(5) {
                        0 => float_value(rng),
                        1 => base,
                        2 if !win.is_empty() && thr > 0.0 => on_the_bound(rng, t, &win, thr),
                        _ if dyadic => rng.range(-4, 4) as f64,
                        _ => base + rng.range(-8, 8) as f64 / 8.0,
                    };
                    if rng.chance(1, 60) {
                        x = if rng.chance(1, 2) { -0.0 } else { f64::NAN };
                    }
                    if t == "f32" {
                        x = x as f32 as f64;
                    }
                    c.push(format!("f 1 {}", fb(t, x)));
                    win.push(x);
                    if win.len() > n {
                        win.remove(0);
                    }
                }
                cases.push(c);
            }
        }
        // the same kind of signal at every scale: small integers with gross outliers, multiplied by a power of two (exact,
        // so every clause scales with it) from near the bottom to near the top of the normal range — squares, products
        // and sums that stay in range at unit scale need not do so there
        let (lo, hi) = if t == "f32" { (-84, 95) } else { (-900, 900) };
        for _ in 0..tier.n(120, 1500) {
            let n = rng.range(1, 9) as usize;
            let thr = *rng.pick(&thresholds);
            let scale = 2f64.powi(rng.range(lo, hi) as i32);
            let mut c = vec![format!("new 1 hampel N={} thr={} T={}", n, fb(t, thr), t)];
            for _ in 0..rng.range(2, 3 * n as i64 + 4) {
                let x = match rng.below(6) {
                    0 => rng.range(-4, 4) as f64 * rng.range(8, 1000) as f64,
                    _ => rng.range(-4, 4) as f64,
                };
                c.push(format!("f 1 {}", fb(t, x * scale)));
            }
            cases.push(c);
        }
        // one long run (more samples than a 16-bit counter can count)
        if t == "f64" {
            let n = rng.range(2, 6) as usize;
            let mut c = vec![format!("new 1 hampel N={} thr={} T={}", n, fb(t, 2.0), t), "long 1 1024".to_string()];
            for _ in 0..crate::gen::LONG_RUN {
                let x = if rng.chance(1, 9) { rng.range(-400, 400) as f64 } else { rng.range(-4, 4) as f64 };
                c.push(format!("f 1 {}", fb(t, x)));
            }
            cases.push(c);
        }
        // "any sample differing from a constant window is replaced", however little it differs: a constant window, then
        // one sample a tiny (or a huge) step away
        for _ in 0..tier.n(60, 600) {
            let n = rng.range(1, 9) as usize;
            // ... whatever the threshold, the largest finite ones included (the bound is threshold x 0 there)
            let top = if t == "f32" { f32::MAX as f64 } else { f64::MAX };
            let thr = if rng.chance(1, 3) { *rng.pick(&[top, top / 4.0 * 3.0, top / 1024.0, 2f64.powi(100), 2f64.powi(-100)]) } else { *rng.pick(&thresholds) };
            let mut c = vec![format!("new 1 hampel N={} thr={} T={}", n, fb(t, thr), t)];
            let (level, step) = if rng.chance(1, 2) {
                (0.0, 2f64.powi(rng.range(lo, hi) as i32) * if rng.chance(1, 2) { 1.0 } else { -1.0 })
            } else {
                let l = 2f64.powi(rng.range(lo, hi - 2) as i32);
                (l, l * *rng.pick(&[2.0, 0.5, -1.0, 1.5]))
            };
            for _ in 0..rng.range(n as i64, n as i64 + 3) {
                c.push(format!("f 1 {}", fb(t, level)));
            }
            c.push(format!("f 1 {}", fb(t, step)));
            c.push(format!("f 1 {}", fb(t, level)));
            cases.push(c);
        }
    }
    cases
}

/// C05 (presets): Savitzky-Golay filters on ramps, constants and random signals
pub fn gen_sg(rng: &mut Rng, tier: &Tier) -> Vec<Case> {
    let mut cases = Vec::new();
    for t in ["f64", "f32"] {
        for w in 1..=13usize {
            for _ in 0..tier.n(6, 60) {
                let mut c = vec![format!("new 1 sg W={} T={}", w, t), "cfg 1".to_string()];
                let a = rng.range(-40, 40) as f64 / 4.0;
                let b = if rng.chance(1, 4) { 0.0 } else { rng.range(-16, 16) as f64 / 8.0 };
                let ramp = rng.chance(3, 4);
                for i in 0..(2 * w + 4) {
                    let x = if ramp { a + b * i as f64 } else { float_value(rng) };
                    c.push(format!("f 1 {}", fb(t, x)));
                }
                cases.push(c);
            }
        }
    }
    cases
}

/// C07: Daubechies analysis -> synthesis cascades
pub fn gen_daub(rng: &mut Rng, tier: &Tier) -> Vec<Case> {
    let mut cases = Vec::new();
    for t in ["f64", "f32"] {
        for o in (2..=20usize).step_by(2) {
            for shape in 0..tier.n(5, 40) {
                let mut it = Interp::default();
                let l1 = format!("new 1 daub_analyze O={} T={}", o, t);
                let l2 = format!("new 2 daub_synth O={} T={} src=1", o, t);
                let mut trace = Vec::new();
                let mut alive = crate::gen::try_exec(&mut it, &l1, &mut trace).is_some();
                let mut c = vec![l1, l2, "cfg 1".to_string(), "cfg 2".to_string()];
                let len = 3 * o + 4;
                // a third of the cases continue after a reset (or a copy) of both filters with a second, different
                // signal: a reset cascade is a fresh cascade
                let second = if rng.chance(1, 3) { *rng.pick(&["reset", "clone", "gutsrt"]) } else { "" };
                for i in 0..(if second.is_empty() { len } else { 2 * len }) {
                    if i == len {
                        if !alive {
                            break;
                        }
                        let ok = match second {
                            "reset" => {
                                c.push("reset 1".into());
                                c.push("reset 2".into());
                                crate::gen::try_exec(&mut it, "reset 1", &mut trace).is_some()
                            }
                            op => {
                                // both filters are replaced by their copies, which carry on
                                c.push(format!("{} 1 3", op));
                                c.push(format!("{} 2 4", op));
                                true
                            }
                        };
                        if !ok {
                            break;
                        }
                    }
                    let (a, b) = if i >= len && second != "reset" && !second.is_empty() { (3, 4) } else { (1, 2) };
                    let x = if i >= len { (rng.range(-1000, 1000) as f64) / 100.0 + 3.0 } else { match shape {
                        0 => if i == 0 { 1.0 } else { 0.0 },                    // impulse at the first sample (edge-extended!)
                        1 => if i == 2 { 1.0 } else { 0.0 },                    // impulse
                        2 => if i >= 3 { 1.0 } else { 0.0 },                    // step
                        3 => 2.5,                                               // constant
                        _ => (rng.range(-1000, 1000) as f64) / 100.0,           // bounded random
                    } };
                    let xs = fb(t, x);
                    // the synthesis filter is fed what the real analysis filter answers; once that one has panicked
                    // only the analysis side continues (and the run reports the panic)
                    let out = if alive { crate::gen::try_exec(&mut it, &format!("f 1 {}", xs), &mut trace) } else { None };
                    c.push(format!("f {} {}", a, xs));
                    match out {
                        Some(out) if out.split(' ').count() == 2 => c.push(format!("f {} {}", b, out)),
                        _ => alive = false,
                    }
                }
                cases.push(c);
            }
        }
    }
    // any pair of kernels over exact rationals ("for generic kernels, all sample values"): the analysis outputs are the
    // two convolutions of the input with the configured kernels, the synthesis output is the sum of the two convolutions
    // of its two inputs — zero coefficients, length 1 and lifecycle steps included
    for _ in 0..tier.n(80, 800) {
        let n = rng.range(1, 6) as usize;
        let kern = |rng: &mut Rng| -> String {
            (0..n).map(|_| if rng.chance(1, 4) { "0".to_string() } else { crate::gen::rat(rng) }).collect::<Vec<_>>().join(",")
        };
        let (lo, hi) = (kern(rng), kern(rng));
        let mut c = vec![
            format!("new 1 analyze low={} high={}", lo, hi),
            format!("new 2 synthesize low={} high={}", lo, hi),
            "cfg 1".to_string(),
            "cfg 2".to_string(),
        ];
        for i in 0..rng.range(2, 3 * n as i64 + 4) {
            c.push(format!("f 1 {}", crate::gen::rat(rng)));
            c.push(format!("f 2 {} {}", crate::gen::rat(rng), crate::gen::rat(rng)));
            if i == n as i64 && rng.chance(1, 2) {
                match rng.below(4) {
                    3 => {
                        // restarted in place: the states of the inner convolutions overwritten, through their own
                        // `state_mut`, with those of a pristine filter — afterwards a filter that has seen nothing
                        c.push("fresh 1 8".into());
                        c.push("fresh 2 9".into());
                        c.push("stset 1 8".into());
                        c.push("stset 2 9".into());
                    }
                    0 => {
                        c.push("reset 1".into());
                        c.push("reset 2".into());
                    }
                    1 => {
                        c.push("clone 1 1".into());
                        c.push("gutsrt 2 2".into());
                    }
                    _ => {
                        c.push("fresh 1 3".into());
                        c.push("clonefrom 3 1".into());
                        c.push("f 3 5".into());
                    }
                }
            }
        }
        c.push("cfg 1".into());
        cases.push(c);
    }
    // the same filters assembled by hand: two convolutions built with `from_guts` (kernel + tap ring at any fill level)
    // put into `Analyze::from_guts` / `Synthesize::from_guts`. With both rings full the history clauses apply (the
    // rings ARE the last N inputs, oldest first, and the kernels are the configured ones)
    for _ in 0..tier.n(60, 600) {
        let n = rng.range(1, 6) as usize;
        let kern = |rng: &mut Rng| -> String { (0..n).map(|_| crate::gen::rat(rng)).collect::<Vec<_>>().join(",") };
        let (lo, hi) = (kern(rng), kern(rng));
        let k = if rng.chance(2, 3) { n } else { rng.range(0, n as i64) as usize };
        let taps = |rng: &mut Rng, k: usize| -> String {
            if k == 0 { "-".to_string() } else { (0..k).map(|_| rng.range(-6, 6).to_string()).collect::<Vec<_>>().join(",") }
        };
        let t = taps(rng, k);
        let mut c = vec![
            format!("inject 1 analyze low={} high={} ltaps={} htaps={}", lo, hi, t, t),
            format!("inject 2 synthesize low={} high={} ltaps={} htaps={}", lo, hi, taps(rng, k), taps(rng, k)),
            "cfg 1".to_string(),
            "cfg 2".to_string(),
        ];
        for _ in 0..rng.range(1, 2 * n as i64 + 3) {
            c.push(format!("f 1 {}", rng.range(-6, 6)));
            c.push(format!("f 2 {} {}", rng.range(-6, 6), rng.range(-6, 6)));
        }
        cases.push(c);
    }
    cases
}

/// C19: op programs over the windowed filters instantiated at the instrumented sample type
pub fn gen_ownership(rng: &mut Rng, tier: &Tier) -> Vec<Case> {
    let mut cases = Vec::new();
    let kinds = ["median", "mean", "max", "min", "bounds", "convolve", "convolve_norm", "delay", "cache"];
    for kind in kinds {
        for _ in 0..tier.n(60, 800) {
            let n = rng.range(1, 6) as usize;
            let mk = |rng: &mut Rng, kind: &str| -> String {
                match kind {
                    "convolve" | "convolve_norm" => {
                        let c: Vec<String> = (0..n).map(|_| rng.range(-3, 3).to_string()).collect();
                        format!("{} c={} T=tracked", kind, c.join(","))
                    }
                    "delay" => format!("delay N={} T=tracked", rng.range(0, 5)),
                    k => format!("{} N={} T=tracked", k, n),
                }
            };
            let first = if kind == "cache" {
                let inner = *rng.pick(&["median", "mean", "max", "bounds", "delay"]);
                format!("cache inner={}", mk(rng, inner))
            } else {
                mk(rng, kind)
            };
            // a third of the ring-buffer filters start from a state filled by hand to any level and re-injected through
            // `from_guts` (what the public state allows): every tap given is owned, none may be lost or dropped twice
            let injected = (kind == "convolve" || kind == "delay" || kind == "mean") && rng.chance(1, 3);
            let start = if injected {
                let cap = if kind == "delay" { rng.range(1, 5) as usize } else { n };
                let k = rng.range(0, cap as i64) as usize;
                let taps: Vec<String> = (0..k).map(|_| rng.range(-4, 4).to_string()).collect();
                let taps = if taps.is_empty() { "-".to_string() } else { taps.join(",") };
                match kind {
                    "convolve" => {
                        let c: Vec<String> = (0..n).map(|_| rng.range(-3, 3).to_string()).collect();
                        format!("inject 1 convolve c={} taps={} T=tracked", c.join(","), taps)
                    }
                    "delay" => format!("inject 1 delay N={} taps={} T=tracked", cap, taps),
                    _ => format!(
                        "inject 1 mean N={} taps={} mean={} weight={} T=tracked",
                        n,
                        taps,
                        if rng.chance(1, 3) { "none".to_string() } else { rng.range(-9, 9).to_string() },
                        rng.range(1, 5)
                    ),
                }
            } else {
                format!("new 1 {}", first)
            };
            let mut c = vec![start, "live".to_string()];
            let mut ids: Vec<u32> = vec![1];
            let mut next = 2u32;
            for _ in 0..rng.range(3, if tier.thorough { 40 } else { 25 }) {
                let id = *rng.pick(&ids);
                match rng.below(12) {
                    0 => {
                        c.push(format!("clone {} {}", id, next));
                        ids.push(next);
                        next += 1;
                    }
                    1 => {
                        c.push(format!("gutsrt {} {}", id, next));
                        ids.push(next);
                        next += 1;
                    }
                    2 => c.push(format!("gutsrt {} {}", id, id)), // in place: extract and re-inject
                    3 => c.push(format!("reset {}", id)),
                    4 if ids.len() > 1 => {
                        c.push(format!("drop {}", id));
                        ids.retain(|x| *x != id);
                    }
                    5 => c.push(format!("sm {}", id)), // the state looked at through `state_mut`: nothing is cloned or dropped
                    6 if ids.len() > 1 => {
                        // `a.clone_from(&b)` between two live instances at whatever fill levels they have: what `a` held
                        // is dropped, what `b` holds is cloned
                        let other = *rng.pick(&ids);
                        if other != id {
                            c.push(format!("clonefrom {} {}", id, other));
                        }
                    }
                    _ => c.push(format!("f {} {}", id, rng.range(-4, 4))),
                }
                c.push("live".into());
            }
            for id in ids {
                c.push(format!("drop {}", id));
            }
            c.push("live".into());
            cases.push(c);
        }
    }
    // the deques of max / min with a clock about to run out (the public state re-injected with all time stamps shifted
    // towards `usize::MAX`): the rebase happens within the next few samples, over owned samples
    for kind in ["max", "min"] {
        let mut dq: Vec<Case> = Vec::new();
        crate::gen::deque_inject_cases(rng, tier, kind, &mut dq);
        for c in dq {
            if !c[0].starts_with("inject ") || !rng.chance(1, 3) {
                continue;
            }
            let mut v = vec![format!("{} T=tracked", c[0]), "live".to_string()];
            for l in c.iter().skip(1).filter(|l| l.starts_with("f ")) {
                v.push(l.clone());
                v.push("live".into());
                if rng.chance(1, 8) {
                    v.push("gutsrt 1 2".into());
                    v.push("drop 2".into());
                    v.push("live".into());
                }
            }
            v.push("drop 1".into());
            v.push("live".into());
            cases.push(v);
        }
    }
    // a sample type whose operations can fail (an ordered float that rejects NaN, a heap-backed number whose `clone`
    // cannot allocate, checked arithmetic): the k-th comparison / clone / arithmetic operation of one `filter` call
    // panics, the call is abandoned half-way, and whatever state the unwinding leaves must still own every sample
    // exactly once — at every fill level and every k
    for kind in ["median", "max", "min", "bounds", "cache", "mean", "convolve", "delay"] {
        for _ in 0..tier.n(40, 500) {
            let n = rng.range(1, 6) as usize;
            let first = match kind {
                "cache" => format!("cache inner=median N={} T=tracked", n),
                "convolve" => format!("convolve c={} T=tracked", (0..n).map(|_| rng.range(-3, 3).to_string()).collect::<Vec<_>>().join(",")),
                _ => format!("{} N={} T=tracked", kind, n),
            };
            let mut c = vec![format!("new 1 {}", first)];
            for _ in 0..rng.range(0, n as i64 + 2) {
                c.push(format!("f 1 {}", rng.range(-4, 4)));
            }
            let copy = rng.chance(1, 3);
            if copy {
                c.push((if rng.chance(1, 2) { "clone 1 2" } else { "gutsrt 1 2" }).to_string());
            }
            if rng.chance(1, 3) {
                // a clone of the filter interrupted by a panicking `T::clone` (the copies made so far must not leak)
                c.push(format!("clonep 1 {}", rng.range(1, n as i64 + 3)));
                c.push("live".into());
            }
            c.push(format!("fp 1 {} {}", rng.range(1, 3 * n as i64 + 4), rng.range(-4, 4)));
            c.push("live".into());
            if rng.chance(1, 3) {
                // (a second interrupted call on whatever the first one left behind)
                c.push(format!("fp 1 {} {}", rng.range(1, 3 * n as i64 + 4), rng.range(-4, 4)));
            }
            c.push("drop 1".into());
            c.push("live".into());
            if copy {
                c.push(format!("f 2 {}", rng.range(-4, 4)));
                c.push("drop 2".into());
                c.push("live".into());
            }
            cases.push(c);
        }
    }
    cases
}

/// a small ownership workload for the Miri run of C19's thorough tier (the interpreter is ~100x slower there)
pub fn gen_ownership_small(rng: &mut Rng) -> Vec<Case> {
    let mut cases = Vec::new();
    for kind in ["median", "mean", "max", "min", "bounds", "convolve", "delay"] {
        for n in [1usize, 2, 4] {
            // a second program per width: periodic samples (the new sample equals the one leaving the window), a
            // reset on a full window, more samples, a guts round trip, everything dropped
            let first = match kind {
                "convolve" => format!("convolve c={} T=tracked", vec!["1"; n].join(",")),
                k => format!("{} N={} T=tracked", k, n),
            };
            let mut c = vec![format!("new 1 {}", first)];
            for i in 0..(2 * n + 1) {
                c.push(format!("f 1 {}", (i % n) as i64));
            }
            c.push("reset 1".into());
            c.push("live".into());
            for i in 0..(n + 1) {
                c.push(format!("f 1 {}", i as i64));
            }
            c.push("gutsrt 1 2".into());
            c.push("f 2 7".into());
            c.push("drop 1".into());
            c.push("drop 2".into());
            c.push("live".into());
            cases.push(c);
        }
        for n in [1usize, 3] {
            let first = match kind {
                "convolve" => format!("convolve c={} T=tracked", vec!["1"; n].join(",")),
                k => format!("{} N={} T=tracked", k, n),
            };
            let mut c = vec![format!("new 1 {}", first)];
            for i in 0..(n + 2) {
                c.push(format!("f 1 {}", rng.range(-4, 4)));
                if i == n {
                    c.push("clone 1 2".into());
                    c.push("gutsrt 1 3".into());
                }
            }
            c.push("f 2 1".into());
            c.push("reset 3".into());
            c.push("f 3 2".into());
            c.push("live".into());
            c.push("drop 1".into());
            c.push("drop 2".into());
            c.push("drop 3".into());
            c.push("live".into());
            cases.push(c);
        }
        // `clone_from` between instances at different fill levels, in both directions
        {
            let first = match kind {
                "convolve" => "convolve c=1,1,1 T=tracked".to_string(),
                k => format!("{} N=3 T=tracked", k),
            };
            cases.push(vec![
                format!("new 1 {}", first),
                "f 1 1".into(),
                "f 1 2".into(),
                "fresh 1 2".into(),
                "f 2 5".into(),
                "clone 1 3".into(),
                "clonefrom 3 2".into(),
                "clonefrom 2 1".into(),
                "f 2 4".into(),
                "f 3 4".into(),
                "live".into(),
                "drop 1".into(),
                "drop 2".into(),
                "drop 3".into(),
                "live".into(),
            ]);
        }
        // the clock of a deque runs out over owned samples
        if kind == "max" || kind == "min" {
            let taps = if kind == "max" { "5:18446744073709551613,2:18446744073709551614" } else { "2:18446744073709551613,5:18446744073709551614" };
            cases.push(vec![
                format!("inject 1 {} N=3 time=18446744073709551615 taps={} hist={} T=tracked", kind, taps, if kind == "max" { "5,2" } else { "2,5" }),
                "f 1 3".into(),
                "f 1 7".into(),
                "f 1 -7".into(),
                "live".into(),
                "drop 1".into(),
                "live".into(),
            ]);
        }
        // a call abandoned by a panicking operation of the sample type, at every position
        {
            let mk = |n: usize| match kind {
                "convolve" => format!("convolve c={} T=tracked", vec!["1"; n].join(",")),
                k => format!("{} N={} T=tracked", k, n),
            };
            for k in 1..=6 {
                let mut c = vec![format!("new 1 {}", mk(3))];
                c.push("f 1 2".into());
                c.push("f 1 -1".into());
                c.push(format!("fp 1 {} 1", k));
                c.push("drop 1".into());
                c.push("live".into());
                cases.push(c);
            }
            cases.push(vec![format!("new 1 {}", mk(1)), "fp 1 1 3".into(), "drop 1".into(), "live".into()]);
            // a clone abandoned by a panicking `T::clone`, at every position
            for k in 1..=4 {
                cases.push(vec![
                    format!("new 1 {}", mk(3)), "f 1 2".into(), "f 1 -1".into(), "f 1 5".into(),
                    format!("clonep 1 {}", k), "live".into(), "drop 1".into(), "live".into(),
                ]);
            }
        }
    }
    cases
}

pub fn generate(prop: &str, rng: &mut Rng, tier: &Tier) -> Vec<Case> {
    match prop {
        "C18" => gen_hampel(rng, tier),
        "C05p" => gen_sg(rng, tier),
        "C07" => gen_daub(rng, tier),
        "C19" => gen_ownership(rng, tier),
        "C19m" => gen_ownership_small(rng),
        p => panic!("harness: no generator for property {}", p),
    }
}
