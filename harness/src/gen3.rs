//! Generators for presets (C05/C07 tables), Hampel (C18) and ownership (C19).
use crate::gen::{Case, Tier};
use crate::prng::Rng;

pub fn generate(prop: &str, _rng: &mut Rng, _tier: &Tier) -> Vec<Case> {
    panic!("harness: no generator for property {}", prop)
}
