//! Executes protocol operations against the real crates, one line at a time.
use crate::filt::{self, Inst};
use crate::val::*;
use std::cell::RefCell;
use std::collections::HashMap;
use std::panic::{catch_unwind, AssertUnwindSafe};

thread_local! {
    static LAST_PANIC: RefCell<String> = RefCell::new(String::new());
}

pub fn install_panic_hook() {
    std::panic::set_hook(Box::new(|info| {
        let msg = if let Some(s) = info.payload().downcast_ref::<&str>() {
            s.to_string()
        } else if let Some(s) = info.payload().downcast_ref::<String>() {
            s.clone()
        } else {
            "<non-string panic>".to_string()
        };
        let loc = info.location().map(|l| format!("{}:{}", l.file(), l.line())).unwrap_or_default();
        LAST_PANIC.with(|p| *p.borrow_mut() = format!("{} @ {}", msg, loc));
    }));
}

pub fn last_panic() -> String {
    LAST_PANIC.with(|p| p.borrow().clone())
}

#[derive(Default)]
pub struct Interp {
    insts: HashMap<u32, Box<dyn Inst>>,
    news: HashMap<u32, String>,
    last: HashMap<u32, String>,
    pub other: crate::other::Other,
}

fn id(s: &str) -> u32 {
    s.parse().expect("harness: bad instance id")
}

impl Interp {
    pub fn clear(&mut self) {
        self.insts.clear();
        self.news.clear();
        self.last.clear();
        self.other.clear();
        crate::tracked::reset_ledger();
        if let Ok(mut t) = TRACE.lock() {
            t.clear(); // a new case
        }
    }

    fn build_from_line(line: &str) -> Box<dyn Inst> {
        let toks: Vec<&str> = line.split_whitespace().collect();
        let kv = filt::parse_kv(&toks[3..]);
        match toks[0] {
            "new" => filt::build(toks[2], &kv),
            "inject" => filt::inject(toks[2], &kv),
            _ => panic!("harness: not a construction line"),
        }
    }

    fn exec_inner(&mut self, line: &str) -> String {
        let toks: Vec<&str> = line.split_whitespace().collect();
        if let Some(r) = self.other.exec(&toks, line) {
            return r;
        }
        match toks[0] {
            "new" | "inject" => {
                let i = id(toks[1]);
                self.insts.insert(i, Self::build_from_line(line));
                self.news.insert(i, line.to_string());
                self.last.remove(&i);
                "ok".to_string()
            }
            "f" => {
                let i = id(toks[1]);
                let args: Vec<Val> = toks[2..].iter().map(|s| parse_val(s)).collect();
                let r = self.insts.get_mut(&i).expect("harness: unknown id").f(&args);
                self.last.insert(i, r.clone());
                r
            }
            "fp" => {
                // `fp <id> <k> <x…>`: `filter` while the k-th operation (comparison, clone, arithmetic) of the instrumented sample type panics
                // (if the call makes fewer it is an ordinary `f`); the panic is contained here, the
                // instance survives in whatever state the unwinding left it
                let i = id(toks[1]);
                let k: u64 = toks[2].parse().expect("harness: bad operation budget");
                let args: Vec<Val> = toks[3..].iter().map(|s| parse_val(s)).collect();
                let inst = self.insts.get_mut(&i).expect("harness: unknown id");
                crate::tracked::set_cmp_budget(Some(k));
                let r = catch_unwind(AssertUnwindSafe(|| inst.f(&args)));
                let fired = crate::tracked::cmp_budget_fired();
                crate::tracked::set_cmp_budget(None);
                match r {
                    Ok(s) => {
                        self.last.insert(i, s.clone());
                        s
                    }
                    Err(_) if fired => {
                        self.last.remove(&i);
                        "panicked".to_string()
                    }
                    Err(e) => std::panic::resume_unwind(e),
                }
            }
            // a note for the model driver only (it keeps a bounded history from here on)
            "long" => "ok".to_string(),
            // `fi <id> <x…>`: feed the filter INSIDE a cache wrapper directly
            "fi" => {
                let i = id(toks[1]);
                let args: Vec<Val> = toks[2..].iter().map(|s| parse_val(s)).collect();
                self.insts.get_mut(&i).expect("harness: unknown id").feed_inner(&args)
            }
            // `sm <id>`: borrow the state through `StateMut::state_mut` as a reader would, and let go of it again
            "sm" => {
                self.insts.get_mut(&id(toks[1])).expect("harness: unknown id").poke();
                "ok".to_string()
            }
            "acc" => self.insts[&id(toks[1])].acc(toks[2]),
            "guts" => self.insts.get_mut(&id(toks[1])).expect("harness: unknown id").guts(toks[2]),
            "cfg" => self.insts.get_mut(&id(toks[1])).expect("harness: unknown id").cfg(),
            "reset" => {
                let i = id(toks[1]);
                let b = self.insts.remove(&i).expect("harness: unknown id");
                self.insts.insert(i, b.reset());
                self.last.remove(&i);
                "ok".to_string()
            }
            "clone" => {
                let (a, b) = (id(toks[1]), id(toks[2]));
                let c = self.insts[&a].clone_box();
                self.insts.insert(b, c);
                let n = self.news[&a].clone();
                self.news.insert(b, n);
                match self.last.get(&a).cloned() {
                    Some(l) => self.last.insert(b, l),
                    None => self.last.remove(&b),
                };
                "ok".to_string()
            }
            "clonefrom" => {
                // `a.clone_from(&b)`: afterwards `a` is a copy of `b` (both of the same concrete type)
                let (a, b) = (id(toks[1]), id(toks[2]));
                let src = self.insts[&b].clone_box();
                let ok = self.insts.get_mut(&a).expect("harness: unknown id").clone_from_inst(&*src);
                assert!(ok, "harness: clonefrom between different filter types");
                let n = self.news[&b].clone();
                self.news.insert(a, n);
                match self.last.get(&b).cloned() {
                    Some(l) => self.last.insert(a, l),
                    None => self.last.remove(&a),
                };
                "ok".to_string()
            }
            "stset" => {
                // `*a.state_mut() = <a copy of b's state>`: the state replaced in place, the object stays
                let (a, b) = (id(toks[1]), id(toks[2]));
                let src = self.insts[&b].clone_box();
                let ok = self.insts.get_mut(&a).expect("harness: unknown id").state_from_inst(&*src);
                assert!(ok, "harness: stset between different filter types");
                let n = self.news[&b].clone();
                self.news.insert(a, n);
                match self.last.get(&b).cloned() {
                    Some(l) => self.last.insert(a, l),
                    None => self.last.remove(&a),
                };
                "ok".to_string()
            }
            "clonep" => {
                // `clonep <id> <k>`: `Clone::clone` of the instance while the k-th operation of the instrumented sample type
                // panics; a copy that does come into being is dropped at once. The original is only borrowed
                let i = id(toks[1]);
                let k: u64 = toks[2].parse().expect("harness: bad operation budget");
                let inst = self.insts.get(&i).expect("harness: unknown id");
                crate::tracked::set_cmp_budget(Some(k));
                let r = catch_unwind(AssertUnwindSafe(|| drop(inst.clone_box())));
                let fired = crate::tracked::cmp_budget_fired();
                crate::tracked::set_cmp_budget(None);
                match r {
                    Ok(()) => "ok".to_string(),
                    Err(_) if fired => "panicked".to_string(),
                    Err(e) => std::panic::resume_unwind(e),
                }
            }
            "gutsrt" => {
                let (a, b) = (id(toks[1]), id(toks[2]));
                let c = self.insts[&a].gutsrt();
                self.insts.insert(b, c);
                let n = self.news[&a].clone();
                self.news.insert(b, n);
                match self.last.get(&a).cloned() {
                    Some(l) => self.last.insert(b, l),
                    None => self.last.remove(&b),
                };
                "ok".to_string()
            }
            "fresh" => {
                // a newly constructed instance with the same parameters as `a` was constructed with
                let (a, b) = (id(toks[1]), id(toks[2]));
                let n = self.news[&a].clone();
                assert!(n.starts_with("new "), "harness: fresh of an injected instance");
                self.insts.insert(b, Self::build_from_line(&n));
                self.news.insert(b, n);
                self.last.remove(&b);
                "ok".to_string()
            }
            "freshcfg" => {
                // a new instance built from the configuration `a` hands out (`with_config(a.config())`); kinds without a
                // configuration accessor: as `fresh`
                let (a, b) = (id(toks[1]), id(toks[2]));
                let n = self.news[&a].clone();
                assert!(n.starts_with("new "), "harness: freshcfg of an injected instance");
                let inst = match self.insts[&a].fresh_cfg() {
                    Some(i) => i,
                    None => Self::build_from_line(&n),
                };
                self.insts.insert(b, inst);
                self.news.insert(b, n);
                self.last.remove(&b);
                "ok".to_string()
            }
            "drop" => {
                let i = id(toks[1]);
                self.insts.remove(&i).expect("harness: unknown id");
                self.last.remove(&i);
                "ok".to_string()
            }
            "same" => {
                // same <a> <b> <clause-name> [component]
                let sel = |s: Option<&String>| -> String {
                    match s {
                        None => "PANIC".to_string(),
                        Some(s) => match toks.get(4) {
                            Some(k) => {
                                let k: usize = k.parse().expect("harness: bad component");
                                s.split_whitespace().nth(k).unwrap_or("-").to_string()
                            }
                            None => s.clone(),
                        },
                    }
                };
                format!("{} | {}", sel(self.last.get(&id(toks[1]))), sel(self.last.get(&id(toks[2]))))
            }
            "live" => {
                let (live, errors, _, _, _) = crate::tracked::snapshot();
                format!("live={} errors={}", live, errors)
            }
            "compose" => self.last.get(&id(toks[2])).cloned().unwrap_or_else(|| "none".to_string()),
            op => panic!("harness: unknown op {}", op),
        }
    }

    /// `Ok(result)`, `Err("PANIC")` for a panic of the code under test, `Err("OVERFLOW")` when the
    /// exact-rational type overflowed (case is discarded); harness errors abort the process.
    pub fn exec(&mut self, line: &str) -> Result<String, String> {
        use std::sync::atomic::Ordering::SeqCst;
        if let Ok(mut t) = TRACE.lock() {
            if t.len() > 400 {
                t.clear(); // keep the report short
            }
            t.push(line.to_string());
        }
        TICK.fetch_add(1, SeqCst);
        IN_EXEC.store(true, SeqCst);
        let r = self.exec_watched(line);
        IN_EXEC.store(false, SeqCst);
        r
    }

    fn exec_watched(&mut self, line: &str) -> Result<String, String> {
        match catch_unwind(AssertUnwindSafe(|| self.exec_inner(line))) {
            Ok(r) => Ok(r),
            Err(_) => {
                let msg = last_panic();
                if msg.contains("Q overflow") || msg.contains("harness-unsupported:") {
                    Err("OVERFLOW".to_string())
                } else if msg.contains("harness:") {
                    eprintln!("harness error on line [{}]: {}", line, msg);
                    std::process::exit(3);
                } else {
                    Err("PANIC".to_string())
                }
            }
        }
    }
}

/// run cases (each a list of op lines); returns the protocol text and statistics
pub struct RunStats {
    pub cases: usize,
    pub discarded: usize,
    pub ops: usize,
    pub panics: usize,
    pub panic_msgs: Vec<String>,
}

/// Watchdog: the code under test runs in-process (while cases are executed, and while a generator consults the real
/// filter), and a change that makes a filter loop for ever must not hang the check. Every `Interp::exec` records the
/// operations of the current case; a monitor thread exits the process with status 6 and the line
/// `HARNESS-HANG case=<n> ops=<op> ;; <op> …` when one call has not returned within `HANG_SECS`.
pub const HANG_SECS: u64 = 30;
static IN_EXEC: std::sync::atomic::AtomicBool = std::sync::atomic::AtomicBool::new(false);
static TICK: std::sync::atomic::AtomicU64 = std::sync::atomic::AtomicU64::new(0);
static CASE_NO: std::sync::atomic::AtomicU64 = std::sync::atomic::AtomicU64::new(0);
static TRACE: std::sync::Mutex<Vec<String>> = std::sync::Mutex::new(Vec::new());

pub fn start_watchdog() {
    use std::sync::atomic::Ordering::SeqCst;
    std::thread::spawn(|| {
        let (mut last_tick, mut stuck) = (u64::MAX, 0u64);
        loop {
            std::thread::sleep(std::time::Duration::from_secs(1));
            let t = TICK.load(SeqCst);
            if IN_EXEC.load(SeqCst) && t == last_tick {
                stuck += 1;
            } else {
                stuck = 0;
            }
            last_tick = t;
            if stuck >= HANG_SECS {
                // a generator's private instance runs many cases through one interpreter: report the last one
                let ops = TRACE
                    .lock()
                    .map(|t| {
                        let start = t.iter().rposition(|l| l.starts_with("new 1 ") || l.starts_with("inject 1 ")).unwrap_or(0);
                        t[start..].join(" ;; ")
                    })
                    .unwrap_or_default();
                println!("HARNESS-HANG case={} ops={}", CASE_NO.load(SeqCst), ops);
                std::process::exit(6);
            }
        }
    });
}

pub fn run_cases_watched(cases: Vec<Vec<String>>, first_case_no: usize) -> (String, RunStats) {
    run_cases_with(&cases, first_case_no, &|i| CASE_NO.store(i as u64 + 1, std::sync::atomic::Ordering::SeqCst))
}

pub fn run_cases(cases: &[Vec<String>], first_case_no: usize) -> (String, RunStats) {
    run_cases_with(cases, first_case_no, &|_| {})
}

fn run_cases_with(cases: &[Vec<String>], first_case_no: usize, heartbeat: &dyn Fn(usize)) -> (String, RunStats) {
    let mut out = String::new();
    let mut st = RunStats { cases: 0, discarded: 0, ops: 0, panics: 0, panic_msgs: vec![] };
    let mut it = Interp::default();
    let mut no = first_case_no;
    for (case_index, case) in cases.iter().enumerate() {
        heartbeat(case_index);
        it.clear();
        let mut buf = String::new();
        let mut n_ops = 0;
        let mut discard = false;
        for line in case {
            match it.exec(line) {
                Ok(r) => {
                    buf.push_str(&format!("{} => {}\n", line, r));
                    n_ops += 1;
                }
                Err(e) if e == "OVERFLOW" => {
                    discard = true;
                    break;
                }
                Err(e) => {
                    buf.push_str(&format!("{} => {}\n", line, e));
                    n_ops += 1;
                    st.panics += 1;
                    if st.panic_msgs.len() < 5 {
                        st.panic_msgs.push(format!("{} :: {}", line, last_panic()));
                    }
                    break;
                }
            }
        }
        if discard {
            st.discarded += 1;
            continue;
        }
        no += 1;
        out.push_str(&format!("case {}\n", no));
        out.push_str(&buf);
        st.cases += 1;
        st.ops += n_ops;
    }
    (out, st)
}
