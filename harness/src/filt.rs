//! Filter instances: every `signalo_filters` filter behind one object-safe interface,
//! built from the parameters of a `new` line. The real crates from /repo are linked by path.
use crate::q::Q;
use crate::val::*;
use signalo_filters::bounds::{max::Max, min::Min, Bounds};
use signalo_filters::cache::Cache;
use signalo_filters::classify::{
    debounce::{Config as DebounceConfig, Debounce},
    peaks::{Config as PeaksConfig, Peaks},
    schmitt::{Config as SchmittConfig, Schmitt},
    slopes::{Config as SlopesConfig, Slope, Slopes},
    threshold::{Config as ThresholdConfig, Threshold},
};
use signalo_filters::convolve::{Config as ConvolveConfig, Convolve};
use signalo_filters::delay::Delay;
use signalo_filters::differentiate::Differentiate;
use signalo_filters::integrate::Integrate;
use signalo_filters::mean::exp::mean::{Config as EmaConfig, Mean as Ema};
use signalo_filters::mean::exp::mean_variance::{Config as EmvConfig, MeanVariance as Emv};
use signalo_filters::mean::mean::Mean;
use signalo_filters::mean::mean_variance::MeanVariance;
use signalo_filters::median::exp::{Config as EmedConfig, Median as Emed};
use signalo_filters::median::Median;
use signalo_filters::observe::alpha_beta::{AlphaBeta, Config as AbConfig};
use signalo_filters::observe::kalman::{Config as KalmanConfig, Kalman};
use signalo_traits::{ConfigClone, ConfigRef, Filter, FromGuts, IntoGuts, Reset, StateMut, WithConfig};
use std::collections::HashMap;

/// instantiate `$body` with the const generic `$N` bound to the run-time width `$n`
#[macro_export]
macro_rules! with_n {
    ($n:expr, $N:ident => $body:expr) => {
        match $n {
            0 => { const $N: usize = 0; $body }
            1 => { const $N: usize = 1; $body }
            2 => { const $N: usize = 2; $body }
            3 => { const $N: usize = 3; $body }
            4 => { const $N: usize = 4; $body }
            5 => { const $N: usize = 5; $body }
            6 => { const $N: usize = 6; $body }
            7 => { const $N: usize = 7; $body }
            8 => { const $N: usize = 8; $body }
            9 => { const $N: usize = 9; $body }
            16 => { const $N: usize = 16; $body }
            n => panic!("harness: width {} is not instantiated", n),
        }
    };
}

/// a few widths beyond any small integer type's range (an index narrowed to `u8` works up to 256)
macro_rules! with_wide_n {
    ($n:expr, $N:ident => $body:expr) => {
        match $n {
            255 => { const $N: usize = 255; $body }
            256 => { const $N: usize = 256; $body }
            257 => { const $N: usize = 257; $body }
            300 => { const $N: usize = 300; $body }
            n => panic!("harness: wide width {} is not instantiated", n),
        }
    };
}

/// kernel lengths beyond any small block size
macro_rules! with_mid_n {
    ($n:expr, $N:ident => $body:expr) => {
        match $n {
            17 => { const $N: usize = 17; $body }
            20 => { const $N: usize = 20; $body }
            24 => { const $N: usize = 24; $body }
            33 => { const $N: usize = 33; $body }
            40 => { const $N: usize = 40; $body }
            n => panic!("harness: kernel length {} is not instantiated", n),
        }
    };
}

pub type KV = HashMap<String, String>;

pub fn parse_kv(toks: &[&str]) -> KV {
    toks.iter()
        .filter_map(|t| t.split_once('=').map(|(k, v)| (k.to_string(), v.to_string())))
        .collect()
}
fn kv_str<'a>(kv: &'a KV, k: &str) -> &'a str {
    kv.get(k).unwrap_or_else(|| panic!("harness: missing parameter {}", k))
}
fn kv_n(kv: &KV, k: &str) -> usize {
    kv_str(kv, k).parse().expect("harness: bad natural number")
}
fn kv_q(kv: &KV, k: &str) -> Q {
    Q::from_val(parse_val(kv_str(kv, k)))
}
fn kv_oq(kv: &KV, k: &str) -> Option<Q> {
    match kv_str(kv, k) {
        "none" => None,
        v => Some(Q::from_val(parse_val(v))),
    }
}
fn kv_qs(kv: &KV, k: &str) -> Vec<Q> {
    parse_vals(kv_str(kv, k)).into_iter().map(Q::from_val).collect()
}
fn arr<T: std::fmt::Debug, const N: usize>(v: Vec<T>) -> [T; N] {
    v.try_into().expect("harness: wrong number of elements")
}

/// the configuration as `ConfigClone::config()` and as `ConfigRef::config_ref()` report it: rendered once if they agree
macro_rules! cfg_both {
    ($s:expr, $c:ident => $e:expr) => {{
        let a = { let owned = $s.config(); let $c = &owned; $e };
        let b = { let $c = $s.config_ref(); $e };
        if a == b { a } else { format!("CONFIG-MISMATCH clone=[{}] ref=[{}]", a, b) }
    }};
}

/// object-safe view of a filter instance
pub trait Inst {
    fn f(&mut self, a: &[Val]) -> String;
    fn acc(&self, which: &str) -> String;
    fn guts(&mut self, field: &str) -> String;
    fn cfg(&mut self) -> String;
    fn poke(&mut self);
    fn feed_inner(&mut self, a: &[Val]) -> String;
    fn fresh_cfg(&self) -> Option<Box<dyn Inst>>;
    fn state_from_inst(&mut self, other: &dyn Inst) -> bool;
    fn reset(self: Box<Self>) -> Box<dyn Inst>;
    fn clone_box(&self) -> Box<dyn Inst>;
    fn gutsrt(&self) -> Box<dyn Inst>;
    fn as_any(&self) -> &dyn std::any::Any;
    /// `Clone::clone_from(self, other)`; `false` if `other` is not of the same concrete type
    fn clone_from_inst(&mut self, other: &dyn Inst) -> bool;
}

/// what the harness needs from a concrete filter type
pub trait FK: Clone + 'static {
    fn filt(&mut self, a: &[Val]) -> String;
    fn rst(self) -> Self;
    fn gutsrt_(&self) -> Self;
    fn acc_(&self, _which: &str) -> String {
        "unsupported".to_string()
    }
    /// state fields are read through `StateMut::state_mut` (a plain borrow), never through a clone, so that a
    /// defect in `Clone` does not disturb the checks of properties that do not speak about copies
    fn guts_(&mut self, _field: &str) -> String {
        "unsupported".to_string()
    }
    fn cfg_(&mut self) -> String {
        "-".to_string()
    }
    /// borrow the state through `StateMut::state_mut` and do nothing with it: the only way to look at a live filter's
    /// state; it must leave the filter exactly as it was
    fn poke_(&mut self) {}
    /// overwrite this instance's state in place, through `StateMut::state_mut`, with a copy of `o`'s state (kinds
    /// without `StateMut`: `clone_from`)
    fn state_from_(&mut self, o: &Self) {
        Clone::clone_from(self, o)
    }
    /// (composite filters) the states of the INNER filters written in place, each through its own `state_mut`
    fn state_from_nested_(&mut self, _o: &Self) -> bool {
        false
    }
    /// a new instance built from the configuration this one hands out: `with_config(self.config())` (kinds that have a
    /// configuration and the accessor)
    fn fresh_cfg_(&self) -> Option<Self> {
        None
    }
    /// (for the cache wrapper) feed the WRAPPED filter directly, not through the wrapper
    fn feed_inner_(&mut self, _a: &[Val]) -> String {
        "unsupported".to_string()
    }
    /// borrow the state of a cache wrapper around this kind through `StateMut::state_mut`
    fn poke_cache(_c: &mut Cache<Self, <Self as IO>::Out>)
    where
        Self: IO,
    {
    }
}

impl<K: FK> Inst for K {
    fn f(&mut self, a: &[Val]) -> String {
        self.filt(a)
    }
    fn acc(&self, which: &str) -> String {
        self.acc_(which)
    }
    fn guts(&mut self, field: &str) -> String {
        self.guts_(field)
    }
    fn cfg(&mut self) -> String {
        self.cfg_()
    }
    fn poke(&mut self) {
        self.poke_()
    }
    fn feed_inner(&mut self, a: &[Val]) -> String {
        self.feed_inner_(a)
    }
    fn fresh_cfg(&self) -> Option<Box<dyn Inst>> {
        self.fresh_cfg_().map(|f| Box::new(f) as Box<dyn Inst>)
    }
    fn state_from_inst(&mut self, other: &dyn Inst) -> bool {
        match other.as_any().downcast_ref::<K>() {
            Some(o) => {
                if !self.state_from_nested_(o) {
                    self.state_from_(o);
                }
                true
            }
            None => false,
        }
    }
    fn reset(self: Box<Self>) -> Box<dyn Inst> {
        Box::new((*self).rst())
    }
    fn clone_box(&self) -> Box<dyn Inst> {
        Box::new(self.clone())
    }
    fn as_any(&self) -> &dyn std::any::Any {
        self
    }
    fn clone_from_inst(&mut self, other: &dyn Inst) -> bool {
        match other.as_any().downcast_ref::<K>() {
            Some(o) => {
                Clone::clone_from(self, o);
                true
            }
            None => false,
        }
    }
    fn gutsrt(&self) -> Box<dyn Inst> {
        Box::new(self.gutsrt_())
    }
}

/// input / output types of the single `Filter` impl used for wrappers
pub trait IO {
    type In: FromArgs;
    type Out: Render + Clone + 'static;
}

macro_rules! fk_common {
    ($in:ty) => {
        fn filt(&mut self, a: &[Val]) -> String {
            let x: $in = FromArgs::from_args(a);
            Filter::filter(self, x).r()
        }
        fn rst(self) -> Self {
            Reset::reset(self)
        }
        fn gutsrt_(&self) -> Self {
            FromGuts::from_guts(IntoGuts::into_guts(self.clone()))
        }
    };
}

macro_rules! fk {
    ([$($gen:tt)*] $ty:ty, $in:ty => $out:ty { $($extra:tt)* }) => {
        impl<$($gen)*> IO for $ty { type In = $in; type Out = $out; }
        impl<$($gen)*> FK for $ty {
            fk_common!($in);
            fn poke_(&mut self) {
                let _ = unsafe { StateMut::state_mut(self) };
            }
            fn poke_cache(c: &mut Cache<Self, <Self as IO>::Out>) {
                let _ = unsafe { StateMut::state_mut(c) };
            }
            fn state_from_(&mut self, o: &Self) {
                let mut src = o.clone();
                let st = unsafe { StateMut::state_mut(&mut src) }.clone();
                unsafe { *StateMut::state_mut(self) = st; }
            }
            $($extra)*
        }
    };
}
/// (a filter without state has no `StateMut`)
macro_rules! fk_stateless {
    ([$($gen:tt)*] $ty:ty, $in:ty => $out:ty { $($extra:tt)* }) => {
        impl<$($gen)*> IO for $ty { type In = $in; type Out = $out; }
        impl<$($gen)*> FK for $ty {
            fk_common!($in);
            $($extra)*
        }
    };
}

// ---- windowed filters -------------------------------------------------------------------

macro_rules! median_fk {
    ($t:ty) => {
        fk!([const N: usize] Median<$t, N>, $t => $t {
            fn acc_(&self, which: &str) -> String {
                match which {
                    "min" => self.min().r(),
                    "med" => self.median().r(),
                    "max" => self.max().r(),
                    _ => "unsupported".to_string(),
                }
            }
        });
    };
}
median_fk!(Q);
median_fk!(f64);
median_fk!(Fz);
#[cfg(feature = "order_only")]
median_fk!(Bl);

macro_rules! mean_fk {
    ($t:ty) => {
        fk!([const N: usize] Mean<$t, N>, $t => $t {
            fn guts_(&mut self, field: &str) -> String {
                let st = unsafe { StateMut::state_mut(self) };
                match field {
                    "mean" => st.mean.r(),
                    "taps" => render_list(st.taps.iter()),
                    "weight" => st.weight.r(),
                    _ => "unsupported".to_string(),
                }
            }
        });
    };
}
mean_fk!(Q);
mean_fk!(i64);

fn render_taps(taps: &[(Q, usize)]) -> String {
    if taps.is_empty() {
        return "-".to_string();
    }
    taps.iter().map(|(v, t)| format!("{}:{}", v.r(), t)).collect::<Vec<_>>().join(" ")
}

macro_rules! deque_fk {
    ($ty:ident) => {
        fk!([const N: usize] $ty<Q, N>, Q => Q {
            fn guts_(&mut self, field: &str) -> String {
                let st = unsafe { StateMut::state_mut(self) };
                match field {
                    "time" => st.time.r(),
                    "taps" => render_taps(&st.taps.iter().cloned().collect::<Vec<_>>()),
                    _ => "unsupported".to_string(),
                }
            }
        });
    };
}
deque_fk!(Max);
deque_fk!(Min);
fk!([const N: usize] Bounds<Q, N>, Q => (Q, Q) {});
// the order-only filters at the smallest machine integers: unsigned (no negation, no "zero minus x"), and a signed type
// whose minimum has no negative
macro_rules! small_int_fk {
    ($t:ty) => {
        median_fk!($t);
        mean_fk!($t);
        fk!([const N: usize] Max<$t, N>, $t => $t {});
        fk!([const N: usize] Min<$t, N>, $t => $t {});
        fk!([const N: usize] Bounds<$t, N>, $t => ($t, $t) {});
    };
}
small_int_fk!(u8);
small_int_fk!(i8);
// ... and at floats that keep the sign of a zero on the protocol: filters that select or hand on samples
fk!([const N: usize] Max<Fz, N>, Fz => Fz {});
fk!([const N: usize] Min<Fz, N>, Fz => Fz {});
fk!([const N: usize] Bounds<Fz, N>, Fz => (Fz, Fz) {});
fk!([const N: usize] Delay<Fz, N>, Fz => Fz {});

macro_rules! conv_fk {
    ($t:ty) => {
        fk!([const N: usize] Convolve<$t, N>, $t => $t {
            fn guts_(&mut self, field: &str) -> String {
                let st = unsafe { StateMut::state_mut(self) };
                match field {
                    "taps" => render_list(st.taps.iter()),
                    _ => "unsupported".to_string(),
                }
            }
            fn cfg_(&mut self) -> String {
                cfg_both!(self, c => render_list(c.coefficients.iter()))
            }
            fn fresh_cfg_(&self) -> Option<Self> {
                Some(<Self as WithConfig>::with_config(ConfigClone::config(self)))
            }
        });
    };
}
conv_fk!(Q);
conv_fk!(i64);
fk!([const N: usize] Delay<Q, N>, Q => Q {
    fn guts_(&mut self, field: &str) -> String {
        let st = unsafe { StateMut::state_mut(self) };
        match field {
            "taps" => render_list(st.taps.iter()),
            _ => "unsupported".to_string(),
        }
    }
});
fk!([const N: usize] MeanVariance<Q, N>, Q => signalo_filters::mean::mean_variance::Output<Q> {});

// ---- C19: the windowed filters over the instrumented sample type ------------------------

use crate::tracked::Tracked;
impl FromVal for Tracked {
    fn from_val(v: Val) -> Tracked {
        Tracked::new(Q::from_val(v))
    }
}
impl FromArgs for Tracked {
    fn from_args(a: &[Val]) -> Self {
        assert!(a.len() == 1, "harness: expected one input");
        Tracked::from_val(a[0])
    }
}
impl Render for Tracked {
    fn r(&self) -> String {
        self.q.r()
    }
}
median_fk!(Tracked);
mean_fk!(Tracked);
fk!([const N: usize] Max<Tracked, N>, Tracked => Tracked {});
fk!([const N: usize] Min<Tracked, N>, Tracked => Tracked {});
fk!([const N: usize] Bounds<Tracked, N>, Tracked => (Tracked, Tracked) {});
fk!([const N: usize] Convolve<Tracked, N>, Tracked => Tracked {});
fk!([const N: usize] Delay<Tracked, N>, Tracked => Tracked {});

// ---- stateless / scalar-state filters ---------------------------------------------------

macro_rules! diffint_fk {
    ($t:ty) => {
        fk!([] Differentiate<$t>, $t => $t {
            fn guts_(&mut self, field: &str) -> String {
                match field { "value" => unsafe { StateMut::state_mut(self) }.value.r(), _ => "unsupported".to_string() }
            }
        });
        fk!([] Integrate<$t>, $t => $t {
            fn guts_(&mut self, field: &str) -> String {
                match field { "value" => unsafe { StateMut::state_mut(self) }.value.r(), _ => "unsupported".to_string() }
            }
        });
    };
}
diffint_fk!(Q);
diffint_fk!(f64);
diffint_fk!(u8);
diffint_fk!(i8);
diffint_fk!(i64);

impl IO for Kalman<Q> {
    type In = Q;
    type Out = Q;
}
impl FK for Kalman<Q> {
    fn filt(&mut self, a: &[Val]) -> String {
        if a.len() == 2 {
            let x: (Q, Q) = FromArgs::from_args(a);
            Filter::filter(self, x).r()
        } else {
            let x: Q = FromArgs::from_args(a);
            Filter::filter(self, x).r()
        }
    }
    fn rst(self) -> Self {
        Reset::reset(self)
    }
    fn gutsrt_(&self) -> Self {
        FromGuts::from_guts(IntoGuts::into_guts(self.clone()))
    }
    fn guts_(&mut self, field: &str) -> String {
        let st = unsafe { StateMut::state_mut(self) };
        match field {
            "cov" => st.cov.r(),
            "value" => st.value.r(),
            _ => "unsupported".to_string(),
        }
    }
    fn cfg_(&mut self) -> String {
        cfg_both!(self, c => format!("{} {} {} {} {}", c.r.r(), c.q.r(), c.a.r(), c.b.r(), c.c.r()))
    }
    fn fresh_cfg_(&self) -> Option<Self> {
        Some(<Self as WithConfig>::with_config(ConfigClone::config(self)))
    }
}

fk!([] AlphaBeta<Q>, Q => Q {
    fn guts_(&mut self, field: &str) -> String {
        let st = unsafe { StateMut::state_mut(self) };
        match field {
            "velocity" => st.velocity.r(),
            "value" => st.value.r(),
            _ => "unsupported".to_string(),
        }
    }
    fn cfg_(&mut self) -> String {
        cfg_both!(self, c => format!("{} {}", c.alpha.r(), c.beta.r()))
    }
    fn fresh_cfg_(&self) -> Option<Self> {
        Some(<Self as WithConfig>::with_config(ConfigClone::config(self)))
    }
});
fk!([] Ema<Q>, Q => Q {
    fn guts_(&mut self, field: &str) -> String {
        let st = unsafe { StateMut::state_mut(self) };
        match field { "mean" => st.mean.r(), _ => "unsupported".to_string() }
    }
    fn cfg_(&mut self) -> String {
        cfg_both!(self, c => c.inverse_width.r())
    }
    fn fresh_cfg_(&self) -> Option<Self> {
        Some(<Self as WithConfig>::with_config(ConfigClone::config(self)))
    }
});
fk!([] Emed<Q>, Q => Q {
    fn guts_(&mut self, field: &str) -> String {
        let st = unsafe { StateMut::state_mut(self) };
        match field { "median" => st.median.r(), _ => "unsupported".to_string() }
    }
    fn cfg_(&mut self) -> String {
        cfg_both!(self, c => format!("{} {} {}", c.pre.inverse_width.r(), c.mid.r(), c.post.inverse_width.r()))
    }
    fn fresh_cfg_(&self) -> Option<Self> {
        Some(<Self as WithConfig>::with_config(ConfigClone::config(self)))
    }
});
fk!([] Emv<Q>, Q => signalo_filters::mean::exp::mean_variance::Output<Q> {
    fn cfg_(&mut self) -> String {
        cfg_both!(self, c => c.inverse_width.r())
    }
    fn fresh_cfg_(&self) -> Option<Self> {
        Some(<Self as WithConfig>::with_config(ConfigClone::config(self)))
    }
});

// the wavelet filters over exact rationals with ANY pair of kernels (C07: "for generic kernels, all sample values")
fk!([const N: usize] Analyze<Q, N>, Q => Decomposition<Q> {
    fn state_from_nested_(&mut self, o: &Self) -> bool {
        // the two inner convolutions' states written in place, each through its own `state_mut`
        let mut src = o.clone();
        let (lp, hp) = unsafe {
            let s = StateMut::state_mut(&mut src);
            (StateMut::state_mut(&mut s.low_pass).clone(), StateMut::state_mut(&mut s.high_pass).clone())
        };
        unsafe {
            let d = StateMut::state_mut(self);
            *StateMut::state_mut(&mut d.low_pass) = lp;
            *StateMut::state_mut(&mut d.high_pass) = hp;
        }
        true
    }
    fn cfg_(&mut self) -> String {
        let c = self.config();
        format!("{} | {}", render_list(c.low_pass.coefficients.iter()), render_list(c.high_pass.coefficients.iter()))
    }
});
fk!([const N: usize] Synthesize<Q, N>, Decomposition<Q> => Q {
    fn state_from_nested_(&mut self, o: &Self) -> bool {
        // the two inner convolutions' states written in place, each through its own `state_mut`
        let mut src = o.clone();
        let (lp, hp) = unsafe {
            let s = StateMut::state_mut(&mut src);
            (StateMut::state_mut(&mut s.low_pass).clone(), StateMut::state_mut(&mut s.high_pass).clone())
        };
        unsafe {
            let d = StateMut::state_mut(self);
            *StateMut::state_mut(&mut d.low_pass) = lp;
            *StateMut::state_mut(&mut d.high_pass) = hp;
        }
        true
    }
    fn cfg_(&mut self) -> String {
        let c = self.config();
        format!("{} | {}", render_list(c.low_pass.coefficients.iter()), render_list(c.high_pass.coefficients.iter()))
    }
});

// ---- classifiers ------------------------------------------------------------------------

macro_rules! classify_fk {
    ($t:ty) => {
        fk_stateless!([] Threshold<$t, Q>, $t => Q {
            fn cfg_(&mut self) -> String {
                cfg_both!(self, c => format!("{} {}", c.threshold.r(), render_list(c.outputs.iter())))
            }
            fn fresh_cfg_(&self) -> Option<Self> {
                Some(<Self as WithConfig>::with_config(ConfigClone::config(self)))
            }
        });
        fk!([] Schmitt<$t, Q>, $t => Q {
            fn guts_(&mut self, field: &str) -> String {
                let st = unsafe { StateMut::state_mut(self) };
                match field { "on" => st.on.r(), _ => "unsupported".to_string() }
            }
            fn cfg_(&mut self) -> String {
                cfg_both!(self, c => format!("{} {} {}", c.thresholds[0].r(), c.thresholds[1].r(), render_list(c.outputs.iter())))
            }
            fn fresh_cfg_(&self) -> Option<Self> {
                Some(<Self as WithConfig>::with_config(ConfigClone::config(self)))
            }
        });
        fk!([] Slopes<$t, Q>, $t => Q {
            fn guts_(&mut self, field: &str) -> String {
                let st = unsafe { StateMut::state_mut(self) };
                match field { "input" => st.input.r(), _ => "unsupported".to_string() }
            }
            fn cfg_(&mut self) -> String {
                cfg_both!(self, c => render_list(c.outputs.iter()))
            }
            fn fresh_cfg_(&self) -> Option<Self> {
                Some(<Self as WithConfig>::with_config(ConfigClone::config(self)))
            }
        });
        fk!([] Peaks<$t, Q>, $t => Q {
            fn cfg_(&mut self) -> String {
                cfg_both!(self, c => render_list(c.outputs.iter()))
            }
            fn fresh_cfg_(&self) -> Option<Self> {
                Some(<Self as WithConfig>::with_config(ConfigClone::config(self)))
            }
        });
    };
}
classify_fk!(Q);
classify_fk!(f64);
#[cfg(feature = "order_only")]
classify_fk!(Sn);
classify_fk!(u8);
classify_fk!(i8);

fk!([] Debounce<Q, Q>, Q => Q {
    fn guts_(&mut self, field: &str) -> String {
        let st = unsafe { StateMut::state_mut(self) };
        match field { "count" => st.count.r(), _ => "unsupported".to_string() }
    }
    fn cfg_(&mut self) -> String {
        cfg_both!(self, c => format!("{} {} {}", c.threshold, c.predicate.r(), render_list(c.outputs.iter())))
    }
    fn fresh_cfg_(&self) -> Option<Self> {
        Some(<Self as WithConfig>::with_config(ConfigClone::config(self)))
    }
});
fk!([] Peaks<Slope, Q>, Slope => Q {
    fn cfg_(&mut self) -> String {
        cfg_both!(self, c => render_list(c.outputs.iter()))
    }
    fn fresh_cfg_(&self) -> Option<Self> {
        Some(<Self as WithConfig>::with_config(ConfigClone::config(self)))
    }
});

// ---- wrappers ---------------------------------------------------------------------------

/// what the cache wrapper may be built around: any output with the feature `cache_any`, outputs with `PartialEq` without
#[cfg(feature = "cache_any")]
pub trait CacheOut {}
#[cfg(feature = "cache_any")]
impl<T> CacheOut for T {}
#[cfg(not(feature = "cache_any"))]
pub trait CacheOut: PartialEq {}
#[cfg(not(feature = "cache_any"))]
impl<T: PartialEq> CacheOut for T {}

impl<K> IO for Cache<K, <K as IO>::Out>
where
    K: IO,
{
    type In = K::In;
    type Out = K::Out;
}
impl<K> FK for Cache<K, <K as IO>::Out>
where
    K: FK + IO + Filter<<K as IO>::In, Output = <K as IO>::Out> + Reset,
    <K as IO>::Out: CacheOut,
{
    fn filt(&mut self, a: &[Val]) -> String {
        let x: K::In = FromArgs::from_args(a);
        Filter::filter(self, x).r()
    }
    fn rst(self) -> Self {
        Reset::reset(self)
    }
    fn gutsrt_(&self) -> Self {
        FromGuts::from_guts(IntoGuts::into_guts(self.clone()))
    }
    fn poke_(&mut self) {
        K::poke_cache(self)
    }
    /// the wrapper taken apart, its inner filter fed directly, and put together again (`into_guts` / `from_guts`): the
    /// remembered value is untouched, the inner filter has a history the wrapper did not see
    fn feed_inner_(&mut self, a: &[Val]) -> String {
        let mut g = self.clone().into_guts();
        let r = g.inner.filt(a);
        *self = FromGuts::from_guts(g);
        r
    }
    fn acc_(&self, which: &str) -> String {
        match which {
            "cached" => self.cached().cloned().r(),
            _ => "unsupported".to_string(),
        }
    }
    fn guts_(&mut self, field: &str) -> String {
        { let mut g = self.clone().into_guts(); g.inner.guts_(field) }
    }
    fn cfg_(&mut self) -> String {
        { let mut g = self.clone().into_guts(); g.inner.cfg_() }
    }
}

// ---- float-only filters (bit-pattern protocol) -------------------------------------------

use signalo_filters::convolve::savitzky_golay::SavitzkyGolay;
use signalo_filters::hampel::{Config as HampelConfig, Hampel};
use signalo_filters::wavelet::analyze::Analyze;
use signalo_filters::wavelet::daubechies::Daubechies;
use signalo_filters::wavelet::synthesize::Synthesize;
use signalo_filters::wavelet::Decomposition;

macro_rules! fk_bits {
    ([$($gen:tt)*] $ty:ty, $in:ty, |$s:ident| $cfg:expr) => {
        impl<$($gen)*> FK for $ty {
            fn filt(&mut self, a: &[Val]) -> String {
                let x: $in = FromArgs::from_args(a);
                Filter::filter(self, x).bits()
            }
            fn rst(self) -> Self {
                Reset::reset(self)
            }
            fn gutsrt_(&self) -> Self {
                FromGuts::from_guts(IntoGuts::into_guts(self.clone()))
            }
            fn poke_(&mut self) {
                let _ = unsafe { StateMut::state_mut(self) };
            }
            fn state_from_(&mut self, o: &Self) {
                let mut src = o.clone();
                let st = unsafe { StateMut::state_mut(&mut src) }.clone();
                unsafe { *StateMut::state_mut(self) = st; }
            }
            fn cfg_(&mut self) -> String {
                let $s = &*self;
                $cfg
            }
        }
    };
}
macro_rules! float_kinds {
    ($t:ty) => {
        fk_bits!([const N: usize] Hampel<$t, N>, $t, |s| s.config().threshold.bits());
        fk_bits!([const N: usize] Convolve<$t, N>, $t, |s| bits_list(s.config_ref().coefficients.iter()));
        fk_bits!([const N: usize] Analyze<$t, N>, $t, |s| {
            let c = s.config();
            format!("{} | {}", bits_list(c.low_pass.coefficients.iter()), bits_list(c.high_pass.coefficients.iter()))
        });
        fk_bits!([const N: usize] Synthesize<$t, N>, Decomposition<$t>, |s| {
            let c = s.config();
            format!("{} | {}", bits_list(c.low_pass.coefficients.iter()), bits_list(c.high_pass.coefficients.iter()))
        });
        // the generic recursive smoothers / trackers at a float type, bit patterns on the protocol: infinities, signed
        // zeros and NaN are sample values too ("returns the first sample unchanged")
        fk_bits!([] Ema<$t>, $t, |s| s.config().inverse_width.bits());
        fk_bits!([] Emed<$t>, $t, |s| {
            let c = s.config();
            format!("{} {} {}", c.pre.inverse_width.bits(), c.mid.bits(), c.post.inverse_width.bits())
        });
        fk_bits!([] AlphaBeta<$t>, $t, |s| {
            let c = s.config();
            format!("{} {}", c.alpha.bits(), c.beta.bits())
        });
        fk_bits!([const N: usize] Mean<$t, N>, $t, |_s| "-".to_string());
        fk_bits!([const N: usize] MeanVariance<$t, N>, $t, |_s| "-".to_string());
        fk_bits!([const N: usize] Delay<$t, N>, $t, |_s| "-".to_string());
        fk_bits!([] Emv<$t>, $t, |s| s.config().inverse_width.bits());
        fk_bits!([] Kalman<$t>, $t, |s| {
            let c = s.config();
            format!("{} {} {} {} {}", c.r.bits(), c.q.bits(), c.a.bits(), c.b.bits(), c.c.bits())
        });
    };
}
float_kinds!(f64);
float_kinds!(f32);
// differentiate / integrate on the bit-pattern protocol (at f32; at f64 they run on the rational protocol, with NaN)
fk_bits!([] Differentiate<f32>, f32, |_s| "-".to_string());
fk_bits!([] Integrate<f32>, f32, |_s| "-".to_string());

macro_rules! with_w {
    ($n:expr, $N:ident => $body:expr) => {
        match $n {
            1 => { const $N: usize = 1; $body }
            2 => { const $N: usize = 2; $body }
            3 => { const $N: usize = 3; $body }
            4 => { const $N: usize = 4; $body }
            5 => { const $N: usize = 5; $body }
            6 => { const $N: usize = 6; $body }
            7 => { const $N: usize = 7; $body }
            8 => { const $N: usize = 8; $body }
            9 => { const $N: usize = 9; $body }
            10 => { const $N: usize = 10; $body }
            11 => { const $N: usize = 11; $body }
            12 => { const $N: usize = 12; $body }
            13 => { const $N: usize = 13; $body }
            n => panic!("harness: no Savitzky-Golay preset of width {}", n),
        }
    };
}
macro_rules! with_order {
    ($n:expr, $N:ident => $body:expr) => {
        match $n {
            2 => { const $N: usize = 2; $body }
            4 => { const $N: usize = 4; $body }
            6 => { const $N: usize = 6; $body }
            8 => { const $N: usize = 8; $body }
            10 => { const $N: usize = 10; $body }
            12 => { const $N: usize = 12; $body }
            14 => { const $N: usize = 14; $body }
            16 => { const $N: usize = 16; $body }
            18 => { const $N: usize = 18; $body }
            20 => { const $N: usize = 20; $body }
            n => panic!("harness: no Daubechies preset of order {}", n),
        }
    };
}

macro_rules! build_float_kind {
    ($t:ty, $kind:expr, $kv:expr) => {
        match $kind {
            "hampel" => Some(with_n!(kv_n($kv, "N"), N => Box::new(Hampel::<$t, N>::with_config(HampelConfig {
                threshold: <$t>::from_val(parse_val(kv_str($kv, "thr"))),
            })) as Box<dyn Inst>)),
            "sg" => Some(with_w!(kv_n($kv, "W"), N => Box::new(Convolve::<$t, N>::savitzky_golay()) as Box<dyn Inst>)),
            "daub_analyze" => Some(with_order!(kv_n($kv, "O"), N => Box::new(Analyze::<$t, N>::daubechies()) as Box<dyn Inst>)),
            "daub_synth" => Some(with_order!(kv_n($kv, "O"), N => Box::new(Synthesize::<$t, N>::daubechies()) as Box<dyn Inst>)),
            "convolve_norm" => {
                let c: Vec<$t> = parse_vals(kv_str($kv, "c")).into_iter().map(<$t>::from_val).collect();
                Some(with_n!(c.len(), N => Box::new(Convolve::<$t, N>::normalized(ConvolveConfig { coefficients: arr(c) })) as Box<dyn Inst>))
            }
            "ema" => Some(Box::new(Ema::<$t>::with_config(EmaConfig { inverse_width: <$t>::from_val(parse_val(kv_str($kv, "w"))) })) as Box<dyn Inst>),
            "emedian" => Some(Box::new(Emed::<$t>::with_config(EmedConfig {
                pre: EmaConfig { inverse_width: <$t>::from_val(parse_val(kv_str($kv, "pre"))) },
                mid: <$t>::from_val(parse_val(kv_str($kv, "mid"))),
                post: EmaConfig { inverse_width: <$t>::from_val(parse_val(kv_str($kv, "post"))) },
            })) as Box<dyn Inst>),
            "mean" => Some(with_n!(kv_n($kv, "N"), N => Box::new(Mean::<$t, N>::default()) as Box<dyn Inst>)),
            "meanvar" => Some(with_n!(kv_n($kv, "N"), N => Box::new(MeanVariance::<$t, N>::default()) as Box<dyn Inst>)),
            "delay" => Some(with_n!(kv_n($kv, "N"), N => Box::new(Delay::<$t, N>::default()) as Box<dyn Inst>)),
            "emeanvar" => Some(Box::new(Emv::<$t>::with_config(EmvConfig { inverse_width: <$t>::from_val(parse_val(kv_str($kv, "w"))) })) as Box<dyn Inst>),
            "kalman" => {
                let g = |k: &str| <$t>::from_val(parse_val(kv_str($kv, k)));
                Some(Box::new(Kalman::<$t>::with_config(KalmanConfig { r: g("r"), q: g("q"), a: g("a"), b: g("b"), c: g("c") })) as Box<dyn Inst>)
            }
            "alphabeta" => Some(Box::new(AlphaBeta::<$t>::with_config(AbConfig {
                alpha: <$t>::from_val(parse_val(kv_str($kv, "alpha"))),
                beta: <$t>::from_val(parse_val(kv_str($kv, "beta"))),
            })) as Box<dyn Inst>),
            _ => None,
        }
    };
}

fn build_float(kind: &str, kv: &KV) -> Option<Box<dyn Inst>> {
    match (kind, kv.get("T").map(|s| s.as_str())) {
        ("differentiate_b", Some("f32")) => return Some(Box::new(Differentiate::<f32>::default())),
        ("integrate_b", Some("f32")) => return Some(Box::new(Integrate::<f32>::default())),
        _ => {}
    }
    match kv.get("T").map(|s| s.as_str()) {
        Some("f64") => build_float_kind!(f64, kind, kv),
        Some("f32") => build_float_kind!(f32, kind, kv),
        _ => None,
    }
}

// ---- unit-system wrapper (C20) ----------------------------------------------------------

#[cfg(feature = "units")]
mod units {
    use super::*;
    use dimensioned::si;
    use dimensioned::traits::Dimensioned;
    use signalo_filters::unit_system::UnitSystem;

    impl<K> IO for UnitSystem<K>
    where
        K: IO,
    {
        type In = K::In;
        type Out = K::Out;
    }
    /// the wrapped filter maps `Q -> Q`; the wrapper is driven with metres and must answer in metres
    impl<K> FK for UnitSystem<K>
    where
        K: FK + IO<In = Q, Out = Q> + Filter<Q, Output = Q> + Reset,
    {
        fn filt(&mut self, a: &[Val]) -> String {
            let x: Q = FromArgs::from_args(a);
            let y: si::Meter<Q> = Filter::filter(self, si::Meter::new(x));
            y.value_unsafe().r()
        }
        fn rst(self) -> Self {
            Reset::reset(self)
        }
        fn gutsrt_(&self) -> Self {
            FromGuts::from_guts(IntoGuts::into_guts(self.clone()))
        }
        fn guts_(&mut self, field: &str) -> String {
            { let mut g = self.clone().into_guts(); g.inner.guts_(field) }
        }
        fn cfg_(&mut self) -> String {
            { let mut g = self.clone().into_guts(); g.inner.cfg_() }
        }
    }
    pub fn wrap_unit<K>(k: K) -> Box<dyn Inst>
    where
        K: FK + IO<In = Q, Out = Q> + Filter<Q, Output = Q> + Reset,
    {
        Box::new(UnitSystem::<K>::from(k))
    }
}

// ---- construction -----------------------------------------------------------------------

/// wrap (or not) and box
fn finish<K>(k: K, wrap: Option<&str>) -> Box<dyn Inst>
where
    K: FK + IO + Filter<<K as IO>::In, Output = <K as IO>::Out> + Reset,
    <K as IO>::Out: CacheOut,
{
    match wrap {
        None => Box::new(k),
        Some("cache") => Box::new(Cache::<K, <K as IO>::Out>::from(k)),
        Some(w) => panic!("harness: unknown wrapper {}", w),
    }
}

/// `finish` for the kinds whose output type has no `PartialEq`
#[cfg(feature = "cache_any")]
fn finish_ne<K>(k: K, wrap: Option<&str>) -> Box<dyn Inst>
where
    K: FK + IO + Filter<<K as IO>::In, Output = <K as IO>::Out> + Reset,
{
    finish(k, wrap)
}
#[cfg(not(feature = "cache_any"))]
fn finish_ne<K>(k: K, wrap: Option<&str>) -> Box<dyn Inst>
where
    K: FK + IO + Filter<<K as IO>::In, Output = <K as IO>::Out> + Reset,
{
    match wrap {
        None => Box::new(k),
        // (the case is discarded, like one whose exact arithmetic overflowed)
        Some(_) => panic!("harness-unsupported: built without the cache wrapper around outputs that have no PartialEq"),
    }
}

/// `finish` for kinds mapping one exact rational to one exact rational: these may also sit inside the unit wrapper
fn finish_q<K>(k: K, wrap: Option<&str>) -> Box<dyn Inst>
where
    K: FK + IO<In = Q, Out = Q> + Filter<Q, Output = Q> + Reset,
{
    match wrap {
        #[cfg(feature = "units")]
        Some("unit") => units::wrap_unit(k),
        #[cfg(not(feature = "units"))]
        Some("unit") => panic!("harness: built without the unit-system wrappers"),
        w => finish(k, w),
    }
}

pub fn widths() -> &'static [usize] {
    &[1, 2, 3, 4, 5, 6, 7, 8, 9, 16]
}

pub fn build(kind: &str, kv: &KV) -> Box<dyn Inst> {
    if let Some(b) = build_float(kind, kv) {
        return b;
    }
    if kind == "cache" || kind == "unit" {
        let inner = kv_str(kv, "inner").to_string();
        return build_inner(&inner, kv, Some(kind));
    }
    build_inner(kind, kv, None)
}

fn out2(kv: &KV) -> [Q; 2] {
    arr(kv_qs(kv, "out"))
}
fn out3(kv: &KV) -> [Q; 3] {
    arr(kv_qs(kv, "out"))
}

fn build_inner(kind: &str, kv: &KV, wrap: Option<&str>) -> Box<dyn Inst> {
    let t = kv.get("T").map(|s| s.as_str()).unwrap_or("q");
    match (kind, t) {
        ("median", "q") if kv_n(kv, "N") > 16 => with_wide_n!(kv_n(kv, "N"), N => finish_q(Median::<Q, N>::default(), wrap)),
        ("mean", "q") if kv_n(kv, "N") > 16 => with_wide_n!(kv_n(kv, "N"), N => finish_q(Mean::<Q, N>::default(), wrap)),
        ("max", "q") if kv_n(kv, "N") > 16 => with_wide_n!(kv_n(kv, "N"), N => finish_q(Max::<Q, N>::default(), wrap)),
        ("min", "q") if kv_n(kv, "N") > 16 => with_wide_n!(kv_n(kv, "N"), N => finish_q(Min::<Q, N>::default(), wrap)),
        ("delay", "q") if kv_n(kv, "N") > 16 => with_wide_n!(kv_n(kv, "N"), N => finish_q(Delay::<Q, N>::default(), wrap)),
        ("median", "q") => with_n!(kv_n(kv, "N"), N => finish_q(Median::<Q, N>::default(), wrap)),
        ("median", "f64") => with_n!(kv_n(kv, "N"), N => finish(Median::<f64, N>::default(), wrap)),
        ("median", "u8") => with_n!(kv_n(kv, "N"), N => finish(Median::<u8, N>::default(), wrap)),
        ("max", "u8") => with_n!(kv_n(kv, "N"), N => finish(Max::<u8, N>::default(), wrap)),
        ("min", "u8") => with_n!(kv_n(kv, "N"), N => finish(Min::<u8, N>::default(), wrap)),
        ("bounds", "u8") => with_n!(kv_n(kv, "N"), N => finish(Bounds::<u8, N>::default(), wrap)),
        ("median", "i8") => with_n!(kv_n(kv, "N"), N => finish(Median::<i8, N>::default(), wrap)),
        ("max", "i8") => with_n!(kv_n(kv, "N"), N => finish(Max::<i8, N>::default(), wrap)),
        ("min", "i8") => with_n!(kv_n(kv, "N"), N => finish(Min::<i8, N>::default(), wrap)),
        ("bounds", "i8") => with_n!(kv_n(kv, "N"), N => finish(Bounds::<i8, N>::default(), wrap)),
        ("max", "fz") => with_n!(kv_n(kv, "N"), N => finish(Max::<Fz, N>::default(), wrap)),
        ("min", "fz") => with_n!(kv_n(kv, "N"), N => finish(Min::<Fz, N>::default(), wrap)),
        ("bounds", "fz") => with_n!(kv_n(kv, "N"), N => finish(Bounds::<Fz, N>::default(), wrap)),
        ("delay", "fz") => with_n!(kv_n(kv, "N"), N => finish(Delay::<Fz, N>::default(), wrap)),
        #[cfg(feature = "order_only")]
        ("median", "bl") => with_n!(kv_n(kv, "N"), N => finish(Median::<Bl, N>::default(), wrap)),
        ("median", "fz") => with_n!(kv_n(kv, "N"), N => finish(Median::<Fz, N>::default(), wrap)),
        ("mean", "q") => with_n!(kv_n(kv, "N"), N => finish_q(Mean::<Q, N>::default(), wrap)),
        // (the widest window whose weight the type can count: N = MAX)
        ("mean", "u8") => match kv_n(kv, "N") {
            255 => finish(Mean::<u8, 255>::default(), wrap),
            n => with_n!(n, N => finish(Mean::<u8, N>::default(), wrap)),
        },
        ("mean", "i8") => match kv_n(kv, "N") {
            127 => finish(Mean::<i8, 127>::default(), wrap),
            n => with_n!(n, N => finish(Mean::<i8, N>::default(), wrap)),
        },
        ("mean", "i64") => with_n!(kv_n(kv, "N"), N => finish(Mean::<i64, N>::default(), wrap)),
        ("convolve", "i64") | ("convolve_norm", "i64") => {
            let c: Vec<i64> = parse_vals(kv_str(kv, "c")).into_iter().map(i64::from_val).collect();
            if kind == "convolve" {
                with_n!(c.len(), N => finish(Convolve::<i64, N>::with_config(ConvolveConfig { coefficients: arr(c) }), wrap))
            } else {
                with_n!(c.len(), N => finish(Convolve::<i64, N>::normalized(ConvolveConfig { coefficients: arr(c) }), wrap))
            }
        }
        ("median", "tracked") => with_n!(kv_n(kv, "N"), N => finish(Median::<Tracked, N>::default(), wrap)),
        ("mean", "tracked") => with_n!(kv_n(kv, "N"), N => finish(Mean::<Tracked, N>::default(), wrap)),
        ("max", "tracked") => with_n!(kv_n(kv, "N"), N => finish(Max::<Tracked, N>::default(), wrap)),
        ("min", "tracked") => with_n!(kv_n(kv, "N"), N => finish(Min::<Tracked, N>::default(), wrap)),
        ("bounds", "tracked") => with_n!(kv_n(kv, "N"), N => finish(Bounds::<Tracked, N>::default(), wrap)),
        ("delay", "tracked") => with_n!(kv_n(kv, "N"), N => finish(Delay::<Tracked, N>::default(), wrap)),
        ("convolve_norm", "tracked") => {
            let c: Vec<Tracked> = kv_qs(kv, "c").into_iter().map(Tracked::new).collect();
            with_n!(c.len(), N => finish(Convolve::<Tracked, N>::normalized(ConvolveConfig { coefficients: arr(c) }), wrap))
        }
        ("convolve", "tracked") => {
            let c: Vec<Tracked> = kv_qs(kv, "c").into_iter().map(Tracked::new).collect();
            with_n!(c.len(), N => finish(Convolve::<Tracked, N>::with_config(ConvolveConfig { coefficients: arr(c) }), wrap))
        }
        ("max", _) => with_n!(kv_n(kv, "N"), N => finish_q(Max::<Q, N>::default(), wrap)),
        ("min", _) => with_n!(kv_n(kv, "N"), N => finish_q(Min::<Q, N>::default(), wrap)),
        ("bounds", _) => with_n!(kv_n(kv, "N"), N => finish(Bounds::<Q, N>::default(), wrap)),
        ("convolve", _) if kv_qs(kv, "c").len() > 16 => {
            let c = kv_qs(kv, "c");
            with_mid_n!(c.len(), N => finish_q(Convolve::<Q, N>::with_config(ConvolveConfig { coefficients: arr(c) }), wrap))
        }
        ("convolve_norm", _) if kv_qs(kv, "c").len() > 16 => {
            let c = kv_qs(kv, "c");
            with_mid_n!(c.len(), N => finish_q(Convolve::<Q, N>::normalized(ConvolveConfig { coefficients: arr(c) }), wrap))
        }
        ("convolve", _) => {
            let c = kv_qs(kv, "c");
            with_n!(c.len(), N => finish_q(Convolve::<Q, N>::with_config(ConvolveConfig { coefficients: arr(c) }), wrap))
        }
        ("convolve_norm", _) => {
            let c = kv_qs(kv, "c");
            with_n!(c.len(), N => finish_q(Convolve::<Q, N>::normalized(ConvolveConfig { coefficients: arr(c) }), wrap))
        }
        ("delay", _) => with_n!(kv_n(kv, "N"), N => finish_q(Delay::<Q, N>::default(), wrap)),
        ("analyze", _) | ("synthesize", _) => {
            let (lo, hi) = (kv_qs(kv, "low"), kv_qs(kv, "high"));
            assert_eq!(lo.len(), hi.len(), "harness: kernels of different length");
            with_n!(lo.len(), N => {
                let cfg = signalo_filters::wavelet::analyze::Config {
                    low_pass: ConvolveConfig { coefficients: arr(lo) },
                    high_pass: ConvolveConfig { coefficients: arr(hi) },
                };
                if kind == "analyze" {
                    finish_ne(Analyze::<Q, N>::with_config(cfg), wrap)
                } else {
                    let cfg = signalo_filters::wavelet::synthesize::Config { low_pass: cfg.low_pass, high_pass: cfg.high_pass };
                    finish_ne(Synthesize::<Q, N>::with_config(cfg), wrap)
                }
            })
        }
        ("meanvar", _) => with_n!(kv_n(kv, "N"), N => finish_ne(MeanVariance::<Q, N>::default(), wrap)),
        ("integrate", "u8") => finish(Integrate::<u8>::default(), wrap),
        ("integrate", "i8") => finish(Integrate::<i8>::default(), wrap),
        ("integrate", "i64") => finish(Integrate::<i64>::default(), wrap),
        ("differentiate", "u8") => finish(Differentiate::<u8>::default(), wrap),
        ("differentiate", "i8") => finish(Differentiate::<i8>::default(), wrap),
        ("differentiate", "i64") => finish(Differentiate::<i64>::default(), wrap),
        ("differentiate", "f64") => finish(Differentiate::<f64>::default(), wrap),
        ("integrate", "f64") => finish(Integrate::<f64>::default(), wrap),
        ("differentiate", _) => finish_q(Differentiate::<Q>::default(), wrap),
        ("integrate", _) => finish_q(Integrate::<Q>::default(), wrap),
        ("kalman", _) => finish_q(
            Kalman::<Q>::with_config(KalmanConfig {
                r: kv_q(kv, "r"),
                q: kv_q(kv, "q"),
                a: kv_q(kv, "a"),
                b: kv_q(kv, "b"),
                c: kv_q(kv, "c"),
            }),
            wrap,
        ),
        ("alphabeta", _) => finish_q(
            AlphaBeta::<Q>::with_config(AbConfig { alpha: kv_q(kv, "alpha"), beta: kv_q(kv, "beta") }),
            wrap,
        ),
        ("ema", _) => finish_q(Ema::<Q>::with_config(EmaConfig { inverse_width: kv_q(kv, "w") }), wrap),
        ("emedian", _) => finish_q(
            Emed::<Q>::with_config(EmedConfig {
                pre: EmaConfig { inverse_width: kv_q(kv, "pre") },
                mid: kv_q(kv, "mid"),
                post: EmaConfig { inverse_width: kv_q(kv, "post") },
            }),
            wrap,
        ),
        ("emeanvar", _) => finish_ne(Emv::<Q>::with_config(EmvConfig { inverse_width: kv_q(kv, "w") }), wrap),
        ("threshold", "q") => finish_q(
            Threshold::<Q, Q>::with_config(ThresholdConfig { threshold: kv_q(kv, "thr"), outputs: out2(kv) }),
            wrap,
        ),
        ("threshold", "f64") => finish(
            Threshold::<f64, Q>::with_config(ThresholdConfig {
                threshold: f64::from_val(parse_val(kv_str(kv, "thr"))),
                outputs: out2(kv),
            }),
            wrap,
        ),
        ("schmitt", "q") => finish_q(
            Schmitt::<Q, Q>::with_config(SchmittConfig {
                thresholds: [kv_q(kv, "low"), kv_q(kv, "high")],
                outputs: out2(kv),
            }),
            wrap,
        ),
        ("schmitt", "f64") => finish(
            Schmitt::<f64, Q>::with_config(SchmittConfig {
                thresholds: [
                    f64::from_val(parse_val(kv_str(kv, "low"))),
                    f64::from_val(parse_val(kv_str(kv, "high"))),
                ],
                outputs: out2(kv),
            }),
            wrap,
        ),
        ("debounce", _) => finish_q(
            Debounce::<Q, Q>::with_config(DebounceConfig {
                threshold: kv_n(kv, "thr"),
                predicate: kv_q(kv, "pred"),
                outputs: out2(kv),
            }),
            wrap,
        ),
        ("slopes", "q") => finish_q(Slopes::<Q, Q>::with_config(SlopesConfig { outputs: out3(kv) }), wrap),
        ("slopes", "f64") => finish(Slopes::<f64, Q>::with_config(SlopesConfig { outputs: out3(kv) }), wrap),
        ("slopes", "u8") => finish(Slopes::<u8, Q>::with_config(SlopesConfig { outputs: out3(kv) }), wrap),
        ("peaks", "u8") => finish(Peaks::<u8, Q>::with_config(PeaksConfig { outputs: out3(kv) }), wrap),
        ("slopes", "i8") => finish(Slopes::<i8, Q>::with_config(SlopesConfig { outputs: out3(kv) }), wrap),
        ("peaks", "i8") => finish(Peaks::<i8, Q>::with_config(PeaksConfig { outputs: out3(kv) }), wrap),
        #[cfg(feature = "order_only")]
        ("slopes", "sn") => finish(Slopes::<Sn, Q>::with_config(SlopesConfig { outputs: out3(kv) }), wrap),
        #[cfg(feature = "order_only")]
        ("peaks", "sn") => finish(Peaks::<Sn, Q>::with_config(PeaksConfig { outputs: out3(kv) }), wrap),
        ("peaks", "q") => finish_q(Peaks::<Q, Q>::with_config(PeaksConfig { outputs: out3(kv) }), wrap),
        ("peaks", "f64") => finish(Peaks::<f64, Q>::with_config(PeaksConfig { outputs: out3(kv) }), wrap),
        ("peaks_slopes", _) => finish(Peaks::<Slope, Q>::with_config(PeaksConfig { outputs: out3(kv) }), wrap),
        (k, t) => panic!("harness: unknown kind {} (T={})", k, t),
    }
}

fn parse_taps(s: &str) -> Vec<(Q, usize)> {
    if s == "-" {
        return vec![];
    }
    s.split(',')
        .map(|t| {
            let (v, n) = t.split_once(':').expect("harness: bad tap");
            (Q::from_val(parse_val(v)), n.parse().expect("harness: bad timestamp"))
        })
        .collect()
}

/// `inject`: an instance built through `FromGuts` from an explicitly given state
/// how an injected state reaches the filter: through `FromGuts::from_guts` (default), or written through
/// `StateMut::state_mut` into a freshly constructed filter (`via=statemut`) — both are public ways to hand a filter a
/// state, and whatever a filter caches besides its public state must agree with either
macro_rules! inj_cs {
    ($kv:expr, $ty:ty, $cfg:expr, $st:expr) => {{
        if $kv.get("via").map(|s| s.as_str()) == Some("statemut") {
            let mut f = <$ty>::with_config($cfg);
            unsafe { *StateMut::state_mut(&mut f) = $st; }
            Box::new(f) as Box<dyn Inst>
        } else {
            Box::new(<$ty>::from_guts(($cfg, $st))) as Box<dyn Inst>
        }
    }};
}
macro_rules! inj_s {
    ($kv:expr, $ty:ty, $st:expr) => {{
        if $kv.get("via").map(|s| s.as_str()) == Some("statemut") {
            let mut f = <$ty>::default();
            unsafe { *StateMut::state_mut(&mut f) = $st; }
            Box::new(f) as Box<dyn Inst>
        } else {
            Box::new(<$ty>::from_guts($st)) as Box<dyn Inst>
        }
    }};
}

fn kv_oslope(kv: &KV, k: &str) -> Option<Slope> {
    match kv_str(kv, k) {
        "none" => None,
        v => Some(Slope::from_val(parse_val(v))),
    }
}
/// the public state of a peak detector, put together by hand: the nested slope filter with the sample it memorises,
/// and the detector's own "current slope"
fn peaks_state<T>(mem: Option<T>, slope: Option<Slope>) -> signalo_filters::classify::peaks::State<T> {
    use signalo_filters::classify::Classification;
    let slopes = Slopes::from_guts((
        SlopesConfig { outputs: Slope::classes() },
        signalo_filters::classify::slopes::State { input: mem },
    ));
    signalo_filters::classify::peaks::State { slopes, slope }
}

pub fn inject(kind: &str, kv: &KV) -> Box<dyn Inst> {
    use circular_buffer::CircularBuffer;
    match kind {
        "peaks_slopes" => {
            let st = peaks_state::<Slope>(kv_oslope(kv, "mem"), kv_oslope(kv, "prev"));
            inj_cs!(kv, Peaks::<Slope, Q>, PeaksConfig { outputs: out3(kv) }, st)
        }
        "peaks" => {
            let st = peaks_state::<Q>(kv_oq(kv, "prev"), kv_oslope(kv, "slope"));
            inj_cs!(kv, Peaks::<Q, Q>, PeaksConfig { outputs: out3(kv) }, st)
        }
        "slopes" => {
            let st = signalo_filters::classify::slopes::State { input: kv_oq(kv, "input") };
            inj_cs!(kv, Slopes::<Q, Q>, SlopesConfig { outputs: out3(kv) }, st)
        }
        "convolve" if kv.get("T").map(|s| s.as_str()) == Some("tracked") => {
            let c: Vec<Tracked> = kv_qs(kv, "c").into_iter().map(Tracked::new).collect();
            with_n!(c.len(), N => {
                let mut taps: CircularBuffer<N, Tracked> = CircularBuffer::default();
                for t in kv_qs(kv, "taps") { taps.push_back(Tracked::new(t)); }
                let st = signalo_filters::convolve::State { taps };
                Box::new(Convolve::<Tracked, N>::from_guts((ConvolveConfig { coefficients: arr(c) }, st))) as Box<dyn Inst>
            })
        }
        "delay" if kv.get("T").map(|s| s.as_str()) == Some("tracked") => with_n!(kv_n(kv, "N"), N => {
            let mut taps: CircularBuffer<N, Tracked> = CircularBuffer::default();
            for t in kv_qs(kv, "taps") { taps.push_back(Tracked::new(t)); }
            let st = signalo_filters::delay::State { taps };
            Box::new(Delay::<Tracked, N>::from_guts(st)) as Box<dyn Inst>
        }),
        "mean" if kv.get("T").map(|s| s.as_str()) == Some("tracked") => with_n!(kv_n(kv, "N"), N => {
            let mut taps: CircularBuffer<N, Tracked> = CircularBuffer::default();
            for t in kv_qs(kv, "taps") { taps.push_back(Tracked::new(t)); }
            let st = signalo_filters::mean::mean::State {
                mean: kv_oq(kv, "mean").map(Tracked::new),
                taps,
                weight: Tracked::new(kv_q(kv, "weight")),
            };
            Box::new(Mean::<Tracked, N>::from_guts(st)) as Box<dyn Inst>
        }),
        "max" if kv.get("T").map(|s| s.as_str()) == Some("tracked") => with_n!(kv_n(kv, "N"), N => {
            let mut taps: CircularBuffer<N, (Tracked, usize)> = CircularBuffer::default();
            for (v, t) in parse_taps(kv_str(kv, "taps")) { taps.push_back((Tracked::new(v), t)); }
            let st = signalo_filters::bounds::max::State { time: kv_n(kv, "time"), taps };
            Box::new(Max::<Tracked, N>::from_guts(st)) as Box<dyn Inst>
        }),
        "min" if kv.get("T").map(|s| s.as_str()) == Some("tracked") => with_n!(kv_n(kv, "N"), N => {
            let mut taps: CircularBuffer<N, (Tracked, usize)> = CircularBuffer::default();
            for (v, t) in parse_taps(kv_str(kv, "taps")) { taps.push_back((Tracked::new(v), t)); }
            let st = signalo_filters::bounds::min::State { time: kv_n(kv, "time"), taps };
            Box::new(Min::<Tracked, N>::from_guts(st)) as Box<dyn Inst>
        }),
        "max" => with_n!(kv_n(kv, "N"), N => {
            let mut taps: CircularBuffer<N, (Q, usize)> = CircularBuffer::default();
            for t in parse_taps(kv_str(kv, "taps")) { taps.push_back(t); }
            let st = signalo_filters::bounds::max::State { time: kv_n(kv, "time"), taps };
            inj_s!(kv, Max::<Q, N>, st)
        }),
        "min" => with_n!(kv_n(kv, "N"), N => {
            let mut taps: CircularBuffer<N, (Q, usize)> = CircularBuffer::default();
            for t in parse_taps(kv_str(kv, "taps")) { taps.push_back(t); }
            let st = signalo_filters::bounds::min::State { time: kv_n(kv, "time"), taps };
            inj_s!(kv, Min::<Q, N>, st)
        }),
        "debounce" => {
            let cfg = DebounceConfig { threshold: kv_n(kv, "thr"), predicate: kv_q(kv, "pred"), outputs: out2(kv) };
            let st = signalo_filters::classify::debounce::State { count: kv_n(kv, "count") };
            inj_cs!(kv, Debounce::<Q, Q>, cfg, st)
        }
        "schmitt" => {
            let cfg = SchmittConfig { thresholds: [kv_q(kv, "low"), kv_q(kv, "high")], outputs: out2(kv) };
            let st = signalo_filters::classify::schmitt::State { on: kv_str(kv, "on") == "true" };
            inj_cs!(kv, Schmitt::<Q, Q>, cfg, st)
        }
        // arbitrary states of the recursive filters (the recurrences are one-step statements about ANY state)
        "kalman" => {
            let cfg = KalmanConfig { r: kv_q(kv, "r"), q: kv_q(kv, "q"), a: kv_q(kv, "a"), b: kv_q(kv, "b"), c: kv_q(kv, "c") };
            let st = signalo_filters::observe::kalman::State { cov: kv_q(kv, "cov"), value: kv_oq(kv, "value") };
            inj_cs!(kv, Kalman::<Q>, cfg, st)
        }
        "alphabeta" => {
            let cfg = AbConfig { alpha: kv_q(kv, "alpha"), beta: kv_q(kv, "beta") };
            let st = signalo_filters::observe::alpha_beta::State { velocity: kv_q(kv, "velocity"), value: kv_oq(kv, "value") };
            inj_cs!(kv, AlphaBeta::<Q>, cfg, st)
        }
        "ema" => {
            let st = signalo_filters::mean::exp::mean::State { mean: kv_oq(kv, "mean") };
            inj_cs!(kv, Ema::<Q>, EmaConfig { inverse_width: kv_q(kv, "w") }, st)
        }
        "integrate" => inj_s!(kv, Integrate::<Q>, signalo_filters::integrate::State { value: kv_q(kv, "value") }),
        "differentiate" => {
            inj_s!(kv, Differentiate::<Q>, signalo_filters::differentiate::State { value: kv_oq(kv, "value") })
        }
        "mean" => with_n!(kv_n(kv, "N"), N => {
            let mut taps: CircularBuffer<N, Q> = CircularBuffer::default();
            for t in kv_qs(kv, "taps") { taps.push_back(t); }
            let st = signalo_filters::mean::mean::State { mean: kv_oq(kv, "mean"), taps, weight: kv_q(kv, "weight") };
            inj_s!(kv, Mean::<Q, N>, st)
        }),
        "emedian" => {
            let cfg = EmedConfig {
                pre: EmaConfig { inverse_width: kv_q(kv, "pre") },
                mid: kv_q(kv, "mid"),
                post: EmaConfig { inverse_width: kv_q(kv, "post") },
            };
            // `ipre` / `ipost`: the inner averages may carry a width of their own (the state is public; `from_guts` accepts it)
            let inner = |k: &str, dflt: &str| if kv.contains_key(k) { kv_q(kv, k) } else { kv_q(kv, dflt) };
            let st = signalo_filters::median::exp::State {
                mean_pre: Ema::<Q>::from_guts((
                    EmaConfig { inverse_width: inner("ipre", "pre") },
                    signalo_filters::mean::exp::mean::State { mean: kv_oq(kv, "spre") },
                )),
                mean_post: Ema::<Q>::from_guts((
                    EmaConfig { inverse_width: inner("ipost", "post") },
                    signalo_filters::mean::exp::mean::State { mean: kv_oq(kv, "spost") },
                )),
                median: kv_oq(kv, "median"),
            };
            inj_cs!(kv, Emed::<Q>, cfg, st)
        }
        // the wavelet filters assembled by hand from two convolutions that are themselves built with `from_guts` (any pair
        // of kernels, tap rings at any fill level)
        "analyze" | "synthesize" => {
            let (lo, hi) = (kv_qs(kv, "low"), kv_qs(kv, "high"));
            assert_eq!(lo.len(), hi.len(), "harness: kernels of different length");
            with_n!(lo.len(), N => {
                let conv = |c: Vec<Q>, taps: Vec<Q>| {
                    let mut ring: CircularBuffer<N, Q> = CircularBuffer::default();
                    for t in taps { ring.push_back(t); }
                    Convolve::<Q, N>::from_guts((ConvolveConfig { coefficients: arr(c) }, signalo_filters::convolve::State { taps: ring }))
                };
                let (low_pass, high_pass) = (conv(lo, kv_qs(kv, "ltaps")), conv(hi, kv_qs(kv, "htaps")));
                if kind == "analyze" {
                    Box::new(Analyze::<Q, N>::from_guts(signalo_filters::wavelet::analyze::State { low_pass, high_pass })) as Box<dyn Inst>
                } else {
                    Box::new(Synthesize::<Q, N>::from_guts(signalo_filters::wavelet::synthesize::State { low_pass, high_pass })) as Box<dyn Inst>
                }
            })
        }
        "emeanvar" => {
            // the two inner averages carry their own copy of the width (`mw`, `vw`; default: the filter's)
            let inner = |k: &str| if kv.contains_key(k) { kv_q(kv, k) } else { kv_q(kv, "w") };
            let st = signalo_filters::mean::exp::mean_variance::State {
                mean: Ema::<Q>::from_guts((
                    EmaConfig { inverse_width: inner("mw") },
                    signalo_filters::mean::exp::mean::State { mean: kv_oq(kv, "mean") },
                )),
                variance: Ema::<Q>::from_guts((
                    EmaConfig { inverse_width: inner("vw") },
                    signalo_filters::mean::exp::mean::State { mean: kv_oq(kv, "var") },
                )),
            };
            inj_cs!(kv, Emv::<Q>, EmvConfig { inverse_width: kv_q(kv, "w") }, st)
        }
        // a tap ring filled by hand to any level (reachable only through the public state + `from_guts`): the filter
        // tops it up with the current sample before it convolves / delays
        "convolve" => {
            let c = kv_qs(kv, "c");
            with_n!(c.len(), N => {
                let mut taps: CircularBuffer<N, Q> = CircularBuffer::default();
                for t in kv_qs(kv, "taps") { taps.push_back(t); }
                let st = signalo_filters::convolve::State { taps };
                inj_cs!(kv, Convolve::<Q, N>, ConvolveConfig { coefficients: arr(c) }, st)
            })
        }
        "delay" => with_n!(kv_n(kv, "N"), N => {
            let mut taps: CircularBuffer<N, Q> = CircularBuffer::default();
            for t in kv_qs(kv, "taps") { taps.push_back(t); }
            let st = signalo_filters::delay::State { taps };
            inj_s!(kv, Delay::<Q, N>, st)
        }),
        k => panic!("harness: cannot inject kind {}", k),
    }
}
