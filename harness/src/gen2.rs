//! Generators for the non-filter families (sources, sinks, pipes, presets, Hampel, ownership).
use crate::gen::{rat, Case, Tier};
use crate::prng::Rng;

fn small(rng: &mut Rng) -> String {
    rng.range(-9, 9).to_string()
}

fn leaf_src(rng: &mut Rng) -> String {
    match rng.below(10) {
        0 => "iter[]".to_string(),
        1 => format!("iter[{}]", small(rng)),
        2 => format!("const({})", small(rng)),
        3 => format!("incr({},{})", small(rng), small(rng)),
        4 => format!("repeat({},{})", small(rng), rng.range(0, 3)),
        _ => {
            let n = rng.range(2, 5);
            let v: Vec<String> = (0..n).map(|_| small(rng)).collect();
            format!("iter[{}]", v.join(","))
        }
    }
}

fn count(rng: &mut Rng) -> i64 {
    *rng.pick(&[0, 0, 1, 1, 2, 3, 4, 6])
}

/// random adapter tree; `clonable` = may sit under `cycle` (no `rt` inside)
fn src_expr(rng: &mut Rng, depth: usize, clonable: bool) -> String {
    if depth == 0 || rng.chance(1, 5) {
        return leaf_src(rng);
    }
    match rng.below(9) {
        0 => format!("take({},{})", count(rng), src_expr(rng, depth - 1, clonable)),
        1 => format!("skip({},{})", count(rng), src_expr(rng, depth - 1, clonable)),
        2 => format!("chain({},{})", src_expr(rng, depth - 1, clonable), src_expr(rng, depth - 1, clonable)),
        3 => format!("cycle({})", src_expr(rng, depth - 1, true)),
        4 => format!("padc({},{},{})", small(rng), count(rng), src_expr(rng, depth - 1, clonable)),
        5 | 6 => format!("pade({},{})", count(rng), src_expr(rng, depth - 1, clonable)),
        7 => {
            if rng.chance(1, 2) || !cfg!(feature = "units") {
                format!("cache({})", src_expr(rng, depth - 1, clonable))
            } else {
                format!("units({})", src_expr(rng, depth - 1, clonable))
            }
        }
        _ => {
            if clonable {
                format!("take({},{})", count(rng), src_expr(rng, depth - 1, clonable))
            } else {
                format!("rt({})", src_expr(rng, depth - 1, false))
            }
        }
    }
}

fn pulls_case(expr: &str, n: usize) -> Case {
    let mut c = vec![format!("new 1 src {}", expr)];
    for _ in 0..n {
        c.push("pull 1".into());
    }
    c
}

/// C10
pub fn gen_sources(rng: &mut Rng, tier: &Tier) -> Vec<Case> {
    let mut cases = Vec::new();
    // enumerated: every unary adapter over the empty / one-element / three-element source, counts 0..3
    let leaves = ["iter[]", "iter[7]", "iter[1,2,3]", "incr(5,2)"];
    for l in leaves {
        cases.push(pulls_case(l, 6));
        cases.push(pulls_case(&format!("cycle({})", l), 9));
        cases.push(pulls_case(&format!("cache({})", l), 6));
        cases.push(pulls_case(&format!("rt({})", l), 6));
        for n in 0..=3 {
            for ad in ["take", "skip", "pade"] {
                cases.push(pulls_case(&format!("{}({},{})", ad, n, l), 12));
            }
            cases.push(pulls_case(&format!("padc(9,{},{})", n, l), 12));
            cases.push(pulls_case(&format!("repeat(4,{})", n), 6));
            // depth 2
            for ad2 in ["take", "skip", "pade"] {
                for m in [0, 1, 2] {
                    cases.push(pulls_case(&format!("{}({},pade({},{}))", ad2, m, n, l), 14));
                    cases.push(pulls_case(&format!("pade({},{}({},{}))", n, ad2, m, l), 14));
                }
            }
        }
        for l2 in leaves {
            cases.push(pulls_case(&format!("chain({},{})", l, l2), 10));
        }
    }
    // counts at the top of their range: a width of `usize::MAX` is a width ("repeat(first).take(usize::MAX).chain(..)" is
    // a perfectly good iterator); only a prefix can ever be pulled
    for l in leaves {
        for big in [usize::MAX, usize::MAX - 1, 1usize << 32, (1usize << 32) + 2, (1usize << 40) + 1, 0xFFFF_FFFF_0000_0003, 1usize << 16, (1usize << 16) + 1] {
            for e in [
                format!("take({},{})", big, l),
                format!("pade({},{})", big, l),
                format!("padc(9,{},{})", big, l),
                format!("repeat(4,{})", big),
                format!("take(3,pade({},{}))", big, l),
                format!("pade(2,take({},{}))", big, l),
                format!("chain(take({},{}),iter[5])", big, l),
                format!("cache(pade({},{}))", big, l),
            ] {
                cases.push(pulls_case(&e, 7));
            }
            if l.starts_with("iter") {
                cases.push(pulls_case(&format!("skip({},{})", big, l), 4));
                cases.push(pulls_case(&format!("cycle(pade({},{}))", big, l), 6));
            }
        }
    }
    // the into-iterator bridge consumed through `Iterator::skip` / `step_by` (both built on `nth`) instead of `next`
    for _ in 0..tier.n(80, 800) {
        let e = src_expr(rng, 2, false);
        let view = if rng.chance(1, 2) { format!("rtskip({},{})", rng.range(0, 4), e) } else { format!("rtstep({},{})", rng.range(1, 4), e) };
        cases.push(pulls_case(&view, rng.range(3, 9) as usize));
    }
    // random trees of depth <= 3
    for _ in 0..tier.n(600, 8000) {
        let e = src_expr(rng, 3, false);
        cases.push(pulls_case(&e, rng.range(4, 16) as usize));
    }
    // Peek: random interleavings of peek and pull
    for _ in 0..tier.n(200, 2000) {
        let e = src_expr(rng, 2, false);
        let mut c = vec![format!("new 1 peek {}", e)];
        for _ in 0..rng.range(3, 14) {
            c.push(if rng.chance(1, 2) { "peek 1".to_string() } else { "pull 1".to_string() });
        }
        cases.push(c);
    }
    // a copy of a source (`Clone`) is a source in the same state — a pending look-ahead of `Peek`, the remembered item of
    // the cache wrapper included — and the two go on independently
    for _ in 0..tier.n(150, 1500) {
        let e = src_expr(rng, 2, true);
        let top = *rng.pick(&["peek", "peek", "scache", "src"]);
        let mut c = vec![format!("new 1 {} {}", top, e)];
        let op = |rng: &mut Rng| -> &'static str {
            match top {
                "peek" => if rng.chance(1, 2) { "peek" } else { "pull" },
                "scache" => if rng.chance(1, 3) { "cached" } else { "pull" },
                _ => "pull",
            }
        };
        for _ in 0..rng.range(0, 6) {
            c.push(format!("{} 1", op(rng)));
        }
        c.push("sclone 1 2".into());
        for _ in 0..rng.range(2, 9) {
            let o = op(rng);
            let which = if rng.chance(1, 2) { 1 } else { 2 };
            c.push(format!("{} {}", o, which));
        }
        cases.push(c);
    }
    // `clone_from` between two sources built from the same expression, each somewhere in its own stream: afterwards the
    // destination is where the source of the copy is (mid-lap, mid-padding, with a pending look-ahead), not at a start
    for _ in 0..tier.n(120, 1200) {
        let e = src_expr(rng, 2, true);
        let top = *rng.pick(&["peek", "scache", "src", "src"]);
        let mut c = vec![format!("new 1 {} {}", top, e), format!("new 2 {} {}", top, e)];
        let op = |rng: &mut Rng| -> &'static str {
            match top {
                "peek" => if rng.chance(1, 2) { "peek" } else { "pull" },
                "scache" => if rng.chance(1, 3) { "cached" } else { "pull" },
                _ => "pull",
            }
        };
        for _ in 0..rng.range(0, 7) {
            c.push(format!("{} 1", op(rng)));
        }
        for _ in 0..rng.range(0, 7) {
            c.push(format!("{} 2", op(rng)));
        }
        c.push("sclonefrom 1 2".into());
        for _ in 0..rng.range(2, 9) {
            let o = op(rng);
            let which = if rng.chance(2, 3) { 1 } else { 2 };
            c.push(format!("{} {}", o, which));
        }
        cases.push(c);
    }
    // sources that are NOT fused (an end marker, then items again): `Peek` must hand out a peeked end marker like
    // any other peeked answer (`Peekable`), plain pulls and the cache wrapper pass the raw answers through
    for _ in 0..tier.n(120, 1200) {
        let n = rng.range(1, 7);
        let v: Vec<String> =
            (0..n).map(|_| if rng.chance(1, 3) { "-".to_string() } else { rng.range(-5, 5).to_string() }).collect();
        let top = *rng.pick(&["peek", "peek", "peek", "src", "scache"]);
        let mut c = vec![format!("new 1 {} burst[{}]", top, v.join(","))];
        for _ in 0..rng.range(3, 2 * n + 6) {
            match top {
                "peek" => c.push(if rng.chance(1, 2) { "peek 1" } else { "pull 1" }.into()),
                "scache" => {
                    c.push("pull 1".into());
                    c.push("cached 1".into());
                }
                _ => c.push("pull 1".into()),
            }
        }
        cases.push(c);
    }
    // adapter trees over scripted NON-fused leaves: what the adapters do after an inner end marker (Chain never polls
    // its first source again, Take counts only items, the pads and Skip poll again, …) against the same adapter models
    for _ in 0..tier.n(200, 2000) {
        let burst = |rng: &mut Rng| -> String {
            let n = rng.range(1, 6);
            let v: Vec<String> =
                (0..n).map(|_| if rng.chance(1, 3) { "-".to_string() } else { rng.range(-5, 5).to_string() }).collect();
            format!("burst[{}]", v.join(","))
        };
        fn wrap(rng: &mut Rng, inner: String, other: String) -> String {
            match rng.below(8) {
                0 => format!("chain({},{})", inner, other),
                1 => format!("chain({},{})", other, inner),
                2 => format!("take({},{})", rng.range(0, 4), inner),
                3 => format!("skip({},{})", rng.range(0, 4), inner),
                4 => format!("padc({},{},{})", rng.range(-3, 3), rng.range(0, 2), inner),
                5 => format!("pade({},{})", rng.range(0, 2), inner),
                6 => format!("cache({})", inner),
                _ => format!("cycle({})", inner),
            }
        }
        let b = burst(rng);
        let other = if rng.chance(1, 2) { burst(rng) } else { src_expr(rng, 1, true) };
        let mut e = wrap(rng, b, other);
        if rng.chance(1, 3) {
            let other2 = src_expr(rng, 1, true);
            e = wrap(rng, e, other2);
        }
        let top = *rng.pick(&["src", "src", "peek", "scache"]);
        let mut c = vec![format!("new 1 {} {}", top, e)];
        for _ in 0..rng.range(4, 16) {
            match top {
                "peek" => c.push(if rng.chance(1, 3) { "peek 1" } else { "pull 1" }.into()),
                "scache" => {
                    c.push("pull 1".into());
                    c.push("cached 1".into());
                }
                _ => c.push("pull 1".into()),
            }
        }
        cases.push(c);
    }
    cases.extend(gen_source_cache(rng, tier));
    cases
}

/// the source cache wrapper on top of random adapter trees: cached() before the first and after every pull
/// (also after the end), next to the bare tree (the wrapper must be transparent)
pub fn gen_source_cache(rng: &mut Rng, tier: &Tier) -> Vec<Case> {
    let mut cases = Vec::new();
    for _ in 0..tier.n(200, 2000) {
        let e = src_expr(rng, 2, false);
        let mut c = vec![format!("new 1 scache {}", e), format!("new 2 src {}", e), "cached 1".to_string()];
        for _ in 0..rng.range(2, 10) {
            c.push("pull 1".into());
            c.push("pull 2".into());
            c.push("ssame 1 2 C20.source-cache-transparent".into());
            c.push("cached 1".into());
        }
        cases.push(c);
    }
    cases
}

/// C20: the unit-system wrappers of sources and sinks against the bare objects, in lockstep
pub fn gen_unit_wrappers(rng: &mut Rng, tier: &Tier) -> Vec<Case> {
    let mut cases = Vec::new();
    if !cfg!(feature = "units") {
        return cases;
    }
    for _ in 0..tier.n(100, 1000) {
        let e = src_expr(rng, 2, false);
        let mut c = vec![format!("new 1 src units({})", e), format!("new 2 src {}", e)];
        for _ in 0..rng.range(2, 10) {
            c.push("pull 1".into());
            c.push("pull 2".into());
            c.push("ssame 1 2 C20.unit-source-transparent".into());
        }
        cases.push(c);
    }
    for _ in 0..tier.n(60, 600) {
        let mut c = vec!["new 1 sink_unit_sum".to_string(), "new 2 own_sum".to_string(), "fin 1".to_string(), "fin 2".to_string(),
                         "ksame 1 2 C20.unit-sink-transparent".to_string()];
        let len = rng.range(1, 7) as usize;
        for v in crate::gen::rat_seq(rng, len) {
            c.push(format!("sink 1 {}", v));
            c.push(format!("sink 2 {}", v));
            c.push("fin 1".into());
            c.push("fin 2".into());
            c.push("ksame 1 2 C20.unit-sink-transparent".into());
        }
        cases.push(c);
    }
    cases
}

pub const SINKS: [&str; 10] = [
    "sink_unit_sum",
    "sink_min", "sink_max", "sink_bounds", "sink_last", "sink_integrate", "sink_mean", "sink_meanvar",
    "sink_stats", "sink_collect",
];

/// C11
pub fn gen_sinks(rng: &mut Rng, tier: &Tier) -> Vec<Case> {
    let mut cases = Vec::new();
    for kind in SINKS {
        if kind == "sink_unit_sum" && !cfg!(feature = "units") {
            continue;
        }
        // empty and one sample
        cases.push(vec![format!("new 1 {}", kind), "fin 1".to_string()]);
        for _ in 0..tier.n(60, 800) {
            let len = rng.range(1, 9) as usize;
            let vals = crate::gen::rat_seq(rng, len);
            let as_filter = kind != "sink_last" && kind != "sink_unit_sum" && rng.chance(1, 2);
            let mut c = vec![format!("new 1 {}", kind), "fin 1".to_string()];
            for v in vals {
                c.push(if as_filter { format!("ff 1 {}", v) } else { format!("sink 1 {}", v) });
                c.push("fin 1".into());
            }
            cases.push(c);
        }
    }
    // zero-heavy sequences (all zeros, leading zeros, sums returning to zero): "nothing received" and "only zeros
    // received" are different states
    for kind in SINKS {
        if kind == "sink_unit_sum" && !cfg!(feature = "units") {
            continue;
        }
        for _ in 0..tier.n(12, 120) {
            let len = rng.range(1, 6) as usize;
            let as_filter = kind != "sink_last" && kind != "sink_unit_sum" && rng.chance(1, 2);
            let mut c = vec![format!("new 1 {}", kind)];
            for _ in 0..len {
                let v = *rng.pick(&[0i64, 0, 0, 1, -1]);
                c.push(if as_filter { format!("ff 1 {}", v) } else { format!("sink 1 {}", v) });
                c.push("fin 1".into());
            }
            cases.push(c);
        }
    }
    // partial order: the order-only sinks at f64 with NaN among the samples (first, in the middle, bursts)
    for kind in ["sink_min_f64", "sink_max_f64", "sink_bounds_f64"] {
        for _ in 0..tier.n(60, 800) {
            let len = rng.range(1, 9) as usize;
            let as_filter = rng.chance(1, 2);
            let mut c = vec![format!("new 1 {}", kind), "fin 1".to_string()];
            for i in 0..len {
                let v = if rng.chance(1, 4) || (i == 0 && rng.chance(1, 4)) { "nan".to_string() } else { rng.range(-5, 5).to_string() };
                c.push(if as_filter { format!("ff 1 {}", v) } else { format!("sink 1 {}", v) });
                c.push("fin 1".into());
            }
            cases.push(c);
        }
    }
    // the arithmetic sinks at `i64`, samples within a small spread around a level near the top (or bottom) of the range:
    // the sinks' own recurrences (old + (x - old) / n; products of two small deviations) stay in range there, any
    // reconstruction of the running SUM does not
    for kind in ["sink_mean_i64", "sink_meanvar_i64", "sink_stats_i64", "sink_integrate_i64"] {
        for _ in 0..tier.n(25, 250) {
            let level: i64 = if kind == "sink_integrate_i64" {
                rng.range(-1000, 1000)
            } else {
                *rng.pick(&[i64::MAX - 2000, i64::MAX / 2 + 7, i64::MIN + 2000, i64::MAX / 3, 1i64 << 40, 0])
            };
            let as_filter = rng.chance(1, 2);
            let mut c = vec![format!("new 1 {}", kind), "fin 1".to_string()];
            for _ in 0..rng.range(1, 9) {
                let v = level + rng.range(-1000, 1000);
                c.push(if as_filter { format!("ff 1 {}", v) } else { format!("sink 1 {}", v) });
                c.push("fin 1".into());
            }
            cases.push(c);
        }
    }
    // short integer streams within a narrow range: the truncated running mean often lands exactly on the minimum or the
    // maximum although the stream is not constant — each statistic is still its own recurrence's value
    for kind in ["sink_stats_i64", "sink_meanvar_i64", "sink_mean_i64"] {
        for _ in 0..tier.n(30, 300) {
            let as_filter = rng.chance(1, 2);
            let base = rng.range(-3, 3);
            let mut c = vec![format!("new 1 {}", kind)];
            for _ in 0..rng.range(2, 6) {
                let v = base + rng.range(0, 2);
                c.push(if as_filter { format!("ff 1 {}", v) } else { format!("sink 1 {}", v) });
                c.push("fin 1".into());
            }
            cases.push(c);
        }
    }
    // "the combined statistics sink agrees with the individual ones": next to the mean-variance sink, sample by sample
    for (a, b) in [("sink_stats_i64", "sink_meanvar_i64"), ("sink_stats", "sink_meanvar")] {
        for _ in 0..tier.n(30, 300) {
            let base = rng.range(-3, 3);
            let narrow = rng.chance(2, 3);
            let mut c = vec![format!("new 1 {}", a), format!("new 2 {}", b), "kagree 1 2 C11.combined-agrees".to_string()];
            for _ in 0..rng.range(1, 6) {
                let v = if narrow { base + rng.range(0, 2) } else { rng.range(-9, 9) };
                c.push(format!("sink 1 {}", v));
                c.push(format!("sink 2 {}", v));
                c.push("kagree 1 2 C11.combined-agrees".into());
            }
            cases.push(c);
        }
    }
    // integer samples whose every prefix mean is an integer: there no step of the running mean truncates, so the mean of
    // all samples so far is determined whatever the arithmetic (and a reciprocal `1 / count` is not)
    for kind in ["sink_mean_i64", "sink_meanvar_i64", "sink_stats_i64"] {
        for _ in 0..tier.n(25, 250) {
            let as_filter = rng.chance(1, 2);
            let mut c = vec![format!("new 1 {}", kind)];
            let mut prev_mean = 0i64;
            for k in 1..=rng.range(2, 9) {
                let m = rng.range(-12, 12);
                let x = k * m - (k - 1) * prev_mean;
                prev_mean = m;
                c.push(if as_filter { format!("ff 1 {}", x) } else { format!("sink 1 {}", x) });
                c.push("fin 1".into());
            }
            cases.push(c);
        }
    }
    // zeros of either sign (sample type `fz`): what `Last` hands back is the last sample it received, as the value it is;
    // min / max / bounds hand back one of the samples they received
    for kind in ["sink_last_fz", "sink_last_fz", "sink_min_fz", "sink_max_fz", "sink_bounds_fz"] {
        for _ in 0..tier.n(20, 200) {
            let mut c = vec![format!("new 1 {}", kind), "fin 1".to_string()];
            for _ in 0..rng.range(1, 8) {
                c.push(format!("sink 1 {}", rng.pick(&["0", "-0", "0", "-0", "1", "-1"])));
                c.push("fin 1".into());
            }
            cases.push(c);
        }
    }
    // copies of a sink — a clone, or an existing sink overwritten with `clone_from` (by one that has received samples,
    // or none): the copy is afterwards the sink its source is, and what one receives later does not reach the other
    let mut kinds: Vec<String> = SINKS.iter().filter(|k| **k != "sink_unit_sum" || cfg!(feature = "units")).map(|k| k.to_string()).collect();
    for k in ["sink_mean_i64", "sink_stats_i64", "sink_integrate_i64", "sink_last_fz", "sink_min_fz", "sink_bounds_fz"] {
        kinds.push(k.to_string());
    }
    for kind in kinds {
        for _ in 0..tier.n(6, 60) {
            let val = |rng: &mut Rng| if kind.ends_with("_fz") { (*rng.pick(&["0", "-0", "1", "-1"])).to_string() } else { rng.range(-6, 6).to_string() };
            let mut c = vec![format!("new 1 {}", kind), format!("new 2 {}", kind)];
            for _ in 0..rng.range(0, 4) {
                c.push(format!("sink 1 {}", val(rng)));
            }
            if rng.chance(1, 2) {
                for _ in 0..rng.range(1, 3) {
                    c.push(format!("sink 2 {}", val(rng)));
                }
            }
            c.push("kclonefrom 1 2".into());
            c.push("fin 1".into());
            c.push("fin 2".into());
            c.push(format!("sink 1 {}", val(rng)));
            c.push("fin 1".into());
            c.push("fin 2".into());
            c.push("kclone 1 3".into());
            c.push(format!("sink 3 {}", val(rng)));
            c.push("fin 3".into());
            c.push("fin 1".into());
            cases.push(c);
        }
    }
    // the order-only sinks at the smallest machine integers, ends of the range included
    for (suffix, vals) in [("u8", [0i64, 1, 2, 127, 128, 254, 255]), ("i8", [-128i64, -127, -1, 0, 1, 126, 127])] {
        for kind in ["sink_min", "sink_max", "sink_bounds"] {
            for _ in 0..tier.n(20, 200) {
                let as_filter = rng.chance(1, 2);
                let mut c = vec![format!("new 1 {}_{}", kind, suffix), "fin 1".to_string()];
                for _ in 0..rng.range(1, 8) {
                    let v = *rng.pick(&vals);
                    c.push(if as_filter { format!("ff 1 {}", v) } else { format!("sink 1 {}", v) });
                    c.push("fin 1".into());
                }
                cases.push(c);
            }
        }
    }
    cases
}

// ---- pipes ---------------------------------------------------------------------------------------

/// the stages of the C01 pipes are the harness's own (see other.rs): C01 must not raise an alarm because some
/// library filter used as a stage is broken
fn pipe_leaf(rng: &mut Rng) -> String {
    match rng.below(5) {
        4 => format!("p_side;b={}", rng.range(-3, 3)),
        0 => format!("p_acc;a={}", rng.range(-3, 3)),
        1 => format!("p_affine;a={};b={}", *rng.pick(&[-2i64, -1, 2, 3]), rng.range(-3, 3)),
        2 => format!("p_lag;init={}", rng.range(-3, 3)),
        _ => "p_max".to_string(),
    }
}

/// all binary trees over the leaf sequence `items` (in order)
fn all_trees(items: &[String]) -> Vec<String> {
    if items.len() == 1 {
        return vec![items[0].clone()];
    }
    let mut out = Vec::new();
    for split in 1..items.len() {
        for l in all_trees(&items[..split]) {
            for r in all_trees(&items[split..]) {
                out.push(format!("P({},{})", l, r));
            }
        }
    }
    out
}

/// randomly wrap subtrees in `U(…)` and turn `P(` into `O(` where the left operand is a pipe or unit pipe
fn decorate(rng: &mut Rng, shape: &str, allow_or: bool) -> String {
    // work on the parsed structure by a tiny recursive rewrite over the string
    fn go(rng: &mut Rng, s: &str, allow_or: bool) -> String {
        if s.starts_with("P(") {
            // split top-level args
            let inner = &s[2..s.len() - 1];
            let mut depth = 0;
            let mut cut = 0;
            for (i, ch) in inner.char_indices() {
                match ch {
                    '(' => depth += 1,
                    ')' => depth -= 1,
                    ',' if depth == 0 => {
                        cut = i;
                        break;
                    }
                    _ => {}
                }
            }
            let mut l = go(rng, &inner[..cut], allow_or);
            let r = go(rng, &inner[cut + 1..], allow_or);
            let mut op = "P";
            if rng.chance(1, 3) && allow_or {
                if !(l.starts_with("P(") || l.starts_with("U(") || l.starts_with("O(")) {
                    l = format!("U({})", l);
                }
                // `O` needs a Pipe (built by P, not O) or a UnitPipe on the left
                if l.starts_with("P(") || l.starts_with("U(") {
                    op = "O";
                }
            }
            let res = format!("{}({},{})", op, l, r);
            if rng.chance(1, 6) { format!("U({})", res) } else { res }
        } else if rng.chance(1, 6) {
            format!("U({})", s)
        } else {
            s.to_string()
        }
    }
    go(rng, shape, allow_or)
}

/// C01
pub fn gen_pipes(rng: &mut Rng, tier: &Tier) -> Vec<Case> {
    let mut cases = Vec::new();
    // statically typed pipes of stateful stages that are copied: `clone()` and `clone_from` into an existing pipe
    for (name, shape, k) in crate::other::CPIPE_SHAPES {
        for _ in 0..tier.n(4, 30) {
            let leaves = |rng: &mut Rng| -> String { (0..k).map(|_| pipe_leaf(rng)).collect::<Vec<_>>().join("|") };
            let mut c = vec![
                format!("new 1 pipe shape={} leaves={} static={}", shape, leaves(rng), name),
                format!("new 2 pipe shape={} leaves={} static={}", shape, leaves(rng), name),
            ];
            for _ in 0..rng.range(1, 5) {
                c.push(format!("pf 1 {}", rng.range(-5, 5)));
            }
            for _ in 0..rng.range(0, 4) {
                c.push(format!("pf 2 {}", rng.range(-5, 5)));
            }
            if rng.chance(1, 2) {
                c.push("pclonefrom 2 1".into());
            } else {
                c.push("pclone 1 2".into());
            }
            for _ in 0..rng.range(2, 6) {
                let x = rng.range(-5, 5);
                c.push(format!("pf 1 {}", x));
                c.push(format!("pf 2 {}", x));
            }
            c.push("pclonefrom 1 2".into());
            c.push(format!("pf 1 {}", rng.range(-5, 5)));
            cases.push(c);
        }
    }
    // statically typed nestings of zero-sized stages acting on state outside themselves (zpipes.rs)
    for (name, _, _, role) in crate::zpipes::menu() {
        for _ in 0..tier.n(3, 20) {
            let mut c = vec![format!("new 1 {}", crate::zpipes::describe(name))];
            match role {
                'f' => {
                    for _ in 0..rng.range(2, 7) {
                        c.push(format!("pf 1 {}", rng.range(-5, 5)));
                    }
                }
                'k' => {
                    c.push("pfin 1".into());
                    for _ in 0..rng.range(1, 6) {
                        c.push(format!("psink 1 {}", rng.range(-5, 5)));
                        if rng.chance(1, 3) {
                            c.push("pfin 1".into());
                        }
                    }
                    c.push("pfin 1".into());
                }
                'x' => {
                    // a `source | … | sink` pipeline: pulled some way (or to the end, or beyond), then finalised
                    for _ in 0..rng.range(0, 6) {
                        c.push("ppull 1".into());
                    }
                    c.push("pfin 1".into());
                    cases.push(c);
                    continue;
                }
                _ => {
                    for _ in 0..rng.range(2, 7) {
                        c.push("ppull 1".into());
                    }
                }
            }
            c.push("plog 1".into());
            cases.push(c);
        }
    }
    // long runs: more samples through one pipe than a 16-bit counter can count, in each of the three roles
    {
        let n = crate::gen::LONG_RUN;
        let leaves = |rng: &mut Rng, k: usize| -> String { (0..k).map(|_| pipe_leaf(rng)).collect::<Vec<_>>().join("|") };
        let mut c = vec![format!("new 1 pipe shape=P(P(L0,U(L1)),L2) leaves={}", leaves(rng, 3)), "plong 1".to_string()];
        for _ in 0..n {
            c.push(format!("pf 1 {}", rng.range(-5, 5)));
        }
        cases.push(c);
        let mut c = vec![format!("new 1 pipe shape=P(P(S,L0),L1) leaves={} source=take({},incr(0,1))", leaves(rng, 2), n), "plong 1".to_string()];
        for _ in 0..n + 2 {
            c.push("ppull 1".into());
        }
        cases.push(c);
        let mut c = vec![format!("new 1 pipe shape=P(L0,P(L1,K)) leaves={} sink=own_sum", leaves(rng, 2)), "plong 1".to_string()];
        for _ in 0..n {
            c.push(format!("psink 1 {}", rng.range(-5, 5)));
        }
        c.push("pfin 1".into());
        c.push("palive 1".into());
        cases.push(c);
    }
    let reps = tier.n(4, 30);
    for k in 1..=6usize {
        let items: Vec<String> = (0..k).map(|i| format!("L{}", i)).collect();
        let trees = if k == 1 { vec!["U(L0)".to_string()] } else { all_trees(&items) };
        for t in &trees {
            for _ in 0..reps {
                let shape = decorate(rng, t, true);
                let leaves: Vec<String> = (0..k).map(|_| pipe_leaf(rng)).collect();
                let mut c = vec![format!("new 1 pipe shape={} leaves={}", shape, leaves.join("|"))];
                for _ in 0..rng.range(2, 9) {
                    c.push(format!("pf 1 {}", rng.range(-5, 5)));
                    if rng.chance(1, 3) {
                        c.push("plog 1".into());
                    }
                }
                c.push("plog 1".into());
                cases.push(c);
            }
        }
        // a source as first stage
        let items_s: Vec<String> = std::iter::once("S".to_string()).chain((0..k).map(|i| format!("L{}", i))).collect();
        let mut trees_s = all_trees(&items_s);
        // the source must be the left-most leaf of left operands only: keep all (S is always first)
        if trees_s.len() > 30 {
            let mut pick = Vec::new();
            for _ in 0..30 {
                pick.push(trees_s[rng.below(trees_s.len() as u64) as usize].clone());
            }
            trees_s = pick;
        }
        for t in &trees_s {
            let shape = decorate(rng, t, cfg!(feature = "or_source"));
            let leaves: Vec<String> = (0..k).map(|_| pipe_leaf(rng)).collect();
            let n = rng.range(0, 5);
            let src = if rng.chance(1, 3) {
                // a source that reports the end and then yields again: the pipe must keep polling it
                let v: Vec<String> = (0..n + 2)
                    .map(|_| if rng.chance(1, 3) { "-".to_string() } else { rng.range(-5, 5).to_string() })
                    .collect();
                format!("burst[{}]", v.join(","))
            } else if rng.chance(1, 4) {
                format!("take({},incr({},{}))", n, rng.range(-3, 3), rng.range(-2, 2))
            } else {
                let v: Vec<String> = (0..n).map(|_| rng.range(-5, 5).to_string()).collect();
                format!("iter[{}]", v.join(","))
            };
            let mut c = vec![format!("new 1 pipe shape={} leaves={} source={}", shape, leaves.join("|"), src)];
            for _ in 0..(n + 4) {
                c.push("ppull 1".into());
            }
            c.push("plog 1".into());
            cases.push(c);
        }
        // a sink as last stage
        let items_k: Vec<String> = (0..k).map(|i| format!("L{}", i)).chain(std::iter::once("K".to_string())).collect();
        let mut trees_k = all_trees(&items_k);
        if trees_k.len() > 30 {
            let mut pick = Vec::new();
            for _ in 0..30 {
                pick.push(trees_k[rng.below(trees_k.len() as u64) as usize].clone());
            }
            trees_k = pick;
        }
        for t in &trees_k {
            let shape = decorate(rng, t, cfg!(feature = "or_sink"));
            let leaves: Vec<String> = (0..k).map(|_| pipe_leaf(rng)).collect();
            // the harness's own sinks: a defect of a library sink is C11's business, not C01's
            let sink = *rng.pick(&["own_collect", "own_collect", "own_sum"]);
            let mut c = vec![format!("new 1 pipe shape={} leaves={} sink={}", shape, leaves.join("|"), sink), "pfin 1".to_string()];
            for _ in 0..rng.range(1, 7) {
                c.push(format!("psink 1 {}", rng.range(-5, 5)));
                if rng.chance(1, 3) {
                    c.push("pfin 1".into());
                    c.push("palive 1".into());
                }
            }
            c.push("pfin 1".into());
            c.push("palive 1".into());
            c.push("plog 1".into());
            cases.push(c);
        }
    }
    let _ = rat(rng);
    cases
}

pub fn generate(prop: &str, rng: &mut Rng, tier: &Tier) -> Vec<Case> {
    match prop {
        "C01" => gen_pipes(rng, tier),
        "C10" => gen_sources(rng, tier),
        "C11" => gen_sinks(rng, tier),
        p => crate::gen3::generate(p, rng, tier),
    }
}
