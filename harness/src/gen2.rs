//! Generators for the non-filter families (sources, sinks, pipes, presets, Hampel, ownership).
use crate::gen::{Case, Tier};
use crate::prng::Rng;

pub fn generate(prop: &str, _rng: &mut Rng, _tier: &Tier) -> Vec<Case> {
    panic!("harness: no generator for property {}", prop)
}
