//! Values on the line protocol: exact rationals and `nan`; canonical rendering of outputs.
use crate::q::Q;
use signalo_filters::classify::slopes::Slope;
use signalo_filters::wavelet::Decomposition;

#[derive(Clone, Copy, Debug, PartialEq)]
pub enum Val {
    Q(Q),
    NaN,
    /// a value that is unequal even to itself and still ordered against every other value (`3~` on the protocol): what
    /// `(3.0, NaN)` is among tuples compared lexicographically
    Odd(Q),
    /// IEEE negative zero (`-0` on the protocol): equal to zero under `==`, a different value bit for bit
    NegZero,
    /// bit pattern of an f64 (`x` + 16 hex digits on the protocol)
    F64(u64),
    /// bit pattern of an f32 (`y` + 8 hex digits)
    F32(u32),
}

pub fn parse_val(s: &str) -> Val {
    if s == "nan" {
        return Val::NaN;
    }
    if s == "-0" {
        return Val::NegZero;
    }
    if let Some(core) = s.strip_suffix('~') {
        return match parse_val(core) {
            Val::Q(q) => Val::Odd(q),
            _ => panic!("harness: bad odd value"),
        };
    }
    if s.len() == 17 && s.starts_with('x') {
        return Val::F64(u64::from_str_radix(&s[1..], 16).expect("bad f64 bits"));
    }
    if s.len() == 9 && s.starts_with('y') {
        return Val::F32(u32::from_str_radix(&s[1..], 16).expect("bad f32 bits"));
    }
    if let Some((n, d)) = s.split_once('/') {
        Val::Q(Q::new(n.parse().expect("bad numerator"), d.parse().expect("bad denominator")))
    } else {
        Val::Q(Q::new(s.parse().expect("bad integer"), 1))
    }
}

pub fn parse_vals(s: &str) -> Vec<Val> {
    if s == "-" {
        return vec![];
    }
    s.split(',').map(parse_val).collect()
}

/// conversion of protocol values into a filter's input type
pub trait FromArgs: Sized {
    fn from_args(a: &[Val]) -> Self;
}

pub trait FromVal: Sized {
    fn from_val(v: Val) -> Self;
}

impl FromVal for Q {
    fn from_val(v: Val) -> Q {
        match v {
            Val::Q(q) => q,
            _ => panic!("harness: non-rational value fed to an exact-rational instance"),
        }
    }
}
impl FromVal for f64 {
    fn from_val(v: Val) -> f64 {
        match v {
            Val::Q(q) => q.to_f64_exact(),
            Val::NaN => f64::NAN,
            Val::NegZero => -0.0,
            Val::F64(b) => f64::from_bits(b),
            Val::F32(_) => panic!("harness: f32 bits fed to an f64 instance"),
            Val::Odd(_) => panic!("harness: a composite-like value fed to an f64 instance"),
        }
    }
}
impl FromVal for f32 {
    fn from_val(v: Val) -> f32 {
        match v {
            Val::F32(b) => f32::from_bits(b),
            _ => panic!("harness: f32 instances take bit patterns"),
        }
    }
}
/// bit-pattern rendering of float outputs
pub trait Bits {
    fn bits(&self) -> String;
}
impl Bits for f64 {
    fn bits(&self) -> String {
        // one bit pattern for every NaN: sign and payload of a NaN are not part of any property (and may differ between
        // run-time arithmetic and compile-time folding)
        format!("x{:016x}", if self.is_nan() { 0x7ff8_0000_0000_0000u64 } else { self.to_bits() })
    }
}
impl Bits for f32 {
    fn bits(&self) -> String {
        format!("y{:08x}", if self.is_nan() { 0x7fc0_0000u32 } else { self.to_bits() })
    }
}
impl<T: Bits> Bits for Decomposition<T> {
    fn bits(&self) -> String {
        format!("{} {}", self.low.bits(), self.high.bits())
    }
}
impl<T: Bits> Bits for signalo_filters::mean::mean_variance::Output<T> {
    fn bits(&self) -> String {
        format!("{} {}", self.mean.bits(), self.variance.bits())
    }
}
impl<T: Bits> Bits for signalo_filters::mean::exp::mean_variance::Output<T> {
    fn bits(&self) -> String {
        format!("{} {}", self.mean.bits(), self.variance.bits())
    }
}
pub fn bits_list<'a, T: Bits + 'a, I: Iterator<Item = &'a T>>(it: I) -> String {
    let v: Vec<String> = it.map(|x| x.bits()).collect();
    if v.is_empty() { "-".to_string() } else { v.join(" ") }
}
impl FromVal for i64 {
    fn from_val(v: Val) -> i64 {
        match v {
            Val::Q(q) => q.to_i64_exact(),
            _ => panic!("harness: non-rational value fed to an integer instance"),
        }
    }
}
macro_rules! small_int {
    ($($t:ty),*) => {$(
        impl FromVal for $t {
            fn from_val(v: Val) -> $t {
                <$t>::try_from(i64::from_val(v)).expect("harness: value outside the range of the small integer sample type")
            }
        }
        impl Render for $t {
            fn r(&self) -> String {
                format!("{}", self)
            }
        }
    )*};
}
small_int!(u8, i8);
impl FromVal for Slope {
    fn from_val(v: Val) -> Slope {
        match i64::from_val(v) {
            0 => Slope::Rising,
            1 => Slope::None,
            2 => Slope::Falling,
            _ => panic!("harness: bad slope code"),
        }
    }
}

macro_rules! from_args_single {
    ($($t:ty),*) => {$(
        impl FromArgs for $t {
            fn from_args(a: &[Val]) -> Self {
                assert!(a.len() == 1, "harness: expected one input");
                <$t>::from_val(a[0])
            }
        }
    )*};
}
from_args_single!(Q, f64, f32, i64, Slope, Fz, u8, i8, Sn, Bl);

/// a `bool` sample (`0` / `1` on the protocol): a type with a niche — `Option<Bl>::None` is NOT the all-zero bit pattern,
/// so memory that is merely zeroed reads as `Some(false)`, a phantom sample
#[derive(Clone, Copy, Debug, Default, PartialEq, PartialOrd)]
pub struct Bl(pub bool);
impl FromVal for Bl {
    fn from_val(v: Val) -> Bl {
        match i64::from_val(v) {
            0 => Bl(false),
            1 => Bl(true),
            _ => panic!("harness: a bool sample is 0 or 1"),
        }
    }
}
impl Render for Bl {
    fn r(&self) -> String {
        (if self.0 { "1" } else { "0" }).to_string()
    }
}

/// a composite-like sample: ordered by `v`; when `odd`, unequal to everything including itself and incomparable with
/// values of the same `v` — the behaviour of `(v, f64::NAN)` under the derived lexicographic `PartialOrd`
#[derive(Clone, Copy, Debug)]
pub struct Sn {
    pub v: Q,
    pub odd: bool,
}
impl PartialEq for Sn {
    fn eq(&self, o: &Sn) -> bool {
        !self.odd && !o.odd && self.v == o.v
    }
}
impl PartialOrd for Sn {
    fn partial_cmp(&self, o: &Sn) -> Option<std::cmp::Ordering> {
        match self.v.partial_cmp(&o.v) {
            Some(std::cmp::Ordering::Equal) if self.odd || o.odd => None,
            r => r,
        }
    }
}
impl FromVal for Sn {
    fn from_val(v: Val) -> Sn {
        match v {
            Val::Q(q) => Sn { v: q, odd: false },
            Val::Odd(q) => Sn { v: q, odd: true },
            _ => panic!("harness: bad value for the composite sample type"),
        }
    }
}
impl Render for Sn {
    fn r(&self) -> String {
        if self.odd { format!("{}~", self.v) } else { self.v.r() }
    }
}

/// an `f64` sample that keeps the sign of a zero on the protocol (`-0`): for code that merely stores, selects or hands on
/// samples (median, the cache wrapper), `+0.0` and `-0.0` are two different values although `==` calls them equal
#[derive(Clone, Copy, Debug, Default, PartialEq, PartialOrd)]
pub struct Fz(pub f64);
impl FromVal for Fz {
    fn from_val(v: Val) -> Fz {
        Fz(f64::from_val(v))
    }
}
macro_rules! fz_arith {
    ($tr:ident, $m:ident) => {
        impl std::ops::$tr for Fz {
            type Output = Fz;
            fn $m(self, o: Fz) -> Fz {
                Fz(std::ops::$tr::$m(self.0, o.0))
            }
        }
    };
}
fz_arith!(Add, add);
fz_arith!(Sub, sub);
fz_arith!(Mul, mul);
fz_arith!(Div, div);
fz_arith!(Rem, rem);
impl num_traits::Zero for Fz {
    fn zero() -> Fz {
        Fz(0.0)
    }
    fn is_zero(&self) -> bool {
        self.0 == 0.0
    }
}
impl num_traits::One for Fz {
    fn one() -> Fz {
        Fz(1.0)
    }
}
impl num_traits::Num for Fz {
    type FromStrRadixErr = ();
    fn from_str_radix(_s: &str, _r: u32) -> Result<Fz, ()> {
        Err(())
    }
}
impl Render for Fz {
    fn r(&self) -> String {
        if self.0 == 0.0 && self.0.is_sign_negative() {
            "-0".to_string()
        } else {
            self.0.r()
        }
    }
}

impl<T: FromVal> FromArgs for (T, T) {
    fn from_args(a: &[Val]) -> Self {
        assert!(a.len() == 2, "harness: expected two inputs");
        (T::from_val(a[0]), T::from_val(a[1]))
    }
}
impl<T: FromVal> FromArgs for Decomposition<T> {
    fn from_args(a: &[Val]) -> Self {
        assert!(a.len() == 2, "harness: expected two inputs");
        Decomposition { low: T::from_val(a[0]), high: T::from_val(a[1]) }
    }
}

/// canonical text of an output
pub trait Render {
    fn r(&self) -> String;
}
impl Render for Q {
    fn r(&self) -> String {
        format!("{}", self)
    }
}
impl Render for i64 {
    fn r(&self) -> String {
        format!("{}", self)
    }
}
impl Render for usize {
    fn r(&self) -> String {
        format!("{}", self)
    }
}
impl Render for bool {
    fn r(&self) -> String {
        format!("{}", self)
    }
}
impl Render for f64 {
    fn r(&self) -> String {
        if self.is_nan() {
            "nan".to_string()
        } else {
            Q::from_f64_exact(*self).r()
        }
    }
}
impl<T: Render> Render for Option<T> {
    fn r(&self) -> String {
        match self {
            None => "none".to_string(),
            Some(v) => v.r(),
        }
    }
}
impl<T: Render> Render for (T, T) {
    fn r(&self) -> String {
        format!("{} {}", self.0.r(), self.1.r())
    }
}
impl<T: Render> Render for Decomposition<T> {
    fn r(&self) -> String {
        format!("{} {}", self.low.r(), self.high.r())
    }
}
impl<T: Render> Render for signalo_filters::mean::mean_variance::Output<T> {
    fn r(&self) -> String {
        format!("{} {}", self.mean.r(), self.variance.r())
    }
}
impl<T: Render> Render for signalo_filters::mean::exp::mean_variance::Output<T> {
    fn r(&self) -> String {
        format!("{} {}", self.mean.r(), self.variance.r())
    }
}
impl<T: Render> Render for Vec<T> {
    fn r(&self) -> String {
        render_list(self.iter())
    }
}

pub fn render_list<'a, T: Render + 'a, I: Iterator<Item = &'a T>>(it: I) -> String {
    let v: Vec<String> = it.map(|x| x.r()).collect();
    if v.is_empty() {
        "-".to_string()
    } else {
        v.join(" ")
    }
}
