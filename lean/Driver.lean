import SignaloModel.Model.Value
import SignaloModel.Model.Registry
import SignaloModel.Model.Spec
import SignaloModel.Driver.Others
/-!
`model_driver`: reads `<op> => <impl result>` lines (Appendix D of DESIGN.md), runs the Lean models and
the specification functions on the same operations and reports every line where the implementation's
result differs from the model (`DIFF`) or from the specification (`SPEC`).
-/
open SignaloModel SignaloModel.Driver

partial def loop (h : IO.FS.Stream) (st : DState) : IO DState := do
  let line ← h.getLine
  if line.isEmpty then return st
  let (st', out) := step st (line.trimAscii.toString)
  for o in out do IO.println o
  loop h st'

def main : IO Unit := do
  let st ← loop (← IO.getStdin) {}
  for o in (finish st) do IO.println o
