/-! Model/proofs for C08/C09 (import-free): threshold, Schmitt trigger, debounce, slopes, peaks. -/
namespace SignaloModel.Classify

/-- the `PartialOrd` methods these filters call -/
class Cmp (α : Type) where
  ge : α → α → Bool
  gt : α → α → Bool
  pcmp : α → α → Option Ordering

variable {α β : Type}

/-! ### C08 -/

/-- `Threshold::filter`: `outputs[(input >= threshold) as usize]` -/
def thresholdStep [Cmp α] (thr : α) (off on : β) (x : α) : β :=
  if Cmp.ge x thr then on else off

/-- `Schmitt::filter`: `on = if on { input >= low } else { input > high }` -/
def schmittStep [Cmp α] (low high : α) (on : Bool) (x : α) : Bool :=
  if on then Cmp.ge x low else Cmp.gt x high

/-- `Debounce::filter` with a counter saturating at `M` (`usize::MAX`) -/
def debounceStep [BEq α] (M : Nat) (pred : α) (count : Nat) (x : α) : Nat :=
  if x == pred then min (count + 1) M else 0

def debounceRun [BEq α] (M : Nat) (pred : α) (count : Nat) : List α → Nat
  | [] => count
  | x :: xs => debounceRun M pred (debounceStep M pred count x) xs

/-- the same with an unbounded counter -/
def runLenFrom [BEq α] (pred : α) (r : Nat) : List α → Nat
  | [] => r
  | x :: xs => runLenFrom pred (if x == pred then r + 1 else 0) xs

/-- length of the leading run of predicate-equal samples -/
def leadRun [BEq α] (pred : α) : List α → Nat
  | [] => 0
  | x :: xs => if x == pred then leadRun pred xs + 1 else 0

/-- length of the run of predicate-equal samples ending at the last sample
(the list read from the most recent sample backwards) -/
def trailingRun [BEq α] (pred : α) (xs : List α) : Nat := leadRun pred xs.reverse

/-! ### C09 -/

inductive Slope | rising | flat | falling
deriving DecidableEq, Repr

inductive Peak | max | none | min
deriving DecidableEq, Repr

/-- `Slopes::filter` on the previous sample -/
def slopeOf [Cmp α] (prev : Option α) (x : α) : Slope :=
  match prev with
  | Option.none => .flat
  | some p =>
    match Cmp.pcmp p x with
    | some .lt => .rising
    | some .eq => .flat
    | some .gt => .falling
    | Option.none => .flat

/-- `Peaks::filter_internal`: decision table on (previous slope, current slope) -/
def peakOf (prev : Option Slope) (s : Slope) : Peak :=
  match prev with
  | Option.none | some .flat => .none
  | some .rising => match s with | .falling => .max | _ => .none
  | some .falling => match s with | .rising => .min | _ => .none

structure PeaksState (α : Type) where
  prevInput : Option α      -- `state.slopes.state.input`
  slope : Option Slope      -- `state.slope`

/-- value-driven `Peaks::filter` -/
def peaksStep [Cmp α] (st : PeaksState α) (x : α) : PeaksState α × Peak :=
  let s := slopeOf st.prevInput x
  ({ prevInput := some x, slope := some s }, peakOf st.slope s)

def peaksRun [Cmp α] (st : PeaksState α) : List α → List Peak
  | [] => []
  | x :: xs => (peaksStep st x).2 :: peaksRun (peaksStep st x).1 xs

/-- slope-driven `Peaks::filter` (the inner slopes filter is bypassed) -/
def peaksSlopeRun (prev : Option Slope) : List Slope → List Peak
  | [] => []
  | s :: ss => peakOf prev s :: peaksSlopeRun (some s) ss

def slopesRun [Cmp α] (prev : Option α) : List α → List Slope
  | [] => []
  | x :: xs => slopeOf prev x :: slopesRun (some x) xs

end SignaloModel.Classify
