import SignaloModel.Model.Registry
import SignaloModel.Model.Pipes
import SignaloModel.Model.PipesSink
import SignaloModel.Model.SinkModels
/-!
Registry filters as stages of the generic pipe model (C01): a single-input, single-output registry filter
becomes a `Pipes.Stage`; `none` states stand for "the stage has panicked" (then `err` is emitted).
Import-free.
-/
namespace SignaloModel.PipeRegistry
open SignaloModel SignaloModel.Registry

variable {α : Type} [Add α] [Sub α] [Mul α] [Div α] [Neg α] [OfNat α 0] [OfNat α 1]
  [LT α] [DecidableLT α] [BEq α] [Median.POrd α] [Classify.Cmp α]

/-- one step of a registry filter as a stage; `err` is what a panicked stage emits -/
def stageStep (err : α) (s : Option (St α)) (x : α) : Option (St α) × α :=
  match s with
  | none => (none, err)
  | some st =>
    match st.filter [x] with
    | some (st', [y]) => (some st', y)
    | _ => (none, err)

def stageOf (err : α) (st : St α) : Pipes.Stage α :=
  { σ := Option (St α), step := stageStep err, st := some st }

/-- specification of a pipe over registry filters: feed the *whole* stream through the stages one after
the other (every stage sees the complete output stream of its predecessor) -/
def leafOut (err : α) (st : St α) (xs : List α) : List α :=
  match st.run (xs.map (fun v => [v])) with
  | some (_, ys) => ys.map (fun y => y.headD err)
  | none => xs.map (fun _ => err)

def seqSpec (err : α) (leaves : List (St α)) (xs : List α) : List α :=
  leaves.foldl (fun stream st => leafOut err st stream) xs

/-- the inputs each stage is invoked with, in pipeline order -/
def seqLogs (err : α) (leaves : List (St α)) (xs : List α) : List (List α) :=
  (leaves.foldl (fun (acc : List (List α) × List α) st => (acc.1 ++ [acc.2], leafOut err st acc.2)) ([], xs)).1

end SignaloModel.PipeRegistry
