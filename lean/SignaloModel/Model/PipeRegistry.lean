import SignaloModel.Model.Registry
import SignaloModel.Model.Pipes
import SignaloModel.Model.PipesSink
import SignaloModel.Model.SinkModels
/-!
Registry filters as stages of the generic pipe model (C01): a single-input, single-output registry filter
becomes a `Pipes.Stage`; `none` states stand for "the stage has panicked" (then `err` is emitted).
Import-free.
-/
namespace SignaloModel.PipeRegistry
open SignaloModel SignaloModel.Registry

variable {α : Type} [Add α] [Sub α] [Mul α] [Div α] [Neg α] [OfNat α 0] [OfNat α 1]
  [LT α] [DecidableLT α] [BEq α] [Median.POrd α] [Classify.Cmp α]

/-- one step of a registry filter as a stage; `err` is what a panicked stage emits -/
def stageStep (err : α) (s : Option (St α)) (x : α) : Option (St α) × α :=
  match s with
  | none => (none, err)
  | some st =>
    match st.filter [x] with
    | some (st', [y]) => (some st', y)
    | _ => (none, err)

def stageOf (err : α) (st : St α) : Pipes.Stage α :=
  { σ := Option (St α), step := stageStep err, st := some st }

/-- specification of a pipe over registry filters: feed the *whole* stream through the stages one after
the other (every stage sees the complete output stream of its predecessor) -/
def leafOut (err : α) (st : St α) (xs : List α) : List α :=
  match st.run (xs.map (fun v => [v])) with
  | some (_, ys) => ys.map (fun y => y.headD err)
  | none => xs.map (fun _ => err)

def seqSpec (err : α) (leaves : List (St α)) (xs : List α) : List α :=
  leaves.foldl (fun stream st => leafOut err st stream) xs

/-- the inputs each stage is invoked with, in pipeline order -/
def seqLogs (err : α) (leaves : List (St α)) (xs : List α) : List (List α) :=
  (leaves.foldl (fun (acc : List (List α) × List α) st => (acc.1 ++ [acc.2], leafOut err st acc.2)) ([], xs)).1

/-! ### stages defined by the harness itself (C01 must not depend on any library filter being right) -/

/-- simple, mutually non-commuting stateful stages: running sum plus offset, affine map, one-sample lag,
running maximum -/
inductive Own (α : Type) where
  | acc (sum a : α)
  | affine (a b : α)
  | lag (prev : α)
  | runMax (m : Option α)

def Own.step : Own α → α → Own α × α
  | .acc s a, x => (.acc (s + x) a, s + x + a)
  | .affine a b, x => (.affine a b, a * x + b)
  | .lag p, x => (.lag x, p)
  | .runMax m, x =>
    let r := match m with | none => x | some m => if Classify.Cmp.gt x m then x else m
    (.runMax (some r), r)

def ownStage (o : Own α) : Pipes.Stage α := { σ := Own α, step := Own.step, st := o }

/-- a leaf of a pipe: a library filter (registry model) or a harness-defined stage -/
inductive Leaf (α : Type) where
  | lib (st : St α)
  | own (o : Own α)

def Leaf.stage (err : α) : Leaf α → Pipes.Stage α
  | .lib st => stageOf err st
  | .own o => ownStage o

/-- the whole output stream of one leaf fed a whole input stream -/
def Leaf.out (err : α) : Leaf α → List α → List α
  | .lib st, xs => leafOut err st xs
  | .own o, xs => (xs.foldl (fun (acc : Own α × List α) x => ((acc.1.step x).1, acc.2 ++ [(acc.1.step x).2])) (o, [])).2

/-- specification of a pipe: feed the WHOLE stream through the leaves one after the other -/
def seqSpecL (err : α) (leaves : List (Leaf α)) (xs : List α) : List α :=
  leaves.foldl (fun stream l => l.out err stream) xs

/-- the inputs each leaf is invoked with, in pipeline order -/
def seqLogsL (err : α) (leaves : List (Leaf α)) (xs : List α) : List (List α) :=
  (leaves.foldl (fun (acc : List (List α) × List α) l => (acc.1 ++ [acc.2], l.out err acc.2)) ([], xs)).1

end SignaloModel.PipeRegistry
