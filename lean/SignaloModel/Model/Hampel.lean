/-! Model/proofs for C18 (import-free): the decision of `Hampel::filter_internal`. -/
namespace SignaloModel.Hampel

variable {α : Type} [Sub α] [Mul α] [Neg α] [OfNat α 0] [LT α] [DecidableLT α]

/-- `Signed::abs` -/
def absG (x : α) : α := if x < 0 then -x else x

/-- `filter_internal` after the accessors have been read (`mn`, `md`, `mx` = `min()`, `median()`,
`max()` of the previous window, each defaulting to the input when the window is empty) -/
def decide (factor t mn md mx x : α) : α :=
  let minDev := absG (md - mn)
  let maxDev := absG (mx - md)
  let medAbsDev := if minDev < maxDev then maxDev else minDev
  let stdDev := medAbsDev * factor
  let dev := absG (x - md)
  let threshold := stdDev * t
  if threshold < dev then md else x

end SignaloModel.Hampel
