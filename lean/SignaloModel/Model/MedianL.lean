import SignaloModel.Model.Median
/-!
Model: pointer-level (literal) model of `crates/filters/src/median.rs`:
ring buffer of nodes with `previous`/`next` indices, `cursor`, `head`, `median`.
Every indexing operation is checked (`none` = Rust panic).
-/
namespace SignaloModel.MedianL
open SignaloModel.Median (POrd)

structure Node (α : Type) where
  value : Option α
  prev : Nat
  next : Nat
deriving Repr

structure LS (α : Type) where
  buffer : List (Node α)
  cursor : Nat
  head : Nat
  median : Nat
deriving Repr

variable {α : Type}

/-- `usize::MAX` as used for the dangling links of a removed node -/
def sentinel : Nat := 18446744073709551615

def init (N : Nat) : LS α :=
  { buffer := (List.range N).map (fun i => { value := none, prev := (i + N - 1) % N, next := (i + 1) % N }),
    cursor := 0, head := 0, median := 0 }

/-- `buffer[i] = node` with bounds check -/
def setNode (b : List (Node α)) (i : Nat) (n : Node α) : Option (List (Node α)) :=
  if i < b.length then some (b.set i n) else none

/-- `buffer[i].next = v` -/
def setNext (b : List (Node α)) (i v : Nat) : Option (List (Node α)) := do
  let n ← b[i]?
  setNode b i { n with next := v }

/-- `buffer[i].previous = v` -/
def setPrev (b : List (Node α)) (i v : Nat) : Option (List (Node α)) := do
  let n ← b[i]?
  setNode b i { n with prev := v }

def moveHeadForward (s : LS α) : Option (LS α) :=
  if s.cursor = s.head then do
    let n ← s.buffer[s.head]?
    pure { s with head := n.next }
  else pure s

/-- buffer-level part of `remove_node` for slot `c`:
`buffer[pred].next = succ; buffer[c] = {MAX, None, MAX}; buffer[succ].previous = pred` -/
def unlink (b : List (Node α)) (c : Nat) : Option (List (Node α)) := do
  let node ← b[c]?
  let b1 ← setNext b node.prev node.next
  let b2 ← setNode b1 c { value := none, prev := sentinel, next := sentinel }
  setPrev b2 node.next node.prev

def removeNode (s : LS α) : Option (LS α) := do
  let b ← unlink s.buffer s.cursor
  pure { s with buffer := b }

def shouldInsert [POrd α] (s : LS α) (x : α) (current index : Nat) : Option Bool := do
  let n ← s.buffer[current]?
  match n.value with
  | some v => pure ((index + 1 == s.buffer.length) || POrd.ge v x)
  | none => pure true

/-- buffer-level part of `insert(value, current)`, the new node going to slot `c`:
`buffer[pred].next = c; buffer[c] = {pred, Some(value), current}; buffer[current].previous = c` -/
def linkBefore (b : List (Node α)) (c : Nat) (x : α) (current : Nat) : Option (List (Node α)) := do
  let cur ← b[current]?
  let predecessor := cur.prev
  let b1 ← setNext b predecessor c
  let b2 ← setNode b1 c { value := some x, prev := predecessor, next := current }
  setPrev b2 current c

def insert (s : LS α) (x : α) (current : Nat) : Option (LS α) := do
  let b ← linkBefore s.buffer s.cursor x current
  pure { s with buffer := b }

def shiftMedian (s : LS α) (index current : Nat) : Option (LS α) := do
  let n ← s.buffer[current]?
  if index % 2 = 1 ∧ n.value.isSome then
    let m ← s.buffer[s.median]?
    pure { s with median := m.next }
  else pure s

structure WalkL (α : Type) where
  s : LS α
  current : Nat
  inserted : Bool

def walkBody [POrd α] (x : α) (w : WalkL α) (index : Nat) : Option (WalkL α) := do
  let w1 ←
    if !w.inserted then do
      if (← shouldInsert w.s x w.current index) then
        let s' ← insert w.s x w.current
        pure { w with s := s', inserted := true }
      else pure w
    else pure w
  let s2 ← shiftMedian w1.s index w1.current
  let cur ← s2.buffer[w1.current]?
  pure { s := s2, current := cur.next, inserted := w1.inserted }

def insertValue [POrd α] (s : LS α) (x : α) : Option (LS α) := do
  let w ← (List.range s.buffer.length).foldlM (walkBody x) { s := s, current := s.head, inserted := false }
  pure w.s

def updateHead [POrd α] (s : LS α) (x : α) : Option (LS α) := do
  let h ← s.buffer[s.head]?
  let should := match h.value with
    | some hv => POrd.le x hv
    | none => true
  if should then
    let m ← s.buffer[s.median]?
    pure { s with head := s.cursor, median := m.prev }
  else pure s

def adjustEven (s : LS α) : Option (LS α) :=
  if s.buffer.length % 2 = 0 then do
    let m ← s.buffer[s.median]?
    pure { s with median := m.prev }
  else pure s

def step [POrd α] (s : LS α) (x : α) : Option (LS α × α) := do
  let s1 ← moveHeadForward s
  let s2 ← removeNode s1
  let s3 : LS α := { s2 with median := s2.head }
  let s4 ← insertValue s3 x
  let s5 ← updateHead s4 x
  let s6 ← adjustEven s5
  let s7 : LS α := { s6 with cursor := (s6.cursor + 1) % s6.buffer.length }
  let m ← s7.buffer[s7.median]?
  let y ← m.value
  pure (s7, y)

def run [POrd α] (s : LS α) : List α → Option (List α)
  | [] => some []
  | x :: xs => do
    let (s', y) ← step s x
    let ys ← run s' xs
    pure (y :: ys)

/-- abstraction: walk `next` from `head` -/
def walkFrom (b : List (Node α)) : Nat → Nat → List (Nat × Option α)
  | 0, _ => []
  | k + 1, i => match b[i]? with
    | some n => (i, n.value) :: walkFrom b k n.next
    | none => []

def abs (s : LS α) : SignaloModel.Median.MS α :=
  let ord := walkFrom s.buffer s.buffer.length s.head
  { order := ord, cursor := s.cursor, med := ord.findIdx (fun p => p.1 == s.median) }

/-- `Median::min()`: the value in slot `head` -/
def minAcc (s : LS α) : Option α := (s.buffer[s.head]?).bind (·.value)
/-- `Median::median()`: the value in slot `median` -/
def medAcc (s : LS α) : Option α := (s.buffer[s.median]?).bind (·.value)
/-- `Median::max()` as implemented: the value in the slot before `cursor` -/
def maxAcc (s : LS α) : Option α :=
  (s.buffer[(s.cursor + s.buffer.length - 1) % s.buffer.length]?).bind (·.value)

end SignaloModel.MedianL

open SignaloModel.MedianL in
#eval run (init 4 : LS Int) [10, 20, 30, 100, 30, 20, 10]   -- [10, 10, 20, 20, 30, 30, 20]
open SignaloModel.MedianL in
#eval run (init 5 : LS Int) [10, 20, 30, 100, 30, 20, 10]   -- [10, 10, 20, 20, 30, 30, 30]
open SignaloModel.MedianL in
#eval run (init 1 : LS Int) [3, 1, 2]
open SignaloModel.MedianL in
#eval run (init 2 : LS Int) [3, 1, 2, 5, 4]
