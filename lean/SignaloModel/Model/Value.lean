import SignaloModel.Model.Median
import SignaloModel.Model.Classify
/-!
The sample type the driver instantiates every generic model at: exact rationals, plus `nan`
(incomparable with everything, as IEEE NaN; the harness feeds `f64::NAN`), plus `err`
(the value of a division by zero: the harness's exact rational type panics there), plus `nz` (IEEE negative zero: it
compares and computes as zero, but code that merely stores or selects samples hands it on as the different value it is;
the harness feeds it only to such code).

Glue only: nothing in the theorems depends on this file; the theorems are about the generic models
for every type with the stated algebraic / order laws.
-/
namespace SignaloModel

inductive V where
  | q (r : Rat)
  | nan
  | err
  | nz
deriving Repr, Inhabited

namespace V

/-- negative zero as the number it is -/
def norm : V → V
  | nz => q 0
  | v => v

def lift2 (f : Rat → Rat → Rat) (a b : V) : V :=
  match a.norm, b.norm with
  | q a, q b => q (f a b)
  | err, _ => err
  | _, err => err
  | _, _ => nan

instance : Add V := ⟨lift2 (· + ·)⟩
instance : Sub V := ⟨lift2 (· - ·)⟩
instance : Mul V := ⟨lift2 (· * ·)⟩
instance : Div V := ⟨fun a b => match a.norm, b.norm with
  | q x, q y => if y = 0 then err else q (x / y)
  | err, _ => err
  | _, err => err
  | _, _ => nan⟩
instance : Neg V := ⟨fun a => match a.norm with | q x => q (-x) | v => v⟩
instance : OfNat V 0 := ⟨q 0⟩
instance : OfNat V 1 := ⟨q 1⟩

/-- all comparisons involving `nan`/`err` are false -/
def cmpB (f : Rat → Rat → Bool) (a b : V) : Bool :=
  match a.norm, b.norm with
  | q a, q b => f a b
  | _, _ => false

instance : LT V := ⟨fun a b => cmpB (fun x y => decide (x < y)) a b = true⟩
instance : DecidableLT V := fun a b => inferInstanceAs (Decidable (cmpB _ a b = true))
instance : LE V := ⟨fun a b => cmpB (fun x y => decide (x ≤ y)) a b = true⟩
instance : DecidableLE V := fun a b => inferInstanceAs (Decidable (cmpB _ a b = true))
instance : BEq V := ⟨cmpB (fun x y => x == y)⟩

instance : Median.POrd V :=
  ⟨cmpB (fun x y => decide (x ≥ y)), cmpB (fun x y => decide (x ≤ y))⟩

instance : Classify.Cmp V where
  ge := cmpB (fun x y => decide (x ≥ y))
  gt := cmpB (fun x y => decide (x > y))
  pcmp a b := match a.norm, b.norm with
    | q x, q y => some (if x < y then .lt else if x == y then .eq else .gt)
    | _, _ => none

def isErr : V → Bool
  | err => true
  | _ => false

def ofNat (n : Nat) : V := q (n : Rat)

/-! ### text -/

def showRat (r : Rat) : String :=
  if r.den == 1 then toString r.num else s!"{r.num}/{r.den}"

def render : V → String
  | q r => showRat r
  | nan => "nan"
  | err => "PANIC"
  | nz => "-0"

def parseRat (s : String) : Option Rat :=
  match s.splitOn "/" with
  | [n] => n.toInt?.map (fun i => (i : Rat))
  | [n, d] => do
    let ni ← n.toInt?
    let di ← d.toNat?
    if di == 0 then none else some (mkRat ni di)
  | _ => none

def parse (s : String) : Option V :=
  -- `3~`: a composite-like sample of the harness (unequal even to itself, ordered by its number against every other
  -- value, incomparable with the same number): for the slope / peak classifiers "equal" and "incomparable" are both
  -- flat, so it is its number there
  let s := if s.endsWith "~" then String.ofList s.toList.dropLast else s
  if s == "nan" then some nan
  else if s == "PANIC" then some err
  else if s == "-0" then some nz
  else (parseRat s).map q

def renderList (l : List V) : String := " ".intercalate (l.map render)

def sameB : V → V → Bool
  | q a, q b => a == b
  | nan, nan => true
  | err, err => true
  | nz, nz => true
  | _, _ => false

end V
end SignaloModel
