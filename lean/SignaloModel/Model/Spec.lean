import SignaloModel.Model.Registry
import SignaloModel.Model.Fir
/-!
Executable specification functions: what each property demands, computed from the *input history*
of an instance (oldest sample first) and its configuration only — never from model state.
The driver evaluates them on every operation; the property theorems (`Props/C*.lean`) relate the
models to them (directly, or to the `Prop`-valued statement these functions decide).
Import-free; generic over the sample type.
-/
namespace SignaloModel.Spec
open SignaloModel

variable {α : Type}

/-- the most recent `min k N` samples, oldest first -/
def window (N : Nat) (xs : List α) : List α := xs.drop (xs.length - N)

/-- ascending sort by the sample type's `<=` (core `List.mergeSort`, stable) -/
def sortAsc [Median.POrd α] (l : List α) : List α := l.mergeSort (fun a b => Median.POrd.le a b)

/-- C02/C17: element of rank `⌊(m-1)/2⌋` in ascending order -/
def lowerMedian [Median.POrd α] (w : List α) : Option α := (sortAsc w)[(w.length - 1) / 2]?
def minimum [Median.POrd α] (w : List α) : Option α := (sortAsc w)[0]?
def maximum [Median.POrd α] (w : List α) : Option α := (sortAsc w).getLast?

/-- `n` as a sample: `0 + 1 + … + 1` -/
def natCast [Add α] [OfNat α 0] [OfNat α 1] : Nat → α
  | 0 => 0
  | n + 1 => natCast n + 1

def sum [Add α] [OfNat α 0] (l : List α) : α := l.foldl (· + ·) 0

/-- C03: (sum of the window) / (its length), in the sample type's own arithmetic -/
def windowMean [Add α] [Div α] [OfNat α 0] [OfNat α 1] (N : Nat) (xs : List α) : α :=
  sum (window N xs) / natCast (window N xs).length

/-- C04: extremum by a strict comparison `better a b` (first occurrence kept) -/
def extremum (better : α → α → Bool) : List α → Option α
  | [] => none
  | x :: xs => some (xs.foldl (fun m y => if better y m then y else m) x)

/-- the input signal as a function of the sample index, edge-extended to the right with the last
sample (never read there) and defined as `d` for an empty history -/
def signal (d : α) (xs : List α) (n : Nat) : α := xs.getD n (xs.getLastD d)

/-- C05: `y[n] = Σ_j c[j]·x[n-j]`, samples before the first equal to the first -/
def firAt [Add α] [Mul α] [OfNat α 0] (c xs : List α) : α :=
  Fir.convL c (signal 0 xs) (xs.length - 1)

/-- C05: `x[max(n-N, 0)]` -/
def delayAt (N : Nat) (xs : List α) : Option α := xs[xs.length - 1 - N]?

/-- C06: textbook scalar Kalman recursion; state = (estimate, covariance) -/
def kalmanTextbook [Add α] [Sub α] [Mul α] [Div α] (c : KCfg α) :
    Option (α × α) → α × α → α × α
  | none, (z, _) => (z / c.c, c.q / (c.c * c.c))
  | some (x, p), (z, u) =>
    let xp := c.a * x + c.b * u
    let pp := c.a * p * c.a + c.r
    let k := pp * c.c / (pp * (c.c * c.c) + c.q)
    (xp + k * (z - c.c * xp), pp - k * c.c * pp)

def kalmanTextbookRun [Add α] [Sub α] [Mul α] [Div α] (c : KCfg α) (zs : List (α × α)) :
    Option (α × α) :=
  zs.foldl (fun s zu => some (kalmanTextbook c s zu)) none

/-- C08: Schmitt reference automaton: starts off; on only by a sample strictly above `high`;
off only by a sample not `≥ low` -/
def schmittRefRun [Classify.Cmp α] (low high : α) (xs : List α) : Bool :=
  xs.foldl (fun on x =>
    if on then (if Classify.Cmp.ge x low then true else false)
    else (if Classify.Cmp.gt x high then true else false)) false

/-- C08: length of the run of predicate-equal samples ending at the most recent sample -/
def trailingRun [BEq α] (pred : α) (xs : List α) : Nat := Classify.leadRun pred xs.reverse

/-- C09: slope of the last sample against its predecessor -/
def slopeAt [Classify.Cmp α] (xs : List α) : Classify.Slope :=
  match xs.reverse with
  | x :: p :: _ => Classify.slopeOf (some p) x
  | _ => .flat

/-- C09: peak decision on the last three samples -/
def peakAt [Classify.Cmp α] (xs : List α) : Classify.Peak :=
  match xs.reverse with
  | x :: p1 :: p2 :: _ =>
    if Classify.Cmp.gt p1 p2 && Classify.Cmp.gt p1 x then .max
    else if Classify.Cmp.gt p2 p1 && Classify.Cmp.gt x p1 then .min
    else .none
  | _ => .none

/-- C13: `y[n] = y[n-1] + w·(x[n] - y[n-1])`, `y[0] = x[0]`; written as a left fold -/
def emaRec [Add α] [Sub α] [Mul α] (w : α) (xs : List α) : Option α :=
  xs.foldl (fun y x => match y with | none => some x | some y => some (y + (x - y) * w)) none

/-- C13: exponential median, `out[n] = post(prev + mid·(pre(x[n]) − prev))` with `pre`, `post` exponential averages
(`post`'s state is the previous output `prev`), `out[0] = x[0]`; state = (pre-average, previous output) -/
def emedRec [Add α] [Sub α] [Mul α] (wpre mid wpost : α) (xs : List α) : Option (α × α) :=
  xs.foldl (fun s x => match s with
    | none => some (x, x)
    | some (ps, prev) =>
      let mean := ps + (x - ps) * wpre
      let med := prev + (mean - prev) * mid
      some (mean, prev + (med - prev) * wpost)) none

/-- C14: alpha-beta recurrence; state = (position, velocity) -/
def abRec [Add α] [Sub α] [Mul α] [OfNat α 0] (alpha beta : α) (xs : List α) : Option (α × α) :=
  xs.foldl (fun s x => match s with
    | none => some (x, 0)
    | some (p, v) =>
      let p' := p + v
      let r := x - p'
      some (p' + alpha * r, v + beta * r)) none

/-- C15 -/
def diffAt [Sub α] [OfNat α 0] (xs : List α) : α :=
  match xs.reverse with
  | x :: p :: _ => x - p
  | _ => 0

/-- C11: batch statistics -/
def batchMean [Add α] [Div α] [OfNat α 0] [OfNat α 1] (xs : List α) : α :=
  sum xs / natCast xs.length

def sumSqDev [Add α] [Sub α] [Mul α] [Div α] [OfNat α 0] [OfNat α 1] (xs : List α) : α :=
  let m := batchMean xs
  sum (xs.map (fun x => (x - m) * (x - m)))

def sampleVariance [Add α] [Sub α] [Mul α] [Div α] [OfNat α 0] [OfNat α 1] (xs : List α) : α :=
  if xs.length ≤ 1 then sumSqDev xs else sumSqDev xs / natCast (xs.length - 1)

end SignaloModel.Spec
