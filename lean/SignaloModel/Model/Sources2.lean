import SignaloModel.Model.Sources
/-! Model/proofs for C10 (import-free): the remaining adapters and their denotations. -/
namespace SignaloModel.Sources

variable {α : Type}

/-- `Constant { value }` -/
def constant (v : α) : Src α := { σ := Unit, next := fun _ => (some v, ()) }

/-- `Increment { state, interval }`: yields the state, then adds the interval -/
def increment [Add α] (step : α) : Src α := { σ := α, next := fun s => (some s, s + step) }

/-- the drain loop of `Skip::source`:
`while count > 0 && inner.source().is_some() { count -= 1 }` -/
def drain (s : Src α) : s.σ → Nat → s.σ
  | st, 0 => st
  | st, c + 1 =>
    match s.next st with
    | (some _, st') => drain s st' c
    | (none, st') => st'

/-- `Skip { inner, count }` -/
def skip (s : Src α) : Src α :=
  { σ := s.σ × Nat,
    next := fun (st, count) => let r := s.next (drain s st count); (r.1, (r.2, 0)) }

inductive CPhase | front | inner | back

/-- `pad::constant::Pad { inner, front, back, state }`; the two `Repeat`s are countdowns -/
def padConst (s : Src α) (v : α) : Src α :=
  { σ := s.σ × Nat × Nat × CPhase,
    next := fun (st, fl, bl, ph) =>
      match ph with
      | .front =>
        if fl ≠ 0 then (some v, (st, fl - 1, bl, .front))
        else match s.next st with
          | (some w, st') => (some w, (st', 0, bl, .inner))
          | (none, st') =>
            if bl ≠ 0 then (some v, (st', 0, bl - 1, .back)) else (none, (st', 0, 0, .back))
      | .inner =>
        match s.next st with
        | (some w, st') => (some w, (st', fl, bl, .inner))
        | (none, st') =>
          if bl ≠ 0 then (some v, (st', fl, bl - 1, .back)) else (none, (st', fl, 0, .back))
      | .back =>
        if bl ≠ 0 then (some v, (st, fl, bl - 1, .back)) else (none, (st, fl, 0, .back)) }

/-- `sources::cache::Cache`: passes through and remembers the last answer -/
def cache (s : Src α) : Src α :=
  { σ := s.σ × Option α, next := fun (st, _) => let r := s.next st; (r.1, (r.2, r.1)) }

/-- `Peek`: state = inner state and the look-ahead slot `Option<Option<U>>` -/
structure PeekState (s : Src α) where
  st : s.σ
  peeked : Option (Option α)

/-- `Peek::peek` -/
def peekOp (s : Src α) (p : PeekState s) : Option α × PeekState s :=
  match p.peeked with
  | none => let r := s.next p.st; (r.1, { st := r.2, peeked := some r.1 })
  | some o => (o, p)

/-- `Peek::source` -/
def peekPull (s : Src α) (p : PeekState s) : Option α × PeekState s :=
  match p.peeked with
  | some o => (o, { p with peeked := none })
  | none => let r := s.next p.st; (r.1, { st := r.2, peeked := none })

/-! ### denotations -/

def Content.skip (n : Nat) : Content α → Content α
  | .fin xs => .fin (xs.drop n)
  | .inf f => .inf (fun k => f (k + n))

def incrSeq [Add α] (step : α) : α → Nat → α
  | s, 0 => s
  | s, k + 1 => incrSeq step (s + step) k

def Content.appendList : Content α → List α → Content α
  | .fin xs, l => .fin (xs ++ l)
  | .inf f, _ => .inf f

end SignaloModel.Sources
