/-!
Model/proofs for C10: source adapters as state machines transcribed from `crates/sources/src/*.rs`,
their iterator-analogue denotations, and the "implements" relation.
-/
namespace SignaloModel.Sources

/-- a source: hidden state, `source(&mut self) -> Option<T>` -/
structure Src (α : Type) where
  σ : Type
  next : σ → Option α × σ

variable {α : Type}

/-- first `k` answers of a source started in state `st` -/
def pulls (s : Src α) : s.σ → Nat → List (Option α)
  | _, 0 => []
  | st, k + 1 => (s.next st).1 :: pulls s (s.next st).2 k

/-- what a source yields: a finite list (then `none` forever) or an endless stream -/
inductive Content (α : Type) where
  | fin (xs : List α)
  | inf (f : Nat → α)

def Content.answer : Content α → Nat → Option α
  | .fin xs, k => xs[k]?
  | .inf f, k => some (f k)

def Content.tail : Content α → Content α
  | .fin xs => .fin xs.tail
  | .inf f => .inf (fun k => f (k + 1))

/-- `s` started in `st` yields exactly `c`, and keeps answering `none` after a finite end -/
def Implements (s : Src α) (st : s.σ) (c : Content α) : Prop :=
  ∀ k, pulls s st k = (List.range k).map c.answer

/-! ### machines (one per Rust adapter) -/

/-- `FromIter` over a `Vec` iterator -/
def fromList : Src α := { σ := List α, next := fun l => (l.head?, l.tail) }

/-- `Take { inner, count }` -/
def take (s : Src α) : Src α :=
  { σ := s.σ × Nat,
    next := fun (st, count) =>
      if count = 0 then (none, (st, count))
      else let r := s.next st; (r.1, (r.2, count - 1)) }

inductive ChainState | front | back

/-- `Chain { front, back, state }` -/
def chain (f b : Src α) : Src α :=
  { σ := f.σ × b.σ × ChainState,
    next := fun (fs, bs, st) =>
      match st with
      | .front =>
        match f.next fs with
        | (some v, fs') => (some v, (fs', bs, .front))
        | (none, fs') => let r := b.next bs; (r.1, (fs', r.2, .back))
      | .back => let r := b.next bs; (r.1, (fs, r.2, .back)) }

/-- `Cycle { orig, inner }`; `orig` is the pristine clone -/
def cycle (s : Src α) (orig : s.σ) : Src α :=
  { σ := s.σ,
    next := fun st =>
      match s.next st with
      | (none, _) => s.next orig
      | (some v, st') => (some v, st') }

/-- `pad::edge::Pad` after the repair of DESIGN §6. `Repeat(v, n)` is a value and a countdown. -/
inductive PadState (α : Type) where
  | before
  | front (v : α) (left : Nat) (first : α)
  | inner (last : α)
  | back (v : α) (left : Nat)
  | after

def padEdge (s : Src α) (count : Nat) : Src α :=
  { σ := s.σ × PadState α,
    next := fun (st, ps) =>
      match ps with
      | .before =>
        match s.next st with
        | (some v, st') => (some v, (st', .front v count v))
        | (none, st') => (none, (st', .after))
      | .front v left first =>
        if left ≠ 0 then (some v, (st, .front v (left - 1) first))
        else match s.next st with
          | (some w, st') => (some w, (st', .inner w))
          | (none, st') =>
            if count ≠ 0 then (some first, (st', .back first (count - 1)))
            else (none, (st', .back first 0))
      | .inner last =>
        match s.next st with
        | (some w, st') => (some w, (st', .inner w))
        | (none, st') =>
          if count ≠ 0 then (some last, (st', .back last (count - 1)))
          else (none, (st', .back last 0))
      | .back v left =>
        if left ≠ 0 then (some v, (st, .back v (left - 1)))
        else (none, (st, .after))
      | .after => (none, (st, .after)) }

/-! ### denotations (the iterator analogues) -/

def Content.take (n : Nat) : Content α → Content α
  | .fin xs => .fin (xs.take n)
  | .inf f => .fin ((List.range n).map f)

def Content.chain : Content α → Content α → Content α
  | .fin xs, .fin ys => .fin (xs ++ ys)
  | .fin xs, .inf g => .inf (fun k => if h : k < xs.length then xs[k] else g (k - xs.length))
  | .inf f, _ => .inf f

def Content.cycle : Content α → Content α
  | .fin [] => .fin []
  | .fin (x :: xs) => .inf (fun k => (x :: xs)[k % (xs.length + 1)]'(Nat.mod_lt _ (by simp)))
  | .inf f => .inf f

def Content.padEdge (n : Nat) : Content α → Content α
  | .fin [] => .fin []
  | .fin (x :: xs) =>
    .fin (List.replicate n x ++ (x :: xs) ++ List.replicate n ((x :: xs).getLast (by simp)))
  | .inf f => .inf (fun k => if k < n then f 0 else f (k - n))

end SignaloModel.Sources
