/-!
Model/proofs for C05/C07 (import-free definitions): FIR with edge padding, kernel product.
`x : Nat → α` is the input signal; `x (n - j)` with truncated subtraction *is* the edge padding
(samples before the first are the first sample).
-/
namespace SignaloModel.Fir

variable {α : Type} [Add α] [Mul α] [OfNat α 0]

/-- `y[n] = Σ_j c[j] * x[n - j]` -/
def convL : List α → (Nat → α) → Nat → α
  | [], _, _ => 0
  | a :: as, x, n => a * x n + convL as x (n - 1)

def addL : List α → List α → List α
  | [], ys => ys
  | xs, [] => xs
  | x :: xs, y :: ys => (x + y) :: addL xs ys

/-- polynomial product of two kernels -/
def polyMul : List α → List α → List α
  | [], _ => []
  | a :: as, bs => addL (bs.map (a * ·)) (0 :: polyMul as bs)

end SignaloModel.Fir
