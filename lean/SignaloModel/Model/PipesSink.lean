import SignaloModel.Model.Pipes
/-! Model/proofs for C01, sink clause (`pipe.rs:67`, `:79`, `unit_pipe.rs:65`, `:77`). -/
namespace SignaloModel.Pipes

/-- an arbitrary `Sink<α> + Finalize<Output = β>` with its current state -/
structure Sink (α β : Type) where
  σ : Type
  sink : σ → α → σ
  fin : σ → β
  st : σ

variable {α β : Type}

def Sink.push (k : Sink α β) (x : α) : Sink α β := { k with st := k.sink k.st x }
def Sink.feed (k : Sink α β) (xs : List α) : Sink α β := xs.foldl Sink.push k
def Sink.finalize (k : Sink α β) : β := k.fin k.st

inductive KShape (α β : Type) : Type 1 where
  | snk (k : Sink α β)
  | unit (inner : KShape α β)
  | pipe (lhs : Shape α) (rhs : KShape α β)

/-- `Sink::sink`: `self.rhs.sink(self.lhs.filter(input))` -/
def KShape.sink : KShape α β → α → KShape α β
  | .snk k, x => .snk (k.push x)
  | .unit i, x => .unit (i.sink x)
  | .pipe l r, x => .pipe (l.filter x).1 (r.sink (l.filter x).2)

/-- `Finalize::finalize`: delegates to the right-hand side -/
def KShape.finalize : KShape α β → β
  | .snk k => k.finalize
  | .unit i => i.finalize
  | .pipe _ r => r.finalize

def KShape.feed (sh : KShape α β) (xs : List α) : KShape α β := xs.foldl KShape.sink sh

def KShape.root : KShape α β → Sink α β
  | .snk k => k
  | .unit i => i.root
  | .pipe _ r => r.root

/-- the filter stages in front of the sink, in pipeline order -/
def KShape.stages : KShape α β → List (Shape α)
  | .snk _ => []
  | .unit i => i.stages
  | .pipe l r => l :: r.stages

theorem feed_snk (k : Sink α β) (xs : List α) :
    (KShape.snk k).feed xs = .snk (k.feed xs) := by
  induction xs generalizing k with
  | nil => rfl
  | cons x xs ih => simp [KShape.feed, KShape.sink, Sink.feed] at ih ⊢; exact ih (k.push x)

theorem feed_unit (i : KShape α β) (xs : List α) :
    (KShape.unit i).feed xs = .unit (i.feed xs) := by
  induction xs generalizing i with
  | nil => rfl
  | cons x xs ih => simp [KShape.feed, KShape.sink] at ih ⊢; exact ih (i.sink x)

theorem finalize_feed_pipe (l : Shape α) (r : KShape α β) (xs : List α) :
    ((KShape.pipe l r).feed xs).finalize = (r.feed (l.run xs)).finalize := by
  induction xs generalizing l r with
  | nil => rfl
  | cons x xs ih =>
    simp only [KShape.feed, List.foldl_cons, KShape.sink, Shape.run] at ih ⊢
    exact ih _ _

/-- **C01 (sink clause)**: finalising a pipe that ends in a sink yields what finalising that sink
yields after it has been fed the samples filtered by the stages in pipeline order -/
theorem finalize_eq (sh : KShape α β) (xs : List α) :
    (sh.feed xs).finalize =
      (sh.root.feed (sh.stages.foldl (fun stream r => r.run stream) xs)).finalize := by
  induction sh generalizing xs with
  | snk k => simp [feed_snk, KShape.finalize, KShape.root, KShape.stages]
  | unit i ih => simp [feed_unit, KShape.finalize, KShape.root, KShape.stages, ih]
  | pipe l r ih =>
    rw [finalize_feed_pipe, ih]
    simp [KShape.root, KShape.stages]

end SignaloModel.Pipes

#print axioms SignaloModel.Pipes.finalize_eq
