/-!
Model: import-free model of `crates/filters/src/bounds/max.rs` (after the repair of DESIGN §6):
monotonic deque of `(value, timestamp)` in a `CircularBuffer<N, _>`, timestamps in `usize` (bound `M`).
`gt x v` is the comparison that pops from the back (`input > value` for Max, `input < value` for Min).
-/
namespace SignaloModel.Deque

variable {α : Type}

structure DS (α : Type) where
  time : Nat
  taps : List (α × Nat)   -- front first
deriving Repr

def init : DS α := { time := 0, taps := [] }

/-- `CircularBuffer<N,_>::push_back`: returns the new content (evicted element not needed here) -/
def pushBack {β : Type} (N : Nat) (l : List β) (x : β) : List β :=
  if N = 0 then l else if N ≤ l.length then l.drop 1 ++ [x] else l ++ [x]

/-- `while front.map_or(false, |(_, time)| current_time - time >= N) { pop_front }`
with the subtraction checked (`none` = `usize` underflow). -/
def expire (N t : Nat) : List (α × Nat) → Option (List (α × Nat))
  | [] => some []
  | (v, ti) :: rest =>
    if ti ≤ t then
      if N ≤ t - ti then expire N t rest else some ((v, ti) :: rest)
    else none

/-- `while back.map_or(false, |(value, _)| &input > value) { pop_back }` -/
def popBack (gt : α → α → Bool) (x : α) (l : List (α × Nat)) : List (α × Nat) :=
  (l.reverse.dropWhile (fun p => gt x p.1)).reverse

/-- the timestamp update, with every `usize` operation checked against `M` -/
def tick (N M : Nat) (time : Nat) (taps : List (α × Nat)) : Option (Nat × List (α × Nat)) :=
  if time < M then some (time + 1, taps)
  else if N ≤ time ∧ N + 1 ≤ M ∧ taps.all (fun p => decide (time - N ≤ p.2)) then
    some (N + 1, taps.map (fun p => (p.1, p.2 - (time - N))))
  else none

/-- one `filter` call; `M = none` is the idealised unbounded counter -/
def step (gt : α → α → Bool) (N : Nat) (M : Option Nat) (s : DS α) (x : α) : Option (DS α × α) := do
  let taps1 ← expire N s.time s.taps
  let taps2 := popBack gt x taps1
  let taps3 := pushBack N taps2 (x, s.time)
  let (time', taps4) ← match M with
    | none => some (s.time + 1, taps3)
    | some M => tick N M s.time taps3
  match taps4.head? with
  | none => none
  | some p => some ({ time := time', taps := taps4 }, p.1)

def run (gt : α → α → Bool) (N : Nat) (M : Option Nat) (s : DS α) : List α → Option (List α)
  | [] => some []
  | x :: xs => do
    let (s', y) ← step gt N M s x
    let ys ← run gt N M s' xs
    pure (y :: ys)

end SignaloModel.Deque

open SignaloModel.Deque in
#eval run (fun (a b : Int) => decide (a > b)) 3 none init [0, 1, 7, 2, 5, 8, 16, 3, 19, 6, 14, 9, 9]
-- expected (max.rs test): [0, 1, 7, 7, 7, 8, 16, 16, 19, 19, 19, 14, 14]
open SignaloModel.Deque in
#eval run (fun (a b : Int) => decide (a > b)) 3 (some 7) init [0, 1, 7, 2, 5, 8, 16, 3, 19, 6, 14, 9, 9]
open SignaloModel.Deque in
#eval run (fun (a b : Int) => decide (a > b)) 3 (some 7) { time := 7, taps := [] } [9, 1, 5, 2, 2, 2]
-- expected [9, 9, 9, 5, 5, 2]
