import SignaloModel.Model.MedianL
import SignaloModel.Model.Sinks
import SignaloModel.Model.Deque
import SignaloModel.Model.Conv
import SignaloModel.Model.Kalman
import SignaloModel.Model.Smooth
import SignaloModel.Model.DiffIntVar
import SignaloModel.Model.Classify
import SignaloModel.Model.Hampel
/-!
The registry: one constructor per filter of `signalo_filters` (24 filters + the two wrappers), each
holding the model state of that filter, with

* `Cfg` / `Cfg.init`   — what `Default::default()` / `WithConfig::with_config(cfg)` build,
* `St.config`          — what `ConfigClone::config()` returns (for `Default`-only filters: the width),
* `St.filter`          — `Filter::filter` (inputs and outputs as lists: one or two components),
* `St.reset`           — `Reset::reset`, transcribed per filter from the Rust `impl Reset`
                          (NOT defined as `init ∘ config`: that equation is theorem `reset_eq_init`).

`Clone::clone`, `IntoGuts::into_guts` followed by `FromGuts::from_guts` are the identity on model
states (all Rust state structs derive `Clone`; guts move `(config, state)` unchanged).
Import-free; generic over the sample type.
-/
namespace SignaloModel.Registry
open SignaloModel

/-- `usize::MAX` -/
def usizeMax : Nat := 18446744073709551615

inductive Cfg (α : Type) where
  | median (N : Nat)
  | mean (N : Nat)
  | max (N : Nat)
  | min (N : Nat)
  | bounds (N : Nat)
  | convolve (coeffs : List α)
  | delay (N : Nat)
  | differentiate
  | integrate
  | kalman (c : KCfg α)
  | alphaBeta (alpha beta : α)
  | ema (w : α)
  | emedian (pre mid post : α)
  | meanVar (N : Nat)
  | emeanVar (w : α)
  | threshold (thr : α) (out : List α)
  | schmitt (low high : α) (out : List α)
  | debounce (thr : Nat) (pred : α) (out : List α)
  | slopes (out : List α)
  | peaks (out : List α)
  | peaksSlopes (out : List α)
  | hampel (N : Nat) (thr factor : α)
  | analyze (low high : List α)
  | synthesize (low high : List α)
  | cache (inner : Cfg α)
  | unit (inner : Cfg α)

inductive St (α : Type) where
  | median (s : MedianL.LS α)
  | mean (N : Nat) (s : Sinks.SM α)
  | max (N : Nat) (s : Deque.DS α)
  | min (N : Nat) (s : Deque.DS α)
  | bounds (N : Nat) (mn mx : Deque.DS α)
  | convolve (coeffs taps : List α)
  | delay (N : Nat) (taps : List α)
  | differentiate (prev : Option α)
  | integrate (acc : α)
  | kalman (c : KCfg α) (s : KState α)
  | alphaBeta (alpha beta : α) (s : Smooth.ABState α)
  | ema (w : α) (s : Option α)
  | emedian (pre mid post : α) (s : Smooth.EMedState α)
  | meanVar (N : Nat) (m v : Sinks.SM α)
  | emeanVar (w : α) (s : DIV.EMV α)
  | threshold (thr : α) (out : List α)
  | schmitt (low high : α) (out : List α) (on : Bool)
  | debounce (thr : Nat) (pred : α) (out : List α) (count : Nat)
  | slopes (out : List α) (prev : Option α)
  | peaks (out : List α) (s : Classify.PeaksState α)
  | peaksSlopes (out : List α) (prev : Option Classify.Slope)
  | hampel (thr factor : α) (med : MedianL.LS α)
  | analyze (low high tl th : List α)
  | synthesize (low high tl th : List α)
  | cache (inner : St α) (cached : Option (List α))
  | unit (inner : St α)

variable {α : Type}

section init
variable [OfNat α 0]

/-- `Default::default()` / `WithConfig::with_config(cfg)` -/
def Cfg.init : Cfg α → St α
  | .median N => .median (MedianL.init N)
  | .mean N => .mean N Sinks.smInit
  | .max N => .max N Deque.init
  | .min N => .min N Deque.init
  | .bounds N => .bounds N Deque.init Deque.init
  | .convolve c => .convolve c []
  | .delay N => .delay N []
  | .differentiate => .differentiate none
  | .integrate => .integrate 0
  | .kalman c => .kalman c { cov := 0, value := none }
  | .alphaBeta a b => .alphaBeta a b { velocity := 0, value := none }
  | .ema w => .ema w none
  | .emedian p m q => .emedian p m q { pre := none, post := none, median := none }
  | .meanVar N => .meanVar N Sinks.smInit Sinks.smInit
  | .emeanVar w => .emeanVar w { mean := none, var := none }
  | .threshold t o => .threshold t o
  | .schmitt l h o => .schmitt l h o false
  | .debounce t p o => .debounce t p o 0
  | .slopes o => .slopes o none
  | .peaks o => .peaks o { prevInput := none, slope := none }
  | .peaksSlopes o => .peaksSlopes o none
  | .hampel N t f => .hampel t f (MedianL.init N)
  | .analyze l h => .analyze l h [] []
  | .synthesize l h => .synthesize l h [] []
  | .cache i => .cache i.init none
  | .unit i => .unit i.init

end init

/-- `ConfigClone::config()`; for filters without a configuration: the const-generic width -/
def St.config : St α → Cfg α
  | .median s => .median s.buffer.length
  | .mean N _ => .mean N
  | .max N _ => .max N
  | .min N _ => .min N
  | .bounds N _ _ => .bounds N
  | .convolve c _ => .convolve c
  | .delay N _ => .delay N
  | .differentiate _ => .differentiate
  | .integrate _ => .integrate
  | .kalman c _ => .kalman c
  | .alphaBeta a b _ => .alphaBeta a b
  | .ema w _ => .ema w
  | .emedian p m q _ => .emedian p m q
  | .meanVar N _ _ => .meanVar N
  | .emeanVar w _ => .emeanVar w
  | .threshold t o => .threshold t o
  | .schmitt l h o _ => .schmitt l h o
  | .debounce t p o _ => .debounce t p o
  | .slopes o _ => .slopes o
  | .peaks o _ => .peaks o
  | .peaksSlopes o _ => .peaksSlopes o
  | .hampel t f m => .hampel m.buffer.length t f
  | .analyze l h _ _ => .analyze l h
  | .synthesize l h _ _ => .synthesize l h
  | .cache i _ => .cache i.config
  | .unit i => .unit i.config

section reset
variable [OfNat α 0]

/-- `Reset::reset`, per filter as the Rust `impl Reset` is written -/
def St.reset : St α → St α
  -- `Self::default()`
  | .median s => .median (MedianL.init s.buffer.length)
  | .mean N _ => .mean N Sinks.smInit
  | .max N _ => .max N Deque.init
  | .min N _ => .min N Deque.init
  | .bounds N _ _ => .bounds N Deque.init Deque.init
  | .delay N _ => .delay N []
  | .differentiate _ => .differentiate none
  | .integrate _ => .integrate 0
  | .meanVar N _ _ => .meanVar N Sinks.smInit Sinks.smInit
  -- `Self::with_config(self.config)`
  | .convolve c _ => .convolve c []
  | .kalman c _ => .kalman c { cov := 0, value := none }
  | .alphaBeta a b _ => .alphaBeta a b { velocity := 0, value := none }
  | .ema w _ => .ema w none
  | .emedian p m q _ => .emedian p m q { pre := none, post := none, median := none }
  | .emeanVar w _ => .emeanVar w { mean := none, var := none }
  | .schmitt l h o _ => .schmitt l h o false
  | .debounce t p o _ => .debounce t p o 0
  | .slopes o _ => .slopes o none
  | .peaks o _ => .peaks o { prevInput := none, slope := none }
  | .peaksSlopes o _ => .peaksSlopes o none
  | .hampel t f m => .hampel t f (MedianL.init m.buffer.length)
  -- `self`
  | .threshold t o => .threshold t o
  -- `Self::with_config(self.config())`
  | .analyze l h _ _ => .analyze l h [] []
  | .synthesize l h _ _ => .synthesize l h [] []
  -- wrappers: reset the inner filter, clear own state
  | .cache i _ => .cache i.reset none
  | .unit i => .unit i.reset

end reset

def optCount (o : Option α) : Nat := if o.isSome then 1 else 0

/-- **C19**: the number of sample values a windowed filter owns in its state (every one of them is a
value the filter was given, cloned or computed, and must drop exactly once) -/
def St.owned : St α → Nat
  | .median s => (s.buffer.filter (fun n => n.value.isSome)).length
  | .mean _ s => s.taps.length + optCount s.mean + 1          -- taps, running sum, weight
  | .max _ s => s.taps.length
  | .min _ s => s.taps.length
  | .bounds _ a b => a.taps.length + b.taps.length
  | .convolve c t => c.length + t.length                      -- coefficients and taps
  | .delay _ t => t.length
  | .cache i c => i.owned + (match c with | none => 0 | some l => l.length)
  | .unit i => i.owned
  | _ => 0

/-- index into the two/three configured outputs (`self.config.outputs[index].clone()`) -/
def pick (out : List α) (i : Nat) : Option (List α) := (out[i]?).map (fun v => [v])

def slopeIdx : Classify.Slope → Nat
  | .rising => 0 | .flat => 1 | .falling => 2
def peakIdx : Classify.Peak → Nat
  | .max => 0 | .none => 1 | .min => 2

/-- decoding of a slope passed as sample (`0` rising, `1` none, `2` falling) is done by the
driver; here the slope-driven `Peaks` takes the slope directly -/
def peaksSlopeStep (out : List α) (prev : Option Classify.Slope) (s : Classify.Slope) :
    Option (St α × List α) :=
  (pick out (peakIdx (Classify.peakOf prev s))).map (fun o => (.peaksSlopes out (some s), o))

section filter
variable [Add α] [Sub α] [Mul α] [Div α] [Neg α] [OfNat α 0] [OfNat α 1]
  [LT α] [DecidableLT α] [BEq α] [Median.POrd α] [Classify.Cmp α]

def gtB (a b : α) : Bool := Classify.Cmp.gt a b
def ltB (a b : α) : Bool := Classify.Cmp.gt b a

/-- `Hampel::filter_internal`: accessors are read before the sample is fed to the median filter -/
def hampelStep (thr factor : α) (med : MedianL.LS α) (x : α) : Option (MedianL.LS α × α) := do
  let mn := (MedianL.minAcc med).getD x
  let md := (MedianL.medAcc med).getD x
  let mx := (MedianL.maxAcc med).getD x
  let (med', _) ← MedianL.step med x
  pure (med', Hampel.decide factor thr mn md mx x)

/-- `Filter::filter`. `none` = the Rust code panics (index out of bounds, `unwrap` on `None`,
`usize` overflow) or the call is ill-typed (wrong number of inputs). -/
def St.filter : St α → List α → Option (St α × List α)
  | .median s, [x] => do
    let (s', y) ← MedianL.step s x
    pure (.median s', [y])
  | .mean N s, [x] =>
    let r := Sinks.smStep N s x
    some (.mean N r.1, [r.2])
  | .max N s, [x] => do
    let (s', y) ← Deque.step gtB N (some usizeMax) s x
    pure (.max N s', [y])
  | .min N s, [x] => do
    let (s', y) ← Deque.step ltB N (some usizeMax) s x
    pure (.min N s', [y])
  | .bounds N mn mx, [x] => do
    let (mn', a) ← Deque.step ltB N (some usizeMax) mn x
    let (mx', b) ← Deque.step gtB N (some usizeMax) mx x
    pure (.bounds N mn' mx', [a, b])
  | .convolve c taps, [x] =>
    let r := Conv.convStep c.length c taps x
    some (.convolve c r.1, [r.2])
  | .delay N taps, [x] => do
    let r := Conv.delayStep N taps x
    let y ← r.2
    pure (.delay N r.1, [y])
  | .differentiate prev, [x] =>
    some (.differentiate (some x), [match prev with | none => 0 | some p => x - p])
  | .integrate acc, [x] => some (.integrate (acc + x), [acc + x])
  | .kalman c s, [z] =>
    let r := kalmanStep c s z 0
    some (.kalman c r.1, [r.2])
  | .kalman c s, [z, u] =>
    let r := kalmanStep c s z u
    some (.kalman c r.1, [r.2])
  | .alphaBeta a b s, [x] =>
    let r := Smooth.abStep a b s x
    some (.alphaBeta a b r.1, [r.2])
  | .ema w s, [x] =>
    let y := Smooth.emaStep w s x
    some (.ema w (some y), [y])
  | .emedian p m q s, [x] =>
    let r := Smooth.emedStep p m q s x
    some (.emedian p m q r.1, [r.2])
  | .meanVar N m v, [x] =>
    let r := DIV.smvStep N (m, v) x
    some (.meanVar N r.1.1 r.1.2, [r.2.1, r.2.2])
  | .emeanVar w s, [x] =>
    let r := DIV.emvStep w s x
    some (.emeanVar w r.1, [r.2.1, r.2.2])
  | .threshold t o, [x] =>
    (pick o (if Classify.Cmp.ge x t then 1 else 0)).map (fun y => (.threshold t o, y))
  | .schmitt l h o on, [x] =>
    let on' := Classify.schmittStep l h on x
    (pick o (if on' then 1 else 0)).map (fun y => (.schmitt l h o on', y))
  | .debounce t p o count, [x] =>
    let count' := Classify.debounceStep usizeMax p count x
    (pick o (if t ≤ count' then 1 else 0)).map (fun y => (.debounce t p o count', y))
  | .slopes o prev, [x] =>
    (pick o (slopeIdx (Classify.slopeOf prev x))).map (fun y => (.slopes o (some x), y))
  | .peaks o s, [x] =>
    let r := Classify.peaksStep s x
    (pick o (peakIdx r.2)).map (fun y => (.peaks o r.1, y))
  | .hampel t f med, [x] => do
    let (med', y) ← hampelStep t f med x
    pure (.hampel t f med', [y])
  | .analyze l h tl th, [x] =>
    let a := Conv.convStep l.length l tl x
    let b := Conv.convStep h.length h th x
    some (.analyze l h a.1 b.1, [a.2, b.2])
  | .synthesize l h tl th, [lo, hi] =>
    let a := Conv.convStep l.length l tl lo
    let b := Conv.convStep h.length h th hi
    some (.synthesize l h a.1 b.1, [a.2 + b.2])
  | .cache i _, xs => do
    let (i', y) ← i.filter xs
    pure (.cache i' (some y), y)
  | .unit i, xs => do
    let (i', y) ← i.filter xs
    pure (.unit i', y)
  | _, _ => none

/-- feed a whole input sequence; outputs in order -/
def St.run : St α → List (List α) → Option (St α × List (List α))
  | s, [] => some (s, [])
  | s, x :: xs => do
    let (s', y) ← s.filter x
    let (s'', ys) ← s'.run xs
    pure (s'', y :: ys)

end filter

end SignaloModel.Registry
