/-!
Model/proofs for C01: deep embedding of pipe shapes (`Pipe::new`, `|`, `UnitPipe`) over arbitrary
stateful stages; a stage carries its current state, `filter` returns the updated shape.
-/
namespace SignaloModel.Pipes

/-- an arbitrary stateful `Filter<α, Output = α>` together with its current state -/
structure Stage (α : Type) where
  σ : Type
  step : σ → α → σ × α
  st : σ

/-- an arbitrary `Source` with its current state -/
structure Source (α : Type) where
  σ : Type
  next : σ → Option α × σ
  st : σ

variable {α : Type}

def Stage.filter (s : Stage α) (x : α) : Stage α × α :=
  ({ s with st := (s.step s.st x).1 }, (s.step s.st x).2)

/-- the output stream of one stage fed a whole input stream -/
def Stage.run (s : Stage α) : List α → List α
  | [] => []
  | x :: xs => (s.filter x).2 :: (s.filter x).1.run xs

inductive Shape (α : Type) : Type 1 where
  | leaf (s : Stage α)
  | unit (inner : Shape α)              -- `UnitPipe::new(inner)`
  | pipe (lhs rhs : Shape α)            -- `Pipe::new(lhs, rhs)` and `lhs | rhs`

/-- `Filter::filter` of `pipe.rs:43` and `unit_pipe.rs:43` -/
def Shape.filter : Shape α → α → Shape α × α
  | .leaf s, x => (.leaf (s.filter x).1, (s.filter x).2)
  | .unit i, x => (.unit (i.filter x).1, (i.filter x).2)
  | .pipe l r, x =>
    let a := l.filter x
    let b := r.filter a.2
    (.pipe a.1 b.1, b.2)

def Shape.run (sh : Shape α) : List α → List α
  | [] => []
  | x :: xs => (sh.filter x).2 :: (sh.filter x).1.run xs

/-- the stages in pipeline order -/
def Shape.leaves : Shape α → List (Stage α)
  | .leaf s => [s]
  | .unit i => i.leaves
  | .pipe l r => l.leaves ++ r.leaves

/-- sequential composition: every stage consumes the complete output stream of its predecessor -/
def seqRun (stages : List (Stage α)) (xs : List α) : List α :=
  stages.foldl (fun stream s => s.run stream) xs

theorem pipe_run (l r : Shape α) (xs : List α) : (Shape.pipe l r).run xs = r.run (l.run xs) := by
  induction xs generalizing l r with
  | nil => rfl
  | cons x xs ih => simp [Shape.run, Shape.filter, ih]

theorem unit_run (i : Shape α) (xs : List α) : (Shape.unit i).run xs = i.run xs := by
  induction xs generalizing i with
  | nil => rfl
  | cons x xs ih => simp [Shape.run, Shape.filter, ih]

theorem leaf_run (s : Stage α) (xs : List α) : (Shape.leaf s).run xs = s.run xs := by
  induction xs generalizing s with
  | nil => rfl
  | cons x xs ih => simp [Shape.run, Shape.filter, Stage.run, ih]

/-- **C01 (filter clause)**: any nesting equals the sequential composition of its stages in
pipeline order; in particular stage `j` is fed exactly the output stream of stage `j-1`. -/
theorem run_eq_seq (sh : Shape α) (xs : List α) : sh.run xs = seqRun sh.leaves xs := by
  induction sh generalizing xs with
  | leaf s => simp [leaf_run, seqRun, Shape.leaves]
  | unit i ih => simp [unit_run, ih, Shape.leaves]
  | pipe l r ihl ihr =>
    simp only [pipe_run, ihl, ihr, Shape.leaves, seqRun, List.foldl_append]

/-- associativity / unit transparency: only the leaf sequence matters -/
theorem run_congr (a b : Shape α) (h : a.leaves = b.leaves) (xs : List α) : a.run xs = b.run xs := by
  rw [run_eq_seq, run_eq_seq, h]

/-- no latency, no buffering: one output per input -/
theorem Stage.length_run (s : Stage α) (xs : List α) : (s.run xs).length = xs.length := by
  induction xs generalizing s with
  | nil => rfl
  | cons x xs ih => simp [Stage.run, ih]

/-! ### pipe with a source as first stage (`pipe.rs:56`) -/

inductive SShape (α : Type) : Type 1 where
  | src (s : Source α)
  | unit (inner : SShape α)
  | pipe (lhs : SShape α) (rhs : Shape α)

def Source.pull (s : Source α) : Option α × Source α :=
  ((s.next s.st).1, { s with st := (s.next s.st).2 })

def SShape.source : SShape α → Option α × SShape α
  | .src s => (s.pull.1, .src s.pull.2)
  | .unit i => (i.source.1, .unit i.source.2)
  | .pipe l r =>
    match l.source with
    | (none, l') => (none, .pipe l' r)                       -- `Option::map`: rhs untouched
    | (some x, l') => ((some (r.filter x).2), .pipe l' (r.filter x).1)

def SShape.pulls (sh : SShape α) : Nat → List (Option α)
  | 0 => []
  | k + 1 => sh.source.1 :: sh.source.2.pulls k

def Source.pulls (s : Source α) : Nat → List (Option α)
  | 0 => []
  | k + 1 => s.pull.1 :: s.pull.2.pulls k

/-- feed only the `some` items through a shape, keeping the `none`s (end markers) in place -/
def Shape.runOpt (sh : Shape α) : List (Option α) → List (Option α)
  | [] => []
  | none :: xs => none :: sh.runOpt xs
  | some x :: xs => some (sh.filter x).2 :: (sh.filter x).1.runOpt xs

def SShape.root : SShape α → Source α
  | .src s => s
  | .unit i => i.root
  | .pipe l _ => l.root

def SShape.stages : SShape α → List (Shape α)
  | .src _ => []
  | .unit i => i.stages
  | .pipe l r => l.stages ++ [r]

theorem src_pulls (s : Source α) (k : Nat) : (SShape.src s).pulls k = s.pulls k := by
  induction k generalizing s with
  | zero => rfl
  | succ k ih => simp [SShape.pulls, SShape.source, Source.pulls, ih]

theorem unit_pulls (i : SShape α) (k : Nat) : (SShape.unit i).pulls k = i.pulls k := by
  induction k generalizing i with
  | zero => rfl
  | succ k ih => simp [SShape.pulls, SShape.source, ih]

theorem pipe_pulls (l : SShape α) (r : Shape α) (k : Nat) :
    (SShape.pipe l r).pulls k = r.runOpt (l.pulls k) := by
  induction k generalizing l r with
  | zero => rfl
  | succ k ih =>
    simp only [SShape.pulls, SShape.source]
    cases hl : l.source with
    | mk o l' =>
      cases o with
      | none => simp [Shape.runOpt, ih]
      | some x => simp [Shape.runOpt, ih]

/-- **C01 (source clause)**: the pipe yields the source's answers mapped through the stages;
it answers `none` exactly when the source does, and then no stage is invoked. -/
theorem pulls_eq (sh : SShape α) (k : Nat) :
    sh.pulls k = sh.stages.foldl (fun stream r => r.runOpt stream) (sh.root.pulls k) := by
  induction sh with
  | src s => simp [SShape.stages, SShape.root, src_pulls]
  | unit i ih => simp [SShape.stages, SShape.root, unit_pulls, ih]
  | pipe l r ih =>
    simp only [SShape.stages, SShape.root, List.foldl_append, List.foldl_cons, List.foldl_nil,
      pipe_pulls, ih]

/-- `runOpt` keeps every end marker in place and leaves the stage untouched by it -/
theorem runOpt_none_iff (sh : Shape α) (os : List (Option α)) (i : Nat) :
    (sh.runOpt os)[i]? = some none ↔ os[i]? = some none := by
  induction os generalizing sh i with
  | nil => simp [Shape.runOpt]
  | cons o os ih =>
    cases o with
    | none => cases i <;> simp [Shape.runOpt, ih]
    | some x => cases i <;> simp [Shape.runOpt, ih]

end SignaloModel.Pipes

#print axioms SignaloModel.Pipes.run_eq_seq
#print axioms SignaloModel.Pipes.pulls_eq
