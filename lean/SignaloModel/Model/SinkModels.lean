import SignaloModel.Model.Sinks
import SignaloModel.Model.Classify
/-!
Models of the nine sinks of `signalo_sinks` (C11), transcribed from `crates/sinks/src/*.rs`:
`Sink::sink`, `Filter::filter` (the running statistic), `Finalize::finalize`.
Outputs are lists (one, two or four components, or all collected samples); `none` = `None`.
Import-free; generic over the sample type.
-/
namespace SignaloModel.SinkModels
open SignaloModel

inductive Sk (α : Type) where
  | min (s : Option α)
  | max (s : Option α)
  | bounds (mn mx : Option α)
  | last (s : Option α)
  | integrate (s : Option α)
  | mean (s : Option (α × α))                -- (count, mean)
  | meanVar (s : Option (Sinks.MV α))
  | statistics (mn mx : Option α) (mv : Option (Sinks.MV α))
  | collect (l : List α)
  /-- the unit-system sink wrapper (`sinks::unit_system::UnitSystem`) around a plain summing sink of the
  harness (the library's own sinks finalise to `Option`, which the wrapper's `Finalize` impl does not accept):
  values are unwrapped on the way in and the result is wrapped in the same unit on the way out -/
  | unitSum (acc : α)

variable {α : Type} [Add α] [Sub α] [Mul α] [Div α] [OfNat α 0] [OfNat α 1] [Classify.Cmp α]

/-- `sinks::min::Min::filter`: `if input < min { input } else { min }` -/
def minStep (s : Option α) (x : α) : α :=
  match s with
  | some m => if Classify.Cmp.gt m x then x else m
  | none => x

/-- `sinks::max::Max::filter`: `if input > max { input } else { max }` -/
def maxStep (s : Option α) (x : α) : α :=
  match s with
  | some m => if Classify.Cmp.gt x m then x else m
  | none => x

/-- `sinks::mean::Mean::filter` (Welford mean) -/
def meanStep (s : Option (α × α)) (x : α) : α × α :=
  let (oldCount, oldMean) : α × α := match s with
    | some st => st
    | none => (0, 0)
  let count := oldCount + 1
  (count, oldMean + ((x - oldMean) / count))

/-- `Filter::filter`: new state and the running output -/
def Sk.filter : Sk α → α → Sk α × List α
  | .min s, x => let m := minStep s x; (.min (some m), [m])
  | .max s, x => let m := maxStep s x; (.max (some m), [m])
  | .bounds a b, x => let mn := minStep a x; let mx := maxStep b x; (.bounds (some mn) (some mx), [mn, mx])
  | .last _, x => (.last (some x), [x])            -- `Last` is not a `Filter`; the driver never calls this
  | .integrate s, x => let v := s.getD 0 + x; (.integrate (some v), [v])
  | .mean s, x => let r := meanStep s x; (.mean (some r), [r.2])
  | .meanVar s, x => let r := Sinks.mvStep s x; (.meanVar (some r), [r.mean, r.m2])
  | .statistics a b mv, x =>
    let mn := minStep a x
    let mx := maxStep b x
    let r := Sinks.mvStep mv x
    (.statistics (some mn) (some mx) (some r), [mn, mx, r.mean, r.m2])
  | .collect l, x => (.collect (l ++ [x]), l ++ [x])
  | .unitSum acc, x => (.unitSum (acc + x), [acc + x])

/-- `Sink::sink` -/
def Sk.sink (k : Sk α) (x : α) : Sk α := (k.filter x).1

/-- `MeanVariance::finalize`: divide by `count - 1` when `count > 1` -/
def mvFinal (s : Sinks.MV α) : List α :=
  [s.mean, if Classify.Cmp.gt s.count 1 then s.m2 / (s.count - 1) else s.m2]

/-- `Finalize::finalize`; `none` = `None` -/
def Sk.finalize : Sk α → Option (List α)
  | .min s => s.map (fun v => [v])
  | .max s => s.map (fun v => [v])
  | .bounds a b => match a, b with | some x, some y => some [x, y] | _, _ => none
  | .last s => s.map (fun v => [v])
  | .integrate s => s.map (fun v => [v])
  | .mean s => s.map (fun st => [st.2])
  | .meanVar s => s.map mvFinal
  | .statistics a b mv => match a, b, mv with
    | some x, some y, some m => some ([x, y] ++ mvFinal m)
    | _, _, _ => none
  | .collect l => some l
  | .unitSum acc => some [acc]

def Sk.feed (k : Sk α) (xs : List α) : Sk α := xs.foldl Sk.sink k

end SignaloModel.SinkModels
