/-!
Model: list-level transcription of `crates/filters/src/median.rs`.

The doubly linked list embedded in the ring buffer is represented by the list of its nodes
`(slot, value)` in list order starting at `head`; pointers become positions in that circular list.
Every decision of the Rust code (`should_insert`, the `index + 1 == len` rule, the odd-index median
shift guarded by a non-empty `current`, `update_head`, the even-width adjustment, the cursor
increment) is transcribed one to one.
-/
namespace SignaloModel.Median

/-- Rust `PartialOrd` as used by the filter: `>=` and `<=`. -/
class POrd (α : Type) where
  ge : α → α → Bool
  le : α → α → Bool

instance : POrd Int := ⟨fun a b => decide (a ≥ b), fun a b => decide (a ≤ b)⟩

structure MS (α : Type) where
  /-- nodes in list order from `head`: (ring slot, value) -/
  order : List (Nat × Option α)
  /-- ring slot overwritten next -/
  cursor : Nat
  /-- position (from head) of the median node -/
  med : Nat
deriving Repr

variable {α : Type}

def init (N : Nat) : MS α :=
  { order := (List.range N).map (fun i => (i, none)), cursor := 0, med := 0 }

/-- how the walk of `insert_value` has inserted so far -/
inductive Ins | no | tail | mid
deriving DecidableEq, Repr

structure Loop (α : Type) where
  ord : List (Nat × Option α)
  ins : Ins
  med : Nat

/-- value of the node at a position; out of range counts as an empty node -/
def valAt (ord : List (Nat × Option α)) (p : Nat) : Option α := (ord[p]?).bind (·.2)

/-- `should_insert(value, current, index)`: `current` empty, or last index, or `v >= value` -/
def shouldInsert [POrd α] (N index : Nat) (x : α) (curVal : Option α) : Bool :=
  match curVal with
  | none => true
  | some v => (index + 1 == N) || POrd.ge v x

/-- `insert(value, current)`: link the node before `current`;
before the head means at the tail of the circular list -/
def insertAt (st : Loop α) (curPos c : Nat) (x : α) : Loop α :=
  if curPos = 0 then { st with ord := st.ord ++ [(c, some x)], ins := .tail }
  else
    { ord := st.ord.insertIdx curPos (c, some x), ins := .mid,
      med := if curPos ≤ st.med then st.med + 1 else st.med }

/-- `shift_median(index, current)`: every other hop, only past non-empty nodes -/
def shiftMedian (st : Loop α) (index : Nat) (curVal : Option α) : Loop α :=
  if (decide (index % 2 = 1) && curVal.isSome) = true then
    { st with med := (st.med + 1) % st.ord.length }
  else st

/-- position of `current` at a walk index -/
def curPosOf (st : Loop α) (index : Nat) : Nat :=
  (index + (if st.ins = .mid then 1 else 0)) % st.ord.length

/-- one iteration of the `for index in 0..buffer_len` loop of `insert_value` -/
def loopBody [POrd α] (N : Nat) (c : Nat) (x : α) (st : Loop α) (index : Nat) : Loop α :=
  let curPos := curPosOf st index
  let curVal := valAt st.ord curPos
  let st1 : Loop α :=
    if (decide (st.ins = .no) && shouldInsert N index x curVal) = true then insertAt st curPos c x
    else st
  shiftMedian st1 index curVal

/-- `update_head`'s test: head empty, or `value <= head` -/
def shouldHead [POrd α] (x : α) (headVal : Option α) : Bool :=
  match headVal with
  | none => true
  | some h => POrd.le x h

/-- everything after the walk: `update_head`, `adjust_median_for_even_length`,
`increment_cursor`, `median_unchecked` -/
def finish [POrd α] (N c : Nat) (x : α) (st : Loop α) : Option (MS α × α) :=
  -- update_head: `head = cursor` re-bases the circular list at the new node,
  -- `median = median.previous`
  let rot := shouldHead x (valAt st.ord 0)
  let posNew := st.ord.findIdx (fun p => p.1 == c)
  let ord2 := if rot = true then st.ord.rotateLeft posNew else st.ord
  let med2 := if rot = true then (st.med + N - 1 + N - posNew) % N else st.med
  -- adjust_median_for_even_length
  let med3 := if N % 2 = 0 then (med2 + N - 1) % N else med2
  -- increment_cursor ; median_unchecked
  match valAt ord2 med3 with
  | none => none
  | some y => some ({ order := ord2, cursor := (c + 1) % N, med := med3 }, y)

def step [POrd α] (s : MS α) (x : α) : Option (MS α × α) :=
  let N := s.order.length
  let c := s.cursor
  -- move_head_forward + remove_node
  let o1 := s.order.filter (fun p => p.1 != c)
  -- initialize_median + insert_value
  let st := (List.range N).foldl (loopBody N c x) { ord := o1, ins := .no, med := 0 }
  finish N c x st

def minAcc (s : MS α) : Option α := valAt s.order 0
def medAcc (s : MS α) : Option α := valAt s.order s.med
/-- as implemented: the slot before `cursor` -/
def maxAcc (s : MS α) : Option α :=
  let N := s.order.length
  let slot := (s.cursor + N - 1) % N
  (s.order.find? (fun p => p.1 == slot)).bind (·.2)

def run [POrd α] (s : MS α) : List α → Option (List α)
  | [] => some []
  | x :: xs => do
    let (s', y) ← step s x
    let ys ← run s' xs
    pure (y :: ys)

end SignaloModel.Median

open SignaloModel.Median in
#eval run (init 4 : MS Int) [10, 20, 30, 100, 30, 20, 10]   -- [10, 10, 20, 20, 30, 30, 20]
open SignaloModel.Median in
#eval run (init 5 : MS Int) [10, 20, 30, 100, 30, 20, 10]   -- [10, 10, 20, 20, 30, 30, 30]
open SignaloModel.Median in
#eval run (init 4 : MS Int) [70, 60, 50, 40, 30, 20, 10]    -- [70, 60, 60, 50, 40, 30, 20]
open SignaloModel.Median in
#eval run (init 5 : MS Int) [10, 20, 10, 20, 10, 20, 10]    -- [10, 10, 10, 10, 10, 20, 10]
open SignaloModel.Median in
#eval run (init 1 : MS Int) [3, 1, 2]                        -- [3, 1, 2]
open SignaloModel.Median in
#eval run (init 2 : MS Int) [3, 1, 2, 5, 4]                  -- lower median of last 2: [3,1,1,2,4]
