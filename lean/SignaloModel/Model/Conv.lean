import SignaloModel.Model.Fir
/-! Model/proofs for C05 (import-free): the stateful `Convolve` and `Delay` filters. -/
namespace SignaloModel.Conv

variable {α : Type}

/-- `CircularBuffer<N,_>::push_back`: new content and the evicted element -/
def pushBack (N : Nat) (l : List α) (x : α) : List α × Option α :=
  if N = 0 then (l, some x)
  else if N ≤ l.length then (l.drop 1 ++ [x], l.head?)
  else (l ++ [x], none)

/-- `loop { if let Some(e) = taps.push_back(input.clone()) { break e } }` with fuel;
`none` in the second component = fuel exhausted (the Rust loop would not have terminated) -/
def pushLoop (N : Nat) : Nat → List α → α → List α × Option α
  | 0, l, _ => (l, none)
  | fuel + 1, l, x =>
    match (pushBack N l x).2 with
    | some e => ((pushBack N l x).1, some e)
    | none => pushLoop N fuel (pushBack N l x).1 x

/-- `Delay::filter` -/
def delayStep (N : Nat) (taps : List α) (x : α) : List α × Option α := pushLoop N (N + 1) taps x

variable [Add α] [Mul α] [OfNat α 0]

/-- `state_iter.zip(coeff_iter).fold(zero, |sum, (state, coeff)| sum + state * coeff)` -/
def dot (taps coeffs : List α) : α :=
  (taps.zip coeffs).foldl (fun sum p => sum + p.1 * p.2) 0

/-- `Convolve::filter` -/
def convStep (N : Nat) (coeffs : List α) (taps : List α) (x : α) : List α × α :=
  let taps' := (pushLoop N (N + 1) taps x).1
  (taps', dot taps' coeffs.reverse)

/-- `Convolve::normalized`: divide every coefficient by the coefficient sum unless that sum is zero -/
def normalized [Div α] [BEq α] (coeffs : List α) : List α :=
  let sum := coeffs.foldl (fun s c => s + c) 0
  if sum == 0 then coeffs else coeffs.map (fun c => c / sum)

end SignaloModel.Conv
