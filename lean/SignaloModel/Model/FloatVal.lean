import SignaloModel.Model.Median
import SignaloModel.Model.Classify
/-!
IEEE binary64 / binary32 as sample types of the driver (float-only code: Hampel, the preset filters).
Lean's `Float` / `Float32` are the platform's IEEE types with the same `+ - * /` as Rust's `f64` / `f32`;
values cross the line protocol as bit patterns, so comparison with the implementation is bit-exact.
Also: exact conversion float → `Rat`, and correctly rounded (nearest-even) conversion `Rat` → float, which is
what `rustc` does to a decimal literal.
Glue only; no theorem depends on this file.
-/
namespace SignaloModel

/-- what the driver needs from a float type -/
class FloatLike (F : Type) where
  mantBits : Nat
  expBits : Nat
  toBitsNat : F → Nat
  ofBitsNat : Nat → F
  tag : Char

instance : FloatLike Float where
  mantBits := 52
  expBits := 11
  toBitsNat f := f.toBits.toNat
  ofBitsNat n := Float.ofBits (UInt64.ofNat n)
  tag := 'x'

instance : FloatLike Float32 where
  mantBits := 23
  expBits := 8
  toBitsNat f := f.toBits.toNat
  ofBitsNat n := Float32.ofBits (UInt32.ofNat n)
  tag := 'y'

namespace FloatLike
variable {F : Type} [FloatLike F]

def totalBits (F : Type) [FloatLike F] : Nat := 1 + expBits F + mantBits F
def bias (F : Type) [FloatLike F] : Nat := 2 ^ (expBits F - 1) - 1

/-- exact value of a finite float; `none` for NaN / infinities -/
def toRat (f : F) : Option Rat :=
  let b := toBitsNat f
  let p := mantBits F
  let frac := b % 2 ^ p
  let e := (b / 2 ^ p) % 2 ^ expBits F
  let neg := (b / 2 ^ (p + expBits F)) % 2 == 1
  if e == 2 ^ expBits F - 1 then none else
  let (m, ex) : Nat × Int := if e == 0 then (frac, 1 - (bias F : Int) - p) else (frac + 2 ^ p, (e : Int) - bias F - p)
  let v : Rat := if ex ≥ 0 then (m * 2 ^ ex.toNat : Nat) else mkRat m (2 ^ (-ex).toNat)
  some (if neg then -v else v)

def isNaN (f : F) : Bool :=
  let b := toBitsNat f
  let p := mantBits F
  (b / 2 ^ p) % 2 ^ expBits F == 2 ^ expBits F - 1 && b % 2 ^ p != 0

/-- round-half-even of `n / d` (`d > 0`) -/
def divRNE (n d : Nat) : Nat :=
  let q := n / d
  let r := n % d
  if 2 * r < d then q else if 2 * r > d then q + 1 else if q % 2 == 0 then q else q + 1

/-- the float nearest to a rational (ties to even); overflow is not needed and yields infinity bits -/
def ofRat (F : Type) [FloatLike F] (r : Rat) : F :=
  if r == 0 then ofBitsNat 0 else
  let p := mantBits F
  let neg := r < 0
  let n := r.num.natAbs
  let d := r.den
  -- e = floor(log2(n/d)) up to one; then corrected
  let e0 : Int := (Nat.log2 n : Int) - (Nat.log2 d : Int)
  let scaled (e : Int) : Nat × Nat :=   -- n/d * 2^(p - e) as a fraction
    let s : Int := (p : Int) - e
    if s ≥ 0 then (n * 2 ^ s.toNat, d) else (n, d * 2 ^ (-s).toNat)
  let ge (e : Int) : Bool := let (a, b) := scaled e; a ≥ b * 2 ^ p   -- n/d ≥ 2^e
  let e : Int := if ge e0 then (if ge (e0 + 1) then e0 + 1 else e0) else e0 - 1
  let emin : Int := 1 - (bias F : Int)
  let e' : Int := if e < emin then emin else e
  let (a, b) := scaled e'
  let m := divRNE a b
  let (m, e') : Nat × Int := if m ≥ 2 ^ (p + 1) then (m / 2, e' + 1) else (m, e')
  let bexp : Nat := if m < 2 ^ p then 0 else (e' + bias F).toNat
  let bexp := if bexp ≥ 2 ^ expBits F - 1 then 2 ^ expBits F - 1 else bexp
  let frac := if bexp == 2 ^ expBits F - 1 then 0 else m % 2 ^ p
  let bits := (if neg then 2 ^ (p + expBits F) else 0) + bexp * 2 ^ p + frac
  ofBitsNat bits

def hexDigit (n : Nat) : Char := (Nat.toDigits 16 n).headD '0'

/-- is the bit pattern a NaN (exponent all ones, mantissa non-zero)? -/
def isNanBits (F : Type) [FloatLike F] (b : Nat) : Bool :=
  (b / 2 ^ mantBits F) % 2 ^ expBits F == 2 ^ expBits F - 1 && b % 2 ^ mantBits F != 0

def render (f : F) : String :=
  -- one bit pattern for every NaN (quiet, positive, empty payload): sign and payload of a NaN are not part of any property
  let b0 := toBitsNat f
  let b := if isNanBits F b0 then (2 ^ expBits F - 1) * 2 ^ mantBits F + 2 ^ (mantBits F - 1) else b0
  let digits := totalBits F / 4
  let ds := (List.range digits).map (fun i => hexDigit ((b / 16 ^ (digits - 1 - i)) % 16))
  String.ofList (tag F :: ds)

def hexVal (c : Char) : Option Nat :=
  if c.isDigit then some (c.toNat - '0'.toNat)
  else if 'a' ≤ c && c ≤ 'f' then some (c.toNat - 'a'.toNat + 10) else none

def parse (s : String) : Option F :=
  match s.toList with
  | t :: ds =>
    if t != tag F || ds.length != totalBits F / 4 then none else
    (ds.foldlM (fun acc c => (hexVal c).map (fun v => acc * 16 + v)) 0).map ofBitsNat
  | [] => none

end FloatLike

instance : Median.POrd Float := ⟨fun a b => decide (a ≥ b), fun a b => decide (a ≤ b)⟩
instance : Median.POrd Float32 := ⟨fun a b => decide (a ≥ b), fun a b => decide (a ≤ b)⟩

instance : Classify.Cmp Float where
  ge a b := decide (a ≥ b)
  gt a b := decide (a > b)
  pcmp a b := if a < b then some .lt else if a == b then some .eq else if a > b then some .gt else none
instance : Classify.Cmp Float32 where
  ge a b := decide (a ≥ b)
  gt a b := decide (a > b)
  pcmp a b := if a < b then some .lt else if a == b then some .eq else if a > b then some .gt else none

instance : Median.POrd Rat := ⟨fun a b => decide (a ≥ b), fun a b => decide (a ≤ b)⟩
instance : Classify.Cmp Rat where
  ge a b := decide (a ≥ b)
  gt a b := decide (a > b)
  pcmp a b := some (if a < b then .lt else if a == b then .eq else .gt)

end SignaloModel
