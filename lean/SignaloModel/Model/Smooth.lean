import SignaloModel.Model.Kalman
/-! Model/proofs for C13/C14/C06 (import-free): EMA, exponential median, alpha-beta, Kalman runs. -/
namespace SignaloModel.Smooth

variable {α : Type} [Add α] [Sub α] [Mul α]

/-- `mean::exp::Mean::filter` -/
def emaStep (w : α) (s : Option α) (x : α) : α :=
  match s with
  | none => x
  | some m => m + ((x - m) * w)

def emaRun (w : α) (s : Option α) : List α → List α
  | [] => []
  | x :: xs => emaStep w s x :: emaRun w (some (emaStep w s x)) xs

structure EMedState (α : Type) where
  pre : Option α
  post : Option α
  median : Option α

/-- `median::exp::Median::filter` -/
def emedStep (wpre mid wpost : α) (s : EMedState α) (x : α) : EMedState α × α :=
  let mean := emaStep wpre s.pre x
  let med := match s.median with
    | none => mean
    | some st => st + ((mean - st) * mid)
  let out := emaStep wpost s.post med
  ({ pre := some mean, post := some out, median := some out }, out)

def emedRun (wpre mid wpost : α) (s : EMedState α) : List α → List α
  | [] => []
  | x :: xs => (emedStep wpre mid wpost s x).2 :: emedRun wpre mid wpost (emedStep wpre mid wpost s x).1 xs

structure ABState (α : Type) where
  velocity : α
  value : Option α

/-- `observe::alpha_beta::AlphaBeta::filter` -/
def abStep (alpha beta : α) (s : ABState α) (x : α) : ABState α × α :=
  match s.value with
  | none => ({ velocity := s.velocity, value := some x }, x)
  | some st =>
    let st1 := st + s.velocity
    let residual := x - st1
    let st2 := st1 + (alpha * residual)
    let v2 := s.velocity + (beta * residual)
    ({ velocity := v2, value := some st2 }, st2)

def abRun (alpha beta : α) (s : ABState α) : List α → List α
  | [] => []
  | x :: xs => (abStep alpha beta s x).2 :: abRun alpha beta (abStep alpha beta s x).1 xs

end SignaloModel.Smooth
