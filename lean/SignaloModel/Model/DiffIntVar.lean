import SignaloModel.Model.Smooth
import SignaloModel.Model.Sinks
/-! Model/proofs for C15/C16 (import-free models). -/
namespace SignaloModel.DIV

variable {α : Type} [Add α] [Sub α] [Mul α] [Div α] [Neg α] [OfNat α 0] [OfNat α 1]
  [LT α] [DecidableLT α]

/-- `Differentiate::filter` -/
def diffRun (prev : Option α) : List α → List α
  | [] => []
  | x :: xs => (match prev with | none => 0 | some p => x - p) :: diffRun (some x) xs

/-- `Integrate::filter` -/
def intRun (acc : α) : List α → List α
  | [] => []
  | x :: xs => (acc + x) :: intRun (acc + x) xs

def absG (x : α) : α := if x < 0 then -x else x

structure EMV (α : Type) where
  mean : Option α
  var : Option α

/-- `mean::exp::MeanVariance::filter`: (mean, variance) -/
def emvStep (w : α) (s : EMV α) (x : α) : EMV α × (α × α) :=
  let meanOld := s.mean.getD x
  let mean := Smooth.emaStep w s.mean x
  let squared := absG (x - meanOld) * absG (x - mean)
  let variance := Smooth.emaStep w s.var squared
  ({ mean := some mean, var := some variance }, (mean, variance))

def emvRun (w : α) (s : EMV α) : List α → List (α × α)
  | [] => []
  | x :: xs => (emvStep w s x).2 :: emvRun w (emvStep w s x).1 xs

/-- sliding `mean::mean_variance::MeanVariance::filter`: reads the inner filter's running SUM -/
def smvStep (N : Nat) (s : Sinks.SM α × Sinks.SM α) (x : α) : (Sinks.SM α × Sinks.SM α) × (α × α) :=
  let meanOld := s.1.mean.getD x
  let m := Sinks.smStep N s.1 x
  let squared := absG (x - meanOld) * absG (x - m.2)
  let v := Sinks.smStep N s.2 squared
  ((m.1, v.1), (m.2, v.2))

def smvRun (N : Nat) (s : Sinks.SM α × Sinks.SM α) : List α → List (α × α)
  | [] => []
  | x :: xs => (smvStep N s x).2 :: smvRun N (smvStep N s x).1 xs

end SignaloModel.DIV
