import SignaloModel.Model.Median
import SignaloModel.Model.Classify
/-!
Machine integers as a sample type of the driver: exact `+ - *` (generated values stay far from 2⁶³, so wrapping
never occurs and is not modelled) and Rust's **truncating** division. Used for `Mean<i64, N>` (C03: "evaluated in
the sample type's own arithmetic"). Glue only.
-/
namespace SignaloModel

structure I64 where
  v : Int
deriving Repr, BEq, Inhabited

namespace I64
instance : Add I64 := ⟨fun a b => ⟨a.v + b.v⟩⟩
instance : Sub I64 := ⟨fun a b => ⟨a.v - b.v⟩⟩
instance : Mul I64 := ⟨fun a b => ⟨a.v * b.v⟩⟩
instance : Neg I64 := ⟨fun a => ⟨-a.v⟩⟩
/-- Rust's `/` on integers truncates toward zero -/
instance : Div I64 := ⟨fun a b => ⟨Int.tdiv a.v b.v⟩⟩
instance : OfNat I64 0 := ⟨⟨0⟩⟩
instance : OfNat I64 1 := ⟨⟨1⟩⟩
instance : LT I64 := ⟨fun a b => a.v < b.v⟩
instance : DecidableLT I64 := fun a b => inferInstanceAs (Decidable (a.v < b.v))
instance : Median.POrd I64 := ⟨fun a b => decide (a.v ≥ b.v), fun a b => decide (a.v ≤ b.v)⟩
instance : Classify.Cmp I64 where
  ge a b := decide (a.v ≥ b.v)
  gt a b := decide (a.v > b.v)
  pcmp a b := some (compare a.v b.v)

def render (a : I64) : String := toString a.v
def parse (s : String) : Option I64 := s.toInt?.map (⟨·⟩)
end I64
end SignaloModel
