/-! Import-free generic model of the scalar Kalman step . -/
namespace SignaloModel

structure KCfg (α : Type) where
  r : α
  q : α
  a : α
  b : α
  c : α

structure KState (α : Type) where
  cov : α
  value : Option α

variable {α : Type} [Add α] [Sub α] [Mul α] [Div α]

def kalmanStep (cfg : KCfg α) (s : KState α) (input control : α) : KState α × α :=
  let cSq := cfg.c * cfg.c
  match s.value with
  | none =>
    let v := input / cfg.c
    let p := cfg.q / cSq
    ({ cov := p, value := some v }, v)
  | some value =>
    let predState := (cfg.a * value) + (cfg.b * control)
    let predCov := (cfg.a * s.cov * cfg.a) + cfg.r
    let gain := predCov * cfg.c / ((predCov * cSq) + cfg.q)
    let v := predState + gain * (input - (cfg.c * predState))
    let p := predCov - (gain * cfg.c * predCov)
    ({ cov := p, value := some v }, v)

def kalmanRun (cfg : KCfg α) (s : KState α) : List (α × α) → List α
  | [] => []
  | (z, u) :: rest =>
    let (s', y) := kalmanStep cfg s z u
    y :: kalmanRun cfg s' rest

end SignaloModel
