/-! Model/proofs for C11/C03 (import-free): Welford sinks and the sliding mean, generic arithmetic. -/
namespace SignaloModel.Sinks

variable {α : Type} [Add α] [Sub α] [Mul α] [Div α] [OfNat α 0] [OfNat α 1]

/-- `sinks::mean::Mean` / `mean_variance::MeanVariance` state: `None` before the first sample -/
structure MV (α : Type) where
  count : α
  mean : α
  m2 : α        -- the field called `variance` in the Rust code: Σ (x - mean)²

/-- `MeanVariance::filter` (`mean_variance.rs:43-66`) -/
def mvStep (s : Option (MV α)) (x : α) : MV α :=
  let (oldCount, oldMean, oldVar) : α × α × α := match s with
    | some st => (st.count, st.mean, st.m2)
    | none => (0, 0, 0)
  let count := oldCount + 1
  let mean := oldMean + ((x - oldMean) / count)
  let oldDelta := x - oldMean
  let delta := x - mean
  { count := count, mean := mean, m2 := oldVar + (oldDelta * delta) }

def mvRun (s : Option (MV α)) : List α → Option (MV α)
  | [] => s
  | x :: xs => mvRun (some (mvStep s x)) xs

/-- `filters::mean::mean::Mean` after the repair: running sum over a ring of `N` taps -/
structure SM (α : Type) where
  mean : Option α      -- the running SUM
  taps : List α
  weight : α

def smInit : SM α := { mean := none, taps := [], weight := 0 }

/-- `Mean::filter` (`mean.rs:116-132`, running sum started from zero).
The three branches are the three behaviours of `CircularBuffer::push_back`. -/
def smStep (N : Nat) (s : SM α) (x : α) : SM α × α :=
  if N = 0 then
    -- zero capacity: `push_back` hands the item straight back
    let mean := s.mean.getD 0 - x + x
    ({ mean := some mean, taps := s.taps, weight := s.weight }, mean / s.weight)
  else if N ≤ s.taps.length then
    match s.taps with
    | [] => (s, s.mean.getD 0 / s.weight)          -- unreachable for `N ≥ 1`
    | old :: rest =>
      let mean := s.mean.getD 0 - old + x
      ({ mean := some mean, taps := rest ++ [x], weight := s.weight }, mean / s.weight)
  else
    let mean := s.mean.getD 0 + x
    let weight := s.weight + 1
    ({ mean := some mean, taps := s.taps ++ [x], weight := weight }, mean / weight)

end SignaloModel.Sinks
