import SignaloModel.Proofs.BridgeHampel
import SignaloModel.Proofs.HampelProofs
/-!
# C18 — Hampel filter passes inliers, replaces gross outliers, and emits nothing else

The property theorems for C18: `#check` prints each statement, `#print axioms` its axioms;
`bin/check C18` re-elaborates this file on every run and audits the axiom lists.
-/
open SignaloModel

#check @Registry.hampel_registry
#check @Registry.hampelOut_two_valued
#check @Registry.hampelOut_first
#check @Registry.hampelOut_inlier
#check @Registry.hampelOut_outlier
#check @Hampel.decide_two_valued
#check @Hampel.decide_first
#check @Hampel.decide_inlier
#check @Hampel.decide_outlier
#check @Hampel.decide_const_window

#print axioms Registry.hampel_registry
#print axioms Registry.hampelOut_two_valued
#print axioms Registry.hampelOut_first
#print axioms Registry.hampelOut_inlier
#print axioms Registry.hampelOut_outlier
#print axioms Hampel.decide_two_valued
#print axioms Hampel.decide_first
#print axioms Hampel.decide_inlier
#print axioms Hampel.decide_outlier
#print axioms Hampel.decide_const_window
