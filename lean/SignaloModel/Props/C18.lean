import SignaloModel.Proofs.HampelProofs
/-!
# C18 — Hampel filter passes inliers, replaces gross outliers, and emits nothing else

Property theorems for C18 (statements are printed by `#check`, axioms by `#print axioms`;
`bin/check C18` re-elaborates this file on every run and audits the axiom lists).
-/
open SignaloModel

#check @Hampel.decide_two_valued
#check @Hampel.decide_first
#check @Hampel.decide_inlier
#check @Hampel.decide_outlier
#check @Hampel.decide_const_window

#print axioms Hampel.decide_two_valued
#print axioms Hampel.decide_first
#print axioms Hampel.decide_inlier
#print axioms Hampel.decide_outlier
#print axioms Hampel.decide_const_window
