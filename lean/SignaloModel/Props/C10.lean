import SignaloModel.Proofs.PeekProofs
import SignaloModel.Proofs.SourcesTree
import SignaloModel.Proofs.PeekRaw
import SignaloModel.Proofs.SourcesRawProofs
import SignaloModel.Proofs.SkipRaw
/-!
# C10 — Source adapters yield exactly what their iterator analogues yield

The property theorems for C10: `#check` prints each statement, `#print axioms` its axioms;
`bin/check C10` re-elaborates this file on every run and audits the axiom lists.
-/
open SignaloModel

#check @Sources.pulls_skip
#check @Sources.pulls_cache
#check @Sources.pulls_take
#check @Sources.pulls_chain
#check @Sources.peek_raw_correct
#check @Sources.peek_correct
#check @Sources.runPeek_correct
#check @Sources.tree_correct
#check @Sources.implements_of_bisim
#check @Sources.fromList_correct
#check @Sources.take_correct
#check @Sources.skip_correct
#check @Sources.chain_correct
#check @Sources.cycle_correct_fin
#check @Sources.cycle_correct_nil
#check @Sources.cycle_correct_inf
#check @Sources.repeat_correct
#check @Sources.constant_correct
#check @Sources.increment_correct
#check @Sources.padConst_correct
#check @Sources.padEdge_correct
#check @Sources.padEdge'_fin
#check @Sources.cache_correct
#check @Sources.cache_slot
#check @Sources.peek_then_pull
#check @Sources.peek_idem
#check @Sources.peek_pull_plain

#print axioms Sources.pulls_skip
#print axioms Sources.pulls_cache
#print axioms Sources.pulls_take
#print axioms Sources.pulls_chain
#print axioms Sources.peek_raw_correct
#print axioms Sources.peek_correct
#print axioms Sources.runPeek_correct
#print axioms Sources.tree_correct
#print axioms Sources.implements_of_bisim
#print axioms Sources.fromList_correct
#print axioms Sources.take_correct
#print axioms Sources.skip_correct
#print axioms Sources.chain_correct
#print axioms Sources.cycle_correct_fin
#print axioms Sources.cycle_correct_nil
#print axioms Sources.cycle_correct_inf
#print axioms Sources.repeat_correct
#print axioms Sources.constant_correct
#print axioms Sources.increment_correct
#print axioms Sources.padConst_correct
#print axioms Sources.padEdge_correct
#print axioms Sources.padEdge'_fin
#print axioms Sources.cache_correct
#print axioms Sources.cache_slot
#print axioms Sources.peek_then_pull
#print axioms Sources.peek_idem
#print axioms Sources.peek_pull_plain
