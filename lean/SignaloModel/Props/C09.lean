import SignaloModel.Proofs.BridgeSimple
import SignaloModel.Proofs.ClassifyProofs
import SignaloModel.Proofs.PeaksFromState
/-!
# C09 — Slope and peak classifiers report sign changes of the first difference

The property theorems for C09: `#check` prints each statement, `#print axioms` its axioms;
`bin/check C09` re-elaborates this file on every run and audits the axiom lists.
-/
open SignaloModel

#check @SignaloModel.Classify.peaksStep_from_state
#check @SignaloModel.Classify.peaksSlopeRun_getElem
#check @SignaloModel.Classify.peakOf_min_iff
#check @SignaloModel.Classify.peakOf_max_iff
#check @SignaloModel.Registry.peaksSlopeStep_from_state
#check @Registry.slope_spec
#check @Registry.peak_spec
#check @Registry.slopes_registry_correct
#check @Registry.peaks_registry_correct
#check @Classify.slopeOf_lin
#check @Classify.peaks_correct
#check @Classify.peaks_value_eq_slope

#print axioms SignaloModel.Classify.peaksStep_from_state
#print axioms SignaloModel.Classify.peaksSlopeRun_getElem
#print axioms SignaloModel.Classify.peakOf_min_iff
#print axioms SignaloModel.Classify.peakOf_max_iff
#print axioms SignaloModel.Registry.peaksSlopeStep_from_state
#print axioms Registry.slope_spec
#print axioms Registry.peak_spec
#print axioms Registry.slopes_registry_correct
#print axioms Registry.peaks_registry_correct
#print axioms Classify.slopeOf_lin
#print axioms Classify.peaks_correct
#print axioms Classify.peaks_value_eq_slope
