import SignaloModel.Proofs.BridgeDeque
import SignaloModel.Proofs.DequeMin
import SignaloModel.Proofs.DequeSuffix
import SignaloModel.Proofs.OwnedDeque
import SignaloModel.Proofs.DequeExact
import SignaloModel.Proofs.DequeBracket
import SignaloModel.Proofs.DequeExactFrom
import SignaloModel.Proofs.DequeMono
/-!
# C04 — Moving min/max/bounds equal the extrema of the last min(k,N) samples

The property theorems for C04: `#check` prints each statement, `#print axioms` its axioms;
`bin/check C04` re-elaborates this file on every run and audits the axiom lists.
-/
open SignaloModel

#check @SignaloModel.Deque.taps_monotonic_run
#check @SignaloModel.Deque.taps_exact_from
#check @SignaloModel.Deque.minmax_bracket
#check @SignaloModel.Deque.taps_exact_run
#check @SignaloModel.Deque.taps_length_run
#check @SignaloModel.Deque.taps_suffixMax_run
#check @Registry.max_registry_correct
#check @Registry.min_registry_correct
#check @Registry.extremum_of_isMax
#check @Registry.extremum_of_isMin
#check @Registry.bounds_registry_correct
#check @Deque.max_correct
#check @Deque.min_correct
#check @Deque.runB_correct
#check @Deque.stepU_correct
#check @Deque.tick_rel

#print axioms SignaloModel.Deque.taps_monotonic_run
#print axioms SignaloModel.Deque.taps_exact_from
#print axioms SignaloModel.Deque.minmax_bracket
#print axioms SignaloModel.Deque.taps_exact_run
#print axioms SignaloModel.Deque.taps_length_run
#print axioms SignaloModel.Deque.taps_suffixMax_run
#print axioms Registry.max_registry_correct
#print axioms Registry.min_registry_correct
#print axioms Registry.extremum_of_isMax
#print axioms Registry.extremum_of_isMin
#print axioms Registry.bounds_registry_correct
#print axioms Deque.max_correct
#print axioms Deque.min_correct
#print axioms Deque.runB_correct
#print axioms Deque.stepU_correct
#print axioms Deque.tick_rel
