import SignaloModel.Proofs.RegistryProofs
import SignaloModel.Proofs.Sources2Proofs
/-!
# C20 — A copied filter continues exactly like the original; wrappers are transparent

The property theorems for C20: `#check` prints each statement, `#print axioms` its axioms;
`bin/check C20` re-elaborates this file on every run and audits the axiom lists.
-/
open SignaloModel

#check @Registry.run_append
#check @Registry.cache_filter
#check @Registry.cache_run
#check @Registry.cache_slot
#check @Registry.unit_filter
#check @Registry.unit_run
#check @Sources.cache_correct
#check @Sources.cache_slot

#print axioms Registry.run_append
#print axioms Registry.cache_filter
#print axioms Registry.cache_run
#print axioms Registry.cache_slot
#print axioms Registry.unit_filter
#print axioms Registry.unit_run
#print axioms Sources.cache_correct
#print axioms Sources.cache_slot
