import SignaloModel.Props.NonVacuity
import SignaloModel.Proofs.RegWavelet
import SignaloModel.Proofs.RegMisc
import SignaloModel.Proofs.RegConvLinear
import SignaloModel.Proofs.SinkRunning
import SignaloModel.Proofs.PeekRaw
import SignaloModel.Proofs.OneStep
namespace SignaloModel.NonVacuity2
open SignaloModel SignaloModel.Registry SignaloModel.LinOrd

/-- C07 at registry level: the 4-tap table, a non-constant signal bounded by 5 -/
example : ∃ sa ss, ∃ ps : List (Rat × Rat), ∃ ys,
    (Cfg.analyze (Tables.lowOf Gen.db4raw) (Tables.highOf (Tables.lowOf Gen.db4raw))).init.run (sing [3, -1, 4, 1, -5, 2])
      = some (sa, ps.map (fun q => [q.1, q.2])) ∧
    (Cfg.synthesize (Tables.lowOf Gen.db4raw).reverse (Tables.highOf (Tables.lowOf Gen.db4raw)).reverse).init.run
      (ps.map (fun q => [q.1, q.2])) = some (ss, sing ys) ∧
    ys.length = 6 ∧
    ∀ k y, ys[k]? = some y → |y - ([3, -1, 4, 1, -5, 2] : List Rat).getD (k - (Gen.db4raw.length - 1)) 0| ≤ Gen.dec 1 8 * 5 :=
  daubechies_registry_reconstructs (4, Gen.db4raw) (by decide) [3, -1, 4, 1, -5, 2] 5 (by
    intro x hx
    simp only [List.mem_cons, List.not_mem_nil, or_false] at hx
    rcases hx with rfl | rfl | rfl | rfl | rfl | rfl <;> norm_num) (by norm_num)

/-- C05: superposition and the normalising constructor -/
example : ∃ s sx sy ox oy,
    (Cfg.convolve ([1, -2, 3] : List ℚ)).init.run (sing [1, 4, 2]) = some (sx, sing ox) ∧
    (Cfg.convolve ([1, -2, 3] : List ℚ)).init.run (sing [0, 3, 9]) = some (sy, sing oy) ∧
    (Cfg.convolve ([1, -2, 3] : List ℚ)).init.run (sing (List.zipWith (fun x y => 2 * x + (-3) * y) [1, 4, 2] [0, 3, 9])) =
      some (s, sing (List.zipWith (fun p q => 2 * p + (-3) * q) ox oy)) :=
  conv_registry_linear _ (by decide) 2 (-3) [1, 4, 2] [0, 3, 9] rfl

example : ∃ s', (Cfg.convolve (Conv.normalized ([1, 2, 5] : List ℚ))).init.run (sing (List.replicate 4 (7 : ℚ)))
    = some (s', sing (List.replicate 4 7)) :=
  conv_registry_normalized_const [1, 2, 5] (by decide) (by norm_num) 7 4

/-- C06: covariance -/
example : ∃ s' ys p, (Cfg.kalman ({ r := 1/2, q := 2, a := 1, b := 0, c := 1 } : KCfg ℚ)).init.run
      (([(1, 0), (5, 0)] : List (ℚ × ℚ)).map (fun p => [p.1, p.2])) = some (s', ys) ∧ kalmanCov s' = some p ∧ 0 ≤ p :=
  kalman_registry_cov_nonneg (1/2) 2 (by norm_num) (by norm_num) _

/-- C11: the combined sink -/
example : ∃ mn mx, Spec.extremum ltB ([2, 4, 9] : List ℚ) = some mn ∧ Spec.extremum gtB ([2, 4, 9] : List ℚ) = some mx ∧
    ((SinkModels.Sk.statistics (none : Option ℚ) none none).feed [2, 4, 9]).finalize =
      some [mn, mx, Spec.batchMean [2, 4, 9], Spec.sampleVariance ([2, 4, 9] : List ℚ)] :=
  SinkModels.statistics_finalize _ (by simp)

end SignaloModel.NonVacuity2
