import SignaloModel.Proofs.BridgePipes
import SignaloModel.Model.Pipes
import SignaloModel.Model.PipesSink
import SignaloModel.Proofs.PipeStep
/-!
# C01 — Pipes compose stages as sequential function application

The property theorems for C01: `#check` prints each statement, `#print axioms` its axioms;
`bin/check C01` re-elaborates this file on every run and audits the axiom lists.
-/
open SignaloModel

#check @Pipes.filter_eq_thread
#check @Pipes.source_eq_thread
#check @Pipes.sink_eq_thread
#check @PipeRegistry.stage_run_eq
#check @PipeRegistry.stage_run_leafOut
#check @Pipes.run_eq_seq
#check @Pipes.run_congr
#check @Pipes.Stage.length_run
#check @Pipes.pulls_eq
#check @Pipes.runOpt_none_iff
#check @Pipes.finalize_eq

#print axioms Pipes.filter_eq_thread
#print axioms Pipes.source_eq_thread
#print axioms Pipes.sink_eq_thread
#print axioms PipeRegistry.stage_run_eq
#print axioms PipeRegistry.stage_run_leafOut
#print axioms Pipes.run_eq_seq
#print axioms Pipes.run_congr
#print axioms Pipes.Stage.length_run
#print axioms Pipes.pulls_eq
#print axioms Pipes.runOpt_none_iff
#print axioms Pipes.finalize_eq
