import SignaloModel.Proofs.BridgeSimple
import SignaloModel.Proofs.ClassifyProofs
/-!
# C08 — Threshold, Schmitt trigger and debounce follow their reference automata

The property theorems for C08: `#check` prints each statement, `#print axioms` its axioms;
`bin/check C08` re-elaborates this file on every run and audits the axiom lists.
-/
open SignaloModel

#check @Registry.schmitt_registry
#check @Registry.debounce_registry
#check @Registry.threshold_registry
#check @Registry.schmitt_registry_correct
#check @Registry.debounce_registry_correct
#check @Classify.schmitt_ref
#check @Classify.debounce_eq_min
#check @Classify.debounce_on_iff
#check @Classify.runLenFrom_spec

#print axioms Registry.schmitt_registry
#print axioms Registry.debounce_registry
#print axioms Registry.threshold_registry
#print axioms Registry.schmitt_registry_correct
#print axioms Registry.debounce_registry_correct
#print axioms Classify.schmitt_ref
#print axioms Classify.debounce_eq_min
#print axioms Classify.debounce_on_iff
#print axioms Classify.runLenFrom_spec
