import SignaloModel.Proofs.BridgeMedianAcc
import SignaloModel.Proofs.MedianRef7
import SignaloModel.Proofs.MedianAccL
import SignaloModel.Proofs.BridgeMedian
/-!
# C02 — Moving median returns the lower median of the last min(k,N) samples

The property theorems for C02: `#check` prints each statement, `#print axioms` its axioms;
`bin/check C02` re-elaborates this file on every run and audits the axiom lists.
-/
open SignaloModel

#check @Registry.median_registry_correct
#check @Registry.median_registry_robust
#check @MedianL.medianL_correct
#check @MedianL.medianL_robust
#check @MedianL.medianL_one
#check @Median.median_correct
#check @Median.median_robust
#check @Median.window_eq_lastN
#check @MedianL.refine_step

#print axioms Registry.median_registry_correct
#print axioms Registry.median_registry_robust
#print axioms MedianL.medianL_correct
#print axioms MedianL.medianL_robust
#print axioms MedianL.medianL_one
#print axioms Median.median_correct
#print axioms Median.median_robust
#print axioms Median.window_eq_lastN
#print axioms MedianL.refine_step
