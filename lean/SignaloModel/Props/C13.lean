import SignaloModel.Proofs.BridgeHull
import SignaloModel.Proofs.BridgeSimple
import SignaloModel.Proofs.SmoothProofs
import SignaloModel.Proofs.OneStep
/-!
# C13 — Exponential smoothers obey their recurrences and stay in the data hull

The property theorems for C13: `#check` prints each statement, `#print axioms` its axioms;
`bin/check C13` re-elaborates this file on every run and audits the axiom lists.
-/
open SignaloModel

#check @Registry.ema_first
#check @Registry.ema_step
#check @Registry.emaRec_snoc
#check @Registry.ema_state
#check @Registry.ema_registry_correct
#check @Registry.ema_registry_hull
#check @Registry.emedian_registry_hull
#check @Registry.emedRec_snoc
#check @Registry.emed_state
#check @Registry.emedian_registry_correct
#check @Smooth.ema_hull
#check @Smooth.emed_hull
#check @Smooth.ema_const
#check @Smooth.emaStep_in

#print axioms Registry.ema_first
#print axioms Registry.ema_step
#print axioms Registry.emaRec_snoc
#print axioms Registry.ema_state
#print axioms Registry.ema_registry_correct
#print axioms Registry.ema_registry_hull
#print axioms Registry.emedian_registry_hull
#print axioms Registry.emedRec_snoc
#print axioms Registry.emed_state
#print axioms Registry.emedian_registry_correct
#print axioms Smooth.ema_hull
#print axioms Smooth.emed_hull
#print axioms Smooth.ema_const
#print axioms Smooth.emaStep_in
