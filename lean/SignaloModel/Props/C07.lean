import SignaloModel.Proofs.CascadeProofs
import SignaloModel.Proofs.FirProofs
import SignaloModel.Proofs.TableChecks
import SignaloModel.Proofs.RegWavelet
/-!
# C07 — Daubechies analysis followed by synthesis reconstructs the signal

The property theorems for C07: `#check` prints each statement, `#print axioms` its axioms;
`bin/check C07` re-elaborates this file on every run and audits the axiom lists.
-/
open SignaloModel

#check @Registry.synthesize_registry_correct
#check @Registry.analyze_registry_correct
#check @Registry.daubechies_registry_reconstructs
#check @Fir.cascade_kernel
#check @Fir.convL_residual_bound
#check @Tables.db_reconstructs
#check @Fir.convL_polyMul
#check @Fir.convL_addL
#check @Fir.convL_bound
#check @Fir.convL_delta
#check @Tables.db_residuals
#check @Tables.db_high_gain
#check @Tables.db_low_gain
#check @Tables.db_lengths

#print axioms Registry.synthesize_registry_correct
#print axioms Registry.analyze_registry_correct
#print axioms Registry.daubechies_registry_reconstructs
#print axioms Fir.cascade_kernel
#print axioms Fir.convL_residual_bound
#print axioms Tables.db_reconstructs
#print axioms Fir.convL_polyMul
#print axioms Fir.convL_addL
#print axioms Fir.convL_bound
#print axioms Fir.convL_delta
#print axioms Tables.db_residuals
#print axioms Tables.db_high_gain
#print axioms Tables.db_low_gain
#print axioms Tables.db_lengths
