import SignaloModel.Proofs.BridgeHull
import SignaloModel.Proofs.BridgeSimple
import SignaloModel.Proofs.SmoothProofs
import SignaloModel.Proofs.RegMisc
/-!
# C06 — Scalar Kalman filter follows the textbook recursion and stays in the data hull

The property theorems for C06: `#check` prints each statement, `#print axioms` its axioms;
`bin/check C06` re-elaborates this file on every run and audits the axiom lists.
-/
open SignaloModel

#check @Registry.kalman_registry_cov_nonneg
#check @Registry.kalman_step_textbook
#check @Registry.kalman_state
#check @Registry.kalman_registry_correct
#check @Registry.kalman_registry_hull
#check @kalman_step_hull
#check @kalman_zero_control
#check @Smooth.kalman_hull

#print axioms Registry.kalman_registry_cov_nonneg
#print axioms Registry.kalman_step_textbook
#print axioms Registry.kalman_state
#print axioms Registry.kalman_registry_correct
#print axioms Registry.kalman_registry_hull
#print axioms kalman_step_hull
#print axioms kalman_zero_control
#print axioms Smooth.kalman_hull
