import SignaloModel.Proofs.BridgeMean
import SignaloModel.Proofs.MeanProofs
import SignaloModel.Proofs.MeanFromState
import SignaloModel.Proofs.MeanBounded
/-!
# C03 — Moving average equals the mean of the last min(k,N) samples

The property theorems for C03: `#check` prints each statement, `#print axioms` its axioms;
`bin/check C03` re-elaborates this file on every run and audits the axiom lists.
-/
open SignaloModel

#check @SignaloModel.Sinks.smStep_toInt
#check @SignaloModel.Sinks.run_intermediates_are_blocks
#check @SignaloModel.Sinks.run_intermediates_fit
#check @Registry.mean_from_inv
#check @Registry.mean_inject_full_run
#check @Registry.mean_registry_correct
#check @Registry.mean_registry_forgets
#check @Registry.mean_registry_const
#check @Sinks.minv_init
#check @Sinks.minv_step
#check @Sinks.mean_forgets

#print axioms SignaloModel.Sinks.smStep_toInt
#print axioms SignaloModel.Sinks.run_intermediates_are_blocks
#print axioms SignaloModel.Sinks.run_intermediates_fit
#print axioms Registry.mean_from_inv
#print axioms Registry.mean_inject_full_run
#print axioms Registry.mean_registry_correct
#print axioms Registry.mean_registry_forgets
#print axioms Registry.mean_registry_const
#print axioms Sinks.minv_init
#print axioms Sinks.minv_step
#print axioms Sinks.mean_forgets
