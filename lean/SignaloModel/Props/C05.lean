import SignaloModel.Proofs.SgProofs
import SignaloModel.Proofs.BridgeConv
import SignaloModel.Proofs.ConvProofs
import SignaloModel.Proofs.SgTableChecks
import SignaloModel.Proofs.RegConvLinear
import SignaloModel.Proofs.RegMisc
import SignaloModel.Proofs.FullRing
/-!
# C05 — Convolution is an edge-padded FIR; delay shifts by exactly N

The property theorems for C05: `#check` prints each statement, `#print axioms` its axioms;
`bin/check C05` re-elaborates this file on every run and audits the axiom lists.
-/
open SignaloModel

#check @Registry.delay_inject_full
#check @Registry.conv_inject_full
#check @Registry.conv_inject_full_run
#check @Registry.normalized_of_sum_zero
#check @Registry.normalized_sum
#check @Registry.conv_registry_normalized_const
#check @Registry.conv_registry_linear
#check @Registry.conv_registry_correct
#check @Registry.delay_registry_correct
#check @Fir.convL_ramp
#check @Tables.sg_moments
#check @Conv.conv_closed_form
#check @Conv.taps_invariant
#check @Conv.pushLoop_fill
#check @Conv.delay_closed_form
#check @Conv.delay_zero
#check @Fir.convL_linear
#check @Fir.convL_shift
#check @Fir.convL_const
#check @Tables.sg_close

#print axioms Registry.delay_inject_full
#print axioms Registry.conv_inject_full
#print axioms Registry.conv_inject_full_run
#print axioms Registry.normalized_of_sum_zero
#print axioms Registry.normalized_sum
#print axioms Registry.conv_registry_normalized_const
#print axioms Registry.conv_registry_linear
#print axioms Registry.conv_registry_correct
#print axioms Registry.delay_registry_correct
#print axioms Fir.convL_ramp
#print axioms Tables.sg_moments
#print axioms Conv.conv_closed_form
#print axioms Conv.taps_invariant
#print axioms Conv.pushLoop_fill
#print axioms Conv.delay_closed_form
#print axioms Conv.delay_zero
#print axioms Fir.convL_linear
#print axioms Fir.convL_shift
#print axioms Fir.convL_const
#print axioms Tables.sg_close
