import SignaloModel.Proofs.BridgeMedianAcc
import SignaloModel.Proofs.MedianAccL
/-!
# C17 — Median filter accessors report true window min/median/max

The property theorems for C17: `#check` prints each statement, `#print axioms` its axioms;
`bin/check C17` re-elaborates this file on every run and audits the axiom lists.
-/
open SignaloModel

#check @Registry.median_registry_accessors
#check @Registry.median_registry_accessors_init
#check @Registry.median_max_counterexample
#check @MedianL.accessors_L
#check @Median.acc_min
#check @Median.acc_med
#check @Median.acc_max_is_latest

#print axioms Registry.median_registry_accessors
#print axioms Registry.median_registry_accessors_init
#print axioms Registry.median_max_counterexample
#print axioms MedianL.accessors_L
#print axioms Median.acc_min
#print axioms Median.acc_med
#print axioms Median.acc_max_is_latest
