import SignaloModel.Proofs.BridgeSimple
import SignaloModel.Proofs.DiffIntVarProofs
/-!
# C15 — Differentiate = first difference, integrate = running sum, mutually inverse

Property theorems for C15 (statements are printed by `#check`, axioms by `#check @Registry.diff_spec
#check @Registry.diff_state
#check @Registry.int_state
#check @Registry.differentiate_registry_correct
#check @Registry.integrate_registry_correct
#print axioms`;
`bin/check C15` re-elaborates this file on every run and audits the axiom lists).
-/
open SignaloModel

#check @DIV.int_diff
#check @DIV.diff_int

#print axioms DIV.int_diff
#print axioms DIV.diff_int
#print axioms Registry.diff_spec
#print axioms Registry.diff_state
#print axioms Registry.int_state
#print axioms Registry.differentiate_registry_correct
#print axioms Registry.integrate_registry_correct
