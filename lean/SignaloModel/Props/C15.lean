import SignaloModel.Proofs.BridgeSimple
import SignaloModel.Proofs.DiffIntVarProofs
import SignaloModel.Proofs.RegDiffInt
import SignaloModel.Proofs.OneStep
/-!
# C15 — Differentiate = first difference, integrate = running sum, mutually inverse

The property theorems for C15: `#check` prints each statement, `#print axioms` its axioms;
`bin/check C15` re-elaborates this file on every run and audits the axiom lists.
-/
open SignaloModel

#check @Registry.differentiate_first
#check @Registry.differentiate_step
#check @Registry.integrate_step
#check @Registry.differentiate_integrate_registry
#check @Registry.integrate_differentiate_registry
#check @Registry.diff_spec
#check @Registry.diff_state
#check @Registry.int_state
#check @Registry.differentiate_registry_correct
#check @Registry.integrate_registry_correct
#check @DIV.int_diff
#check @DIV.diff_int

#print axioms Registry.differentiate_first
#print axioms Registry.differentiate_step
#print axioms Registry.integrate_step
#print axioms Registry.differentiate_integrate_registry
#print axioms Registry.integrate_differentiate_registry
#print axioms Registry.diff_spec
#print axioms Registry.diff_state
#print axioms Registry.int_state
#print axioms Registry.differentiate_registry_correct
#print axioms Registry.integrate_registry_correct
#print axioms DIV.int_diff
#print axioms DIV.diff_int
