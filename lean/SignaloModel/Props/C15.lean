import SignaloModel.Proofs.DiffIntVarProofs
/-!
# C15 — Differentiate = first difference, integrate = running sum, mutually inverse

Property theorems for C15 (statements are printed by `#check`, axioms by `#print axioms`;
`bin/check C15` re-elaborates this file on every run and audits the axiom lists).
-/
open SignaloModel

#check @DIV.int_diff
#check @DIV.diff_int

#print axioms DIV.int_diff
#print axioms DIV.diff_int
