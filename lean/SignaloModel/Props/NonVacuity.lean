import SignaloModel.Proofs.BridgeMedianAcc
import SignaloModel.Proofs.BridgeMean
import SignaloModel.Proofs.BridgeDeque
import SignaloModel.Proofs.BridgeConv
import SignaloModel.Proofs.BridgeHampel
import SignaloModel.Proofs.BridgeHull
import SignaloModel.Proofs.BridgeSinks
import SignaloModel.Proofs.OwnedMedian
import SignaloModel.Proofs.CascadeProofs
import SignaloModel.Proofs.RegDiffInt
import SignaloModel.Proofs.RegAlphaBeta
import SignaloModel.Proofs.RegMeanVar
import SignaloModel.Proofs.OwnedDeque
import SignaloModel.Proofs.OwnedRuns
import Mathlib.Algebra.Order.Field.Rat
/-!
Non-vacuity: the hypotheses of the registry-level property theorems are met by a concrete sample type (`ℚ`, with the
comparison classes induced by its linear order) and concrete, non-trivial inputs — so none of the theorems is an
implication that nothing satisfies. (These are instantiations, not tests: each `example` is closed by the theorem.)
-/
namespace SignaloModel.NonVacuity
open SignaloModel SignaloModel.Registry SignaloModel.LinOrd

/-- C02: widths ≥ 1, total order — `ℚ`, width 4, a sequence with ties -/
example : ∃ s' ys, (Cfg.median 4 : Cfg ℚ).init.run (sing [3, 1, 3, 2, 2, 5, 1]) = some (s', sing ys) ∧
    ys.length = 7 ∧ ∀ k, k < 7 → (ys[k]?).map some =
      some (Spec.lowerMedian (Spec.window 4 (([3, 1, 3, 2, 2, 5, 1] : List ℚ).take (k + 1)))) :=
  median_registry_correct 4 (by decide) _

/-- C17 / C19: the accessor and ownership theorems apply to the same run -/
example : ∃ sl' ys, (Cfg.median 3 : Cfg ℚ).init.run (sing [1, 9, 3]) = some (St.median sl', sing ys) ∧
    MedianL.minAcc sl' = Spec.minimum (Spec.window 3 [1, 9, 3]) ∧
    MedianL.medAcc sl' = Spec.lowerMedian (Spec.window 3 [1, 9, 3]) ∧
    MedianL.maxAcc sl' = (Spec.window 3 ([1, 9, 3] : List ℚ)).getLast? :=
  median_registry_accessors 3 (by decide) _

example : ∃ s' ys, (Cfg.median 3 : Cfg ℚ).init.run (sing [1, 9, 3, 4]) = some (s', sing ys) ∧ s'.owned = min 4 3 :=
  owned_median_registry 3 (by decide) _

/-- C03 -/
example : ∃ s' ys, (Cfg.mean 2 : Cfg ℚ).init.run (sing [4, 5, 7]) = some (s', sing ys) ∧ ys.length = 3 ∧
    ∀ k x, ([4, 5, 7] : List ℚ)[k]? = some x → ys[k]? = some (Spec.windowMean 2 (([4, 5, 7] : List ℚ).take (k + 1))) :=
  mean_registry_correct 2 (by decide) _

/-- C04 -/
example : ∃ s' ys, (Cfg.max 3 : Cfg ℚ).init.run (sing [0, 1, 7, 2, 5]) = some (s', sing ys) ∧ ys.length = 5 ∧
    ∀ k y, ys[k]? = some y → Spec.extremum gtB (Spec.window 3 (([0, 1, 7, 2, 5] : List ℚ).take (k + 1))) = some y :=
  max_registry_correct 3 (by decide) (by decide) _

/-- C05 -/
example : ∃ s' ys, (Cfg.convolve ([1, 2, 3] : List ℚ)).init.run (sing [5, 0, 1, 2]) = some (s', sing ys) ∧
    ys.length = 4 ∧ ∀ k x, ([5, 0, 1, 2] : List ℚ)[k]? = some x →
      ys[k]? = some (Spec.firAt [1, 2, 3] (([5, 0, 1, 2] : List ℚ).take (k + 1))) :=
  conv_registry_correct [1, 2, 3] (by decide) _

/-- C06 -/
example : ∃ s' ys, (Cfg.kalman ({ r := 1, q := 1, a := 1, b := 0, c := 1 } : KCfg ℚ)).init.run
      (([(1, 0), (2, 0), (4, 0)] : List (ℚ × ℚ)).map (fun p => [p.1, p.2])) = some (s', sing ys) ∧
    ys.length = 3 ∧ ∀ y ∈ ys, (1 : ℚ) ≤ y ∧ y ≤ 4 :=
  kalman_registry_hull 1 1 1 4 (by norm_num) (by norm_num) _ (by
    intro p hp
    simp only [List.mem_cons, List.not_mem_nil, or_false] at hp
    rcases hp with rfl | rfl | rfl <;> norm_num)

/-- C18 -/
example : ∃ s' ys, (Cfg.hampel 3 (2 : ℚ) (14826 / 10000) : Cfg ℚ).init.run (sing [1, 1, 1, 50, 1]) = some (s', sing ys) ∧
    ys.length = 5 ∧ ∀ k x, ([1, 1, 1, 50, 1] : List ℚ)[k]? = some x →
      ys[k]? = some (hampelOut 2 (14826 / 10000) (Spec.window 3 (([1, 1, 1, 50, 1] : List ℚ).take k)) x) :=
  hampel_registry 3 (by decide) _ _ _

/-- C11 -/
example : ((SinkModels.Sk.meanVar (none : Option (Sinks.MV ℚ))).feed [2, 4, 9]).finalize =
    some [Spec.batchMean [2, 4, 9], Spec.sampleVariance ([2, 4, 9] : List ℚ)] :=
  SinkModels.meanVar_finalize _ (by simp)

/-- C07: the reconstruction theorem applies to an actual table (the 4-tap one) and an actual bounded signal -/
example : |Fir.convL (Tables.lowOf Gen.db4raw).reverse (fun m => Fir.convL (Tables.lowOf Gen.db4raw) (fun _ => (3 : ℚ)) m) 9
      + Fir.convL (Tables.highOf (Tables.lowOf Gen.db4raw)).reverse
          (fun m => Fir.convL (Tables.highOf (Tables.lowOf Gen.db4raw)) (fun _ => (3 : ℚ)) m) 9
      - (fun _ => (3 : ℚ)) (9 - (Gen.db4raw.length - 1))| ≤ Gen.dec 1 8 * 3 :=
  Tables.db_reconstructs (4, Gen.db4raw) (by decide) (fun _ => 3) 3 (by intro m; norm_num) 9

/-- C15: both compositions, on a signal with a non-zero first sample -/
example : ∃ s₁ s₂ ds, (Cfg.differentiate : Cfg ℚ).init.run (sing (5 :: [7, 4])) = some (s₁, sing ds) ∧
    (Cfg.integrate : Cfg ℚ).init.run (sing ds) = some (s₂, sing ((5 :: [7, 4]).map (· - 5))) :=
  integrate_differentiate_registry 5 [7, 4]

example : ∃ s₁ s₂ is, (Cfg.integrate : Cfg ℚ).init.run (sing (5 :: [7, 4])) = some (s₁, sing is) ∧
    (Cfg.differentiate : Cfg ℚ).init.run (sing is) = some (s₂, sing (0 :: [7, 4])) :=
  differentiate_integrate_registry 5 [7, 4]

/-- C14: superposition of two different signals with two different scalars -/
example : ∃ s sx sy ox oy,
    (Cfg.alphaBeta (1/2 : ℚ) (1/8)).init.run (sing [1, 4, 2]) = some (sx, sing ox) ∧
    (Cfg.alphaBeta (1/2 : ℚ) (1/8)).init.run (sing [0, 3, 9]) = some (sy, sing oy) ∧
    (Cfg.alphaBeta (1/2 : ℚ) (1/8)).init.run (sing (List.zipWith (fun x y => 2 * x + (-3) * y) [1, 4, 2] [0, 3, 9])) =
      some (s, sing (List.zipWith (fun p q => 2 * p + (-3) * q) ox oy)) :=
  alphaBeta_registry_linear _ _ 2 (-3) [1, 4, 2] [0, 3, 9] rfl

/-- C16: width 3, gain 1/4 -/
example : ∃ s' ps, (Cfg.meanVar 3 : Cfg ℚ).init.run (sing [1, 2, 4, 8]) = some (s', pairs ps) ∧ ∀ p ∈ ps, 0 ≤ p.2 :=
  meanVar_registry_nonneg 3 (by decide) _

example : ∃ s₁ s₂ ps, (Cfg.emeanVar (1/4 : ℚ) : Cfg ℚ).init.run (sing [1, 2, 4]) = some (s₁, pairs ps) ∧
    (Cfg.emeanVar (1/4 : ℚ) : Cfg ℚ).init.run (sing (([1, 2, 4] : List ℚ).map (· + 100))) =
      some (s₂, pairs (ps.map (fun p => (p.1 + 100, p.2)))) :=
  emeanVar_registry_offset _ 100 _

/-- C19: the ring-buffer filters and the deques -/
example : ∃ s' ys, (Cfg.max 3 : Cfg ℚ).init.run (sing [5, 4, 3, 2, 1]) = some (s', ys) ∧
    s'.owned ≤ min 5 3 ∧ (([5, 4, 3, 2, 1] : List ℚ) ≠ [] → 1 ≤ s'.owned) :=
  owned_max_registry 3 (by decide) (by decide) _

example : ∃ s' ys, (Cfg.convolve ([1, 2, 3] : List ℚ)).init.run (sing [5, 0]) = some (s', ys) ∧ s'.owned = 3 + 3 :=
  owned_convolve_registry [1, 2, 3] (by decide) [5, 0] (by simp)

end SignaloModel.NonVacuity
