import SignaloModel.Proofs.ConfigProofs
import SignaloModel.Proofs.RegistryProofs
/-!
# C12 — Reset returns every filter to its freshly constructed behaviour

The property theorems for C12: `#check` prints each statement, `#print axioms` its axioms;
`bin/check C12` re-elaborates this file on every run and audits the axiom lists.
-/
open SignaloModel

#check @Registry.config_filter
#check @Registry.config_run
#check @Registry.reset_after_history
#check @MedianL.step_length
#check @Registry.reset_eq_init
#check @Registry.config_init
#check @Registry.config_reset
#check @Registry.reset_reset
#check @Registry.run_reset_eq_fresh

#print axioms Registry.config_filter
#print axioms Registry.config_run
#print axioms Registry.reset_after_history
#print axioms MedianL.step_length
#print axioms Registry.reset_eq_init
#print axioms Registry.config_init
#print axioms Registry.config_reset
#print axioms Registry.reset_reset
#print axioms Registry.run_reset_eq_fresh
