import SignaloModel.Proofs.BridgeSinks
import SignaloModel.Proofs.SinksProofs
/-!
# C11 — Statistics sinks finalise to the batch statistic of everything received

The property theorems for C11: `#check` prints each statement, `#print axioms` its axioms;
`bin/check C11` re-elaborates this file on every run and audits the axiom lists.
-/
open SignaloModel

#check @SinkModels.min_feed
#check @SinkModels.max_feed
#check @SinkModels.bounds_feed
#check @SinkModels.last_feed
#check @SinkModels.integrate_feed
#check @SinkModels.collect_feed
#check @SinkModels.mean_feed
#check @SinkModels.meanVar_feed
#check @SinkModels.statistics_feed
#check @SinkModels.welford_correct
#check @SinkModels.mean_finalize
#check @SinkModels.meanVar_finalize
#check @SinkModels.finalize_empty
#check @Sinks.winv_step

#print axioms SinkModels.min_feed
#print axioms SinkModels.max_feed
#print axioms SinkModels.bounds_feed
#print axioms SinkModels.last_feed
#print axioms SinkModels.integrate_feed
#print axioms SinkModels.collect_feed
#print axioms SinkModels.mean_feed
#print axioms SinkModels.meanVar_feed
#print axioms SinkModels.statistics_feed
#print axioms SinkModels.welford_correct
#print axioms SinkModels.mean_finalize
#print axioms SinkModels.meanVar_finalize
#print axioms SinkModels.finalize_empty
#print axioms Sinks.winv_step
