import SignaloModel.Proofs.SinksProofs
/-!
# C11 — Statistics sinks finalise to the batch statistic of everything received

Property theorems for C11 (statements are printed by `#check`, axioms by `#print axioms`;
`bin/check C11` re-elaborates this file on every run and audits the axiom lists).
-/
open SignaloModel

#check @Sinks.winv_step

#print axioms Sinks.winv_step
