import SignaloModel.Proofs.BridgeSinks
import SignaloModel.Proofs.SinksProofs
import SignaloModel.Proofs.SinkRunning
import SignaloModel.Proofs.IntMean
import SignaloModel.Proofs.StatsAgree
/-!
# C11 — Statistics sinks finalise to the batch statistic of everything received

The property theorems for C11: `#check` prints each statement, `#print axioms` its axioms;
`bin/check C11` re-elaborates this file on every run and audits the axiom lists.
-/
open SignaloModel

#check @SignaloModel.SinkModels.statistics_agrees
#check @SinkModels.mean_exact
#check @SinkModels.sk_mean_exact
#check @SinkModels.collect_finalize
#check @SinkModels.last_finalize
#check @SinkModels.integrate_finalize
#check @SinkModels.max_finalize
#check @SinkModels.min_finalize
#check @SinkModels.statistics_finalize
#check @SinkModels.collect_running
#check @SinkModels.meanVar_running
#check @SinkModels.mean_running
#check @SinkModels.integrate_running
#check @SinkModels.bounds_running
#check @SinkModels.max_running
#check @SinkModels.min_running
#check @SinkModels.running_eq
#check @SinkModels.min_feed
#check @SinkModels.max_feed
#check @SinkModels.bounds_feed
#check @SinkModels.last_feed
#check @SinkModels.integrate_feed
#check @SinkModels.collect_feed
#check @SinkModels.mean_feed
#check @SinkModels.meanVar_feed
#check @SinkModels.statistics_feed
#check @SinkModels.welford_correct
#check @SinkModels.mean_finalize
#check @SinkModels.meanVar_finalize
#check @SinkModels.finalize_empty
#check @Sinks.winv_step

#print axioms SignaloModel.SinkModels.statistics_agrees
#print axioms SinkModels.mean_exact
#print axioms SinkModels.sk_mean_exact
#print axioms SinkModels.collect_finalize
#print axioms SinkModels.last_finalize
#print axioms SinkModels.integrate_finalize
#print axioms SinkModels.max_finalize
#print axioms SinkModels.min_finalize
#print axioms SinkModels.statistics_finalize
#print axioms SinkModels.collect_running
#print axioms SinkModels.meanVar_running
#print axioms SinkModels.mean_running
#print axioms SinkModels.integrate_running
#print axioms SinkModels.bounds_running
#print axioms SinkModels.max_running
#print axioms SinkModels.min_running
#print axioms SinkModels.running_eq
#print axioms SinkModels.min_feed
#print axioms SinkModels.max_feed
#print axioms SinkModels.bounds_feed
#print axioms SinkModels.last_feed
#print axioms SinkModels.integrate_feed
#print axioms SinkModels.collect_feed
#print axioms SinkModels.mean_feed
#print axioms SinkModels.meanVar_feed
#print axioms SinkModels.statistics_feed
#print axioms SinkModels.welford_correct
#print axioms SinkModels.mean_finalize
#print axioms SinkModels.meanVar_finalize
#print axioms SinkModels.finalize_empty
#print axioms Sinks.winv_step
