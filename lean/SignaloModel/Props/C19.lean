import SignaloModel.Proofs.OwnedProofs
import SignaloModel.Proofs.OwnedMedian
import SignaloModel.Proofs.OwnedDeque
import SignaloModel.Proofs.OwnedRuns
import SignaloModel.Proofs.DequeSuffix
import SignaloModel.Proofs.DequeExact
import SignaloModel.Proofs.DequeCount
import SignaloModel.Proofs.DequeCountMin
import SignaloModel.Proofs.DequeCountBounds
/-!
# C19 — Windowed filters drop every owned sample exactly once

The property theorems for C19: `#check` prints each statement, `#print axioms` its axioms;
`bin/check C19` re-elaborates this file on every run and audits the axiom lists.
-/
open SignaloModel

#check @SignaloModel.Registry.owned_bounds_registry_count
#check @SignaloModel.Registry.owned_min_registry_count
#check @SignaloModel.Registry.owned_max_registry_count
#check @SignaloModel.Deque.taps_count_run
#check @SignaloModel.Deque.taps_exact_run
#check @SignaloModel.Deque.taps_suffixMax_run
#check @Registry.owned_mean_registry
#check @Registry.owned_delay_registry
#check @Registry.owned_convolve_registry
#check @Registry.owned_bounds_registry
#check @Registry.owned_min_registry
#check @Registry.owned_max_registry
#check @Registry.owned_init
#check @Registry.owned_reset
#check @Registry.pushLoop_length
#check @Registry.owned_convolve_step
#check @Registry.owned_delay_step
#check @Registry.owned_mean_step
#check @MedianL.owned_of_rep
#check @Registry.owned_median_registry
#check @Registry.run_append

#print axioms SignaloModel.Registry.owned_bounds_registry_count
#print axioms SignaloModel.Registry.owned_min_registry_count
#print axioms SignaloModel.Registry.owned_max_registry_count
#print axioms SignaloModel.Deque.taps_count_run
#print axioms SignaloModel.Deque.taps_exact_run
#print axioms SignaloModel.Deque.taps_suffixMax_run
#print axioms Registry.owned_mean_registry
#print axioms Registry.owned_delay_registry
#print axioms Registry.owned_convolve_registry
#print axioms Registry.owned_bounds_registry
#print axioms Registry.owned_min_registry
#print axioms Registry.owned_max_registry
#print axioms Registry.owned_init
#print axioms Registry.owned_reset
#print axioms Registry.pushLoop_length
#print axioms Registry.owned_convolve_step
#print axioms Registry.owned_delay_step
#print axioms Registry.owned_mean_step
#print axioms MedianL.owned_of_rep
#print axioms Registry.owned_median_registry
#print axioms Registry.run_append
