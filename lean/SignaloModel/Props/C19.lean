import SignaloModel.Proofs.OwnedProofs
import SignaloModel.Proofs.OwnedMedian
/-!
# C19 — Windowed filters drop every owned sample exactly once (ownership logic; partial)

`Registry.St.owned` counts the sample values a windowed filter's model state holds. The harness's
live-instance ledger of an instrumented sample type must equal the sum of `owned` over all live
instances after every operation of any program of filter / clone / reset / guts round trip / drop
(leak: ledger too high; double drop or read of a dead value: ledger error count).
Property theorems (statements printed by `#check`, axioms by `#print axioms`):
what is owned after construction, after reset, after a step of the mean / convolution / delay filters, and by the
median filter in every state reachable from `Default` (`min k N` values: one per window sample);
copies (clone, guts) are the identity on model states, so they own what the original owns (`run_append`).
Not modelled: initialisation / aliasing behaviour of the `MaybeUninit` block in `median.rs`.
-/
open SignaloModel

#check @Registry.owned_init
#check @Registry.owned_reset
#check @Registry.pushLoop_length
#check @Registry.owned_convolve_step
#check @Registry.owned_delay_step
#check @Registry.owned_mean_step
#check @MedianL.owned_of_rep
#check @Registry.owned_median_registry
#check @Registry.run_append

#print axioms Registry.owned_init
#print axioms Registry.owned_reset
#print axioms Registry.pushLoop_length
#print axioms Registry.owned_convolve_step
#print axioms Registry.owned_delay_step
#print axioms Registry.owned_mean_step
#print axioms Registry.run_append
#print axioms MedianL.owned_of_rep
#print axioms Registry.owned_median_registry
