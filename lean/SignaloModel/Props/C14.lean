import SignaloModel.Proofs.BridgeHull
import SignaloModel.Proofs.BridgeSimple
import SignaloModel.Proofs.SmoothProofs
import SignaloModel.Proofs.RegAlphaBeta
import SignaloModel.Proofs.OneStep
/-!
# C14 — Alpha-beta tracker follows its recurrence, is linear and preserves constants

The property theorems for C14: `#check` prints each statement, `#print axioms` its axioms;
`bin/check C14` re-elaborates this file on every run and audits the axiom lists.
-/
open SignaloModel

#check @Registry.alphaBeta_first
#check @Registry.alphaBeta_step
#check @Registry.alphaBeta_registry_offset
#check @Registry.alphaBeta_registry_scale
#check @Registry.alphaBeta_registry_linear
#check @Registry.abRec_snoc
#check @Registry.ab_state
#check @Registry.alphaBeta_registry_correct
#check @Registry.alphaBeta_registry_const
#check @Smooth.ab_scale
#check @Smooth.ab_offset
#check @Smooth.ab_linear
#check @Smooth.ab_const

#print axioms Registry.alphaBeta_first
#print axioms Registry.alphaBeta_step
#print axioms Registry.alphaBeta_registry_offset
#print axioms Registry.alphaBeta_registry_scale
#print axioms Registry.alphaBeta_registry_linear
#print axioms Registry.abRec_snoc
#print axioms Registry.ab_state
#print axioms Registry.alphaBeta_registry_correct
#print axioms Registry.alphaBeta_registry_const
#print axioms Smooth.ab_scale
#print axioms Smooth.ab_offset
#print axioms Smooth.ab_linear
#print axioms Smooth.ab_const
