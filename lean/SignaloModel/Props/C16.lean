import SignaloModel.Proofs.BridgeMeanVar
import SignaloModel.Proofs.DiffIntVarProofs
import SignaloModel.Proofs.RegMeanVar
/-!
# C16 — Mean-variance filters: exact mean, variance non-negative and offset-invariant

The property theorems for C16: `#check` prints each statement, `#print axioms` its axioms;
`bin/check C16` re-elaborates this file on every run and audits the axiom lists.
-/
open SignaloModel

#check @Registry.emeanVar_registry_offset
#check @Registry.emeanVar_registry_nonneg
#check @Registry.meanVar_registry_const
#check @Registry.meanVar_registry_nonneg
#check @Registry.emeanVar_registry_mean_eq
#check @Registry.meanVar_registry_mean_eq
#check @DIV.emv_mean_eq
#check @DIV.smv_mean_eq
#check @DIV.smv_var_nonneg
#check @DIV.smv_var_const
#check @DIV.smv_offset_counterexample
#check @DIV.emv_var_nonneg
#check @DIV.emv_offset

#print axioms Registry.emeanVar_registry_offset
#print axioms Registry.emeanVar_registry_nonneg
#print axioms Registry.meanVar_registry_const
#print axioms Registry.meanVar_registry_nonneg
#print axioms Registry.emeanVar_registry_mean_eq
#print axioms Registry.meanVar_registry_mean_eq
#print axioms DIV.emv_mean_eq
#print axioms DIV.smv_mean_eq
#print axioms DIV.smv_var_nonneg
#print axioms DIV.smv_var_const
#print axioms DIV.smv_offset_counterexample
#print axioms DIV.emv_var_nonneg
#print axioms DIV.emv_offset
