import SignaloModel.Proofs.BridgeMeanVar
import SignaloModel.Proofs.DiffIntVarProofs
/-!
# C16 — Mean-variance filters: exact mean, variance non-negative and offset-invariant

Property theorems for C16 (statements are printed by `#check`, axioms by `#check @DIV.emv_mean_eq
#check @DIV.smv_mean_eq
#check @DIV.smv_var_nonneg
#check @DIV.smv_var_const
#check @DIV.smv_offset_counterexample
#print axioms`;
`bin/check C16` re-elaborates this file on every run and audits the axiom lists).
-/
open SignaloModel

#check @DIV.emv_var_nonneg
#check @DIV.emv_offset

#print axioms DIV.emv_var_nonneg
#print axioms DIV.emv_offset
#print axioms DIV.emv_mean_eq
#print axioms DIV.smv_mean_eq
#print axioms DIV.smv_var_nonneg
#print axioms DIV.smv_var_const
#print axioms DIV.smv_offset_counterexample
