import SignaloModel.Model.PipeRegistry
import SignaloModel.Proofs.RunLemmas
/-!
C01 at the level the driver executes: a registry filter wrapped as a stage of the generic pipe model
produces exactly the registry filter's own output stream; together with `Pipes.run_eq_seq` (any nesting =
sequential composition of arbitrary stages) this gives: the pipe model over registry filters equals
`PipeRegistry.seqSpec`, the stage-after-stage specification the driver evaluates.
-/
namespace SignaloModel.PipeRegistry
open SignaloModel SignaloModel.Registry SignaloModel.Pipes

variable {α : Type} [Add α] [Sub α] [Mul α] [Div α] [Neg α] [OfNat α 0] [OfNat α 1]
  [LT α] [DecidableLT α] [BEq α] [Median.POrd α] [Classify.Cmp α]

/-- a stage in state `some st` behaves like the registry filter `st` for as long as that does not panic -/
theorem stage_run_eq (err : α) (xs : List α) :
    ∀ (st s' : St α) (ys : List α), st.run (sing xs) = some (s', sing ys) →
      ({ σ := Option (St α), step := stageStep err, st := some st } : Stage α).run xs = ys := by
  induction xs with
  | nil =>
    intro st s' ys h
    simp only [sing_nil, St.run, Option.some.injEq, Prod.mk.injEq] at h
    have : ys = [] := by
      have h2 := h.2
      cases ys with
      | nil => rfl
      | cons a l => simp [sing] at h2
    subst this; rfl
  | cons x xs ih =>
    intro st s' ys h
    simp only [sing_cons, St.run] at h
    cases hf : st.filter [x] with
    | none => simp [hf] at h
    | some r =>
      obtain ⟨st1, y⟩ := r
      simp only [hf, Option.bind_eq_bind, Option.bind_some] at h
      cases hr : st1.run (sing xs) with
      | none => simp [hr] at h
      | some q =>
        obtain ⟨s2, ys2⟩ := q
        simp only [hr, Option.bind_some, Option.pure_def, Option.some.injEq, Prod.mk.injEq] at h
        obtain ⟨hs, hy⟩ := h
        cases ys with
        | nil => simp [sing] at hy
        | cons y0 ys' =>
          simp only [sing_cons, List.cons.injEq] at hy
          obtain ⟨hy0, hys⟩ := hy
          subst hy0
          subst hys
          have := ih st1 s2 ys' hr
          simp only [Stage.run, Stage.filter, stageStep, hf]
          rw [this]

/-- **C01 at registry level**: the stage's whole-stream output is `leafOut`, the registry filter's own
output stream (when the filter does not panic on that stream) -/
theorem stage_run_leafOut (err : α) (st s' : St α) (xs ys : List α)
    (h : st.run (sing xs) = some (s', sing ys)) :
    (stageOf err st).run xs = leafOut err st xs := by
  rw [stageOf, stage_run_eq err xs st s' ys h]
  have : st.run (xs.map (fun v => [v])) = some (s', sing ys) := h
  simp only [leafOut, this, sing, List.map_map]
  symm
  calc List.map ((fun y => y.headD err) ∘ fun v => [v]) ys = List.map id ys := by
        apply List.map_congr_left; intro a _; rfl
    _ = ys := List.map_id ys

end SignaloModel.PipeRegistry

#print axioms SignaloModel.PipeRegistry.stage_run_leafOut
