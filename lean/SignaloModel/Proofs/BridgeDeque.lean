import SignaloModel.Proofs.RunLemmas
import SignaloModel.Proofs.DequeMin
import SignaloModel.Proofs.ClassifyProofs
/-!
C04 at the level the driver executes: `Registry.St.run` of the moving max / min / bounds filters (with the
`usize` counter bound `usizeMax = 2^64 - 1`) against `Spec.extremum` of `Spec.window N history`.
The comparison class `Classify.Cmp α` is the one induced by a linear order.
-/
namespace SignaloModel.Registry
open SignaloModel SignaloModel.Deque

variable {α : Type}

/-! ### `Spec.extremum` computes the maximum / minimum -/

theorem foldl_max_spec [LinearOrder α] (l : List α) (a : α) :
    l.foldl (fun m y => if (decide (m < y)) = true then y else m) a ∈ a :: l ∧
    ∀ z ∈ a :: l, z ≤ l.foldl (fun m y => if (decide (m < y)) = true then y else m) a := by
  induction l generalizing a with
  | nil => simp
  | cons y l ih =>
    simp only [List.foldl_cons]
    by_cases hay : a < y
    · simp only [hay, decide_true, ↓reduceIte]
      obtain ⟨hm, hle⟩ := ih y
      refine ⟨List.mem_cons_of_mem _ hm, ?_⟩
      intro z hz
      rcases List.mem_cons.mp hz with rfl | hz
      · exact le_trans hay.le (hle y (by simp))
      · exact hle z hz
    · simp only [hay, decide_false, Bool.false_eq_true, ↓reduceIte]
      obtain ⟨hm, hle⟩ := ih a
      constructor
      · rcases List.mem_cons.mp hm with h | h
        · exact List.mem_cons.mpr (Or.inl h)
        · exact List.mem_cons_of_mem _ (List.mem_cons_of_mem _ h)
      · intro z hz
        rcases List.mem_cons.mp hz with rfl | hz
        · exact hle z (by simp)
        · rcases List.mem_cons.mp hz with rfl | hz
          · exact le_trans (not_lt.mp hay) (hle a (by simp))
          · exact hle z (by simp [hz])

theorem extremum_of_isMax [LinearOrder α] (w : List α) (y : α) (h : IsMax y w) :
    Spec.extremum (fun a b => decide (b < a)) w = some y := by
  cases w with
  | nil => exact absurd h.1 (by simp)
  | cons a l =>
    simp only [Spec.extremum, Option.some.injEq]
    obtain ⟨hm, hle⟩ := foldl_max_spec l a
    exact le_antisymm (h.2 _ hm) (hle y h.1)

theorem extremum_of_isMin [LinearOrder α] (w : List α) (y : α) (h : IsMin y w) :
    Spec.extremum (fun a b => decide (a < b)) w = some y :=
  extremum_of_isMax (α := αᵒᵈ) w y ⟨h.1, h.2⟩

/-! ### whole-run specifications, position by position -/

theorem specMax_getElem [LinearOrder α] (N : Nat) (xs' : List α) :
    ∀ (xs ys : List α), SpecMax N xs xs' ys → ys.length = xs'.length ∧
      ∀ k y, ys[k]? = some y → IsMax y (Spec.window N (xs ++ xs'.take (k + 1))) := by
  induction xs' with
  | nil =>
    intro xs ys h
    cases ys with
    | nil => simp
    | cons y ys => simp [SpecMax] at h
  | cons x xs' ih =>
    intro xs ys h
    cases ys with
    | nil => simp [SpecMax] at h
    | cons y ys =>
      simp only [SpecMax] at h
      obtain ⟨hl, hk⟩ := ih _ _ h.2
      refine ⟨by simp [hl], ?_⟩
      intro k y' hy'
      cases k with
      | zero =>
        simp only [List.getElem?_cons_zero, Option.some.injEq] at hy'
        subst hy'
        simpa [Spec.window, Deque.window] using h.1
      | succ k =>
        simp only [List.getElem?_cons_succ] at hy'
        have := hk k y' hy'
        simpa [List.append_assoc] using this

theorem specMin_getElem [LinearOrder α] (N : Nat) (xs' : List α) (xs ys : List α)
    (h : SpecMin N xs xs' ys) : ys.length = xs'.length ∧
      ∀ k y, ys[k]? = some y → IsMin y (Spec.window N (xs ++ xs'.take (k + 1))) := by
  have h' := (specMax_dual N xs xs' ys).mpr h
  obtain ⟨hl, hk⟩ := specMax_getElem (α := αᵒᵈ) N xs' xs ys h'
  exact ⟨hl, fun k y hy => ⟨(hk k y hy).1, (hk k y hy).2⟩⟩

/-- the partial fold of `Deque.step` is `Deque.run` -/
theorem stepRunO_deque (gt : α → α → Bool) (N : Nat) (M : Option Nat) (s : DS α) (xs : List α) :
    (stepRunO (fun s x => Deque.step gt N M s x) s xs).map (·.2) = Deque.run gt N M s xs := by
  induction xs generalizing s with
  | nil => rfl
  | cons x xs ih =>
    simp only [stepRunO, Deque.run]
    cases hs : Deque.step gt N M s x with
    | none => simp
    | some r =>
      obtain ⟨s1, y⟩ := r
      simp only [Option.bind_eq_bind, Option.bind_some]
      rw [← ih s1]
      cases stepRunO (fun s x => Deque.step gt N M s x) s1 xs <;> simp

section
variable [LinearOrder α] [Add α] [Sub α] [Mul α] [Div α] [Neg α] [OfNat α 0] [OfNat α 1]
  [BEq α] [Median.POrd α]

/-- **C04 (max) at registry level**: for every width `1 ≤ N < 2^64 - 1` and every input sequence of a
totally ordered type the filter never panics (no counter overflow / underflow, no `unwrap` of `None`) and
its `k`-th output is the largest of the last `min (k+1) N` samples -/
theorem max_registry_correct (N : Nat) (hN : 1 ≤ N) (hM : N + 1 ≤ usizeMax) (xs : List α) :
    ∃ s' ys, (Cfg.max N : Cfg α).init.run (sing xs) = some (s', sing ys) ∧ ys.length = xs.length ∧
      ∀ k y, ys[k]? = some y → Spec.extremum gtB (Spec.window N (xs.take (k + 1))) = some y := by
  obtain ⟨ys, hrun, hspec⟩ := max_correct (α := α) hN hM xs
  have h1 := run_of_stepO (St.max N) (fun s x => Deque.step gtB N (some usizeMax) s x)
    (by intro s x; simp only [St.filter]; cases Deque.step gtB N (some usizeMax) s x <;> simp) Deque.init xs
  have h2 := stepRunO_deque (gtB (α := α)) N (some usizeMax) Deque.init xs
  have hgt : (gtB : α → α → Bool) = gtMax := rfl
  rw [hgt] at h1 h2
  rw [hrun] at h2
  cases hr : stepRunO (fun s x => Deque.step gtMax N (some usizeMax) s x) (Deque.init : DS α) xs with
  | none => simp [hr] at h2
  | some r =>
    simp only [hr, Option.map_some, Option.some.injEq] at h2
    obtain ⟨hl, hk⟩ := specMax_getElem N xs [] ys hspec
    refine ⟨St.max N r.1, ys, ?_, hl, ?_⟩
    · simp only [Cfg.init]
      rw [h1, hr, Option.map_some, h2]
    · intro k y hy
      have := hk k y hy
      simp only [List.nil_append] at this
      exact extremum_of_isMax _ _ this

/-- **C04 (min) at registry level** -/
theorem min_registry_correct (N : Nat) (hN : 1 ≤ N) (hM : N + 1 ≤ usizeMax) (xs : List α) :
    ∃ s' ys, (Cfg.min N : Cfg α).init.run (sing xs) = some (s', sing ys) ∧ ys.length = xs.length ∧
      ∀ k y, ys[k]? = some y → Spec.extremum ltB (Spec.window N (xs.take (k + 1))) = some y := by
  obtain ⟨ys, hrun, hspec⟩ := min_correct (α := α) hN hM xs
  have h1 := run_of_stepO (St.min N) (fun s x => Deque.step ltB N (some usizeMax) s x)
    (by intro s x; simp only [St.filter]; cases Deque.step ltB N (some usizeMax) s x <;> simp) Deque.init xs
  have h2 := stepRunO_deque (ltB (α := α)) N (some usizeMax) Deque.init xs
  have hgt : (ltB : α → α → Bool) = gtMin := rfl
  rw [hgt] at h1 h2
  rw [hrun] at h2
  cases hr : stepRunO (fun s x => Deque.step gtMin N (some usizeMax) s x) (Deque.init : DS α) xs with
  | none => simp [hr] at h2
  | some r =>
    simp only [hr, Option.map_some, Option.some.injEq] at h2
    obtain ⟨hl, hk⟩ := specMin_getElem N xs [] ys hspec
    refine ⟨St.min N r.1, ys, ?_, hl, ?_⟩
    · simp only [Cfg.init]
      rw [h1, hr, Option.map_some, h2]
    · intro k y hy
      have := hk k y hy
      simp only [List.nil_append] at this
      exact extremum_of_isMin _ _ this

end

end SignaloModel.Registry

#print axioms SignaloModel.Registry.max_registry_correct
#print axioms SignaloModel.Registry.min_registry_correct

namespace SignaloModel.Registry
open SignaloModel SignaloModel.Deque

section bounds
variable {α : Type} [LinearOrder α] [Add α] [Sub α] [Mul α] [Div α] [Neg α] [OfNat α 0] [OfNat α 1]
  [BEq α] [Median.POrd α]

/-- the bounds filter runs the min filter and the max filter side by side on the same samples -/
theorem bounds_run (N : Nat) (xs : List α) :
    ∀ (smin smax : DS α),
      (St.bounds N smin smax).run (sing xs) =
        (stepRunO (fun s x => Deque.step ltB N (some usizeMax) s x) smin xs).bind (fun rmin =>
          (stepRunO (fun s x => Deque.step gtB N (some usizeMax) s x) smax xs).map (fun rmax =>
            (St.bounds N rmin.1 rmax.1, List.zipWith (fun a b => [a, b]) rmin.2 rmax.2))) := by
  induction xs with
  | nil => intro smin smax; rfl
  | cons x xs ih =>
    intro smin smax
    simp only [sing_cons, St.run, St.filter, stepRunO, Option.bind_eq_bind, Option.pure_def]
    cases h1 : Deque.step ltB N (some usizeMax) smin x with
    | none => simp
    | some r1 =>
      cases h2 : Deque.step gtB N (some usizeMax) smax x with
      | none =>
        simp only [Option.bind_some, Option.bind_none]
        cases stepRunO (fun s x => Deque.step ltB N (some usizeMax) s x) r1.1 xs <;> simp
      | some r2 =>
        simp only [Option.bind_some, ih r1.1 r2.1]
        cases stepRunO (fun s x => Deque.step ltB N (some usizeMax) s x) r1.1 xs with
        | none => simp
        | some q1 =>
          cases stepRunO (fun s x => Deque.step gtB N (some usizeMax) s x) r2.1 xs with
          | none => simp
          | some q2 => simp

/-- **C04 (bounds) at registry level**: output `k` is the (smallest, largest) pair of the last `min (k+1) N` samples,
and the filter never panics -/
theorem bounds_registry_correct (N : Nat) (hN : 1 ≤ N) (hM : N + 1 ≤ usizeMax) (xs : List α) :
    ∃ s' ys, (Cfg.bounds N : Cfg α).init.run (sing xs) = some (s', ys) ∧ ys.length = xs.length ∧
      ∀ k a b, ys[k]? = some [a, b] →
        Spec.extremum ltB (Spec.window N (xs.take (k + 1))) = some a ∧
        Spec.extremum gtB (Spec.window N (xs.take (k + 1))) = some b := by
  obtain ⟨smin', ysmin, hmin, hlmin, hkmin⟩ := min_registry_correct (α := α) N hN hM xs
  obtain ⟨smax', ysmax, hmax, hlmax, hkmax⟩ := max_registry_correct (α := α) N hN hM xs
  -- unfold the two single runs into their partial folds
  have h1 := run_of_stepO (St.min N) (fun s x => Deque.step ltB N (some usizeMax) s x)
    (by intro s x; simp only [St.filter]; cases Deque.step ltB N (some usizeMax) s x <;> simp) (Deque.init : DS α) xs
  have h2 := run_of_stepO (St.max N) (fun s x => Deque.step gtB N (some usizeMax) s x)
    (by intro s x; simp only [St.filter]; cases Deque.step gtB N (some usizeMax) s x <;> simp) (Deque.init : DS α) xs
  simp only [Cfg.init] at hmin hmax
  rw [hmin] at h1
  rw [hmax] at h2
  cases hr1 : stepRunO (fun s x => Deque.step ltB N (some usizeMax) s x) (Deque.init : DS α) xs with
  | none => simp [hr1] at h1
  | some r1 =>
    cases hr2 : stepRunO (fun s x => Deque.step gtB N (some usizeMax) s x) (Deque.init : DS α) xs with
    | none => simp [hr2] at h2
    | some r2 =>
      simp only [hr1, Option.map_some, Option.some.injEq, Prod.mk.injEq] at h1
      simp only [hr2, Option.map_some, Option.some.injEq, Prod.mk.injEq] at h2
      have e1 : r1.2 = ysmin := (sing_injective h1.2).symm
      have e2 : r2.2 = ysmax := (sing_injective h2.2).symm
      refine ⟨St.bounds N r1.1 r2.1, List.zipWith (fun a b => [a, b]) r1.2 r2.2, ?_, ?_, ?_⟩
      · simp only [Cfg.init]
        rw [bounds_run, hr1, hr2]; rfl
      · simp [e1, e2, hlmin, hlmax]
      · intro k a b hk
        rw [e1, e2, List.getElem?_zipWith] at hk
        cases ha : ysmin[k]? with
        | none => simp [ha] at hk
        | some a' =>
          cases hb : ysmax[k]? with
          | none => simp [ha, hb] at hk
          | some b' =>
            simp only [ha, hb, Option.map_some, Option.bind_some, Option.some.injEq, List.cons.injEq, and_true] at hk
            obtain ⟨rfl, rfl⟩ := hk
            exact ⟨hkmin k a' ha, hkmax k b' hb⟩

end bounds

end SignaloModel.Registry

#print axioms SignaloModel.Registry.bounds_registry_correct
