import SignaloModel.Proofs.MedianRef4
/-! Model: `L ⊑ A`, part 5: rotation, epilogue, the refinement theorem. -/
namespace SignaloModel.MedianL
open SignaloModel.Median (POrd valAt Loop Ins curPosOf MS)

variable {α : Type}

theorem rotateLeft_eq {β : Type} (l : List β) (r : Nat) (h : r < l.length) :
    l.rotateLeft r = l.drop r ++ l.take r := by
  unfold List.rotateLeft
  by_cases h1 : l.length ≤ 1
  · have : r = 0 := by omega
    subst this; simp [h1]
  · simp only [h1, ↓reduceIte, Nat.mod_eq_of_lt h]

theorem getElem?_rot {β : Type} (l : List β) (r j : Nat) (hr : r < l.length) (hj : j < l.length) :
    (l.drop r ++ l.take r)[j]? = l[(j + r) % l.length]? := by
  by_cases h : j + r < l.length
  · rw [List.getElem?_append_left (by simp; omega), List.getElem?_drop, Nat.mod_eq_of_lt h]
    congr 1; omega
  · rw [List.getElem?_append_right (by simp; omega), List.getElem?_take]
    have hm : (j + r) % l.length = j + r - l.length := by
      rw [Nat.mod_eq_sub_mod (by omega), Nat.mod_eq_of_lt (by omega)]
    simp only [List.length_drop]
    rw [if_pos (by omega), hm]
    congr 1; omega

theorem slotAt_rot (ord : List (Nat × Option α)) (r j : Nat) (hr : r < ord.length)
    (hj : j < ord.length) :
    slotAt (ord.drop r ++ ord.take r) j = slotAt ord ((j + r) % ord.length) := by
  unfold slotAt; rw [getElem?_rot _ _ _ hr hj]

theorem valAt_rot (ord : List (Nat × Option α)) (r j : Nat) (hr : r < ord.length)
    (hj : j < ord.length) :
    valAt (ord.drop r ++ ord.take r) j = valAt ord ((j + r) % ord.length) := by
  unfold valAt; rw [getElem?_rot _ _ _ hr hj]

theorem mod_pred (n k r : Nat) (hk : k < n) (hr : r < n) :
    (predIdx n k + r) % n = predIdx n ((k + r) % n) := by
  rw [predIdx_eq_mod n k hk, predIdx_eq_mod n _ (Nat.mod_lt _ (by omega)), Nat.mod_add_mod]
  have h1 : (k + r) % n + n - 1 = (k + r) % n + (n - 1) := by omega
  rw [h1, Nat.mod_add_mod]
  congr 1; omega

theorem mod_succ (n k r : Nat) (hk : k < n) (hr : r < n) :
    (succIdx n k + r) % n = succIdx n ((k + r) % n) := by
  rw [succIdx_eq_mod n k hk, succIdx_eq_mod n _ (Nat.mod_lt _ (by omega)), Nat.mod_add_mod,
    Nat.mod_add_mod]
  congr 1; omega

/-- the circular list may be read from any starting node -/
theorem circ_rot (b : List (Node α)) (ord : List (Nat × Option α)) (r : Nat) (hC : Circ b ord)
    (hr : r < ord.length) : Circ b (ord.drop r ++ ord.take r) := by
  obtain ⟨hnd, hnode⟩ := hC
  have hlen : (ord.drop r ++ ord.take r).length = ord.length := by simp; omega
  refine ⟨?_, ?_⟩
  · have h0 : (ord.drop r ++ ord.take r).Perm ord := by
      have h := @List.perm_append_comm _ (ord.drop r) (ord.take r)
      rw [List.take_append_drop] at h
      exact h
    exact (h0.map _).nodup_iff.mpr hnd
  · intro k hk
    rw [hlen] at hk ⊢
    have hpk : predIdx ord.length k < ord.length := by unfold predIdx; split <;> omega
    have hsk : succIdx ord.length k < ord.length := by unfold succIdx; split <;> omega
    rw [slotAt_rot _ _ _ hr hk, valAt_rot _ _ _ hr hk, slotAt_rot _ _ _ hr hpk,
      slotAt_rot _ _ _ hr hsk, mod_pred _ _ _ hk hr, mod_succ _ _ _ hk hr]
    exact hnode _ (Nat.mod_lt _ (by omega))

theorem rot_med (N med pos : Nat) (hm : med < N) (hp : pos < N) :
    ((med + N - 1 + N - pos) % N + pos) % N = predIdx N med := by
  rw [Nat.mod_add_mod, predIdx_eq_mod N med hm]
  have : med + N - 1 + N - pos + pos = (med + N - 1) + N := by omega
  rw [this, Nat.add_mod_right]

/-- `adjust_median_for_even_length`, `increment_cursor`, `median_unchecked` -/
theorem tail_sim (N c : Nat) (s5 : LS α) (ord2 : List (Nat × Option α)) (med2 : Nat) (y : α)
    (hN : 2 ≤ N) (hb : s5.buffer.length = N) (hlen : ord2.length = N) (hC : Circ s5.buffer ord2)
    (hcur : s5.cursor = c) (hclt : c < N) (hhead : s5.head = slotAt ord2 0)
    (hmed : s5.median = slotAt ord2 med2) (hmedlt : med2 < N)
    (hperm : (ord2.map (·.1)).Perm (List.range N))
    (hy : valAt ord2 (if N % 2 = 0 then (med2 + N - 1) % N else med2) = some y) :
    ∃ sl' : LS α,
      ((adjustEven s5).bind fun s6 =>
        (s6.buffer[s6.median]?).bind fun m =>
          m.value.bind fun y' =>
            some (({ s6 with cursor := (s6.cursor + 1) % s6.buffer.length } : LS α), y'))
        = some (sl', y) ∧
      Rep sl' { order := ord2, cursor := (c + 1) % N,
                med := if N % 2 = 0 then (med2 + N - 1) % N else med2 } := by
  have hnm := hC.node med2 (by omega)
  rw [← hmed] at hnm
  by_cases he : N % 2 = 0
  · have hm3 : (med2 + N - 1) % N < N := Nat.mod_lt _ (by omega)
    have hn3 := hC.node ((med2 + N - 1) % N) (by omega)
    rw [if_pos he] at hy
    have hpe : predIdx ord2.length med2 = (med2 + N - 1) % N := by
      rw [hlen]; exact predIdx_eq_mod N med2 hmedlt
    simp only [adjustEven, hb, he, ↓reduceIte, hnm, Option.bind_eq_bind, Option.bind_some,
      Option.pure_def, hpe, hn3, hy]
    refine ⟨_, rfl, ?_⟩
    exact ⟨by simp [hlen, hb], hC, hhead, by simp [hcur, hb], by simp only [hb]; exact Nat.mod_lt _ (by omega),
      by simp [he], by simp [he, hlen]; exact hm3, by rw [hb]; exact hperm⟩
  · rw [if_neg he] at hy
    have hn3 := hC.node med2 (by omega)
    rw [← hmed] at hn3
    simp only [adjustEven, hb, he, ↓reduceIte, Option.bind_eq_bind, Option.bind_some,
      Option.pure_def, hn3, hy]
    refine ⟨_, rfl, ?_⟩
    exact ⟨by simp [hlen, hb], hC, hhead, by simp [hcur, hb], by simp only [hb]; exact Nat.mod_lt _ (by omega),
      by simp [he, hmed], by simp [he, hlen]; exact hmedlt, by rw [hb]; exact hperm⟩

theorem updateHead_sim [POrd α] (s : LS α) (x : α) (h nm : Node α)
    (hh : s.buffer[s.head]? = some h) (hm : s.buffer[s.median]? = some nm) :
    updateHead s x =
      some (if SignaloModel.Median.shouldHead x h.value = true
        then { s with head := s.cursor, median := nm.prev } else s) := by
  simp only [updateHead, hh, Option.bind_eq_bind, Option.bind_some, SignaloModel.Median.shouldHead]
  cases h.value with
  | none => simp [hm]
  | some hv =>
    by_cases hle : POrd.le x hv = true
    · simp [hle, hm]
    · have : POrd.le x hv = false := by
        cases hb : POrd.le x hv with
        | true => exact absurd hb hle
        | false => rfl
      simp [this]

theorem post_sim [POrd α] (N c : Nat) (x : α) (w : WalkL α) (st : Loop α) (hN : 2 ≤ N)
    (h : RepW N c w st N) (hins : st.ins ≠ .no) (sa' : MS α) (y : α)
    (hA : SignaloModel.Median.finish N c x st = some (sa', y)) :
    ∃ sl' : LS α,
      ((updateHead w.s x).bind fun s5 => (adjustEven s5).bind fun s6 =>
        (s6.buffer[s6.median]?).bind fun m =>
          m.value.bind fun y' =>
            some (({ s6 with cursor := (s6.cursor + 1) % s6.buffer.length } : LS α), y'))
        = some (sl', y) ∧
      Rep sl' sa' ∧ sl'.buffer.length = N := by
  obtain ⟨hblen, hC, hcur, hclt, hno, hyes, hpos, hmed, hmedlt, hhead, hperm⟩ := h
  obtain ⟨_, hlenN⟩ := hyes hins
  rw [if_neg hins] at hperm
  rw [hlenN] at hmedlt
  -- where the new node sits
  have hcmem : c ∈ st.ord.map (·.1) := hperm.mem_iff.mpr (List.mem_range.mpr hclt)
  have hex : ∃ p ∈ st.ord, (fun p : Nat × Option α => p.1 == c) p = true := by
    obtain ⟨p, hp, hpe⟩ := List.mem_map.mp hcmem
    exact ⟨p, hp, by simp [hpe]⟩
  have hposlt : st.ord.findIdx (fun p => p.1 == c) < st.ord.length :=
    List.findIdx_lt_length_of_exists hex
  have hslotpos : slotAt st.ord (st.ord.findIdx (fun p => p.1 == c)) = c := by
    have := List.findIdx_getElem (w := hposlt) (p := fun p : Nat × Option α => p.1 == c)
    simp only [beq_iff_eq] at this
    simp [slotAt, List.getElem?_eq_getElem hposlt, this]
  generalize hpn : st.ord.findIdx (fun p => p.1 == c) = posNew at *
  -- update_head
  have hnode0 := hC.node 0 (by omega)
  rw [← hhead] at hnode0
  have hnm := hC.node st.med (by omega)
  rw [← hmed] at hnm
  unfold SignaloModel.Median.finish at hA
  simp only [hpn] at hA
  have hupd := updateHead_sim w.s x _ _ hnode0 hnm
  simp only at hupd
  by_cases hrot : SignaloModel.Median.shouldHead x (valAt st.ord 0) = true
  · -- the new node becomes the head
    simp only [hrot, ↓reduceIte] at hA
    rw [rotateLeft_eq _ _ hposlt] at hA
    have hC2 := circ_rot _ _ posNew hC hposlt
    have hlen2 : (st.ord.drop posNew ++ st.ord.take posNew).length = N := by simp; omega
    have hmed2lt : (st.med + N - 1 + N - posNew) % N < N := Nat.mod_lt _ (by omega)
    cases hv : valAt (st.ord.drop posNew ++ st.ord.take posNew)
        (if N % 2 = 0 then ((st.med + N - 1 + N - posNew) % N + N - 1) % N
          else (st.med + N - 1 + N - posNew) % N) with
    | none => rw [hv] at hA; simp at hA
    | some y0 =>
      rw [hv] at hA
      simp only [Option.some.injEq, Prod.mk.injEq] at hA
      obtain ⟨hsa, hy⟩ := hA
      subst hy
      obtain ⟨sl', hsl', hrep⟩ := tail_sim N c
        { buffer := w.s.buffer, cursor := w.s.cursor, head := w.s.cursor,
          median := slotAt st.ord (predIdx st.ord.length st.med) }
        (st.ord.drop posNew ++ st.ord.take posNew) ((st.med + N - 1 + N - posNew) % N) y0
        hN hblen hlen2 hC2 hcur hclt
        (by simp only; rw [slotAt_rot _ _ _ hposlt (by omega), Nat.zero_add,
              Nat.mod_eq_of_lt hposlt, hslotpos, hcur])
        (by simp only; rw [slotAt_rot _ _ _ hposlt (by omega), hlenN,
              rot_med N st.med posNew hmedlt (by omega)])
        hmed2lt
        (by
          have h0 : (st.ord.drop posNew ++ st.ord.take posNew).Perm st.ord := by
            have h := @List.perm_append_comm _ (st.ord.drop posNew) (st.ord.take posNew)
            rw [List.take_append_drop] at h
            exact h
          exact (h0.map _).trans hperm)
        hv
      refine ⟨sl', ?_, by rw [← hsa]; exact hrep,
        by have := hrep.len; simp only at this; omega⟩
      rw [hupd]
      simp only [hrot, ↓reduceIte, Option.bind_some]
      exact hsl'
  · -- head and median stay
    have hrot' : SignaloModel.Median.shouldHead x (valAt st.ord 0) = false := by
      cases hb : SignaloModel.Median.shouldHead x (valAt st.ord 0) with
      | true => exact absurd hb hrot
      | false => rfl
    simp only [hrot', Bool.false_eq_true, ↓reduceIte] at hA
    cases hv : valAt st.ord (if N % 2 = 0 then (st.med + N - 1) % N else st.med) with
    | none => rw [hv] at hA; simp at hA
    | some y0 =>
      rw [hv] at hA
      simp only [Option.some.injEq, Prod.mk.injEq] at hA
      obtain ⟨hsa, hy⟩ := hA
      subst hy
      obtain ⟨sl', hsl', hrep⟩ := tail_sim N c w.s st.ord st.med y0 hN hblen hlenN hC hcur hclt
        hhead hmed hmedlt hperm hv
      refine ⟨sl', ?_, by rw [← hsa]; exact hrep,
        by have := hrep.len; simp only at this; omega⟩
      rw [hupd]
      simp only [hrot', Bool.false_eq_true, ↓reduceIte, Option.bind_some]
      exact hsl'

/-- **refinement**: one `filter` step of the pointer-level model is simulated by the list-level
model (widths `N ≥ 2`) -/
theorem refine_step [POrd α] (sl : LS α) (sa : MS α) (hN : 2 ≤ sl.buffer.length) (h : Rep sl sa)
    (x : α) (sa' : MS α) (y : α) (hA : SignaloModel.Median.step sa x = some (sa', y)) :
    ∃ sl', step sl x = some (sl', y) ∧ Rep sl' sa' ∧ sl'.buffer.length = sl.buffer.length := by
  have hlen := h.len
  have hcursor := h.cursor
  obtain ⟨s3, hs3, hrep0⟩ := pre_sim sl sa hN h
  have hb3 : s3.buffer.length = sl.buffer.length := hrep0.blen
  obtain ⟨w, hw, hrepN⟩ := walk_sim sl.buffer.length sa.cursor x _ _ hN hrep0 sl.buffer.length
    (Nat.le_refl _)
  have hins := walk_inserts sl.buffer.length sa.cursor x
    { ord := sa.order.filter (fun p => p.1 != sa.cursor), ins := .no, med := 0 } (by omega)
  unfold SignaloModel.Median.step at hA
  simp only [hlen] at hA
  obtain ⟨sl', hsl', hrep', hlen''⟩ :=
    post_sim sl.buffer.length sa.cursor x w _ hN hrepN hins sa' y hA
  refine ⟨sl', ?_, hrep', hlen''⟩
  simp only [step, Option.bind_eq_bind, Option.pure_def, insertValue] at hs3 ⊢
  cases hm : moveHeadForward sl with
  | none => rw [hm] at hs3; simp at hs3
  | some s1 =>
    rw [hm] at hs3
    simp only [Option.bind_some] at hs3 ⊢
    cases hr : removeNode s1 with
    | none => rw [hr] at hs3; simp at hs3
    | some s2 =>
      rw [hr] at hs3
      simp only [Option.bind_some, Option.some.injEq] at hs3 ⊢
      subst hs3
      simp only at hb3 hw
      rw [hb3, hw]
      simp only [Option.bind_some]
      exact hsl'

end SignaloModel.MedianL

#print axioms SignaloModel.MedianL.refine_step
