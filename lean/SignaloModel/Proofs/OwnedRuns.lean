import SignaloModel.Proofs.BridgeConv
import SignaloModel.Proofs.BridgeMean
import SignaloModel.Proofs.OwnedProofs
set_option linter.unusedSectionVars false
/-!
C19 at registry level for the ring-buffer filters: after any non-empty history from `Default` the convolution owns
its `N` coefficients and exactly `N` taps, the delay exactly `N` taps, the moving average `min k N` taps plus its
running sum and weight.
-/
namespace SignaloModel.Registry
open SignaloModel SignaloModel.Conv

variable {R : Type} [CommRing R] [Div R] [LT R] [DecidableLT R] [BEq R] [Median.POrd R] [Classify.Cmp R]

omit [CommRing R] [Div R] [LT R] [DecidableLT R] [BEq R] [Median.POrd R] [Classify.Cmp R] in
theorem tapsAt_length (N : Nat) (X : Nat → R) (n : Nat) : (tapsAt N X n).length = N := by simp [tapsAt]

/-- **C19 (convolution) at registry level** -/
theorem owned_convolve_registry (c : List R) (hN : 1 ≤ c.length) (xs : List R) (hx : xs ≠ []) :
    ∃ s' ys, (Cfg.convolve c).init.run (sing xs) = some (s', ys) ∧ s'.owned = c.length + c.length := by
  have hrun := run_of_step (St.convolve c) (convStep c.length c) (by intro s x; simp [St.filter]) [] xs
  refine ⟨_, _, hrun, ?_⟩
  have hs := list_eq_samples xs hx
  rw [hs, conv_state c hN]
  simp [St.owned, tapsAt_length]

/-- **C19 (delay) at registry level** -/
theorem owned_delay_registry (N : Nat) (hN : 1 ≤ N) (xs : List R) (hx : xs ≠ []) :
    ∃ s' ys, (Cfg.delay N : Cfg R).init.run (sing xs) = some (s', ys) ∧ s'.owned = N := by
  have hrun := run_of_stepO (St.delay N) (delayStepO N)
    (by intro s x; simp only [St.filter, delayStepO]; cases (delayStep N s x).2 <;> simp) ([] : List R) xs
  have hs := list_eq_samples xs hx
  rw [hs, delay_state N hN] at hrun
  rw [← hs] at hrun
  refine ⟨_, _, hrun, ?_⟩
  simp [St.owned, tapsAt_length]

end SignaloModel.Registry

namespace SignaloModel.Registry
open SignaloModel
variable {K : Type} [Field K] [LT K] [DecidableLT K] [BEq K] [Median.POrd K] [Classify.Cmp K]

/-- **C19 (moving average) at registry level**: `min k N` taps, the running sum and the weight -/
theorem owned_mean_registry (N : Nat) (hN : 1 ≤ N) (pre : List K) (x : K) :
    ∃ s' ys, (Cfg.mean N : Cfg K).init.run (sing (pre ++ [x])) = some (s', ys) ∧
      s'.owned = min (pre.length + 1) N + 2 := by
  have hrun := run_of_step (St.mean N) (Sinks.smStep N) (by intro s x; simp [St.filter]) Sinks.smInit (pre ++ [x])
  refine ⟨_, _, hrun, ?_⟩
  rw [stepRun_append]
  simp only [stepRun, St.owned]
  exact owned_mean_step N hN _ pre x (minv_run N hN pre)

end SignaloModel.Registry

#print axioms SignaloModel.Registry.owned_convolve_registry
#print axioms SignaloModel.Registry.owned_delay_registry
#print axioms SignaloModel.Registry.owned_mean_registry
