import SignaloModel.Proofs.SourcesRawProofs
import SignaloModel.Proofs.PeekRaw
/-!
C10 (skip) over sources that are NOT fused: the first pull polls the inner source until `n` items have been discarded or
an end marker has been seen (the end marker is consumed too — `Iterator::skip` does the same through `nth`), every later
pull is the inner source's next raw answer.
-/
namespace SignaloModel.Sources

variable {α : Type}

/-- the number of polls the drain loop makes: `n` if the first `n` raw answers are all items, else up to and including
the first end marker among them -/
def drainPolls (l : List (Option α)) (n : Nat) : Nat :=
  match l.findIdx? Option.isNone with
  | none => n
  | some j => j + 1

theorem pulls_append (s : Src α) (a b : Nat) : ∀ st : s.σ,
    pulls s st (a + b) = pulls s st a ++ pulls s (stateAfter s st a) b := by
  induction a with
  | zero => intro st; simp [pulls, stateAfter]
  | succ a ih =>
    intro st
    have : a + 1 + b = (a + b) + 1 := by omega
    rw [this]
    simp only [pulls, stateAfter, List.cons_append]
    rw [ih]

theorem drain_eq (s : Src α) (n : Nat) : ∀ st : s.σ,
    drain s st n = stateAfter s st (drainPolls (pulls s st n) n) := by
  induction n with
  | zero => intro st; rfl
  | succ n ih =>
    intro st
    cases hn : s.next st with
    | mk o st' =>
      cases o with
      | some v =>
        have h1 : drain s st (n + 1) = drain s st' n := by simp [drain, hn]
        have h2 : pulls s st (n + 1) = some v :: pulls s st' n := by simp [pulls, hn]
        rw [h1, h2, ih st']
        unfold drainPolls
        simp only [List.findIdx?_cons, Option.isNone_some, Bool.false_eq_true, ↓reduceIte]
        cases hf : (pulls s st' n).findIdx? Option.isNone with
        | none => simp [stateAfter, hn]
        | some j => simp [stateAfter, hn]
      | none =>
        have h1 : drain s st (n + 1) = st' := by simp [drain, hn]
        have h2 : pulls s st (n + 1) = none :: pulls s st' n := by simp [pulls, hn]
        rw [h1, h2]
        unfold drainPolls
        simp [List.findIdx?_cons, stateAfter, hn]

/-- after its first pull a `Skip` is its inner source -/
theorem pulls_skip_zero (s : Src α) (k : Nat) : ∀ st : s.σ, pulls (skip s) (st, 0) k = pulls s st k := by
  induction k with
  | zero => intro st; rfl
  | succ k ih =>
    intro st
    have hstep : (skip s).next (st, 0) = ((s.next st).1, ((s.next st).2, 0)) := rfl
    show ((skip s).next (st, 0)).1 :: pulls (skip s) ((skip s).next (st, 0)).2 k = _
    rw [hstep]
    show (s.next st).1 :: pulls (skip s) ((s.next st).2, 0) k = _
    rw [ih]
    rfl

/-- **C10 (skip, any source)**: the answers of `Skip` are the inner source's raw answers with the first `d` dropped,
where `d` is the number of polls of the drain loop -/
theorem pulls_skip (s : Src α) (st : s.σ) (n k : Nat) :
    pulls (skip s) (st, n) (k + 1) =
      (pulls s st (drainPolls (pulls s st n) n + (k + 1))).drop (drainPolls (pulls s st n) n) := by
  have hstep : (skip s).next (st, n) = ((s.next (drain s st n)).1, ((s.next (drain s st n)).2, 0)) := rfl
  have h1 : pulls (skip s) (st, n) (k + 1) = pulls s (drain s st n) (k + 1) := by
    show ((skip s).next (st, n)).1 :: pulls (skip s) ((skip s).next (st, n)).2 k = _
    rw [hstep]
    show (s.next (drain s st n)).1 :: pulls (skip s) ((s.next (drain s st n)).2, 0) k = _
    rw [pulls_skip_zero]
    rfl
  have hlen : ∀ (st : s.σ) (m : Nat), (pulls s st m).length = m := by
    intro st m
    induction m generalizing st with
    | zero => rfl
    | succ m ih => simp [pulls, ih]
  rw [h1, drain_eq, pulls_append s (drainPolls (pulls s st n) n) (k + 1) st]
  rw [List.drop_left' (hlen _ _)]

end SignaloModel.Sources
