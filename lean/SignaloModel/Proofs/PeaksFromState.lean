import SignaloModel.Model.Registry
/-!
C09 from ANY state of the detectors (their state is public: a stream can be handed over mid-way, from samples to
slopes or from one detector to another): the slope-driven detector reports a maximum exactly when the slope its state
holds is rising and the arriving one is falling, a minimum exactly when the held one is falling and the arriving one
rising; it then holds the arriving slope. The sample-driven detector is the slope-driven one fed the slope of the
arriving sample against the memorised one. Core only.
-/
namespace SignaloModel.Classify

theorem peakOf_max_iff (prev : Option Slope) (s : Slope) :
    peakOf prev s = .max ↔ prev = some .rising ∧ s = .falling := by
  cases prev with
  | none => simp [peakOf]
  | some p => cases p <;> cases s <;> simp [peakOf]

theorem peakOf_min_iff (prev : Option Slope) (s : Slope) :
    peakOf prev s = .min ↔ prev = some .falling ∧ s = .rising := by
  cases prev with
  | none => simp [peakOf]
  | some p => cases p <;> cases s <;> simp [peakOf]

/-- the slope-driven run from any held slope: output `k` is decided by slopes `k-1` and `k` of the sequence alone
(the held slope for `k = 0`) -/
theorem peaksSlopeRun_getElem (prev : Option Slope) (ss : List Slope) (k : Nat) (hk : k < ss.length) :
    (peaksSlopeRun prev ss)[k]? =
      some (peakOf (if k = 0 then prev else ss[k - 1]?) ss[k]) := by
  induction ss generalizing prev k with
  | nil => simp at hk
  | cons s ss ih =>
    cases k with
    | zero => simp [peaksSlopeRun]
    | succ k =>
      have hk' : k < ss.length := by simpa using hk
      simp only [peaksSlopeRun, List.getElem?_cons_succ, List.getElem_cons_succ]
      rw [ih (some s) k hk']
      cases k with
      | zero => simp
      | succ k => simp

/-- one step of the sample-driven detector from ANY state: the slope of the sample against the memorised one, decided
against the held slope; afterwards the state memorises the sample and holds that slope -/
theorem peaksStep_from_state [Cmp α] (st : PeaksState α) (x : α) :
    (peaksStep st x).2 = peakOf st.slope (slopeOf st.prevInput x) ∧
    (peaksStep st x).1.prevInput = some x ∧ (peaksStep st x).1.slope = some (slopeOf st.prevInput x) := by
  simp [peaksStep]

end SignaloModel.Classify

namespace SignaloModel.Registry
open Classify

/-- registry level: the slope-driven detector from any held slope emits the configured "max" value exactly in the
rising→falling case, the "min" value exactly in the falling→rising case, the "none" value otherwise, and then holds
the arriving slope -/
theorem peaksSlopeStep_from_state {α : Type} (o0 o1 o2 : α) (prev : Option Slope) (s : Slope) :
    peaksSlopeStep [o0, o1, o2] prev s =
      some (.peaksSlopes [o0, o1, o2] (some s),
        [if prev = some .rising ∧ s = .falling then o0
         else if prev = some .falling ∧ s = .rising then o2 else o1]) := by
  cases prev with
  | none => cases s <;> simp [peaksSlopeStep, peakOf, pick, peakIdx]
  | some p => cases p <;> cases s <;> simp [peaksSlopeStep, peakOf, pick, peakIdx]

end SignaloModel.Registry

