import SignaloModel.Model.Pipes
import SignaloModel.Model.PipesSink
/-!
C01, step-wise: ONE sample through any nesting of stages is that sample threaded through the stages in pipeline order,
and the stages are left in the states that threading leaves them in. (`run_eq_seq` says the same about whole streams;
this is the form the driver's long-run mode uses, where a pipe is followed through the current states of its stages.)
-/
namespace SignaloModel.Pipes

variable {α : Type}

/-- one sample through a list of stages in order: the updated stages and the final value -/
def thread : List (Stage α) → α → List (Stage α) × α
  | [], x => ([], x)
  | s :: rest, x =>
    let r := thread rest (s.filter x).2
    ((s.filter x).1 :: r.1, r.2)

theorem thread_append (a b : List (Stage α)) (x : α) :
    thread (a ++ b) x = ((thread a x).1 ++ (thread b (thread a x).2).1, (thread b (thread a x).2).2) := by
  induction a generalizing x with
  | nil => simp [thread]
  | cons s a ih => simp [thread, ih]

/-- **C01 (one step)**: the value a nested pipe returns for one sample, and the stages it leaves behind -/
theorem filter_eq_thread (sh : Shape α) (x : α) :
    (sh.filter x).2 = (thread sh.leaves x).2 ∧ (sh.filter x).1.leaves = (thread sh.leaves x).1 := by
  induction sh generalizing x with
  | leaf s => simp [Shape.filter, Shape.leaves, thread]
  | unit i ih => simpa [Shape.filter, Shape.leaves] using ih x
  | pipe l r ihl ihr =>
    have hl := ihl x
    have hr := ihr (l.filter x).2
    simp only [Shape.filter, Shape.leaves, thread_append]
    rw [← hl.1, ← hl.2]
    exact ⟨hr.1, by rw [hr.2]⟩

/-- all leaf stages of a list of nested stages, in pipeline order -/
def allLeaves (l : List (Shape α)) : List (Stage α) := l.flatMap Shape.leaves

/-- **C01 (one pull)**: a source pipe answers the end marker exactly when its source does (touching no stage), and
otherwise the item threaded through all stages in pipeline order -/
theorem source_eq_thread (sh : SShape α) :
    sh.source.1 = sh.root.pull.1.map (fun x => (thread (allLeaves sh.stages) x).2) := by
  induction sh with
  | src s => simp [SShape.source, SShape.root, SShape.stages, allLeaves, thread]
  | unit i ih => simpa [SShape.source, SShape.root, SShape.stages] using ih
  | pipe l r ih =>
    simp only [SShape.source, SShape.root, SShape.stages]
    cases hl : l.source with
    | mk o l' =>
      rw [hl] at ih
      simp only at ih
      cases o with
      | none =>
        simp only
        cases hp : l.root.pull.1 with
        | none => rfl
        | some z => rw [hp] at ih; simp at ih
      | some x =>
        simp only
        cases hp : l.root.pull.1 with
        | none => rw [hp] at ih; simp at ih
        | some z =>
          rw [hp] at ih
          simp only [Option.map_some, Option.some.injEq] at ih
          simp only [Option.map_some, allLeaves, List.flatMap_append, List.flatMap_cons, List.flatMap_nil,
            List.append_nil, thread_append]
          rw [(filter_eq_thread r x).1, ih]
          rfl

/-- **C01 (one sample into a sink pipe)**: the sink at the end receives the sample threaded through all stages -/
theorem sink_eq_thread (sh : KShape α β) (x : α) :
    (sh.sink x).root = sh.root.push ((thread (allLeaves sh.stages) x).2) := by
  induction sh generalizing x with
  | snk k => simp [KShape.sink, KShape.root, KShape.stages, allLeaves, thread]
  | unit i ih => simpa [KShape.sink, KShape.root, KShape.stages] using ih x
  | pipe l r ih =>
    simp only [KShape.sink, KShape.root, KShape.stages, allLeaves, List.flatMap_cons, thread_append]
    rw [ih, (filter_eq_thread l x).1]
    rfl

end SignaloModel.Pipes
