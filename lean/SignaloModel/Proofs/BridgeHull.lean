import SignaloModel.Proofs.RunLemmas
import SignaloModel.Proofs.SmoothProofs
/-!
C06 / C13 / C14 at the level the driver executes: convex-hull, constant-preservation and linearity clauses for the
registry instances of the Kalman filter (unit configuration), the exponential smoothers and the alpha-beta tracker,
over ordered fields / commutative rings.
-/
namespace SignaloModel.Registry
open SignaloModel SignaloModel.Smooth

section runs
variable {α : Type} [Add α] [Sub α] [Mul α]

theorem stepRun_ema (w : α) (s : Option α) (xs : List α) :
    (stepRun (fun (s : Option α) x => (some (emaStep w s x), emaStep w s x)) s xs).2 = emaRun w s xs := by
  induction xs generalizing s with
  | nil => rfl
  | cons x xs ih => simp [stepRun, emaRun, ih]

theorem stepRun_emed (p m q : α) (s : EMedState α) (xs : List α) :
    (stepRun (emedStep p m q) s xs).2 = emedRun p m q s xs := by
  induction xs generalizing s with
  | nil => rfl
  | cons x xs ih => simp [stepRun, emedRun, ih]

theorem stepRun_ab (a b : α) (s : ABState α) (xs : List α) :
    (stepRun (abStep a b) s xs).2 = abRun a b s xs := by
  induction xs generalizing s with
  | nil => rfl
  | cons x xs ih => simp [stepRun, abRun, ih]

theorem stepRun_kalman [Div α] (c : KCfg α) (s : KState α) (zs : List (α × α)) :
    (stepRun (fun s (zu : α × α) => kalmanStep c s zu.1 zu.2) s zs).2 = kalmanRun c s zs := by
  induction zs generalizing s with
  | nil => rfl
  | cons zu zs ih =>
    obtain ⟨z, u⟩ := zu
    simp [stepRun, kalmanRun, ih]

end runs

variable {K : Type} [Field K] [LinearOrder K] [IsStrictOrderedRing K] [BEq K] [Median.POrd K] [Classify.Cmp K]

/-- **C13 (EMA) at registry level**: gain in `[0,1]` — every output lies in every interval that contains the samples
(so it never leaves their range, and a constant signal is reproduced exactly: take `lo = hi`) -/
theorem ema_registry_hull (w lo hi : K) (hw0 : 0 ≤ w) (hw1 : w ≤ 1) (xs : List K)
    (hx : ∀ x ∈ xs, lo ≤ x ∧ x ≤ hi) :
    ∃ s' ys, (Cfg.ema w).init.run (sing xs) = some (s', sing ys) ∧ ys.length = xs.length ∧
      ∀ y ∈ ys, lo ≤ y ∧ y ≤ hi := by
  have hrun := run_of_step (St.ema w) (fun (s : Option K) x => (some (emaStep w s x), emaStep w s x))
    (by intro s x; simp [St.filter]) none xs
  refine ⟨_, _, hrun, stepRun_length _ _ _, ?_⟩
  rw [stepRun_ema]
  exact ema_hull w lo hi hw0 hw1 xs none (by intro m hm; cases hm) hx

/-- **C13 (exponential median) at registry level**: all three gains in `[0,1]` -/
theorem emedian_registry_hull (p m q lo hi : K) (hp : 0 ≤ p ∧ p ≤ 1) (hm : 0 ≤ m ∧ m ≤ 1) (hq : 0 ≤ q ∧ q ≤ 1)
    (xs : List K) (hx : ∀ x ∈ xs, lo ≤ x ∧ x ≤ hi) :
    ∃ s' ys, (Cfg.emedian p m q).init.run (sing xs) = some (s', sing ys) ∧ ys.length = xs.length ∧
      ∀ y ∈ ys, lo ≤ y ∧ y ≤ hi := by
  have hrun := run_of_step (St.emedian p m q) (emedStep p m q) (by intro s x; simp [St.filter])
    { pre := none, post := none, median := none } xs
  refine ⟨_, _, hrun, stepRun_length _ _ _, ?_⟩
  rw [stepRun_emed]
  exact emed_hull p m q lo hi hp hm hq xs _
    ⟨by intro v hv; simp at hv, by intro v hv; simp at hv, by intro v hv; simp at hv⟩ hx

/-- **C06 at registry level**: `a = c = 1, b = 0, r ≥ 0, q > 0` — every estimate lies in every interval that contains
the measurements (convex combination: never leaves their range, constants reproduced exactly) -/
theorem kalman_registry_hull (r q lo hi : K) (hr : 0 ≤ r) (hq : 0 < q) (zs : List (K × K))
    (hz : ∀ p ∈ zs, lo ≤ p.1 ∧ p.1 ≤ hi) :
    ∃ s' ys, (Cfg.kalman { r := r, q := q, a := 1, b := 0, c := 1 }).init.run (zs.map (fun p => [p.1, p.2]))
        = some (s', sing ys) ∧ ys.length = zs.length ∧ ∀ y ∈ ys, lo ≤ y ∧ y ≤ hi := by
  let cfg : KCfg K := { r := r, q := q, a := 1, b := 0, c := 1 }
  have hrun : ∀ (zs : List (K × K)) (s : KState K),
      (St.kalman cfg s).run (zs.map (fun p => [p.1, p.2])) =
        some (St.kalman cfg (stepRun (fun s (zu : K × K) => kalmanStep cfg s zu.1 zu.2) s zs).1,
              sing (stepRun (fun s (zu : K × K) => kalmanStep cfg s zu.1 zu.2) s zs).2) := by
    intro zs
    induction zs with
    | nil => intro s; rfl
    | cons zu zs ih => intro s; simp [St.run, St.filter, ih, stepRun]
  refine ⟨_, _, hrun zs _, stepRun_length _ _ _, ?_⟩
  rw [stepRun_kalman]
  exact kalman_hull r q lo hi hr hq zs _ (le_refl _) (by intro v hv; simp at hv) hz

/-- **C14 at registry level**: constants are reproduced exactly, for all `alpha, beta` -/
theorem alphaBeta_registry_const (a b c : K) (n : Nat) :
    ∃ s', (Cfg.alphaBeta a b).init.run (sing (List.replicate n c)) = some (s', sing (List.replicate n c)) := by
  have hrun := run_of_step (St.alphaBeta a b) (abStep a b) (by intro s x; simp [St.filter])
    { velocity := (0 : K), value := none } (List.replicate n c)
  refine ⟨St.alphaBeta a b (stepRun (abStep a b) { velocity := (0 : K), value := none } (List.replicate n c)).1, ?_⟩
  have h2 := stepRun_ab a b { velocity := (0 : K), value := none } (List.replicate n c)
  rw [ab_const a b c n] at h2
  simp only [Cfg.init]
  rw [hrun, h2]

end SignaloModel.Registry

#print axioms SignaloModel.Registry.kalman_registry_hull
#print axioms SignaloModel.Registry.emedian_registry_hull
#print axioms SignaloModel.Registry.alphaBeta_registry_const

namespace SignaloModel.Smooth

variable {R : Type} [CommRing R]

/-- **C14, scaling**: scaling all samples scales the output identically -/
theorem ab_scale (alpha beta a : R) (xs : List R) :
    abRun alpha beta { velocity := 0, value := none } (xs.map (a * ·)) =
      (abRun alpha beta { velocity := 0, value := none } xs).map (a * ·) := by
  have h := ab_linear alpha beta a 0 xs xs rfl { velocity := 0, value := none } { velocity := 0, value := none }
    { velocity := 0, value := none } (by simp) (Or.inl ⟨rfl, rfl, rfl⟩)
  have e1 : List.zipWith (fun x y => a * x + 0 * y) xs xs = xs.map (a * ·) := by
    induction xs with
    | nil => rfl
    | cons x xs ih => simp [ih]
  have e2 : ∀ l : List R, List.zipWith (fun p q => a * p + 0 * q) l l = l.map (a * ·) := by
    intro l
    induction l with
    | nil => rfl
    | cons x l ih => simp [ih]
  rw [e1, e2] at h
  exact h

theorem zipWith_add_replicate (c : R) (l : List R) :
    ∀ n : Nat, l.length = n → List.zipWith (fun p q => p + q) l (List.replicate n c) = l.map (· + c) := by
  induction l with
  | nil => intro n _; simp
  | cons x l ih =>
    intro n hn
    cases n with
    | zero => simp at hn
    | succ n =>
      have := ih n (by simpa using hn)
      simp [List.replicate_succ, this]

/-- **C14, offset**: adding a constant to all samples adds it to the output -/
theorem ab_offset (alpha beta c : R) (xs : List R) :
    abRun alpha beta { velocity := 0, value := none } (xs.map (· + c)) =
      (abRun alpha beta { velocity := 0, value := none } xs).map (· + c) := by
  have h := ab_linear alpha beta 1 1 xs (List.replicate xs.length c) (by simp)
    { velocity := 0, value := none } { velocity := 0, value := none }
    { velocity := 0, value := none } (by simp) (Or.inl ⟨rfl, rfl, rfl⟩)
  rw [ab_const alpha beta c xs.length] at h
  have hf : (fun (x y : R) => 1 * x + 1 * y) = (fun x y => x + y) := by funext x y; simp
  have hl : (abRun alpha beta { velocity := 0, value := none } xs).length = xs.length := by
    have : ∀ (s : ABState R) (l : List R), (abRun alpha beta s l).length = l.length := by
      intro s l
      induction l generalizing s with
      | nil => rfl
      | cons x l ih => simp [abRun, ih]
    exact this _ _
  rw [hf, zipWith_add_replicate c xs _ rfl, zipWith_add_replicate c _ _ hl] at h
  exact h

end SignaloModel.Smooth

#print axioms SignaloModel.Smooth.ab_scale
#print axioms SignaloModel.Smooth.ab_offset
