import SignaloModel.Model.Registry
/-!
Structural facts about the registry (C12, C20): `reset` rebuilds exactly what construction from the
same configuration builds; runs compose (the state reached is all that a continuation depends on);
the wrappers are transparent. Core Lean only.
-/
namespace SignaloModel.Registry

variable {α : Type}

theorem init_buffer_length (N : Nat) : (MedianL.init N : MedianL.LS α).buffer.length = N := by
  simp [MedianL.init]

section reset
variable [OfNat α 0]

/-- **C12**: for every filter (and every nesting of the wrappers) `reset` yields exactly the state
that constructing a new filter from the same configuration yields -/
theorem reset_eq_init (s : St α) : s.reset = s.config.init := by
  induction s with
  | cache i c ih => simp [St.reset, St.config, Cfg.init, ih]
  | unit i ih => simp [St.reset, St.config, Cfg.init, ih]
  | _ => simp [St.reset, St.config, Cfg.init]

/-- construction from a configuration remembers that configuration -/
theorem config_init (c : Cfg α) : c.init.config = c := by
  induction c with
  | cache i ih => simp [St.config, Cfg.init, ih]
  | unit i ih => simp [St.config, Cfg.init, ih]
  | _ => simp [St.config, Cfg.init, init_buffer_length]

/-- **C12**: the configuration is unchanged by `reset` -/
theorem config_reset (s : St α) : s.reset.config = s.config := by
  rw [reset_eq_init, config_init]

/-- resetting twice is resetting once -/
theorem reset_reset (s : St α) : s.reset.reset = s.reset := by
  rw [reset_eq_init s.reset, config_reset, ← reset_eq_init]

end reset

section run
variable [Add α] [Sub α] [Mul α] [Div α] [Neg α] [OfNat α 0] [OfNat α 1]
  [LT α] [DecidableLT α] [BEq α] [Median.POrd α] [Classify.Cmp α]

/-- **C12**: after any history, the reset filter responds to every input sequence exactly as a newly
constructed filter with the same configuration -/
theorem run_reset_eq_fresh (s : St α) (xs : List (List α)) :
    s.reset.run xs = s.config.init.run xs := by
  rw [reset_eq_init]

/-- **C20**: runs compose — what a filter does after a prefix depends only on the state reached.
Hence a copy of that state (clone, guts round trip: both the identity on states) continues exactly
like the original, and a copy fed `ys` equals a fresh instance fed `prefix ++ ys`. -/
theorem run_append (s : St α) (xs ys : List (List α)) :
    s.run (xs ++ ys) =
      (s.run xs).bind (fun r => (r.1.run ys).map (fun r' => (r'.1, r.2 ++ r'.2))) := by
  induction xs generalizing s with
  | nil =>
    simp only [List.nil_append, St.run, Option.bind_some, List.nil_append]
    cases s.run ys <;> simp
  | cons x xs ih =>
    simp only [List.cons_append, St.run]
    cases hf : s.filter x with
    | none => simp
    | some r =>
      obtain ⟨s', y⟩ := r
      simp only [Option.bind_eq_bind, Option.bind_some, ih s']
      cases hr : s'.run xs with
      | none => simp
      | some r2 =>
        obtain ⟨s'', ys'⟩ := r2
        simp only [Option.bind_some]
        cases hq : s''.run ys <;> simp [hq]

/-- **C20**: the caching wrapper returns exactly what the wrapped filter returns and remembers it -/
theorem cache_filter (i : St α) (c : Option (List α)) (xs : List α) :
    (St.cache i c).filter xs = (i.filter xs).map (fun r => (St.cache r.1 (some r.2), r.2)) := by
  simp only [St.filter]
  cases i.filter xs <;> simp

/-- **C20**: the unit wrapper returns exactly what the wrapped filter returns -/
theorem unit_filter (i : St α) (xs : List α) :
    (St.unit i).filter xs = (i.filter xs).map (fun r => (St.unit r.1, r.2)) := by
  simp only [St.filter]
  cases i.filter xs <;> simp

/-- **C20**: over whole streams the cache wrapper's outputs are the wrapped filter's outputs -/
theorem cache_run (i : St α) (c : Option (List α)) (xs : List (List α)) :
    ((St.cache i c).run xs).map (·.2) = (i.run xs).map (·.2) := by
  induction xs generalizing i c with
  | nil => simp [St.run]
  | cons x xs ih =>
    simp only [St.run, cache_filter]
    cases hf : i.filter x with
    | none => simp
    | some r =>
      obtain ⟨i', y⟩ := r
      simp only [Option.map_some, Option.bind_eq_bind, Option.bind_some]
      have := ih i' (some y)
      cases h1 : (St.cache i' (some y)).run xs <;> cases h2 : i'.run xs <;> simp_all

theorem unit_run (i : St α) (xs : List (List α)) :
    ((St.unit i).run xs).map (·.2) = (i.run xs).map (·.2) := by
  induction xs generalizing i with
  | nil => simp [St.run]
  | cons x xs ih =>
    simp only [St.run, unit_filter]
    cases hf : i.filter x with
    | none => simp
    | some r =>
      obtain ⟨i', y⟩ := r
      simp only [Option.map_some, Option.bind_eq_bind, Option.bind_some]
      have := ih i'
      cases h1 : (St.unit i').run xs <;> cases h2 : i'.run xs <;> simp_all

/-- the cache remembers only the most recent result -/
theorem cache_slot (i : St α) (c : Option (List α)) (xs : List α) (i' : St α) (y : List α)
    (h : i.filter xs = some (i', y)) :
    (St.cache i c).filter xs = some (St.cache i' (some y), y) := by
  rw [cache_filter, h]; rfl

end run

end SignaloModel.Registry
