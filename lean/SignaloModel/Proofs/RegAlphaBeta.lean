import SignaloModel.Proofs.BridgeHull
set_option linter.unusedSectionVars false
/-!
C14 at registry level: the alpha-beta filter's run is linear — superposition with arbitrary scalars, hence scaling
and offset — for every `alpha`, `beta`, over any commutative ring.
-/
namespace SignaloModel.Registry
open SignaloModel SignaloModel.Smooth

variable {K : Type} [CommRing K] [LinearOrder K] [Div K] [BEq K] [Median.POrd K] [Classify.Cmp K]

/-- the registry run of the alpha-beta filter, as a list -/
theorem alphaBeta_run (a b : K) (xs : List K) :
    ∃ s', (Cfg.alphaBeta a b).init.run (sing xs) =
      some (s', sing (abRun a b { velocity := 0, value := none } xs)) := by
  have hrun := run_of_step (St.alphaBeta a b) (abStep a b) (by intro s x; simp [St.filter])
    { velocity := (0 : K), value := none } xs
  rw [stepRun_ab] at hrun
  exact ⟨_, hrun⟩

/-- **C14 at registry level, superposition**: the run on `a·x + b·y` is `a·(run on x) + b·(run on y)` -/
theorem alphaBeta_registry_linear (alpha beta a b : K) (xs ys : List K) (hlen : xs.length = ys.length) :
    ∃ s sx sy ox oy,
      (Cfg.alphaBeta alpha beta).init.run (sing xs) = some (sx, sing ox) ∧
      (Cfg.alphaBeta alpha beta).init.run (sing ys) = some (sy, sing oy) ∧
      (Cfg.alphaBeta alpha beta).init.run (sing (List.zipWith (fun x y => a * x + b * y) xs ys)) =
        some (s, sing (List.zipWith (fun p q => a * p + b * q) ox oy)) := by
  obtain ⟨sx, hx⟩ := alphaBeta_run alpha beta xs
  obtain ⟨sy, hy⟩ := alphaBeta_run alpha beta ys
  obtain ⟨s, hs⟩ := alphaBeta_run alpha beta (List.zipWith (fun x y => a * x + b * y) xs ys)
  rw [ab_linear alpha beta a b xs ys hlen { velocity := 0, value := none } { velocity := 0, value := none }
    { velocity := 0, value := none } (by simp) (Or.inl ⟨rfl, rfl, rfl⟩)] at hs
  exact ⟨s, sx, sy, _, _, hx, hy, hs⟩

/-- **C14 at registry level, scaling** -/
theorem alphaBeta_registry_scale (alpha beta a : K) (xs : List K) :
    ∃ s sx ox, (Cfg.alphaBeta alpha beta).init.run (sing xs) = some (sx, sing ox) ∧
      (Cfg.alphaBeta alpha beta).init.run (sing (xs.map (a * ·))) = some (s, sing (ox.map (a * ·))) := by
  obtain ⟨sx, hx⟩ := alphaBeta_run alpha beta xs
  obtain ⟨s, hs⟩ := alphaBeta_run alpha beta (xs.map (a * ·))
  rw [ab_scale] at hs
  exact ⟨s, sx, _, hx, hs⟩

/-- **C14 at registry level, offset** -/
theorem alphaBeta_registry_offset (alpha beta c : K) (xs : List K) :
    ∃ s sx ox, (Cfg.alphaBeta alpha beta).init.run (sing xs) = some (sx, sing ox) ∧
      (Cfg.alphaBeta alpha beta).init.run (sing (xs.map (· + c))) = some (s, sing (ox.map (· + c))) := by
  obtain ⟨sx, hx⟩ := alphaBeta_run alpha beta xs
  obtain ⟨s, hs⟩ := alphaBeta_run alpha beta (xs.map (· + c))
  rw [ab_offset] at hs
  exact ⟨s, sx, _, hx, hs⟩

end SignaloModel.Registry

#print axioms SignaloModel.Registry.alphaBeta_registry_linear
#print axioms SignaloModel.Registry.alphaBeta_registry_scale
#print axioms SignaloModel.Registry.alphaBeta_registry_offset
