import SignaloModel.Proofs.BridgeSimple
import SignaloModel.Proofs.DiffIntVarProofs
set_option linter.unusedSectionVars false
/-!
C15 at registry level, the two compositions: feeding the differentiation filter's outputs to the integration filter
gives `x[n] - x[0]`; feeding the integration filter's outputs to the differentiation filter gives `x[n]` for `n ≥ 1`
(and `0` first).
-/
namespace SignaloModel.Registry
open SignaloModel

section generic
variable {α : Type} [Add α] [Sub α] [OfNat α 0]

theorem stepRun_diff (prev : Option α) (xs : List α) :
    (stepRun (fun (prev : Option α) x => (some x, match prev with | none => (0 : α) | some p => x - p)) prev xs).2
      = DIV.diffRun prev xs := by
  induction xs generalizing prev with
  | nil => rfl
  | cons x xs ih => cases prev <;> simp [stepRun, DIV.diffRun, ih]

omit [Sub α] [OfNat α 0] in
theorem stepRun_int (acc : α) (xs : List α) :
    (stepRun (fun (acc : α) x => (acc + x, acc + x)) acc xs).2 = DIV.intRun acc xs := by
  induction xs generalizing acc with
  | nil => rfl
  | cons x xs ih => simp [stepRun, DIV.intRun, ih]

end generic

variable {α : Type} [Add α] [Sub α] [Mul α] [Div α] [Neg α] [OfNat α 0] [OfNat α 1]
  [LT α] [DecidableLT α] [BEq α] [Median.POrd α] [Classify.Cmp α]

/-- the differentiation filter's run, as a list -/
theorem differentiate_run (xs : List α) :
    ∃ s', (Cfg.differentiate : Cfg α).init.run (sing xs) = some (s', sing (DIV.diffRun none xs)) := by
  have hrun := run_of_step St.differentiate
    (fun (prev : Option α) x => (some x, match prev with | none => (0 : α) | some p => x - p))
    (by intro s x; cases s <;> rfl) none xs
  rw [stepRun_diff] at hrun
  exact ⟨_, hrun⟩

theorem integrate_run (xs : List α) :
    ∃ s', (Cfg.integrate : Cfg α).init.run (sing xs) = some (s', sing (DIV.intRun 0 xs)) := by
  have hrun := run_of_step St.integrate (fun (acc : α) x => (acc + x, acc + x))
    (by intro s x; simp [St.filter]) (0 : α) xs
  rw [stepRun_int] at hrun
  exact ⟨_, hrun⟩

end SignaloModel.Registry

namespace SignaloModel.Registry
open SignaloModel
variable {K : Type} [CommRing K] [LinearOrder K] [Div K] [BEq K] [Median.POrd K] [Classify.Cmp K]

/-- **C15 at registry level**: integrating the differentiated signal gives `x[n] - x[0]` -/
theorem integrate_differentiate_registry (x0 : K) (xs : List K) :
    ∃ s₁ s₂ ds, (Cfg.differentiate : Cfg K).init.run (sing (x0 :: xs)) = some (s₁, sing ds) ∧
      (Cfg.integrate : Cfg K).init.run (sing ds) = some (s₂, sing ((x0 :: xs).map (· - x0))) := by
  obtain ⟨s₁, h₁⟩ := differentiate_run (x0 :: xs)
  obtain ⟨s₂, h₂⟩ := integrate_run (DIV.diffRun none (x0 :: xs))
  rw [DIV.int_diff] at h₂
  exact ⟨s₁, s₂, _, h₁, h₂⟩

/-- **C15 at registry level**: differentiating the integrated signal gives the signal back from the second sample on
(and `0` first) -/
theorem differentiate_integrate_registry (x0 : K) (xs : List K) :
    ∃ s₁ s₂ is, (Cfg.integrate : Cfg K).init.run (sing (x0 :: xs)) = some (s₁, sing is) ∧
      (Cfg.differentiate : Cfg K).init.run (sing is) = some (s₂, sing (0 :: xs)) := by
  obtain ⟨s₁, h₁⟩ := integrate_run (x0 :: xs)
  obtain ⟨s₂, h₂⟩ := differentiate_run (DIV.intRun 0 (x0 :: xs))
  rw [DIV.diff_int] at h₂
  exact ⟨s₁, s₂, _, h₁, h₂⟩

end SignaloModel.Registry

#print axioms SignaloModel.Registry.integrate_differentiate_registry
#print axioms SignaloModel.Registry.differentiate_integrate_registry
