import SignaloModel.Proofs.BridgeMedianAcc
import SignaloModel.Proofs.HampelProofs
import SignaloModel.Proofs.ClassifyProofs
/-!
C18 at the level the driver executes: the registry's Hampel instance (pointer-level median model + the three
accessors as implemented + the decision) over an ordered field. Every output is the decision function applied to
the minimum, lower median and latest sample of the *previous* window `Spec.window N (history before the sample)`;
the property's clauses then follow from the decision theorems of `HampelProofs`.
-/
namespace SignaloModel.LinOrd
open SignaloModel

/-- Rust's `PartialOrd` methods `>=`, `<=` for a linearly ordered type -/
scoped instance instPOrd {α : Type} [LinearOrder α] : Median.POrd α :=
  ⟨fun a b => decide (b ≤ a), fun a b => decide (a ≤ b)⟩

scoped instance instDual {α : Type} [LinearOrder α] : Median.DualOrd α := ⟨by intro a b; rfl⟩

scoped instance instTotal {α : Type} [LinearOrder α] : Median.TotalOrd α where
  total := by intro a b; simp [Median.POrd.le]; exact le_total a b
  trans := by intro a b c; simp [Median.POrd.le]; exact le_trans
  antisymm := by intro a b; simp [Median.POrd.le]; exact le_antisymm

end SignaloModel.LinOrd

namespace SignaloModel.Registry
open SignaloModel SignaloModel.LinOrd

variable {K : Type} [Field K] [LinearOrder K] [IsStrictOrderedRing K]

/-- what `Hampel::filter_internal` returns for sample `x` when the previous window is `w` -/
def hampelOut (t f : K) (w : List K) (x : K) : K :=
  Hampel.decide f t ((Spec.minimum w).getD x) ((Spec.lowerMedian w).getD x) ((w.getLast?).getD x) x

/-- one step of the registry's Hampel instance from a state that represents window `ws` -/
theorem hampel_step (N : Nat) (t f : K) (sl : MedianL.LS K) (sa : Median.MS K) (ws vs : List K)
    (hlen : 2 ≤ sl.buffer.length) (hrep : MedianL.Rep sl sa) (hinv : Median.Inv N sa ws vs) (x : K) :
    ∃ sl1 sa1 vs1, hampelStep t f sl x = some (sl1, hampelOut t f ws x) ∧
      MedianL.Rep sl1 sa1 ∧ Median.Inv N sa1 (Median.push N ws x) vs1 ∧
      sl1.buffer.length = sl.buffer.length := by
  obtain ⟨sa1, y, vs1, hstepA, hinv1, _⟩ := Median.inv_step hinv x
  obtain ⟨sl1, hstepL, hrep1, hlen1⟩ := MedianL.refine_step sl sa hlen hrep x sa1 y hstepA
  obtain ⟨h1, h2, h3⟩ := MedianL.accessors_L sl sa N ws vs hlen hrep hinv
  refine ⟨sl1, sa1, vs1, ?_, hrep1, hinv1, hlen1⟩
  simp only [hampelStep, hstepL, h1, h2, h3, Option.bind_eq_bind, Option.bind_some, Option.pure_def,
    hampelOut, Spec.minimum, Spec.lowerMedian, Spec.sortAsc, Median.lowerMedian]

theorem hampel_run (N : Nat) (t f : K) (xs : List K) :
    ∀ (sl : MedianL.LS K) (sa : Median.MS K) (ws vs : List K),
      2 ≤ sl.buffer.length → MedianL.Rep sl sa → Median.Inv N sa ws vs →
      ∃ s' ys, (St.hampel t f sl).run (sing xs) = some (s', sing ys) ∧ ys.length = xs.length ∧
        ∀ k x, xs[k]? = some x → ys[k]? = some (hampelOut t f ((xs.take k).foldl (Median.push N) ws) x) := by
  induction xs with
  | nil => intro sl sa ws vs _ _ _; exact ⟨_, [], rfl, rfl, by simp⟩
  | cons x xs ih =>
    intro sl sa ws vs hlen hrep hinv
    obtain ⟨sl1, sa1, vs1, hstep, hrep1, hinv1, hlen1⟩ := hampel_step N t f sl sa ws vs hlen hrep hinv x
    obtain ⟨s', ys, hrun, hl, hk⟩ := ih sl1 sa1 _ vs1 (by omega) hrep1 hinv1
    refine ⟨s', hampelOut t f ws x :: ys, ?_, by simp [hl], ?_⟩
    · simp only [sing_cons, St.run, St.filter, hstep, Option.bind_eq_bind, Option.bind_some,
        Option.pure_def, hrun]
    · intro k x' hx'
      cases k with
      | zero =>
        simp only [List.getElem?_cons_zero, Option.some.injEq] at hx'
        subst hx'
        simp
      | succ k =>
        simp only [List.getElem?_cons_succ] at hx'
        simpa using hk k x' hx'

/-- **C18 at registry level** (widths ≥ 2): the `k`-th output is the decision function applied to the sample and to
the minimum / lower median / latest sample of the window of the `min k N` samples *before* it -/
theorem hampel_registry (N : Nat) (hN : 2 ≤ N) (t f : K) (xs : List K) :
    ∃ s' ys, (Cfg.hampel N t f : Cfg K).init.run (sing xs) = some (s', sing ys) ∧ ys.length = xs.length ∧
      ∀ k x, xs[k]? = some x → ys[k]? = some (hampelOut t f (Spec.window N (xs.take k)) x) := by
  obtain ⟨s', ys, hrun, hl, hk⟩ := hampel_run N t f xs (MedianL.init N) (Median.init N) [] []
    (by simp [MedianL.init]; omega) (MedianL.rep_init N hN) (Median.inv_init N (by omega))
  refine ⟨s', ys, hrun, hl, ?_⟩
  intro k x hx
  rw [hk k x hx, Median.window_eq_lastN N (by omega)]
  rfl

/-! ### the property's clauses, for every output -/

theorem minimum_mem {α : Type} [Median.POrd α] (w : List α) (m : α) (h : Spec.minimum w = some m) : m ∈ w :=
  (List.mergeSort_perm w _).mem_iff.mp (List.mem_of_getElem? h)

theorem lowerMedian_mem {α : Type} [Median.POrd α] (w : List α) (m : α) (h : Spec.lowerMedian w = some m) : m ∈ w :=
  (List.mergeSort_perm w _).mem_iff.mp (List.mem_of_getElem? h)

/-- **C18**: never any third value; the first sample (empty window) is returned unchanged -/
theorem hampelOut_two_valued (t f : K) (w : List K) (x : K) :
    hampelOut t f w x = x ∨ some (hampelOut t f w x) = Spec.lowerMedian w := by
  unfold hampelOut
  cases hm : Spec.lowerMedian w with
  | none =>
    left
    simp only [Option.getD_none]
    rcases Hampel.decide_two_valued f t ((Spec.minimum w).getD x) x ((w.getLast?).getD x) x with h | h <;> exact h
  | some md =>
    simp only [Option.getD_some]
    rcases Hampel.decide_two_valued f t ((Spec.minimum w).getD x) md ((w.getLast?).getD x) x with h | h
    · left; exact h
    · right; rw [h]

theorem hampelOut_first (t f x : K) : hampelOut t f [] x = x := by
  simp [hampelOut, Spec.minimum, Spec.lowerMedian, Spec.sortAsc, Hampel.decide_first]

/-- **C18 (inlier)**: a sample within `t·f·(median − minimum)` of the previous window's median is passed through -/
theorem hampelOut_inlier (t f : K) (hf : 0 < f) (ht : 0 ≤ t) (w : List K) (x md mn : K)
    (hmd : Spec.lowerMedian w = some md) (hmn : Spec.minimum w = some mn)
    (h : |x - md| ≤ t * f * (md - mn)) : hampelOut t f w x = x := by
  simp only [hampelOut, hmd, hmn, Option.getD_some]
  exact Hampel.decide_inlier f t mn md _ x hf ht h

/-- **C18 (outlier)**: a sample farther than `t·f·D` from the median, `D` bounding the distance of every window
sample from the median, is replaced by the median (the filter reads the minimum and the latest sample — both
window members) -/
theorem hampelOut_outlier (t f : K) (hf : 0 < f) (ht : 0 ≤ t) (w : List K) (x md mn lst D : K)
    (hmd : Spec.lowerMedian w = some md) (hmn : Spec.minimum w = some mn) (hl : w.getLast? = some lst)
    (hD : ∀ v ∈ w, |v - md| ≤ D) (h : t * f * D < |x - md|) :
    hampelOut t f w x = md := by
  simp only [hampelOut, hmd, hmn, hl, Option.getD_some]
  apply Hampel.decide_outlier f t mn md lst x D hf ht
  · rw [abs_sub_comm]; exact hD mn (minimum_mem w mn hmn)
  · exact hD lst (List.mem_of_getLast? hl)
  · exact h

end SignaloModel.Registry

#print axioms SignaloModel.Registry.hampel_registry
#print axioms SignaloModel.Registry.hampelOut_outlier
