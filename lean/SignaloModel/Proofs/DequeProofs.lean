import SignaloModel.Model.Deque
import Mathlib.Order.Defs.LinearOrder
import Mathlib.Order.Basic
import Mathlib.Data.List.TakeWhile
/-! Proofs for C04, layer 1: the deque with an unbounded counter returns the window maximum. -/
namespace SignaloModel.Deque

variable {α : Type}

/-! ### the three loops -/

theorem expire_spec (N t : Nat) (l : List (α × Nat))
    (hle : ∀ p ∈ l, p.2 ≤ t) (hs : l.Pairwise (fun a b => a.2 < b.2)) :
    ∃ r, expire N t l = some r ∧ r <:+ l ∧ (∀ p ∈ r, t - p.2 < N) ∧
      (∀ p ∈ l, t - p.2 < N → p ∈ r) := by
  induction l with
  | nil => exact ⟨[], rfl, List.suffix_refl _, by simp, by simp⟩
  | cons a l ih =>
    obtain ⟨v, ti⟩ := a
    have hti : ti ≤ t := hle (v, ti) (by simp)
    rw [List.pairwise_cons] at hs
    by_cases hN : N ≤ t - ti
    · obtain ⟨r, hr, hsuf, h1, h2⟩ := ih (fun p hp => hle p (by simp [hp])) hs.2
      refine ⟨r, by simp [expire, hti, hN, hr], hsuf.trans (List.suffix_cons _ _), h1, ?_⟩
      intro p hp hlt
      rcases List.mem_cons.mp hp with rfl | hp'
      · simp at hlt; omega
      · exact h2 p hp' hlt
    · refine ⟨(v, ti) :: l, by simp [expire, hti, hN], List.suffix_refl _, ?_, fun p hp _ => hp⟩
      intro p hp
      rcases List.mem_cons.mp hp with rfl | hp'
      · simp; omega
      · have := hs.1 p hp'
        simp at this
        have := hle p (by simp [hp'])
        omega

theorem popBack_spec [LinearOrder α] (x : α) (l : List (α × Nat))
    (hmono : l.Pairwise (fun a b => b.1 ≤ a.1)) :
    ∃ r, popBack (fun a b => decide (b < a)) x l = r ∧ r <+: l ∧ (∀ p ∈ r, x ≤ p.1) ∧
      (∀ p ∈ l, p ∈ r ∨ p.1 < x) := by
  refine ⟨_, rfl, ?_, ?_, ?_⟩
  · -- prefix
    unfold popBack
    have hsuf : (l.reverse.dropWhile (fun p => decide (p.1 < x))) <:+ l.reverse :=
      List.dropWhile_suffix _
    have := List.reverse_prefix.mpr hsuf
    simpa using this
  · -- everything kept is ≥ x
    intro p hp
    unfold popBack at hp
    rw [List.mem_reverse] at hp
    -- the head of the dropWhile result fails the test, everything else is larger
    generalize hd : l.reverse.dropWhile (fun p => decide (p.1 < x)) = d at hp
    cases d with
    | nil => simp at hp
    | cons a d' =>
      have ha : ¬ (a.1 < x) := by
        have := List.head_dropWhile_not (fun p : α × Nat => decide (p.1 < x)) (l := l.reverse)
          (by rw [hd]; simp)
        simpa [hd] using this
      have hsuf : (a :: d') <:+ l.reverse := by rw [← hd]; exact List.dropWhile_suffix _
      have hpw : (a :: d').Pairwise (fun a b => a.1 ≤ b.1) := by
        have : l.reverse.Pairwise (fun a b => a.1 ≤ b.1) := List.pairwise_reverse.mpr hmono
        exact this.sublist hsuf.sublist
      rcases List.mem_cons.mp hp with rfl | hp'
      · exact not_lt.mp ha
      · exact le_trans (not_lt.mp ha) ((List.pairwise_cons.mp hpw).1 p hp')
  · -- everything dropped is < x
    intro p hp
    have hsplit := List.takeWhile_append_dropWhile (p := fun p : α × Nat => decide (p.1 < x))
      (l := l.reverse)
    have hp' : p ∈ l.reverse := List.mem_reverse.mpr hp
    rw [← hsplit] at hp'
    rcases List.mem_append.mp hp' with h | h
    · right
      have := List.mem_takeWhile_imp h
      simpa using this
    · left
      unfold popBack
      exact List.mem_reverse.mpr h

theorem length_le_of_increasing (l : List Nat) (lo hi : Nat) (hs : l.Pairwise (· < ·))
    (hb : ∀ a ∈ l, lo ≤ a ∧ a < hi) : l.length ≤ hi - lo := by
  induction l generalizing lo with
  | nil => simp
  | cons a l ih =>
    rw [List.pairwise_cons] at hs
    have := ih (a + 1) hs.2 (fun b hb' => ⟨hs.1 b hb', (hb b (by simp [hb'])).2⟩)
    have := hb a (by simp)
    simp only [List.length_cons]
    omega

/-! ### invariant, unbounded counter -/

/-- the most recent `min k N` samples -/
def window (N : Nat) (xs : List α) : List α := xs.drop (xs.length - N)

def IsMax [LinearOrder α] (y : α) (w : List α) : Prop := y ∈ w ∧ ∀ z ∈ w, z ≤ y

abbrev gtMax [LinearOrder α] : α → α → Bool := fun a b => decide (b < a)

structure InvU [LinearOrder α] (N : Nat) (s : DS α) (xs : List α) : Prop where
  time : s.time = xs.length
  incr : s.taps.Pairwise (fun a b => a.2 < b.2)
  mono : s.taps.Pairwise (fun a b => b.1 ≤ a.1)
  tap : ∀ p ∈ s.taps, p.2 < s.time ∧ s.time ≤ p.2 + N ∧ xs[p.2]? = some p.1
  dom : ∀ j w, xs[j]? = some w → s.time ≤ j + N → ∃ p ∈ s.taps, j ≤ p.2 ∧ w ≤ p.1

theorem invU_init [LinearOrder α] (N : Nat) : InvU N (init : DS α) [] :=
  ⟨rfl, by simp [init], by simp [init], by simp [init], by simp⟩

theorem mem_window (N : Nat) (xs : List α) (j : Nat) (w : α) (h : xs[j]? = some w)
    (hj : xs.length ≤ j + N) : w ∈ window N xs := by
  unfold window
  apply List.mem_of_getElem? (i := j - (xs.length - N))
  rw [List.getElem?_drop]
  have : xs.length - N + (j - (xs.length - N)) = j := by omega
  rw [this, h]

theorem of_mem_window (N : Nat) (xs : List α) (w : α) (h : w ∈ window N xs) :
    ∃ j, xs[j]? = some w ∧ xs.length ≤ j + N := by
  unfold window at h
  obtain ⟨i, hi⟩ := List.getElem?_of_mem h
  rw [List.getElem?_drop] at hi
  refine ⟨xs.length - N + i, hi, by omega⟩

theorem stepU_correct [LinearOrder α] {N : Nat} (hN : 1 ≤ N) {s : DS α} {xs : List α}
    (h : InvU N s xs) (x : α) :
    ∃ s' y, step gtMax N none s x = some (s', y) ∧ InvU N s' (xs ++ [x]) ∧
      IsMax y (window N (xs ++ [x])) ∧
      -- shape facts reused by the bounded layer
      s'.time = s.time + 1 ∧ (∀ p ∈ s'.taps, s.time < p.2 + N) := by
  obtain ⟨htime, hincr, hmono, htap, hdom⟩ := h
  obtain ⟨r1, hr1, hsuf1, hlt1, hkeep1⟩ :=
    expire_spec N s.time s.taps (fun p hp => Nat.le_of_lt (htap p hp).1) hincr
  obtain ⟨r2, hr2, hpre2, hge2, hdrop2⟩ :=
    popBack_spec x r1 (hmono.sublist hsuf1.sublist)
  have hsub2 : r2.Sublist s.taps := hpre2.sublist.trans hsuf1.sublist
  have hmem2 : ∀ p ∈ r2, p ∈ s.taps := fun p hp => hsub2.subset hp
  have hmem21 : ∀ p ∈ r2, p ∈ r1 := fun p hp => hpre2.sublist.subset hp
  -- the deque is not full
  have hlen : r2.length ≤ N - 1 := by
    have hinc : (r2.map (·.2)).Pairwise (· < ·) := by
      rw [List.pairwise_map]; exact hincr.sublist hsub2
    have := length_le_of_increasing (r2.map (·.2)) (s.time + 1 - N) s.time hinc (by
      intro a ha
      obtain ⟨p, hp, rfl⟩ := List.mem_map.mp ha
      have h1 := hlt1 p (hmem21 p hp)
      have h2 := (htap p (hmem2 p hp)).1
      omega)
    simp at this; omega
  have hpush : pushBack N r2 (x, s.time) = r2 ++ [(x, s.time)] := by
    unfold pushBack
    rw [if_neg (by omega), if_neg (by omega)]
  -- the new front
  have hhead : ∃ p0, (r2 ++ [(x, s.time)]).head? = some p0 ∧ p0 ∈ r2 ++ [(x, s.time)] := by
    cases r2 with
    | nil => exact ⟨(x, s.time), rfl, by simp⟩
    | cons a r => exact ⟨a, rfl, by simp⟩
  obtain ⟨p0, hp0, hp0mem⟩ := hhead
  have hstep : step gtMax N none s x =
      some ({ time := s.time + 1, taps := r2 ++ [(x, s.time)] }, p0.1) := by
    simp [step, hr1, hr2, hpush, hp0]
  -- the new invariant
  have hinv : InvU N { time := s.time + 1, taps := r2 ++ [(x, s.time)] } (xs ++ [x]) := by
    refine ⟨by simp [htime], ?_, ?_, ?_, ?_⟩
    · rw [List.pairwise_append]
      refine ⟨hincr.sublist hsub2, by simp, ?_⟩
      intro a ha b hb
      simp only [List.mem_singleton] at hb
      subst hb
      exact (htap a (hmem2 a ha)).1
    · rw [List.pairwise_append]
      refine ⟨hmono.sublist hsub2, by simp, ?_⟩
      intro a ha b hb
      simp only [List.mem_singleton] at hb
      subst hb
      exact hge2 a ha
    · intro p hp
      rcases List.mem_append.mp hp with hp | hp
      · have h1 := hlt1 p (hmem21 p hp)
        obtain ⟨h2, _, h4⟩ := htap p (hmem2 p hp)
        refine ⟨by simp; omega, by simp; omega, ?_⟩
        rw [List.getElem?_append_left (by omega)]; exact h4
      · simp only [List.mem_singleton] at hp
        subst hp
        refine ⟨by simp, by simp; omega, ?_⟩
        simp [htime]
    · intro j w hj hjN
      simp only at hjN
      by_cases hjt : j < xs.length
      · rw [List.getElem?_append_left hjt] at hj
        obtain ⟨p, hp, hjp, hwp⟩ := hdom j w hj (by omega)
        have hp1 : p ∈ r1 := hkeep1 p hp (by have := (htap p hp).1; omega)
        rcases hdrop2 p hp1 with hp2 | hlt
        · exact ⟨p, List.mem_append_left _ hp2, hjp, hwp⟩
        · refine ⟨(x, s.time), by simp, by simp; omega, le_of_lt (lt_of_le_of_lt hwp hlt)⟩
      · have hlen' : j < (xs ++ [x]).length := (List.getElem?_eq_some_iff.mp hj).1
        simp at hlen'
        have hjeq : j = xs.length := by omega
        subst hjeq
        simp at hj
        subst hj
        exact ⟨(x, s.time), by simp, by simp [htime], le_refl _⟩
  refine ⟨_, p0.1, hstep, hinv, ?_, rfl, ?_⟩
  · -- the front is the window maximum
    obtain ⟨h1, h2, h3⟩ := hinv.tap p0 hp0mem
    refine ⟨mem_window N _ p0.2 p0.1 h3 (by simp at h2 ⊢; omega), ?_⟩
    intro z hz
    obtain ⟨j, hj, hjN⟩ := of_mem_window N _ z hz
    obtain ⟨p, hp, _, hzp⟩ := hinv.dom j z hj (by simp at hjN ⊢; omega)
    -- the front dominates every tap
    have hfront : p.1 ≤ p0.1 := by
      have hm := hinv.mono
      simp only at hm hp
      generalize r2 ++ [(x, s.time)] = l at hm hp hp0
      cases l with
      | nil => simp at hp
      | cons a l =>
        simp at hp0; subst hp0
        rcases List.mem_cons.mp hp with rfl | hp'
        · exact le_refl _
        · exact (List.pairwise_cons.mp hm).1 p hp'
    exact le_trans hzp hfront
  · intro p hp
    simp only at hp
    rcases List.mem_append.mp hp with hp | hp
    · have := hlt1 p (hmem21 p hp); omega
    · simp only [List.mem_singleton] at hp
      subst hp; simp; omega

end SignaloModel.Deque
