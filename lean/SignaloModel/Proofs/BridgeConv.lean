import SignaloModel.Proofs.RunLemmas
import SignaloModel.Proofs.ConvProofs
/-!
C05 at the level the driver executes: `Registry.St.run` of the convolution and delay filters against
`Spec.firAt` / `Spec.delayAt` of the input history.
-/
namespace SignaloModel.Registry
open SignaloModel SignaloModel.Conv SignaloModel.Fir

variable {R : Type} [CommRing R]

/-- `convL c x n` reads `x` only at indices `≤ n` -/
theorem convL_congr (c : List R) (x y : Nat → R) (n : Nat) (h : ∀ i, i ≤ n → x i = y i) :
    convL c x n = convL c y n := by
  induction c generalizing n with
  | nil => rfl
  | cons a c ih =>
    simp only [convL]
    rw [h n (Nat.le_refl n), ih (n - 1) (fun i hi => h i (by omega))]

/-- the samples `X 0, …, X n` as a list -/
def samples (X : Nat → R) (n : Nat) : List R := (List.range (n + 1)).map X

omit [CommRing R] in
theorem samples_succ (X : Nat → R) (n : Nat) : samples X (n + 1) = samples X n ++ [X (n + 1)] := by
  simp [samples, List.range_succ]

/-- the tap ring after the samples `X 0 … X n` -/
theorem conv_state (c : List R) (hN : 1 ≤ c.length) (X : Nat → R) (n : Nat) :
    (stepRun (convStep c.length c) ([] : List R) (samples X n)).1 = tapsAt c.length X n := by
  induction n with
  | zero =>
    have hs : samples X 0 = [X 0] := by simp [samples]
    rw [hs]
    simp only [stepRun, convStep]
    exact (taps_invariant c.length hN X 0).2
  | succ n ih =>
    rw [samples_succ, stepRun_append, ih]
    simp only [stepRun, convStep]
    exact (taps_invariant c.length hN X n).1

theorem list_eq_samples (xs : List R) (hx : xs ≠ []) :
    xs = samples (fun i => xs.getD i 0) (xs.length - 1) := by
  apply List.ext_getElem
  · simp [samples]; have := List.length_pos_iff.mpr hx; omega
  · intro i h1 h2
    simp [samples, List.getD, List.getElem?_eq_getElem h1]

variable [Div R] [LT R] [DecidableLT R] [BEq R] [Median.POrd R] [Classify.Cmp R]

/-- **C05 (convolution) at registry level**: for every kernel `c` (`N = |c| ≥ 1`) and every input
sequence over a commutative ring, the `k`-th output is `Σ_j c[j]·x[k-j]` with samples before the first
equal to the first -/
theorem conv_registry_correct (c : List R) (hN : 1 ≤ c.length) (xs : List R) :
    ∃ s' ys, (Cfg.convolve c).init.run (sing xs) = some (s', sing ys) ∧ ys.length = xs.length ∧
      ∀ k x, xs[k]? = some x → ys[k]? = some (Spec.firAt c (xs.take (k + 1))) := by
  have hrun := run_of_step (St.convolve c) (convStep c.length c) (by intro s x; simp [St.filter]) [] xs
  refine ⟨_, _, hrun, stepRun_length _ _ _, ?_⟩
  intro k x hx
  rw [stepRun_getElem _ _ _ k x hx]
  have hklt : k < xs.length := by
    rcases Nat.lt_or_ge k xs.length with h | h
    · exact h
    · simp [List.getElem?_eq_none h] at hx
  let X : Nat → R := fun i => xs.getD i 0
  have hXk : X k = x := by simp [X, List.getD, hx]
  have hfir : Spec.firAt c (xs.take (k + 1)) = convL c X k := by
    simp only [Spec.firAt, List.length_take, Nat.min_eq_left (by omega : k + 1 ≤ xs.length),
      Nat.add_sub_cancel]
    apply convL_congr
    intro i hi
    simp only [Spec.signal, X, List.getD]
    rw [List.getElem?_take_of_lt (by omega)]
    have hi' : i < xs.length := by omega
    simp [List.getElem?_eq_getElem hi']
  rw [hfir]
  cases k with
  | zero =>
    simp only [List.take_zero, stepRun]
    rw [← hXk]
    exact congrArg some (conv_closed_form c hN X 0).2
  | succ k =>
    have hpre : xs.take (k + 1) = samples X k := by
      apply List.ext_getElem
      · simp [samples]; omega
      · intro i h1 h2
        simp only [List.length_take] at h1
        have hi' : i < xs.length := by omega
        simp [samples, X, List.getD, List.getElem?_eq_getElem hi']
    rw [hpre, conv_state c hN X k, ← hXk]
    exact congrArg some (conv_closed_form c hN X k).1

/-- `Delay::filter` as a partial step on the tap ring -/
def delayStepO (N : Nat) (t : List R) (x : R) : Option (List R × R) :=
  match (delayStep N t x).2 with
  | some y => some ((delayStep N t x).1, y)
  | none => none

omit [Div R] [LT R] [DecidableLT R] [BEq R] [Median.POrd R] [Classify.Cmp R] in
theorem delay_state (N : Nat) (hN : 1 ≤ N) (X : Nat → R) (n : Nat) :
    stepRunO (delayStepO N) ([] : List R) (samples X n)
      = some (tapsAt N X n, (List.range (n + 1)).map (fun i => X (i - N))) := by
  induction n with
  | zero =>
    have h0 := (delay_closed_form N hN X 0).2
    have ht := (taps_invariant N hN X 0).2
    have hs : samples X 0 = [X 0] := by simp [samples]
    rw [hs]
    simp only [stepRunO, delayStepO, h0]
    simp only [delayStep]
    rw [ht]
    simp
  | succ n ih =>
    rw [samples_succ, stepRunO_snoc, ih]
    have h1 := (delay_closed_form N hN X n).1
    have h2 := (taps_invariant N hN X n).1
    simp only [Option.bind_some, delayStepO, h1, Option.map_some]
    simp only [delayStep]
    rw [h2]
    simp [List.range_succ]

/-- **C05 (delay) at registry level**: for every length `N ≥ 1` the `k`-th output is `x[max(k-N, 0)]`
(for `N = 0` the filter is the identity: `delay_zero`) -/
theorem delay_registry_correct (N : Nat) (hN : 1 ≤ N) (xs : List R) :
    ∃ s' ys, (Cfg.delay N : Cfg R).init.run (sing xs) = some (s', sing ys) ∧ ys.length = xs.length ∧
      ∀ k, k < xs.length → ys[k]? = Spec.delayAt N (xs.take (k + 1)) := by
  have hrun := run_of_stepO (St.delay N) (delayStepO N)
    (by intro s x; simp only [St.filter, delayStepO]; cases (delayStep N s x).2 <;> simp) ([] : List R) xs
  by_cases hx : xs = []
  · subst hx; exact ⟨_, [], rfl, rfl, by simp⟩
  · have hs := list_eq_samples xs hx
    have hpos := List.length_pos_iff.mpr hx
    rw [hs, delay_state N hN] at hrun
    rw [← hs] at hrun
    refine ⟨_, _, hrun, by simp; omega, ?_⟩
    intro k hk
    simp only [Spec.delayAt, List.length_take, Nat.min_eq_left (by omega : k + 1 ≤ xs.length),
      Nat.add_sub_cancel]
    have hk' : k < xs.length - 1 + 1 := by omega
    rw [List.getElem?_map, List.getElem?_range hk']
    simp only [Option.map_some, List.getD]
    rw [List.getElem?_take_of_lt (by omega)]
    have : k - N < xs.length := by omega
    simp [List.getElem?_eq_getElem this]

omit [Div R] [LT R] [DecidableLT R] [BEq R] [Median.POrd R] [Classify.Cmp R] in
/-- the specification's convolution of a prefix, as a convolution of the whole (zero-extended) signal -/
theorem firAt_take (c xs : List R) (k : Nat) (hk : k < xs.length) :
    Spec.firAt c (xs.take (k + 1)) = convL c (fun i => xs.getD i 0) k := by
  simp only [Spec.firAt, List.length_take, Nat.min_eq_left (by omega : k + 1 ≤ xs.length), Nat.add_sub_cancel]
  apply convL_congr
  intro i hi
  simp only [Spec.signal, List.getD]
  rw [List.getElem?_take_of_lt (by omega)]
  have hi' : i < xs.length := by omega
  simp [List.getElem?_eq_getElem hi']


end SignaloModel.Registry

#print axioms SignaloModel.Registry.conv_registry_correct
#print axioms SignaloModel.Registry.delay_registry_correct
