import SignaloModel.Proofs.BridgeConv
/-!
C05 / C19 / C20: a tap ring filled by hand to the brim (through the public state and `from_guts`) IS a state that a
history from `Default` reaches — the one that fed exactly those taps, in arrival order. So everything proved about
histories (the FIR formula, the delay formula) applies to a filter started from such a state; this is what lets the
correspondence check assert the history-based clauses after a full-ring injection.
-/
namespace SignaloModel.Registry
open SignaloModel SignaloModel.Conv

variable {R : Type} [CommRing R]

/-- the tap ring after exactly `N` samples is those samples, oldest first -/
theorem conv_full_ring (c : List R) (hN : 1 ≤ c.length) (ts : List R) (hl : ts.length = c.length) :
    (stepRun (convStep c.length c) ([] : List R) ts).1 = ts := by
  have hne : ts ≠ [] := by intro h; rw [h] at hl; simp at hl; omega
  have hs := list_eq_samples ts hne
  rw [hs, conv_state c hN]
  apply List.ext_getElem
  · simp [tapsAt, samples]; omega
  · intro i h1 h2
    simp only [tapsAt, List.length_map, List.length_range] at h1
    simp only [tapsAt, samples, List.getElem_map, List.getElem_range]
    have : ts.length - 1 - (c.length - 1 - i) = i := by omega
    rw [this]

variable [Div R] [LT R] [DecidableLT R] [BEq R] [Median.POrd R] [Classify.Cmp R]

/-- **full ring = reached state (convolution)**: constructing the filter, feeding the `N` taps, lands in the state
`convolve c taps` — the state `from_guts` builds from a ring holding those taps -/
theorem conv_inject_full (c : List R) (hN : 1 ≤ c.length) (ts : List R) (hl : ts.length = c.length) :
    ∃ ys, (Cfg.convolve c).init.run (sing ts) = some (St.convolve c ts, ys) := by
  have hrun := run_of_step (St.convolve c) (convStep c.length c) (by intro s x; simp [St.filter]) [] ts
  rw [conv_full_ring c hN ts hl] at hrun
  exact ⟨_, hrun⟩

/-- … hence a filter started from a hand-filled full ring answers every continuation `zs` exactly as the filter that
was fed `taps ++ zs` from the start answers its last `|zs|` samples: the FIR formula over the whole history -/
theorem conv_inject_full_run (c : List R) (hN : 1 ≤ c.length) (ts zs : List R) (hl : ts.length = c.length) :
    ∃ s' ys, (St.convolve c ts).run (sing zs) = some (s', sing ys) ∧ ys.length = zs.length ∧
      ∀ k z, zs[k]? = some z → ys[k]? = some (Spec.firAt c ((ts ++ zs).take (ts.length + k + 1))) := by
  obtain ⟨s', ws, hrun, hlen, hspec⟩ := conv_registry_correct c hN (ts ++ zs)
  obtain ⟨y0, h0⟩ := conv_inject_full c hN ts hl
  have hsing : sing (ts ++ zs) = sing ts ++ sing zs := by simp [sing]
  rw [hsing, run_append, h0] at hrun
  simp only [Option.bind_some] at hrun
  cases hz : (St.convolve c ts).run (sing zs) with
  | none => rw [hz] at hrun; simp at hrun
  | some r =>
    rw [hz] at hrun
    simp only [Option.map_some, Option.some.injEq, Prod.mk.injEq] at hrun
    obtain ⟨_, hy⟩ := hrun
    obtain ⟨s0, w0, hrun0, hlen0, _⟩ := conv_registry_correct c hN ts
    rw [h0] at hrun0
    simp only [Option.some.injEq, Prod.mk.injEq] at hrun0
    have hy0 : y0.length = ts.length := by rw [hrun0.2]; simp [sing, hlen0]
    have hr : r.2 = sing (ws.drop ts.length) := by
      have h1 : (y0 ++ r.2).drop y0.length = r.2 := List.drop_left' rfl
      rw [hy, hy0] at h1
      rw [← h1]; simp [sing, List.map_drop]
    refine ⟨r.1, ws.drop ts.length, ?_, ?_, ?_⟩
    · rw [← hr]
    · simp [hlen]
    · intro k z hk
      have hk' : (ts ++ zs)[ts.length + k]? = some z := by
        rw [List.getElem?_append_right (by omega)]; simpa using hk
      have := hspec (ts.length + k) z hk'
      rw [List.getElem?_drop]; exact this

/-- **full ring = reached state (delay)**: feeding the `N` taps to a new delay line lands in the state `delay N taps` -/
theorem delay_inject_full (N : Nat) (hN : 1 ≤ N) (ts : List R) (hl : ts.length = N) :
    ∃ ys, (Cfg.delay N : Cfg R).init.run (sing ts) = some (St.delay N ts, ys) := by
  have hrun := run_of_stepO (St.delay N) (delayStepO N)
    (by intro s x; simp only [St.filter, delayStepO]; cases (delayStep N s x).2 <;> simp) ([] : List R) ts
  have hne : ts ≠ [] := by intro h; rw [h] at hl; simp at hl; omega
  have hs := list_eq_samples ts hne
  rw [hs, delay_state N hN] at hrun
  rw [← hs] at hrun
  have htaps : tapsAt N (fun i => ts.getD i 0) (ts.length - 1) = ts := by
    apply List.ext_getElem
    · simp [tapsAt]; omega
    · intro i h1 h2
      simp only [tapsAt, List.length_map, List.length_range] at h1
      simp only [tapsAt, List.getElem_map, List.getElem_range]
      have : ts.length - 1 - (N - 1 - i) = i := by omega
      rw [this]; simp [List.getD, List.getElem?_eq_getElem h2]
  rw [htaps] at hrun
  exact ⟨_, hrun⟩

end SignaloModel.Registry
