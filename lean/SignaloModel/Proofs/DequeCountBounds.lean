import SignaloModel.Proofs.DequeCountMin
set_option linter.unusedSectionVars false
/-!
C19 (moving bounds): the closed form of the owned count — the two deques side by side.
-/
namespace SignaloModel.Registry
open SignaloModel SignaloModel.Deque

variable {α : Type} [LinearOrder α] [Add α] [Sub α] [Mul α] [Div α] [Neg α] [OfNat α 0] [OfNat α 1]
  [BEq α] [Median.POrd α]

open Classical in
/-- **C19 (moving bounds) at registry level, closed form**: suffix minima plus suffix maxima of the window -/
theorem owned_bounds_registry_count (N : Nat) (hN : 1 ≤ N) (hM : N + 1 ≤ usizeMax) (xs : List α) :
    ∃ s' ys, (Cfg.bounds N : Cfg α).init.run (sing xs) = some (s', ys) ∧
      s'.owned = ((Finset.range xs.length).filter (fun j => ∃ w, SuffixMinAt N xs j w)).card +
        ((Finset.range xs.length).filter (fun j => ∃ w, SuffixMaxAt N xs j w)).card := by
  obtain ⟨rmax, hmax, hbmax⟩ : ∃ r : DS α × List α,
      stepRunO (fun s x => Deque.step gtB N (some usizeMax) s x) (Deque.init : DS α) xs = some r ∧
      r.1.taps.length = ((Finset.range xs.length).filter (fun j => ∃ w, SuffixMaxAt N xs j w)).card :=
    taps_count_run (α := α) hN hM xs
  obtain ⟨rmin, hmin, hbmin⟩ : ∃ r : DS α × List α,
      stepRunO (fun s x => Deque.step ltB N (some usizeMax) s x) (Deque.init : DS α) xs = some r ∧
      r.1.taps.length = ((Finset.range xs.length).filter (fun j => ∃ w, SuffixMinAt N xs j w)).card := by
    obtain ⟨r, hr, hb⟩ := taps_count_run (α := αᵒᵈ) hN hM xs
    exact ⟨r, hr, hb⟩
  have h := bounds_run (α := α) N xs Deque.init Deque.init
  rw [hmin, hmax] at h
  refine ⟨St.bounds N rmin.1 rmax.1, _, by rw [Cfg.init, h]; rfl, ?_⟩
  simp only [St.owned]
  omega

end SignaloModel.Registry

#print axioms SignaloModel.Registry.owned_bounds_registry_count
