import SignaloModel.Model.DiffIntVar
import Mathlib.Tactic.Ring
import Mathlib.Tactic.Abel
import Mathlib.Tactic.Linarith
import Mathlib.Tactic.NormNum
import Mathlib.Algebra.Order.Ring.Abs
import Mathlib.Algebra.Order.Field.Basic
/-! Proofs for C15 and C16. -/
namespace SignaloModel.DIV

section Group
variable {G : Type} [CommRing G] [LinearOrder G]

/-- integrating the differentiated signal gives `x[n] - x[0]` -/
theorem int_diff_aux (x0 p : G) (ys : List G) :
    intRun (p - x0) (diffRun (some p) ys) = ys.map (· - x0) := by
  induction ys generalizing p with
  | nil => rfl
  | cons y ys ih =>
    simp only [diffRun, intRun, List.map_cons]
    have : p - x0 + (y - p) = y - x0 := by ring
    rw [this, ih y]

theorem int_diff (x0 : G) (xs : List G) :
    intRun 0 (diffRun none (x0 :: xs)) = (x0 :: xs).map (· - x0) := by
  simp only [diffRun, intRun, List.map_cons]
  have h0 : (0 : G) + 0 = x0 - x0 := by ring
  rw [h0, int_diff_aux x0 x0 xs]

/-- differentiating the integrated signal gives the signal back (after the first sample) -/
theorem diff_int_aux (acc : G) (ys : List G) :
    diffRun (some acc) (intRun acc ys) = ys := by
  induction ys generalizing acc with
  | nil => rfl
  | cons y ys ih =>
    simp only [intRun, diffRun]
    rw [ih (acc + y)]
    congr 1; ring

theorem diff_int (x0 : G) (xs : List G) :
    diffRun none (intRun 0 (x0 :: xs)) = 0 :: xs := by
  simp only [intRun, diffRun]
  rw [diff_int_aux]

end Group

section Var
variable {K : Type} [Field K] [LinearOrder K] [IsStrictOrderedRing K]

theorem absG_eq (x : K) : absG x = |x| := by
  unfold absG
  split
  · next h => rw [abs_of_neg h]
  · next h => rw [abs_of_nonneg (not_lt.mp h)]

theorem ema_nonneg (w : K) (hw0 : 0 ≤ w) (hw1 : w ≤ 1) (s : Option K) (x : K)
    (hs : ∀ m, s = some m → 0 ≤ m) (hx : 0 ≤ x) : 0 ≤ Smooth.emaStep w s x := by
  cases s with
  | none => exact hx
  | some m =>
    have hm := hs m rfl
    simp only [Smooth.emaStep]
    nlinarith

/-- C16, exponential: the variance output is never negative -/
theorem emv_var_nonneg (w : K) (hw0 : 0 ≤ w) (hw1 : w ≤ 1) (xs : List K) (s : EMV K)
    (hs : ∀ m, s.var = some m → 0 ≤ m) :
    ∀ p ∈ emvRun w s xs, 0 ≤ p.2 := by
  induction xs generalizing s with
  | nil => simp [emvRun]
  | cons x xs ih =>
    have hv : 0 ≤ (emvStep w s x).2.2 := by
      simp only [emvStep]
      apply ema_nonneg w hw0 hw1 _ _ hs
      rw [absG_eq, absG_eq]
      exact mul_nonneg (abs_nonneg _) (abs_nonneg _)
    intro p hp
    simp only [emvRun, List.mem_cons] at hp
    rcases hp with rfl | hp
    · exact hv
    · exact ih _ (by intro m hm; simp only [emvStep, Option.some.injEq] at hm; rw [← hm]; exact hv) p hp

/-- C16, exponential: adding an offset shifts the mean and leaves the variance unchanged -/
theorem emv_offset (w c : K) (xs : List K) (s s' : EMV K)
    (hm : s'.mean = s.mean.map (· + c)) (hv : s'.var = s.var) :
    emvRun w s' (xs.map (· + c)) = (emvRun w s xs).map (fun p => (p.1 + c, p.2)) := by
  induction xs generalizing s s' with
  | nil => rfl
  | cons x xs ih =>
    have hstep : (emvStep w s' (x + c)).2 = ((emvStep w s x).2.1 + c, (emvStep w s x).2.2) ∧
        (emvStep w s' (x + c)).1.mean = (emvStep w s x).1.mean.map (· + c) ∧
        (emvStep w s' (x + c)).1.var = (emvStep w s x).1.var := by
      cases hsm : s.mean with
      | none =>
        rw [hsm] at hm
        simp only [Option.map_none] at hm
        simp [emvStep, hm, hsm, hv, Smooth.emaStep]
      | some m =>
        rw [hsm] at hm
        simp only [Option.map_some] at hm
        have e1 : x + c - (m + c) = x - m := by ring
        have e2 : m + c + (x + c - (m + c)) * w = m + (x - m) * w + c := by ring
        have e3 : x + c - (m + (x - m) * w + c) = x - (m + (x - m) * w) := by ring
        simp [emvStep, hm, hsm, hv, Smooth.emaStep, e1, e2, e3]
        constructor <;> ring
    obtain ⟨h1, h2, h3⟩ := hstep
    simp only [List.map_cons, emvRun, h1]
    rw [ih _ _ h2 h3]

end Var

/-! ### C16, sliding variant: the offset clause is false of the code (known finding) -/

/-- variance outputs of the sliding filter (width 3, repaired `Mean`) on `1,2,4`, and on the same
signal offset by 100: the third values differ -/
example :
    ((smvRun 3 (Sinks.smInit, Sinks.smInit) ([1, 2, 4] : List Rat)).map (·.2),
     (smvRun 3 (Sinks.smInit, Sinks.smInit) ([101, 102, 104] : List Rat)).map (·.2))
      = ([0, 1/4, 13/18], [0, 1/4, 331/6]) := by
  simp only [smvRun, smvStep, Sinks.smStep, Sinks.smInit, absG, List.map]
  norm_num

/-- while a constant signal has zero variance once `Mean` is repaired -/
example : (smvRun 3 (Sinks.smInit, Sinks.smInit) ([5, 5, 5, 5, 5] : List Rat)).map (·.2)
    = [0, 0, 0, 0, 0] := by
  simp only [smvRun, smvStep, Sinks.smStep, Sinks.smInit, absG, List.map]
  norm_num

end SignaloModel.DIV

#print axioms SignaloModel.DIV.emv_offset
#print axioms SignaloModel.DIV.int_diff
