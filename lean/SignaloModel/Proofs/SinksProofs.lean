import SignaloModel.Model.Sinks
import Mathlib.Tactic.Ring
import Mathlib.Tactic.FieldSimp
import Mathlib.Tactic.Linarith
import Mathlib.Algebra.Order.Field.Basic
import Mathlib.Algebra.BigOperators.Group.List.Basic
/-! Proofs for C11 (Welford) and C03 (sliding mean). -/
namespace SignaloModel.Sinks

variable {K : Type} [Field K] [CharZero K]

/-- batch statistics -/
def bmean (xs : List K) : K := xs.sum / xs.length
def bm2 (xs : List K) : K := (xs.map (fun x => (x - bmean xs) ^ 2)).sum

/-- Welford's update as an algebraic identity on (n, mean, Σx, Σx²)-free form:
we carry the invariant `count = n`, `mean·n = Σx`, `m2 = Σx² - n·mean²`. -/
structure WInv (s : Option (MV K)) (xs : List K) : Prop where
  none_iff : s = none ↔ xs = []
  ok : ∀ st, s = some st →
    st.count = (xs.length : K) ∧ st.mean * xs.length = xs.sum ∧
    st.m2 = (xs.map (fun x => x ^ 2)).sum - xs.length * st.mean ^ 2

theorem winv_step (s : Option (MV K)) (xs : List K) (x : K) (h : WInv s xs) :
    WInv (some (mvStep s x)) (xs ++ [x]) := by
  refine ⟨by simp, ?_⟩
  intro st hst
  have hst' : st = mvStep s x := (Option.some.inj hst).symm
  subst hst'
  have hn : ((xs.length : K) + 1) ≠ 0 := by
    have : ((xs.length + 1 : ℕ) : K) ≠ 0 := Nat.cast_ne_zero.mpr (by omega)
    simpa using this
  cases s with
  | none =>
    have hx : xs = [] := h.none_iff.mp rfl
    subst hx
    simp [mvStep]
  | some st0 =>
    obtain ⟨hc, hm, hv⟩ := h.ok st0 rfl
    simp only [mvStep, List.length_append, List.length_singleton, Nat.cast_add, Nat.cast_one,
      List.sum_append, List.sum_singleton, List.map_append, List.map_cons, List.map_nil, hc]
    refine ⟨trivial, ?_, ?_⟩
    · field_simp
      rw [← hm]; ring
    · rw [hv]
      field_simp
      ring

end SignaloModel.Sinks
