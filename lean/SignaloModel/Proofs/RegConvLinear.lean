import SignaloModel.Proofs.BridgeConv
set_option linter.unusedSectionVars false
/-!
C05 at registry level: the convolution filter is linear — the run on `a·x + b·y` is `a·(run on x) + b·(run on y)`,
for every kernel, over any commutative ring.
-/
namespace SignaloModel.Registry
open SignaloModel SignaloModel.Conv SignaloModel.Fir

variable {R : Type} [CommRing R] [Div R] [LT R] [DecidableLT R] [BEq R] [Median.POrd R] [Classify.Cmp R]

theorem getD_zipWith_lin (a b : R) (xs ys : List R) (hlen : xs.length = ys.length) (i : Nat) :
    (List.zipWith (fun x y => a * x + b * y) xs ys).getD i 0 = a * xs.getD i 0 + b * ys.getD i 0 := by
  simp only [List.getD, List.getElem?_zipWith]
  by_cases hi : i < xs.length
  · have hi' : i < ys.length := by omega
    simp [List.getElem?_eq_getElem hi, List.getElem?_eq_getElem hi']
  · have h1 : xs[i]? = none := List.getElem?_eq_none (by omega)
    have h2 : ys[i]? = none := List.getElem?_eq_none (by omega)
    simp [h1, h2]

/-- **C05 at registry level, superposition** -/
theorem conv_registry_linear (c : List R) (hN : 1 ≤ c.length) (a b : R) (xs ys : List R)
    (hlen : xs.length = ys.length) :
    ∃ s sx sy ox oy,
      (Cfg.convolve c).init.run (sing xs) = some (sx, sing ox) ∧
      (Cfg.convolve c).init.run (sing ys) = some (sy, sing oy) ∧
      (Cfg.convolve c).init.run (sing (List.zipWith (fun x y => a * x + b * y) xs ys)) =
        some (s, sing (List.zipWith (fun p q => a * p + b * q) ox oy)) := by
  obtain ⟨sx, ox, hx, hlx, hkx⟩ := conv_registry_correct c hN xs
  obtain ⟨sy, oy, hy, hly, hky⟩ := conv_registry_correct c hN ys
  obtain ⟨s, oz, hz, hlz, hkz⟩ := conv_registry_correct c hN (List.zipWith (fun x y => a * x + b * y) xs ys)
  refine ⟨s, sx, sy, ox, oy, hx, hy, ?_⟩
  rw [hz]
  congr 3
  apply List.ext_getElem
  · simp [hlz, hlx, hly, hlen]
  · intro k h1 h2
    have hkx' : k < xs.length := by simp [hlz] at h1; omega
    have hky' : k < ys.length := by omega
    have hkz' : k < (List.zipWith (fun x y => a * x + b * y) xs ys).length := by simp; omega
    have e1 := hkx k _ (List.getElem?_eq_getElem hkx')
    have e2 := hky k _ (List.getElem?_eq_getElem hky')
    have e3 := hkz k _ (List.getElem?_eq_getElem hkz')
    rw [List.getElem?_eq_getElem h1] at e3
    have hox : k < ox.length := by omega
    have hoy : k < oy.length := by omega
    rw [List.getElem?_eq_getElem hox] at e1
    rw [List.getElem?_eq_getElem hoy] at e2
    simp only [Option.some.injEq] at e1 e2 e3
    rw [List.getElem_zipWith, e1, e2, e3, firAt_take _ _ k hkx', firAt_take _ _ k hky', firAt_take _ _ k hkz',
      ← convL_linear]
    apply convL_congr
    intro i _
    exact getD_zipWith_lin a b xs ys hlen i

end SignaloModel.Registry
#print axioms SignaloModel.Registry.conv_registry_linear
