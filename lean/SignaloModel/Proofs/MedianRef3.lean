import SignaloModel.Proofs.MedianRef2
import SignaloModel.Proofs.MedianStep
/-! Model: `L ⊑ A`, part 3: simulation of the walk. -/
namespace SignaloModel.MedianL
open SignaloModel.Median (POrd valAt Loop Ins curPosOf)

variable {α : Type}

theorem succIdx_eq_mod (n k : Nat) (hk : k < n) : succIdx n k = (k + 1) % n := by
  unfold succIdx
  split
  · next h => rw [h, Nat.mod_self]
  · rw [Nat.mod_eq_of_lt (by omega)]

theorem predIdx_eq_mod (n k : Nat) (hk : k < n) : predIdx n k = (k + n - 1) % n := by
  unfold predIdx
  split
  · next h => subst h; rw [Nat.zero_add, Nat.mod_eq_of_lt (by omega)]
  · have : k + n - 1 = (k - 1) + n := by omega
    rw [this, Nat.add_mod_right, Nat.mod_eq_of_lt (by omega)]

theorem shouldInsert_sim [POrd α] (s : LS α) (x : α) (current index : Nat) (nd : Node α)
    (h : s.buffer[current]? = some nd) :
    shouldInsert s x current index =
      some (SignaloModel.Median.shouldInsert s.buffer.length index x nd.value) := by
  simp only [shouldInsert, h, Option.bind_eq_bind, Option.bind_some, SignaloModel.Median.shouldInsert]
  cases nd.value <;> rfl

theorem shiftMedian_sim (s : LS α) (index current : Nat) (nd nm : Node α)
    (hc : s.buffer[current]? = some nd) (hm : s.buffer[s.median]? = some nm) :
    shiftMedian s index current =
      some (if (decide (index % 2 = 1) && nd.value.isSome) = true
        then { s with median := nm.next } else s) := by
  simp only [shiftMedian, hc, Option.bind_eq_bind, Option.bind_some]
  by_cases h : index % 2 = 1 ∧ nd.value.isSome = true
  · have h' : (decide (index % 2 = 1) && nd.value.isSome) = true := by simp [h.1, h.2]
    rw [if_pos h, if_pos h']; simp [hm]
  · have h' : ¬ (decide (index % 2 = 1) && nd.value.isSome) = true := by
      simpa using h
    rw [if_neg h, if_neg h']; rfl

theorem slotAt_append_left (ord l : List (Nat × Option α)) (k : Nat) (hk : k < ord.length) :
    slotAt (ord ++ l) k = slotAt ord k := by
  unfold slotAt; rw [List.getElem?_append_left hk]

/-- shift the median past `current` if required, then advance `current` -/
theorem advance (b : List (Node α)) (ord1 : List (Nat × Option α)) (ins1 : Ins) (med1 p1 i : Nat)
    (s1 : LS α) (inserted1 : Bool)
    (hC : Circ b ord1) (hb : s1.buffer = b) (hp1 : p1 < ord1.length) (hm1 : med1 < ord1.length)
    (hmed : s1.median = slotAt ord1 med1) :
    ∃ w' : WalkL α,
      ((shiftMedian s1 i (slotAt ord1 p1)).bind fun s2 =>
          (s2.buffer[slotAt ord1 p1]?).bind fun cur =>
            some ({ s := s2, current := cur.next, inserted := inserted1 } : WalkL α)) = some w' ∧
      w'.s.buffer = b ∧ w'.s.cursor = s1.cursor ∧ w'.s.head = s1.head ∧
      w'.inserted = inserted1 ∧
      w'.current = slotAt ord1 (succIdx ord1.length p1) ∧
      w'.s.median = slotAt ord1
        (SignaloModel.Median.shiftMedian { ord := ord1, ins := ins1, med := med1 } i (valAt ord1 p1)).med ∧
      (SignaloModel.Median.shiftMedian { ord := ord1, ins := ins1, med := med1 } i (valAt ord1 p1)).med
        < ord1.length := by
  have hcur := hC.node p1 hp1
  have hmn := hC.node med1 hm1
  rw [← hb] at hcur hmn
  rw [← hmed] at hmn
  rw [shiftMedian_sim s1 i _ _ _ hcur hmn]
  simp only [Option.bind_eq_bind, Option.bind_some, SignaloModel.Median.shiftMedian]
  by_cases h : (decide (i % 2 = 1) && (valAt ord1 p1).isSome) = true
  · simp only [h, ↓reduceIte, hcur, Option.bind_some]
    refine ⟨_, rfl, hb, rfl, rfl, rfl, rfl, ?_, Nat.mod_lt _ (by omega)⟩
    simp only [succIdx_eq_mod _ _ hm1]
  · have h' : (decide (i % 2 = 1) && (valAt ord1 p1).isSome) = false := by
      cases hb' : (decide (i % 2 = 1) && (valAt ord1 p1).isSome) with
      | true => exact absurd hb' h
      | false => rfl
    simp only [h', Bool.false_eq_true, ↓reduceIte, hcur, Option.bind_some]
    exact ⟨_, rfl, hb, rfl, rfl, rfl, rfl, hmed, hm1⟩

theorem shiftMedian_ord (st : Loop α) (i : Nat) (cv : Option α) :
    (SignaloModel.Median.shiftMedian st i cv).ord = st.ord := by
  simp only [SignaloModel.Median.shiftMedian]; split <;> rfl

theorem shiftMedian_ins (st : Loop α) (i : Nat) (cv : Option α) :
    (SignaloModel.Median.shiftMedian st i cv).ins = st.ins := by
  simp only [SignaloModel.Median.shiftMedian]; split <;> rfl

theorem slotAt_insertIdx (ord : List (Nat × Option α)) (J c : Nat) (v : Option α)
    (hJ : J ≤ ord.length) (k : Nat) :
    slotAt (ord.insertIdx J (c, v)) k =
      if k < J then slotAt ord k else if k = J then c else slotAt ord (k - 1) := by
  rw [SignaloModel.Median.insertIdx_eq_take_drop _ _ _ hJ]; exact slotAt_ins ord J c v hJ k

theorem valAt_insertIdx (ord : List (Nat × Option α)) (J c : Nat) (v : Option α)
    (hJ : J ≤ ord.length) (k : Nat) :
    valAt (ord.insertIdx J (c, v)) k =
      if k < J then valAt ord k else if k = J then v else valAt ord (k - 1) := by
  rw [SignaloModel.Median.insertIdx_eq_take_drop _ _ _ hJ]; exact valAt_ins ord J c v hJ k

/-- the pointer-level walk state represents the list-level walk state before iteration `i` -/
structure RepW (N c : Nat) (w : WalkL α) (st : Loop α) (i : Nat) : Prop where
  blen : w.s.buffer.length = N
  circ : Circ w.s.buffer st.ord
  cur : w.s.cursor = c
  clt : c < N
  insNo : st.ins = .no → w.inserted = false ∧ st.ord.length + 1 = N ∧ c ∉ st.ord.map (·.1)
  insYes : st.ins ≠ .no → w.inserted = true ∧ st.ord.length = N
  pos : i < N → w.current = slotAt st.ord (curPosOf st i)
  med : w.s.median = slotAt st.ord st.med
  medlt : st.med < st.ord.length
  head : w.s.head = slotAt st.ord 0
  perm : (if st.ins = .no then c :: st.ord.map (·.1) else st.ord.map (·.1)).Perm (List.range N)

/-- iterations that do not insert: only the median hop and the advance of `current` -/
theorem sim_noinsert [POrd α] (N c : Nat) (x : α) (w : WalkL α) (st : Loop α) (i : Nat)
    (hN : 2 ≤ N) (hi : i < N) (h : RepW N c w st i)
    (hL : walkBody x w i =
      ((shiftMedian w.s i w.current).bind fun s2 =>
        (s2.buffer[w.current]?).bind fun cur =>
          some ({ s := s2, current := cur.next, inserted := w.inserted } : WalkL α)))
    (hA : SignaloModel.Median.loopBody N c x st i =
      SignaloModel.Median.shiftMedian st i (valAt st.ord (curPosOf st i))) :
    ∃ w', walkBody x w i = some w' ∧
      RepW N c w' (SignaloModel.Median.loopBody N c x st i) (i + 1) := by
  obtain ⟨hblen, hC, hcur, hclt, hno, hyes, hpos, hmed, hmedlt, hhead, hperm⟩ := h
  have hn1 : 1 ≤ st.ord.length := by
    by_cases hins : st.ins = .no
    · have := (hno hins).2.1; omega
    · have := (hyes hins).2; omega
  have hp : curPosOf st i < st.ord.length := Nat.mod_lt _ (by omega)
  have hcurr : w.current = slotAt st.ord (curPosOf st i) := hpos hi
  obtain ⟨w', hw', hb', hc', hh', hi', hcur', hmed', hmedlt'⟩ :=
    advance w.s.buffer st.ord st.ins st.med (curPosOf st i) i w.s w.inserted hC rfl hp hmedlt hmed
  rw [← hcurr] at hw'
  refine ⟨w', by rw [hL]; exact hw', ?_⟩
  rw [hA]
  refine ⟨by rw [hb', hblen], by rw [hb', shiftMedian_ord]; exact hC, by rw [hc', hcur], hclt,
    ?_, ?_, ?_, by rw [shiftMedian_ord]; exact hmed', by rw [shiftMedian_ord]; exact hmedlt',
    by rw [hh', shiftMedian_ord]; exact hhead,
    by rw [shiftMedian_ord, shiftMedian_ins]; exact hperm⟩
  · intro hins
    rw [shiftMedian_ins] at hins
    rw [shiftMedian_ord, hi']
    exact hno hins
  · intro hins
    rw [shiftMedian_ins] at hins
    rw [shiftMedian_ord, hi']
    exact hyes hins
  · intro _
    rw [hcur', shiftMedian_ord]
    congr 1
    simp only [curPosOf, shiftMedian_ins, shiftMedian_ord]
    rw [succIdx_eq_mod _ _ (Nat.mod_lt _ (by omega)), Nat.mod_add_mod]
    congr 1
    omega

theorem walkBody_sim [POrd α] (N c : Nat) (x : α) (w : WalkL α) (st : Loop α) (i : Nat)
    (hN : 2 ≤ N) (hi : i < N) (h : RepW N c w st i) :
    ∃ w', walkBody x w i = some w' ∧
      RepW N c w' (SignaloModel.Median.loopBody N c x st i) (i + 1) := by
  obtain ⟨hblen, hC, hcur, hclt, hno, hyes, hpos, hmed, hmedlt, hhead, hperm⟩ := h
  have hn1 : 1 ≤ st.ord.length := by
    by_cases hins : st.ins = .no
    · have := (hno hins).2.1; omega
    · have := (hyes hins).2; omega
  have hp : curPosOf st i < st.ord.length := Nat.mod_lt _ (by omega)
  have hcurr : w.current = slotAt st.ord (curPosOf st i) := hpos hi
  have hnodeCur := hC.node _ hp
  by_cases hins : st.ins = .no
  · -- not yet inserted
    obtain ⟨hfalse, hlen1, hcn⟩ := hno hins
    have hpdef : curPosOf st i = i % st.ord.length := by simp [curPosOf, hins]
    have hsh := shouldInsert_sim w.s x w.current i _ (by rw [hcurr]; exact hnodeCur)
    rw [hblen] at hsh
    simp only at hsh
    by_cases hshould : SignaloModel.Median.shouldInsert N i x (valAt st.ord (curPosOf st i)) = true
    · -- this iteration inserts
      by_cases hp0 : curPosOf st i = 0
      · -- before the head = at the tail
        obtain ⟨b', hlink, hlen', hC'⟩ := circ_link w.s.buffer st.ord c x st.ord.length hC
          (by omega) (Nat.le_refl _) hcn (by omega)
        rw [Nat.mod_self, ← hp0, ← hcurr] at hlink
        have hord : st.ord.take st.ord.length ++ (c, some x) :: st.ord.drop st.ord.length
            = st.ord ++ [(c, some x)] := by simp
        rw [hord] at hC'
        have hlenO : (st.ord ++ [(c, some x)]).length = N := by simp; omega
        have hpz : (0 : Nat) < (st.ord ++ [(c, some x)]).length := by omega
        have hslot0 : slotAt (st.ord ++ [(c, some x)]) 0 = slotAt st.ord 0 :=
          slotAt_append_left _ _ _ hn1
        have hmedS : slotAt (st.ord ++ [(c, some x)]) st.med = slotAt st.ord st.med :=
          slotAt_append_left _ _ _ hmedlt
        obtain ⟨w', hw', hb', hc', hh', hi', hcur', hmed', hmedlt'⟩ :=
          advance b' (st.ord ++ [(c, some x)]) Ins.tail st.med 0 i
            { buffer := b', cursor := c, head := w.s.head, median := w.s.median } true hC' rfl hpz
            (by omega)
            (by simp only; rw [hmed, hmedS])
        have hval0 : valAt (st.ord ++ [(c, some x)]) 0 = valAt st.ord (curPosOf st i) := by
          rw [hp0, SignaloModel.Median.valAt_append_left _ _ _ hn1]
        rw [hslot0, ← hp0, ← hcurr] at hw'
        refine ⟨w', ?_, ?_⟩
        · simp only [walkBody, hfalse, Bool.not_false, ↓reduceIte, hsh, hshould,
            Option.bind_eq_bind, Option.bind_some, insert, hcur, hlink, Option.pure_def]
          exact hw'
        · have hA : SignaloModel.Median.loopBody N c x st i =
              SignaloModel.Median.shiftMedian
                { ord := st.ord ++ [(c, some x)], ins := Ins.tail, med := st.med } i
                (valAt (st.ord ++ [(c, some x)]) 0) := by
            have hshould' : SignaloModel.Median.shouldInsert N i x (valAt st.ord 0) = true := by
              rw [← hp0]; exact hshould
            have hval0' : valAt (st.ord ++ [(c, some x)]) 0 = valAt st.ord 0 := by
              rw [hval0, hp0]
            simp only [SignaloModel.Median.loopBody, hins, decide_true, Bool.true_and, hp0, hshould',
              ↓reduceIte, SignaloModel.Median.insertAt, hval0']
          rw [hA]
          have hshO : (SignaloModel.Median.shiftMedian
                { ord := st.ord ++ [(c, some x)], ins := Ins.tail, med := st.med } i
                (valAt (st.ord ++ [(c, some x)]) 0)).ord = st.ord ++ [(c, some x)] := by
            simp only [SignaloModel.Median.shiftMedian]; split <;> rfl
          have hshI : (SignaloModel.Median.shiftMedian
                { ord := st.ord ++ [(c, some x)], ins := Ins.tail, med := st.med } i
                (valAt (st.ord ++ [(c, some x)]) 0)).ins = Ins.tail := by
            simp only [SignaloModel.Median.shiftMedian]; split <;> rfl
          refine ⟨by rw [hb', hlen', hblen], by rw [hb', hshO]; exact hC', by rw [hc'],
            hclt, ?_, ?_, ?_, by rw [hshO]; exact hmed', by rw [hshO]; exact hmedlt', ?_, ?_⟩
          · intro hcontra; rw [hshI] at hcontra; cases hcontra
          · intro _; exact ⟨hi', by rw [hshO]; exact hlenO⟩
          · intro hi1
            rw [hcur', hshO]
            simp only [curPosOf, hshI, hshO, hlenO]
            have hi0 : i = 0 := by
              rw [hpdef] at hp0
              have : i < st.ord.length := by omega
              rw [Nat.mod_eq_of_lt this] at hp0; exact hp0
            subst hi0
            have h1 : (0 + 1) % N = 1 := Nat.mod_eq_of_lt (by omega)
            have h2 : ¬ (0 + 1 = N) := by omega
            simp [succIdx, h1, h2]
          · rw [hh', hshO, hslot0]; exact hhead
          · rw [hshO, hshI]
            simp only [show (Ins.tail = Ins.no) = False by simp, ↓reduceIte, List.map_append,
              List.map_cons, List.map_nil]
            rw [if_pos hins] at hperm
            exact (List.perm_append_singleton c _).trans hperm
      · -- insertion in the middle
        have hplt : curPosOf st i < st.ord.length := hp
        have hpi : curPosOf st i = i := by
          rw [hpdef] at hp0 ⊢
          by_cases hlt : i < st.ord.length
          · exact Nat.mod_eq_of_lt hlt
          · have : i = st.ord.length := by omega
            rw [this, Nat.mod_self] at hp0; exact absurd rfl hp0
        have hpos' : 0 < curPosOf st i := Nat.pos_of_ne_zero hp0
        obtain ⟨b', hlink, hlen', hC'⟩ := circ_link w.s.buffer st.ord c x (curPosOf st i) hC
          hpos' (by omega) hcn (by omega)
        rw [Nat.mod_eq_of_lt hplt, ← hcurr] at hlink
        rw [← SignaloModel.Median.insertIdx_eq_take_drop _ _ _ (by omega)] at hC'
        generalize hord1 : st.ord.insertIdx (curPosOf st i) (c, some x) = ord1 at hC'
        have hlenO : ord1.length = N := by
          rw [← hord1, List.length_insertIdx, if_pos (by omega)]; omega
        have hsl : ∀ k, slotAt ord1 k = if k < curPosOf st i then slotAt st.ord k
            else if k = curPosOf st i then c else slotAt st.ord (k - 1) := by
          intro k; rw [← hord1]; exact slotAt_insertIdx _ _ _ _ (by omega) k
        have hvl : ∀ k, valAt ord1 k = if k < curPosOf st i then valAt st.ord k
            else if k = curPosOf st i then some x else valAt st.ord (k - 1) := by
          intro k; rw [← hord1]; exact valAt_insertIdx _ _ _ _ (by omega) k
        let med1 := if curPosOf st i ≤ st.med then st.med + 1 else st.med
        have hmed1 : w.s.median = slotAt ord1 med1 := by
          rw [hmed, hsl]
          simp only [med1]
          split
          · next h => rw [if_neg (by omega), if_neg (by omega)]; simp
          · next h => rw [if_pos (by omega)]
        have hcur1 : slotAt ord1 (curPosOf st i + 1) = w.current := by
          rw [hsl, if_neg (by omega), if_neg (by omega), hcurr]; simp
        have hval1 : valAt ord1 (curPosOf st i + 1) = valAt st.ord (curPosOf st i) := by
          rw [hvl, if_neg (by omega), if_neg (by omega)]; simp
        obtain ⟨w', hw', hb', hc', hh', hi', hcur', hmed', hmedlt'⟩ :=
          advance b' ord1 Ins.mid med1 (curPosOf st i + 1) i
            { buffer := b', cursor := c, head := w.s.head, median := w.s.median } true hC' rfl
            (by omega) (by simp only [med1]; split <;> omega) hmed1
        rw [hcur1] at hw'
        refine ⟨w', ?_, ?_⟩
        · simp only [walkBody, hfalse, Bool.not_false, ↓reduceIte, hsh, hshould,
            Option.bind_eq_bind, Option.bind_some, insert, hcur, hlink, Option.pure_def]
          exact hw'
        · have hA : SignaloModel.Median.loopBody N c x st i =
              SignaloModel.Median.shiftMedian { ord := ord1, ins := Ins.mid, med := med1 } i
                (valAt ord1 (curPosOf st i + 1)) := by
            simp only [SignaloModel.Median.loopBody, hins, decide_true, Bool.true_and, hshould,
              ↓reduceIte, SignaloModel.Median.insertAt, hp0, hval1, hord1, med1]
          rw [hA]
          refine ⟨by rw [hb', hlen', hblen], by rw [hb', shiftMedian_ord]; exact hC', by rw [hc'],
            hclt, ?_, ?_, ?_, by rw [shiftMedian_ord]; exact hmed',
            by rw [shiftMedian_ord]; exact hmedlt', ?_, ?_⟩
          · intro hcontra; rw [shiftMedian_ins] at hcontra; cases hcontra
          · intro _; exact ⟨hi', by rw [shiftMedian_ord]; exact hlenO⟩
          · intro hi1
            rw [hcur', shiftMedian_ord]
            congr 1
            rw [hpi, succIdx_eq_mod _ _ (by omega)]
            simp only [curPosOf, shiftMedian_ins, shiftMedian_ord, hlenO, ↓reduceIte]
          · rw [hh', shiftMedian_ord, hsl, if_pos hpos']; exact hhead
          · rw [shiftMedian_ord, shiftMedian_ins]
            simp only [show (Ins.mid = Ins.no) = False by simp, ↓reduceIte]
            rw [if_pos hins] at hperm
            rw [← hord1, SignaloModel.Median.insertIdx_eq_take_drop _ _ _ (by omega)]
            simp only [List.map_append, List.map_cons, List.map_take, List.map_drop]
            exact (SignaloModel.Median.perm_ins _ _ _).trans hperm
    · -- no insertion in this iteration
      apply sim_noinsert N c x w st i hN hi
        ⟨hblen, hC, hcur, hclt, hno, hyes, hpos, hmed, hmedlt, hhead, hperm⟩
      · have hshould' : SignaloModel.Median.shouldInsert N i x (valAt st.ord (curPosOf st i)) = false := by
          cases hb : SignaloModel.Median.shouldInsert N i x (valAt st.ord (curPosOf st i)) with
          | true => exact absurd hb hshould
          | false => rfl
        simp only [walkBody, hfalse, Bool.not_false, ↓reduceIte, hsh, hshould',
          Option.bind_eq_bind, Option.bind_some, Bool.false_eq_true, Option.pure_def]
      · have hshould' : SignaloModel.Median.shouldInsert N i x (valAt st.ord (curPosOf st i)) = false := by
          cases hb : SignaloModel.Median.shouldInsert N i x (valAt st.ord (curPosOf st i)) with
          | true => exact absurd hb hshould
          | false => rfl
        simp only [SignaloModel.Median.loopBody, hshould', Bool.and_false, Bool.false_eq_true, ↓reduceIte]
  · -- already inserted
    have htrue := (hyes hins).1
    apply sim_noinsert N c x w st i hN hi
      ⟨hblen, hC, hcur, hclt, hno, hyes, hpos, hmed, hmedlt, hhead, hperm⟩
    · simp only [walkBody, htrue, Bool.not_true, Bool.false_eq_true, ↓reduceIte,
        Option.bind_eq_bind, Option.bind_some, Option.pure_def]
    · have : decide (st.ins = Ins.no) = false := by simp [hins]
      simp only [SignaloModel.Median.loopBody, this, Bool.false_and, Bool.false_eq_true, ↓reduceIte]

end SignaloModel.MedianL
