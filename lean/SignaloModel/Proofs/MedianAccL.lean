import SignaloModel.Proofs.MedianRef6
import SignaloModel.Proofs.MedianAcc
/-! Model: C17 accessors on the pointer-level model, through `Rep`. -/
namespace SignaloModel.MedianL
open SignaloModel.Median (POrd valAt MS)

variable {α : Type}

theorem minAcc_rep (sl : LS α) (sa : MS α) (hN : 1 ≤ sl.buffer.length) (h : Rep sl sa) :
    minAcc sl = SignaloModel.Median.minAcc sa := by
  have hn := h.circ.node 0 (by have := h.len; omega)
  rw [← h.head] at hn
  simp [minAcc, hn, SignaloModel.Median.minAcc]

theorem medAcc_rep (sl : LS α) (sa : MS α) (h : Rep sl sa) :
    medAcc sl = SignaloModel.Median.medAcc sa := by
  have hn := h.circ.node sa.med h.medlt
  rw [← h.med] at hn
  simp [medAcc, hn, SignaloModel.Median.medAcc]

theorem maxAcc_rep (sl : LS α) (sa : MS α) (hN : 1 ≤ sl.buffer.length) (h : Rep sl sa) :
    maxAcc sl = SignaloModel.Median.maxAcc sa := by
  obtain ⟨hlen, hC, hhead, hcursor, hcurlt, hmed, hmedlt, hperm⟩ := h
  -- the slot before the cursor occurs somewhere in the list
  have hslt : (sl.cursor + sl.buffer.length - 1) % sl.buffer.length < sl.buffer.length :=
    Nat.mod_lt _ (by omega)
  have hmem : (sl.cursor + sl.buffer.length - 1) % sl.buffer.length ∈ sa.order.map (·.1) :=
    hperm.mem_iff.mpr (List.mem_range.mpr hslt)
  obtain ⟨q, hq⟩ := List.getElem?_of_mem hmem
  rw [List.getElem?_map] at hq
  obtain ⟨p, hp, hpe⟩ := Option.map_eq_some_iff.mp hq
  have hqlt : q < sa.order.length := (List.getElem?_eq_some_iff.mp hp).1
  have hslot : slotAt sa.order q = (sl.cursor + sl.buffer.length - 1) % sl.buffer.length := by
    simp [slotAt, hp, hpe]
  have hn := hC.node q hqlt
  rw [hslot] at hn
  have hval : valAt sa.order q = p.2 := by simp [valAt, hp]
  -- the list-level accessor finds the same node
  have hnd : (sa.order.map (·.1)).Nodup := (hperm.nodup_iff).mpr List.nodup_range
  have hfind : sa.order.find? (fun r => r.1 == (sa.cursor + sa.order.length - 1) % sa.order.length)
      = some p := by
    rw [hlen, ← hcursor]
    have hpm : p ∈ sa.order := List.mem_of_getElem? hp
    cases hf : sa.order.find? (fun r => r.1 == (sl.cursor + sl.buffer.length - 1) % sl.buffer.length) with
    | none =>
      have := List.find?_eq_none.mp hf p hpm
      simp [hpe] at this
    | some r =>
      have hr1 := List.find?_some hf
      have hrm := List.mem_of_find?_eq_some hf
      simp only [beq_iff_eq] at hr1
      -- same slot, distinct slots ⇒ same node
      obtain ⟨i, hi⟩ := List.getElem?_of_mem hrm
      have hilt : i < sa.order.length := (List.getElem?_eq_some_iff.mp hi).1
      have hsi : slotAt sa.order i = slotAt sa.order q := by
        simp [slotAt, hi, hp, hr1, hpe]
      have hiq := slotAt_inj hnd hilt hqlt hsi
      subst hiq
      rw [hi] at hp
      exact hp
  simp only [maxAcc, hn, Option.bind_some, SignaloModel.Median.maxAcc, hfind, hval]

/-- **C17 on the pointer-level model**: after any run from `Default` (widths ≥ 2),
`min()`/`median()` are the window minimum / lower median and `max()` is the latest sample -/
theorem accessors_L [POrd α] [SignaloModel.Median.TotalOrd α] (sl : LS α) (sa : MS α) (N : Nat)
    (ws vs : List α) (hN : 2 ≤ sl.buffer.length) (hrep : Rep sl sa)
    (hinv : SignaloModel.Median.Inv N sa ws vs) :
    minAcc sl = (ws.mergeSort (fun a b => POrd.le a b))[0]? ∧
    medAcc sl = SignaloModel.Median.lowerMedian ws ∧
    maxAcc sl = ws.getLast? := by
  refine ⟨?_, ?_, ?_⟩
  · rw [minAcc_rep sl sa (by omega) hrep]; exact SignaloModel.Median.acc_min hinv
  · rw [medAcc_rep sl sa hrep]; exact SignaloModel.Median.acc_med hinv
  · rw [maxAcc_rep sl sa (by omega) hrep]; exact SignaloModel.Median.acc_max_is_latest hinv.1

end SignaloModel.MedianL

#print axioms SignaloModel.MedianL.accessors_L
