import SignaloModel.Model.SinkModels
import SignaloModel.Model.Spec
import SignaloModel.Proofs.SinksProofs
import SignaloModel.Proofs.ClassifyProofs
import SignaloModel.Proofs.BridgeMean
/-!
C11: every sink model, fed any sequence, holds / finalises to the batch statistic `Spec.*` of that sequence.
Extrema, last, sum, collect: for every sample type (no laws needed). Mean and mean-variance (Welford):
over an ordered field.
-/
namespace SignaloModel.SinkModels
open SignaloModel SignaloModel.Registry

variable {α : Type}

/-! ### extrema, last, sum, collect: any sample type -/

theorem extremum_snoc (f : α → α → Bool) (xs : List α) (x : α) :
    Spec.extremum f (xs ++ [x]) =
      some (match Spec.extremum f xs with | none => x | some m => if f x m then x else m) := by
  cases xs with
  | nil => rfl
  | cons a l => simp [Spec.extremum, List.foldl_append]

section anytype
variable [Add α] [Sub α] [Mul α] [Div α] [OfNat α 0] [OfNat α 1] [Classify.Cmp α]

theorem feed_snoc (k : Sk α) (xs : List α) (x : α) : k.feed (xs ++ [x]) = (k.feed xs).sink x := by
  simp [Sk.feed, List.foldl_append]

/-- **C11 (min)**: state = smallest sample received (first occurrence kept on ties) -/
theorem min_feed (xs : List α) : (Sk.min (none : Option α)).feed xs = Sk.min (Spec.extremum ltB xs) := by
  induction xs using snocInd with
  | nil => rfl
  | snoc xs x ih =>
    rw [feed_snoc, ih, extremum_snoc]
    cases Spec.extremum ltB xs with
    | none => simp [Sk.sink, Sk.filter, minStep]
    | some m =>
      simp only [Sk.sink, Sk.filter, minStep, ltB, Sk.min.injEq, Option.some.injEq]
      by_cases h : Classify.Cmp.gt m x = true <;> simp [h]

/-- **C11 (max)** -/
theorem max_feed (xs : List α) : (Sk.max (none : Option α)).feed xs = Sk.max (Spec.extremum gtB xs) := by
  induction xs using snocInd with
  | nil => rfl
  | snoc xs x ih =>
    rw [feed_snoc, ih, extremum_snoc]
    cases Spec.extremum gtB xs with
    | none => simp [Sk.sink, Sk.filter, maxStep]
    | some m =>
      simp only [Sk.sink, Sk.filter, maxStep, gtB, Sk.max.injEq, Option.some.injEq]
      by_cases h : Classify.Cmp.gt x m = true <;> simp [h]

/-- **C11 (bounds)** -/
theorem bounds_feed (xs : List α) :
    (Sk.bounds (none : Option α) none).feed xs = Sk.bounds (Spec.extremum ltB xs) (Spec.extremum gtB xs) := by
  induction xs using snocInd with
  | nil => rfl
  | snoc xs x ih =>
    rw [feed_snoc, ih, extremum_snoc, extremum_snoc]
    cases Spec.extremum ltB xs with
    | none =>
      cases Spec.extremum gtB xs with
      | none => simp [Sk.sink, Sk.filter, minStep, maxStep]
      | some b =>
        simp only [Sk.sink, Sk.filter, minStep, maxStep, gtB, Sk.bounds.injEq, Option.some.injEq, true_and]
        by_cases h : Classify.Cmp.gt x b = true <;> simp [h]
    | some a =>
      cases Spec.extremum gtB xs with
      | none =>
        simp only [Sk.sink, Sk.filter, minStep, maxStep, ltB, Sk.bounds.injEq, Option.some.injEq, and_true]
        by_cases h : Classify.Cmp.gt a x = true <;> simp [h]
      | some b =>
        simp only [Sk.sink, Sk.filter, minStep, maxStep, ltB, gtB, Sk.bounds.injEq, Option.some.injEq]
        by_cases h : Classify.Cmp.gt a x = true <;> by_cases h' : Classify.Cmp.gt x b = true <;> simp [h, h']

/-- **C11 (last)** -/
theorem last_feed (xs : List α) : (Sk.last (none : Option α)).feed xs = Sk.last xs.getLast? := by
  induction xs using snocInd with
  | nil => rfl
  | snoc xs x ih => rw [feed_snoc, ih]; simp [Sk.sink, Sk.filter]

/-- **C11 (sum)**: `none` exactly for the empty sequence, else the running sum (left to right) -/
theorem integrate_feed (xs : List α) :
    (Sk.integrate (none : Option α)).feed xs = Sk.integrate (if xs.isEmpty then none else some (Spec.sum xs)) := by
  induction xs using snocInd with
  | nil => rfl
  | snoc xs x ih =>
    rw [feed_snoc, ih]
    cases xs with
    | nil => simp [Sk.sink, Sk.filter, Spec.sum]
    | cons a l => simp [Sk.sink, Sk.filter, Spec.sum, List.foldl_append]

/-- **C11 (collect)** -/
theorem collect_feed (xs : List α) : (Sk.collect ([] : List α)).feed xs = Sk.collect xs := by
  induction xs using snocInd with
  | nil => rfl
  | snoc xs x ih => rw [feed_snoc, ih]; simp [Sk.sink, Sk.filter]

/-- the mean sink is the (count, mean) projection of the mean-variance sink -/
theorem mean_feed (xs : List α) :
    (Sk.mean (none : Option (α × α))).feed xs =
      Sk.mean ((Sinks.mvRun none xs).map (fun s => (s.count, s.mean))) := by
  have hrun : ∀ (s : Option (Sinks.MV α)) (l : List α) (x : α),
      Sinks.mvRun s (l ++ [x]) = some (Sinks.mvStep (Sinks.mvRun s l) x) := by
    intro s l
    induction l generalizing s with
    | nil => intro x; rfl
    | cons a l ih => intro x; simp [Sinks.mvRun, ih]
  induction xs using snocInd with
  | nil => rfl
  | snoc xs x ih =>
    rw [feed_snoc, ih, hrun]
    cases Sinks.mvRun (none : Option (Sinks.MV α)) xs <;>
      simp [Sk.sink, Sk.filter, meanStep, Sinks.mvStep]

theorem meanVar_feed (xs : List α) :
    (Sk.meanVar (none : Option (Sinks.MV α))).feed xs = Sk.meanVar (Sinks.mvRun none xs) := by
  have hrun : ∀ (s : Option (Sinks.MV α)) (l : List α) (x : α),
      Sinks.mvRun s (l ++ [x]) = some (Sinks.mvStep (Sinks.mvRun s l) x) := by
    intro s l
    induction l generalizing s with
    | nil => intro x; rfl
    | cons a l ih => intro x; simp [Sinks.mvRun, ih]
  induction xs using snocInd with
  | nil => rfl
  | snoc xs x ih => rw [feed_snoc, ih, hrun]; simp [Sk.sink, Sk.filter]

/-- **C11 (statistics)**: the combined sink is the bounds sink and the mean-variance sink side by side -/
theorem statistics_feed (xs : List α) :
    (Sk.statistics (none : Option α) none none).feed xs =
      Sk.statistics (Spec.extremum ltB xs) (Spec.extremum gtB xs) (Sinks.mvRun none xs) := by
  have hrun : ∀ (s : Option (Sinks.MV α)) (l : List α) (x : α),
      Sinks.mvRun s (l ++ [x]) = some (Sinks.mvStep (Sinks.mvRun s l) x) := by
    intro s l
    induction l generalizing s with
    | nil => intro x; rfl
    | cons a l ih => intro x; simp [Sinks.mvRun, ih]
  have hb := bounds_feed (α := α)
  induction xs using snocInd with
  | nil => rfl
  | snoc xs x ih =>
    have h1 := hb (xs ++ [x])
    rw [feed_snoc, hb xs] at h1
    rw [feed_snoc, ih, hrun]
    simp only [Sk.sink, Sk.filter, Sk.bounds.injEq, Sk.statistics.injEq] at h1 ⊢
    exact ⟨h1.1, h1.2, trivial⟩

end anytype

/-! ### Welford mean and variance: ordered fields -/

section field
variable {K : Type} [Field K] [LinearOrder K] [IsStrictOrderedRing K]

theorem winv_run (xs : List K) : Sinks.WInv (Sinks.mvRun none xs) xs := by
  have hrun : ∀ (s : Option (Sinks.MV K)) (l : List K) (x : K),
      Sinks.mvRun s (l ++ [x]) = some (Sinks.mvStep (Sinks.mvRun s l) x) := by
    intro s l
    induction l generalizing s with
    | nil => intro x; rfl
    | cons a l ih => intro x; simp [Sinks.mvRun, ih]
  induction xs using snocInd with
  | nil => exact ⟨by simp [Sinks.mvRun], by intro st h; simp [Sinks.mvRun] at h⟩
  | snoc xs x ih => rw [hrun]; exact Sinks.winv_step _ xs x ih

omit [LinearOrder K] [IsStrictOrderedRing K] in
theorem sumSqDev_eq (xs : List K) (m : K) :
    (xs.map (fun x => (x - m) * (x - m))).sum =
      (xs.map (fun x => x ^ 2)).sum - 2 * m * xs.sum + (xs.length : K) * m ^ 2 := by
  induction xs with
  | nil => simp
  | cons a l ih =>
    simp only [List.map_cons, List.sum_cons, List.length_cons, Nat.cast_add, Nat.cast_one, ih]
    ring

/-- **C11 (mean, mean-variance)**: after a non-empty sequence the Welford state holds the count, the batch mean
and the sum of squared deviations from it -/
theorem welford_correct (xs : List K) (hx : xs ≠ []) :
    ∃ st, Sinks.mvRun none xs = some st ∧ st.count = Spec.natCast xs.length ∧
      st.mean = Spec.batchMean xs ∧ st.m2 = Spec.sumSqDev xs := by
  have hinv := winv_run xs
  cases hs : Sinks.mvRun (none : Option (Sinks.MV K)) xs with
  | none => exact absurd (hinv.none_iff.mp hs) hx
  | some st =>
    obtain ⟨hc, hm, hv⟩ := hinv.ok st hs
    have hn : (xs.length : K) ≠ 0 := by
      have : 0 < xs.length := List.length_pos_iff.mpr hx
      exact_mod_cast this.ne'
    have hmean : st.mean = xs.sum / (xs.length : K) := by
      field_simp; exact hm
    refine ⟨st, rfl, by rw [hc, spec_natCast_eq], ?_, ?_⟩
    · simp [Spec.batchMean, spec_sum_eq, spec_natCast_eq, hmean]
    · have hb : Spec.batchMean xs = st.mean := by
        simp [Spec.batchMean, spec_sum_eq, spec_natCast_eq, hmean]
      simp only [Spec.sumSqDev, spec_sum_eq, hb]
      rw [sumSqDev_eq, hv, ← hm]
      ring

/-- **C11 (finalize of mean-variance)**: batch mean and unbiased sample variance (divisor `n - 1`; the sum of
squared deviations itself — zero — for a single sample) -/
theorem meanVar_finalize (xs : List K) (hx : xs ≠ []) :
    ((Sk.meanVar (none : Option (Sinks.MV K))).feed xs).finalize =
      some [Spec.batchMean xs, Spec.sampleVariance xs] := by
  obtain ⟨st, hs, hc, hm, hv⟩ := welford_correct xs hx
  rw [meanVar_feed, hs]
  simp only [Sk.finalize, Option.map_some, mvFinal, hm, hv, hc, Classify.Cmp.gt, spec_natCast_eq]
  congr 2
  have hpos : 0 < xs.length := List.length_pos_iff.mpr hx
  by_cases h1 : xs.length ≤ 1
  · have : xs.length = 1 := by omega
    simp [Spec.sampleVariance, this]
  · have hgt : (1 : K) < (xs.length : K) := by exact_mod_cast (by omega : 1 < xs.length)
    have hsub : ((xs.length - 1 : Nat) : K) = (xs.length : K) - 1 := by
      rw [Nat.cast_sub (by omega)]; simp
    simp [Spec.sampleVariance, h1, hgt, spec_natCast_eq, hsub]

/-- **C11 (finalize of mean)** -/
theorem mean_finalize (xs : List K) (hx : xs ≠ []) :
    ((Sk.mean (none : Option (K × K))).feed xs).finalize = some [Spec.batchMean xs] := by
  obtain ⟨st, hs, _, hm, _⟩ := welford_correct xs hx
  rw [mean_feed, hs]
  simp [Sk.finalize, hm]

/-- every sink yields `none` exactly when nothing was received (collect: the empty list) -/
theorem finalize_empty :
    (Sk.min (none : Option K)).finalize = none ∧ (Sk.max (none : Option K)).finalize = none ∧
    (Sk.bounds (none : Option K) none).finalize = none ∧ (Sk.last (none : Option K)).finalize = none ∧
    (Sk.integrate (none : Option K)).finalize = none ∧ (Sk.mean (none : Option (K × K))).finalize = none ∧
    (Sk.meanVar (none : Option (Sinks.MV K))).finalize = none ∧
    (Sk.statistics (none : Option K) none none).finalize = none ∧
    (Sk.collect ([] : List K)).finalize = some [] := by
  simp [Sk.finalize]

end field

end SignaloModel.SinkModels

#print axioms SignaloModel.SinkModels.meanVar_finalize
#print axioms SignaloModel.SinkModels.min_feed
