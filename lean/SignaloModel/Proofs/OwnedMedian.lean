import SignaloModel.Proofs.BridgeMedianAcc
import SignaloModel.Proofs.OwnedProofs
/-!
C19 for the moving median (the filter with the `MaybeUninit` block): in every state reachable from `Default`
the buffer holds exactly `min k N` sample values — one per window sample, none leaked, none missing.
-/
namespace SignaloModel.MedianL
open SignaloModel
open SignaloModel.Median (POrd TotalOrd valAt MS)

variable {α : Type}

theorem range_map_getElem? {β : Type} (l : List β) :
    (List.range l.length).map (fun i => l[i]?) = l.map some := by
  apply List.ext_getElem
  · simp
  · intro i h1 h2
    simp only [List.length_map, List.length_range] at h1
    simp [List.getElem?_eq_getElem h1]

/-- values along the list order are the buffer's values, permuted -/
theorem values_perm (sl : LS α) (sa : MS α) (h : Rep sl sa) :
    (sl.buffer.map (fun n => n.value)).Perm (sa.order.map (fun q => q.2)) := by
  -- read the buffer through the slots of the list order
  have h1 : (sa.order.map (·.1)).map (fun i => (sl.buffer[i]?).bind (fun n => n.value)) = sa.order.map (fun q => q.2) := by
    apply List.ext_getElem
    · simp
    · intro k hk1 hk2
      simp only [List.length_map] at hk1
      have hnode := h.circ.node k hk1
      have hslot : slotAt sa.order k = (sa.order[k]).1 := by
        simp [slotAt, List.getElem?_eq_getElem hk1]
      rw [hslot] at hnode
      simp only [List.getElem_map, hnode, Option.bind_some, valAt, List.getElem?_eq_getElem hk1]
  have h2 : ((List.range sl.buffer.length).map (fun i => (sl.buffer[i]?).bind (fun n => n.value)))
      = sl.buffer.map (fun n => n.value) := by
    have := congrArg (List.map (fun o : Option (Node α) => o.bind (fun n => n.value))) (range_map_getElem? sl.buffer)
    simpa [List.map_map, Function.comp_def] using this
  rw [← h1, ← h2]
  exact (h.perm.map _).symm

theorem countP_range_getElem? (vs : List α) (N : Nat) (h : vs.length ≤ N) :
    ((List.range N).map (fun i => vs[i]?)).countP (fun o => o.isSome) = vs.length := by
  have : (List.range N).map (fun i => vs[i]?) = vs.map some ++ List.replicate (N - vs.length) none := by
    apply List.ext_getElem
    · simp; omega
    · intro i h1 h2
      simp only [List.length_map, List.length_range] at h1
      by_cases hi : i < vs.length
      · rw [List.getElem_append_left (by simpa using hi)]
        simp [List.getElem?_eq_getElem hi]
      · rw [List.getElem_append_right (by simpa using hi)]
        simp [List.getElem?_eq_none (by omega : vs.length ≤ i)]
  rw [this, List.countP_append]
  have h1 : (vs.map some).countP (fun o => o.isSome) = vs.length := by
    rw [List.countP_map]
    simp [List.countP_eq_length]
  have h2 : (List.replicate (N - vs.length) (none : Option α)).countP (fun o => o.isSome) = 0 := by
    simp [List.countP_replicate]
  omega

/-- **C19 (median)**: a pointer-level state that represents a list-level state satisfying the invariant for window
`ws` holds exactly `|ws|` sample values -/
theorem owned_of_rep [POrd α] (N : Nat) (sl : LS α) (sa : MS α) (ws vs : List α)
    (hrep : Rep sl sa) (hinv : Median.InvP N sa ws vs) :
    (sl.buffer.filter (fun n => n.value.isSome)).length = ws.length := by
  have hvl : vs.length = ws.length := hinv.perm.length_eq
  have hle : vs.length ≤ N := by rw [hvl]; exact hinv.wlen
  rw [← List.countP_eq_length_filter]
  have hc : sl.buffer.countP (fun n => n.value.isSome)
      = (sl.buffer.map (fun n => n.value)).countP (fun o => o.isSome) := by
    rw [List.countP_map]; rfl
  rw [hc, (values_perm sl sa hrep).countP_eq]
  have hord : sa.order.map (fun q => q.2) = (List.range N).map (fun i => vs[i]?) := by
    apply List.ext_getElem
    · simp [hinv.len]
    · intro i h1 h2
      simp only [List.length_map] at h1
      have := hinv.vals i
      simp only [valAt, List.getElem?_eq_getElem h1, Option.bind_some] at this
      simp [this]
  rw [hord, countP_range_getElem? vs N hle, hvl]

end SignaloModel.MedianL

namespace SignaloModel.Registry
open SignaloModel
open SignaloModel.Median (POrd TotalOrd)

variable {α : Type} [Add α] [Sub α] [Mul α] [Div α] [Neg α] [OfNat α 0] [OfNat α 1]
  [LT α] [DecidableLT α] [BEq α] [Median.POrd α] [Classify.Cmp α]

/-- **C19 (median) at registry level**: after `k` samples from `Default` (width `N ≥ 2`) the filter owns exactly
`min k N` sample values -/
theorem owned_median_registry [TotalOrd α] (N : Nat) (hN : 2 ≤ N) (xs : List α) :
    ∃ s' ys, (Cfg.median N : Cfg α).init.run (sing xs) = some (s', sing ys) ∧ s'.owned = min xs.length N := by
  obtain ⟨sl', sa', vs', ys, hrun, hrep', hinv', _⟩ :=
    run_median_inv N xs (MedianL.init N) (Median.init N) [] [] (by simp [MedianL.init]; omega)
      (MedianL.rep_init N hN) (Median.inv_init N (by omega))
  refine ⟨St.median sl', ys, hrun, ?_⟩
  have hw : xs.foldl (Median.push N) [] = Spec.window N xs := Median.window_eq_lastN N (by omega) xs
  rw [hw] at hinv'
  simp only [St.owned]
  rw [MedianL.owned_of_rep N sl' sa' _ vs' hrep' hinv'.1]
  simp [Spec.window]; omega

end SignaloModel.Registry

#print axioms SignaloModel.Registry.owned_median_registry
