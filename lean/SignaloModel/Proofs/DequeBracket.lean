import SignaloModel.Proofs.BridgeDeque
set_option linter.unusedSectionVars false
/-!
C04 (corollary used by clients of the bounds filter): the moving minimum and the moving maximum of the same input
bracket the newest sample at every step — `min_k ≤ x_k ≤ max_k`, in particular `min_k ≤ max_k` — for every window
width, every history and every bound of the `usize` clock.
-/
namespace SignaloModel.Deque

variable {α : Type}

theorem last_mem_window (N : Nat) (hN : 1 ≤ N) (xs : List α) (k : Nat) (x : α) (hx : xs[k]? = some x) :
    x ∈ Spec.window N (xs.take (k + 1)) := by
  have hk : k < xs.length := (List.getElem?_eq_some_iff.mp hx).1
  have h := mem_window N (xs.take (k + 1)) k x (by rw [List.getElem?_take]; simp [hx])
    (by simp only [List.length_take]; omega)
  simpa [Spec.window, Deque.window] using h

/-- **C04 (min and max bracket the input)** -/
theorem minmax_bracket [LinearOrder α] {N M : Nat} (hN : 1 ≤ N) (hM : N + 1 ≤ M) (xs : List α) :
    ∃ ysmin ysmax, run gtMin N (some M) (init : DS α) xs = some ysmin ∧
      run gtMax N (some M) (init : DS α) xs = some ysmax ∧
      ysmin.length = xs.length ∧ ysmax.length = xs.length ∧
      ∀ (k : Nat) (a b x : α), ysmin[k]? = some a → ysmax[k]? = some b → xs[k]? = some x → a ≤ x ∧ x ≤ b := by
  obtain ⟨ysmax, hmax, hsmax⟩ := max_correct (α := α) hN hM xs
  obtain ⟨ysmin, hmin, hsmin⟩ := min_correct (α := α) hN hM xs
  obtain ⟨hlmax, hkmax⟩ := Registry.specMax_getElem N xs [] ysmax hsmax
  obtain ⟨hlmin, hkmin⟩ := Registry.specMin_getElem N xs [] ysmin hsmin
  refine ⟨ysmin, ysmax, hmin, hmax, hlmin, hlmax, ?_⟩
  intro k a b x ha hb hx
  have hmem := last_mem_window N hN xs k x hx
  have h1 := (hkmin k a ha).2 x (by simpa using hmem)
  have h2 := (hkmax k b hb).2 x (by simpa using hmem)
  exact ⟨h1, h2⟩

end SignaloModel.Deque

#print axioms SignaloModel.Deque.minmax_bracket
