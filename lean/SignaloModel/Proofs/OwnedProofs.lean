import SignaloModel.Proofs.RegistryProofs
import SignaloModel.Proofs.ConvProofs
import SignaloModel.Proofs.MeanProofs
/-!
C19 (ownership logic): how many sample values each windowed filter's model state owns.
`St.owned` is what the harness's live-instance ledger is compared with after every operation.
-/
namespace SignaloModel.Registry
open SignaloModel

variable {α : Type}

/-- freshly constructed windowed filters own no samples (the moving average owns its zero weight;
the convolution owns its coefficients) -/
theorem owned_init [OfNat α 0] (N : Nat) (c : List α) :
    (Cfg.median N : Cfg α).init.owned = 0 ∧ (Cfg.mean N : Cfg α).init.owned = 1 ∧
    (Cfg.max N : Cfg α).init.owned = 0 ∧ (Cfg.min N : Cfg α).init.owned = 0 ∧
    (Cfg.bounds N : Cfg α).init.owned = 0 ∧ (Cfg.delay N : Cfg α).init.owned = 0 ∧
    (Cfg.convolve c).init.owned = c.length := by
  refine ⟨?_, ?_, ?_, ?_, ?_, ?_, ?_⟩ <;>
    simp [Cfg.init, St.owned, MedianL.init, Sinks.smInit, Deque.init, optCount, List.filter_eq_nil_iff]

/-- `reset` leaves exactly what a fresh filter owns: everything else has been dropped -/
theorem owned_reset [OfNat α 0] (s : St α) : s.reset.owned = s.config.init.owned := by
  rw [reset_eq_init]

/-- the push-until-evicted loop leaves exactly `N` taps -/
theorem pushLoop_length (N : Nat) (hN : 1 ≤ N) (l : List α) (x : α) (hl : l.length ≤ N) :
    (Conv.pushLoop N (N + 1) l x).1.length = N := by
  rw [Conv.pushLoop_fill N hN l x hl (N + 1) (by omega)]
  simp; omega

section
variable [Add α] [Sub α] [Mul α] [Div α] [Neg α] [OfNat α 0] [OfNat α 1]
  [LT α] [DecidableLT α] [BEq α] [Median.POrd α] [Classify.Cmp α]

/-- convolution (width `N = |c| ≥ 1`): after any sample the filter owns its `N` coefficients and `N` taps -/
theorem owned_convolve_step (c taps : List α) (hN : 1 ≤ c.length) (ht : taps.length ≤ c.length) (x : α)
    (s' : St α) (y : List α) (h : (St.convolve c taps).filter [x] = some (s', y)) :
    s'.owned = c.length + c.length := by
  simp only [St.filter, Option.some.injEq, Prod.mk.injEq] at h
  obtain ⟨rfl, _⟩ := h
  simp [St.owned, Conv.convStep, pushLoop_length c.length hN taps x ht]

/-- delay (`N ≥ 1`): after any sample the filter owns exactly `N` taps (the evicted one was handed out) -/
theorem owned_delay_step (N : Nat) (taps : List α) (hN : 1 ≤ N) (ht : taps.length ≤ N) (x : α)
    (s' : St α) (y : List α) (h : (St.delay N taps).filter [x] = some (s', y)) :
    s'.owned = N := by
  simp only [St.filter] at h
  cases hd : (Conv.delayStep N taps x).2 with
  | none => simp [hd] at h
  | some e =>
    simp only [hd, Option.bind_eq_bind, Option.bind_some, Option.pure_def, Option.some.injEq,
      Prod.mk.injEq] at h
    obtain ⟨rfl, _⟩ := h
    simp [St.owned, Conv.delayStep, pushLoop_length N hN taps x ht]

end

/-- moving average over a field: after `xs ≠ []` the filter owns `min |xs| N` taps, the running sum and
the weight -/
theorem owned_mean_step {K : Type} [Field K] (N : Nat) (hN : 1 ≤ N) (s : Sinks.SM K) (xs : List K) (x : K)
    (h : Sinks.MInv N s xs) :
    ((Sinks.smStep N s x).1.taps.length + optCount (Sinks.smStep N s x).1.mean + 1)
      = min (xs.length + 1) N + 2 := by
  obtain ⟨hinv, _⟩ := Sinks.minv_step N hN s xs x h
  have ht := hinv.taps
  have hm : (Sinks.smStep N s x).1.mean.isSome = true := by
    unfold Sinks.smStep
    have hN0 : ¬ N = 0 := by omega
    simp only [hN0, ↓reduceIte]
    split
    · split <;> simp_all
    · simp
  rw [ht, Sinks.window_length]
  simp [optCount, hm]

end SignaloModel.Registry

#print axioms SignaloModel.Registry.owned_mean_step
