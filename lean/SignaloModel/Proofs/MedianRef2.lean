import SignaloModel.Proofs.MedianRef
/-! Model: `L ⊑ A`, part 2: unlinking a node, rotation. -/
namespace SignaloModel.MedianL
open SignaloModel.Median (POrd valAt)

variable {α : Type}

/-- finishing tactic: split every `if`, then compare nodes field by field -/
macro "fin_node" : tactic =>
  `(tactic| ((repeat' split) <;>
      (first | omega
             | (apply node_eq <;> (repeat' split) <;>
                  first | rfl | omega | (congr 1 <;> omega)))))

theorem unlink_spec (b : List (Node α)) (c pred succ : Nat) (nc np ns : Node α)
    (hc : b[c]? = some nc) (hp : b[pred]? = some np) (hs : b[succ]? = some ns)
    (hprev : nc.prev = pred) (hnext : nc.next = succ) (hpc : pred ≠ c) (hsc : succ ≠ c) :
    ∃ b', unlink b c = some b' ∧ b'.length = b.length ∧
      ∀ s, b'[s]? =
        if s = succ then
          some { value := ns.value, prev := pred, next := if pred = succ then succ else ns.next }
        else if s = c then some { value := none, prev := sentinel, next := sentinel }
        else if s = pred then some { np with next := succ }
        else b[s]? := by
  have hpl := lt_of_getElem? hp
  have hcl := lt_of_getElem? hc
  have hsl := lt_of_getElem? hs
  let n3 : Node α := if pred = succ then { np with next := succ } else ns
  have hb2 : ((b.set pred { np with next := succ }).set c
      { value := none, prev := sentinel, next := sentinel })[succ]? = some n3 := by
    rw [getElem?_set' _ _ _ _ (by simpa using hcl), if_neg hsc, getElem?_set' _ _ _ _ hpl]
    by_cases h : succ = pred
    · subst h; simp [n3]
    · have : ¬ pred = succ := fun h' => h h'.symm
      simp [h, this, n3, hs]
  refine ⟨((b.set pred { np with next := succ }).set c
      { value := none, prev := sentinel, next := sentinel }).set succ { n3 with prev := pred },
    ?_, by simp, ?_⟩
  · simp only [unlink, hc, Option.bind_eq_bind, Option.bind_some, hprev, hnext, setNext, hp,
      setNode, hpl, ↓reduceIte, List.length_set, hcl, setPrev, hb2, hsl]
  · intro s
    rw [getElem?_set' _ _ _ _ (by simpa using hsl)]
    by_cases h1 : s = succ
    · subst h1
      simp only [↓reduceIte, n3]
      by_cases h : pred = s
      · subst h
        have : np = ns := by rw [hp] at hs; exact Option.some.inj hs
        simp [this]
      · simp [h]
    · simp only [h1, ↓reduceIte]
      rw [getElem?_set' _ _ _ _ (by simpa using hcl)]
      by_cases h2 : s = c
      · simp [h2]
      · simp only [h2, ↓reduceIte]
        rw [getElem?_set' _ _ _ _ hpl]

theorem slotAt_eraseIdx (ord : List (Nat × Option α)) (q k : Nat) :
    slotAt (ord.eraseIdx q) k = slotAt ord (if k < q then k else k + 1) := by
  unfold slotAt
  rw [List.getElem?_eraseIdx]
  split <;> rfl

/-- old position of the element at new position `k` after erasing position `q` -/
def oldIdx (q k : Nat) : Nat := if k < q then k else k + 1

/-- neighbours in old positions skip the erased position -/
def predSkip (n q i : Nat) : Nat := if predIdx n i = q then predIdx n q else predIdx n i
def succSkip (n q i : Nat) : Nat := if succIdx n i = q then succIdx n q else succIdx n i

theorem oldIdx_pred (n q k : Nat) (hn2 : 2 ≤ n) (hq : q < n) (hk : k < n - 1) :
    oldIdx q (predIdx (n - 1) k) = predSkip n q (oldIdx q k) := by
  unfold oldIdx predSkip predIdx
  (repeat' split) <;> omega

theorem oldIdx_succ (n q k : Nat) (hn2 : 2 ≤ n) (hq : q < n) (hk : k < n - 1) :
    oldIdx q (succIdx (n - 1) k) = succSkip n q (oldIdx q k) := by
  unfold oldIdx succSkip succIdx
  (repeat' split) <;> omega

/-- unlinking the node at position `q` of a circular list with at least two nodes -/
theorem circ_unlink (b : List (Node α)) (ord : List (Nat × Option α)) (q : Nat)
    (hC : Circ b ord) (hn2 : 2 ≤ ord.length) (hq : q < ord.length) :
    ∃ b', unlink b (slotAt ord q) = some b' ∧ b'.length = b.length ∧
      Circ b' (ord.eraseIdx q) ∧
      b'[slotAt ord q]? = some { value := none, prev := sentinel, next := sentinel } := by
  obtain ⟨hnd, hnode⟩ := hC
  have hinj : ∀ i j, i < ord.length → j < ord.length →
      (slotAt ord i = slotAt ord j ↔ i = j) :=
    fun i j hi hj => ⟨slotAt_inj hnd hi hj, fun h => by rw [h]⟩
  generalize hn : ord.length = n at *
  have hpi : predIdx n q < n := by fin_idx
  have hsi : succIdx n q < n := by fin_idx
  have hcq := hnode q hq
  have hp := hnode (predIdx n q) hpi
  have hs := hnode (succIdx n q) hsi
  have hpc : slotAt ord (predIdx n q) ≠ slotAt ord q := by
    rw [Ne, hinj _ _ (by omega) (by omega)]; fin_idx
  have hsc : slotAt ord (succIdx n q) ≠ slotAt ord q := by
    rw [Ne, hinj _ _ (by omega) (by omega)]; fin_idx
  obtain ⟨b', hun, hlen, hspec⟩ := unlink_spec b _ _ _ _ _ _ hcq hp hs rfl rfl hpc hsc
  have hdet : b'[slotAt ord q]? = some { value := none, prev := sentinel, next := sentinel } := by
    rw [hspec, if_neg (fun h => hsc h.symm), if_pos rfl]
  -- the surviving nodes, in old positions
  have hold : ∀ i, i < n → i ≠ q →
      b'[slotAt ord i]? = some { value := valAt ord i, prev := slotAt ord (predSkip n q i),
                                  next := slotAt ord (succSkip n q i) } := by
    intro i hi hiq
    have e1 : (slotAt ord i = slotAt ord (succIdx n q)) ↔ i = succIdx n q :=
      hinj _ _ (by omega) (by omega)
    have e2 : (slotAt ord i = slotAt ord (predIdx n q)) ↔ i = predIdx n q :=
      hinj _ _ (by omega) (by omega)
    have e0 : ¬ (slotAt ord i = slotAt ord q) := by
      rw [hinj _ _ (by omega) (by omega)]; exact hiq
    have e3 : (slotAt ord (predIdx n q) = slotAt ord (succIdx n q)) ↔ predIdx n q = succIdx n q :=
      hinj _ _ (by omega) (by omega)
    rw [hspec]
    by_cases c1 : i = succIdx n q
    · rw [if_pos (e1.mpr c1)]
      by_cases c3 : predIdx n q = succIdx n q
      · rw [if_pos (e3.mpr c3)]
        apply node_eq
        · (try dsimp only); rw [c1]
        · (try dsimp only); congr 1; revert c1 c3; unfold predSkip predIdx succIdx; (repeat' split) <;> omega
        · (try dsimp only); congr 1; revert c1 c3; unfold succSkip predIdx succIdx; (repeat' split) <;> omega
      · rw [if_neg (fun h => c3 (e3.mp h))]
        apply node_eq
        · (try dsimp only); rw [c1]
        · (try dsimp only); congr 1; revert c1 c3; unfold predSkip predIdx succIdx; (repeat' split) <;> omega
        · (try dsimp only); congr 1; revert c1 c3; unfold succSkip predIdx succIdx; (repeat' split) <;> omega
    · rw [if_neg (fun h => c1 (e1.mp h)), if_neg e0]
      by_cases c2 : i = predIdx n q
      · rw [if_pos (e2.mpr c2)]
        apply node_eq
        · (try dsimp only); rw [c2]
        · (try dsimp only); congr 1; revert c1 c2; unfold predSkip predIdx succIdx; (repeat' split) <;> omega
        · (try dsimp only); congr 1; revert c1 c2; unfold succSkip predIdx succIdx; (repeat' split) <;> omega
      · rw [if_neg (fun h => c2 (e2.mp h)), hnode i hi]
        apply node_eq
        · rfl
        · (try dsimp only); congr 1; revert c1 c2; unfold predSkip predIdx succIdx; (repeat' split) <;> omega
        · (try dsimp only); congr 1; revert c1 c2; unfold succSkip predIdx succIdx; (repeat' split) <;> omega
  refine ⟨b', hun, hlen, ⟨?_, ?_⟩, hdet⟩
  · have hsub : (ord.eraseIdx q).Sublist ord := List.eraseIdx_sublist _ _
    exact hnd.sublist (hsub.map _)
  · intro k hk
    have hlen' : (ord.eraseIdx q).length = n - 1 := by
      rw [List.length_eraseIdx, if_pos (by omega), hn]
    rw [hlen'] at hk ⊢
    have hpk : predIdx (n - 1) k < n - 1 := by unfold predIdx; split <;> omega
    have hsk : succIdx (n - 1) k < n - 1 := by unfold succIdx; split <;> omega
    simp only [slotAt_eraseIdx, SignaloModel.Median.valAt_eraseIdx]
    have hi : oldIdx q k < n := by unfold oldIdx; split <;> omega
    have hiq : oldIdx q k ≠ q := by unfold oldIdx; split <;> omega
    have := hold (oldIdx q k) hi hiq
    rw [← oldIdx_pred n q k hn2 hq hk, ← oldIdx_succ n q k hn2 hq hk] at this
    exact this

end SignaloModel.MedianL
