import SignaloModel.Proofs.OwnedDeque
set_option linter.unusedSectionVars false
/-!
C04 / C19 (structure of the monotonic deque): in every state reachable from `Default`, every entry the moving-max
deque still holds is a *suffix maximum* of the input history — its value is the sample that arrived at one
particular position inside the current window, and no sample that arrived at or after that position is greater.
Together with `taps_length_run` this is the closed description of what the deque owns: a subsequence of the
suffix-maximum records of the last `min k N` samples, in arrival order, front = the window maximum.
Holds for every counter bound `M > N` (i.e. across every rebase of the `usize` clock).
-/
namespace SignaloModel.Deque

variable {α : Type}

/-- an entry of value `v` is a suffix maximum of `xs` inside the last `N` samples -/
def IsSuffixMax [LinearOrder α] (N : Nat) (xs : List α) (v : α) : Prop :=
  ∃ j, xs[j]? = some v ∧ xs.length ≤ j + N ∧ ∀ i w, j ≤ i → xs[i]? = some w → w ≤ v

/-- state level: the invariant makes every tap a suffix maximum at its own timestamp -/
theorem tap_suffixMax_of_invU [LinearOrder α] {N : Nat} {s : DS α} {xs : List α} (h : InvU N s xs) :
    ∀ p ∈ s.taps, xs[p.2]? = some p.1 ∧ xs.length ≤ p.2 + N ∧
      ∀ i w, p.2 ≤ i → xs[i]? = some w → w ≤ p.1 := by
  obtain ⟨htime, hincr, hmono, htap, hdom⟩ := h
  intro p hp
  obtain ⟨_, hyoung, hval⟩ := htap p hp
  refine ⟨hval, by omega, ?_⟩
  intro i w hi hw
  obtain ⟨q, hq, hiq, hwq⟩ := hdom i w hw (by omega)
  -- `q` sits at or behind `p` in the deque, so its value is at most `p`'s
  have hqp : q.1 ≤ p.1 := by
    by_cases hpq : p = q
    · subst hpq; exact le_refl _
    · have hlt : p.2 < q.2 ∨ p.2 = q.2 := by omega
      -- positions in the list
      obtain ⟨a, ha, hpa⟩ := List.getElem_of_mem hp
      obtain ⟨b, hb, hqb⟩ := List.getElem_of_mem hq
      have hab : a < b := by
        rcases Nat.lt_trichotomy a b with h1 | h1 | h1
        · exact h1
        · subst h1; exact absurd (hpa.symm.trans hqb) hpq
        · have := List.pairwise_iff_getElem.mp hincr b a hb ha h1
          rw [hpa, hqb] at this
          omega
      have := List.pairwise_iff_getElem.mp hmono a b ha hb hab
      rw [hpa, hqb] at this
      exact this
  exact le_trans hwq hqp

/-- **C04/C19 (max deque)**: from `Default`, for every counter bound `M > N`, every entry held after any input
history is a suffix maximum of that history inside the window, and the front entry is what `filter` returned last -/
theorem taps_suffixMax_run [LinearOrder α] {N M : Nat} (hN : 1 ≤ N) (hM : N + 1 ≤ M) (xs : List α) :
    ∃ r, Registry.stepRunO (fun s x => step gtMax N (some M) s x) (init : DS α) xs = some r ∧
      ∀ p ∈ r.1.taps, IsSuffixMax N xs p.1 := by
  obtain ⟨r, hrun, sU', d', hinv, hrel⟩ :=
    runB_state hN hM xs init init 0 [] (invU_init N) (by simp [shiftS, shiftL, init]) (by simp [init])
  refine ⟨r, hrun, ?_⟩
  intro p hp
  have hmem : (p.1, p.2 + d') ∈ sU'.taps := by
    rw [hrel]; simp only [shiftS, shiftL]
    exact List.mem_map.mpr ⟨p, hp, rfl⟩
  have := tap_suffixMax_of_invU hinv _ hmem
  simp only [List.nil_append] at this
  exact ⟨p.2 + d', this.1, this.2.1, this.2.2⟩

/-- non-vacuity: window 3 over `[5, 1, 4, 2]` — the deque holds `4` and `2` (suffix maxima of the last three
samples), not `5` (expired) and not `1` (dominated by the later `4`) -/
example : (Registry.stepRunO (fun s x => step (gtMax (α := Nat)) 3 (some 7) s x) init [5, 1, 4, 2]).map
    (fun r => r.1.taps.map (·.1)) = some [4, 2] := by decide

end SignaloModel.Deque

#print axioms SignaloModel.Deque.taps_suffixMax_run
