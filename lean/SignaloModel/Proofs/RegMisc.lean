import SignaloModel.Proofs.BridgeHull
import SignaloModel.Proofs.BridgeConv
import SignaloModel.Proofs.KalmanProofs
set_option linter.unusedSectionVars false
/-!
Two clauses of C05 / C06 at registry level that the other files leave implicit:
* C06: in the unit configuration (`a = c = 1, b = 0, r ≥ 0, q > 0`) the error covariance held by every reachable
  state is non-negative;
* C05: the normalising constructor (`Convolve::normalized`) yields a kernel of unit gain whenever the coefficient sum
  is non-zero, so the filter built from it reproduces constant signals; with a zero sum it leaves the kernel alone.
-/
namespace SignaloModel.Registry
open SignaloModel SignaloModel.Smooth

section kalman
variable {K : Type} [Field K] [LinearOrder K] [IsStrictOrderedRing K] [BEq K] [Median.POrd K] [Classify.Cmp K]

/-- covariance of a Kalman state as the filter reports it -/
def kalmanCov : St K → Option K
  | .kalman _ s => some s.cov
  | _ => none

theorem kalman_cov_step (r q : K) (hr : 0 ≤ r) (hq : 0 < q) (s : KState K) (hcov : 0 ≤ s.cov) (z u : K) :
    0 ≤ (kalmanStep { r := r, q := q, a := 1, b := 0, c := 1 } s z u).1.cov := by
  cases hv : s.value with
  | none =>
    have : s = { cov := s.cov, value := none } := by cases s; simp_all
    rw [this]
    simp only [kalmanStep, mul_one, div_one]
    exact hq.le
  | some x =>
    have : s = { cov := s.cov, value := some x } := by cases s; simp_all
    rw [this]
    have := (kalman_step_hull r q hr hq s.cov x z u (min x z) (max x z) hcov
      ⟨min_le_left _ _, le_max_left _ _⟩ ⟨min_le_right _ _, le_max_right _ _⟩).2
    simpa using this

/-- **C06 at registry level**: unit configuration — the covariance reported by every reachable state is `≥ 0` -/
theorem kalman_registry_cov_nonneg (r q : K) (hr : 0 ≤ r) (hq : 0 < q) (zs : List (K × K)) :
    ∃ s' ys p, (Cfg.kalman { r := r, q := q, a := 1, b := 0, c := 1 }).init.run (zs.map (fun p => [p.1, p.2]))
        = some (s', ys) ∧ kalmanCov s' = some p ∧ 0 ≤ p := by
  let cfg : KCfg K := { r := r, q := q, a := 1, b := 0, c := 1 }
  have hrun : ∀ (zs : List (K × K)) (s : KState K), 0 ≤ s.cov →
      ∃ s' ys, (St.kalman cfg s).run (zs.map (fun p => [p.1, p.2])) = some (St.kalman cfg s', ys) ∧ 0 ≤ s'.cov := by
    intro zs
    induction zs with
    | nil => intro s hs; exact ⟨s, [], rfl, hs⟩
    | cons zu zs ih =>
      intro s hs
      obtain ⟨s', ys, h, hc⟩ := ih (kalmanStep cfg s zu.1 zu.2).1 (kalman_cov_step r q hr hq s hs zu.1 zu.2)
      exact ⟨s', [(kalmanStep cfg s zu.1 zu.2).2] :: ys, by simp [St.run, St.filter, h], hc⟩
  obtain ⟨s', ys, h, hc⟩ := hrun zs { cov := 0, value := none } (le_refl _)
  exact ⟨St.kalman cfg s', ys, s'.cov, h, rfl, hc⟩

end kalman
section normalized
open SignaloModel.Conv SignaloModel.Fir
variable {K : Type} [Field K] [LT K] [DecidableLT K] [BEq K] [LawfulBEq K] [Median.POrd K] [Classify.Cmp K]

theorem foldl_add_eq_sum (l : List K) : l.foldl (fun s c => s + c) 0 = l.sum := by
  have : ∀ a : K, l.foldl (fun s c => s + c) a = a + l.sum := by
    induction l with
    | nil => intro a; simp
    | cons x l ih => intro a; simp [ih, add_assoc]
  simpa using this 0

/-- **C05 (normalising constructor)**: a non-zero coefficient sum is normalised to one -/
theorem normalized_sum (c : List K) (h : c.sum ≠ 0) : (Conv.normalized c).sum = 1 := by
  unfold Conv.normalized
  simp only [foldl_add_eq_sum]
  have hb : (c.sum == 0) = false := by simpa using h
  simp only [hb, Bool.false_eq_true, ↓reduceIte]
  have : c.map (fun x => x / c.sum) = c.map (fun x => x * (c.sum)⁻¹) := by
    apply List.map_congr_left; intro a _; rw [div_eq_mul_inv]
  rw [this]
  have hs : ∀ (l : List K) (a : K), (l.map (fun x => x * a)).sum = l.sum * a := by
    intro l a
    induction l with
    | nil => simp
    | cons x l ih => simp [ih, add_mul]
  rw [hs, mul_inv_cancel₀ h]

/-- with a zero sum the kernel is left alone -/
theorem normalized_of_sum_zero (c : List K) (h : c.sum = 0) : Conv.normalized c = c := by
  unfold Conv.normalized
  simp [foldl_add_eq_sum, h]

omit [LawfulBEq K] in
theorem normalized_length (c : List K) : (Conv.normalized c).length = c.length := by
  unfold Conv.normalized
  simp only
  split <;> simp

/-- **C05 at registry level**: the filter built by the normalising constructor from any kernel with a non-zero
coefficient sum reproduces every constant signal exactly -/
theorem conv_registry_normalized_const (c : List K) (hN : 1 ≤ c.length) (h : c.sum ≠ 0) (v : K) (n : Nat) :
    ∃ s', (Cfg.convolve (Conv.normalized c)).init.run (sing (List.replicate n v))
      = some (s', sing (List.replicate n v)) := by
  obtain ⟨s', ys, hrun, hlen, hk⟩ :=
    conv_registry_correct (Conv.normalized c) (by rw [normalized_length]; exact hN) (List.replicate n v)
  refine ⟨s', ?_⟩
  rw [hrun]
  congr 3
  apply List.ext_getElem
  · simpa using hlen
  · intro k h1 h2
    have hkn : k < n := by simpa using h2
    have hx : (List.replicate n v)[k]? = some v := by simp [hkn]
    have := hk k v hx
    rw [List.getElem?_eq_getElem h1] at this
    simp only [Option.some.injEq] at this
    rw [this, List.getElem_replicate]
    simp only [Spec.firAt, List.take_replicate, List.length_replicate]
    have hmin : min (k + 1) n = k + 1 := by omega
    rw [hmin, Nat.add_sub_cancel]
    rw [convL_congr _ _ (fun _ => v) k (by
      intro i hi
      simp only [Spec.signal, List.getD]
      have : i < k + 1 := by omega
      simp [this])]
    rw [convL_const, normalized_sum c h, one_mul]

end normalized
end SignaloModel.Registry

#print axioms SignaloModel.Registry.kalman_registry_cov_nonneg
#print axioms SignaloModel.Registry.normalized_sum
#print axioms SignaloModel.Registry.conv_registry_normalized_const
