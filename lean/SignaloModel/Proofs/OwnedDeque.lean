import SignaloModel.Proofs.BridgeDeque
import SignaloModel.Proofs.OwnedProofs
set_option linter.unusedSectionVars false
/-!
C19 for the moving max / min / bounds filters: in every state reachable from `Default` the monotonic deque holds
at least one and at most `min k N` samples (it never grows past its ring of `N` slots, so `push_back` never evicts —
and drops — an entry behind the algorithm's back), whatever the rebasing of the `usize` clock.
-/
namespace SignaloModel.Deque

variable {α : Type}

/-- the invariant bounds the deque: strictly increasing timestamps inside the last `N` ticks -/
theorem taps_length_of_invU [LinearOrder α] {N : Nat} (hN : 1 ≤ N) {s : DS α} {xs : List α} (h : InvU N s xs) :
    s.taps.length ≤ min xs.length N ∧ (xs ≠ [] → 1 ≤ s.taps.length) := by
  obtain ⟨htime, hincr, _, htap, hdom⟩ := h
  constructor
  · have hl := length_le_of_increasing (s.taps.map (·.2)) (s.time - N) s.time
      (by simpa [List.pairwise_map] using hincr)
      (by
        intro a ha
        obtain ⟨p, hp, rfl⟩ := List.mem_map.mp ha
        have := htap p hp
        omega)
    simp only [List.length_map] at hl
    omega
  · intro hne
    obtain ⟨j, w, hj⟩ : ∃ j w, xs[j]? = some w ∧ s.time ≤ j + N ∧ True := by
      cases hx : xs.getLast? with
      | none => simp at hx; exact absurd hx hne
      | some w =>
        refine ⟨xs.length - 1, w, ?_, ?_, trivial⟩
        · rw [List.getLast?_eq_getElem?] at hx; exact hx
        · have : 0 < xs.length := List.length_pos_iff.mpr hne
          omega
    obtain ⟨p, hp, _⟩ := hdom j w hj.1 hj.2.1
    exact List.length_pos_iff.mpr (List.ne_nil_of_mem hp)

/-- the bounded (rebasing) run stays a time shift of a state satisfying the invariant -/
theorem runB_state [LinearOrder α] {N M : Nat} (hN : 1 ≤ N) (hM : N + 1 ≤ M) (xs' : List α) :
    ∀ (sB sU : DS α) (d : Nat) (xs : List α), InvU N sU xs → sU = shiftS d sB → sB.time ≤ M →
      ∃ r, Registry.stepRunO (fun s x => step gtMax N (some M) s x) sB xs' = some r ∧
        ∃ sU' d', InvU N sU' (xs ++ xs') ∧ sU' = shiftS d' r.1 := by
  induction xs' with
  | nil =>
    intro sB sU d xs hinv hrel _
    exact ⟨(sB, []), rfl, sU, d, by simpa using hinv, hrel⟩
  | cons x xs' ih =>
    intro sB sU d xs hinv hrel hsB
    obtain ⟨sU', y, hstepU, hinv', _, _, hyoungU⟩ := stepU_correct hN hinv x
    rw [hrel, step_shift] at hstepU
    cases hB1 : step gtMax N none sB x with
    | none => simp [hB1] at hstepU
    | some r =>
      obtain ⟨sB1, y1⟩ := r
      simp only [hB1, Option.map_some, Option.some.injEq, Prod.mk.injEq] at hstepU
      obtain ⟨hsU', hy⟩ := hstepU
      subst hy
      have hyoungB : ∀ p ∈ sB1.taps, sB.time < p.2 + N := by
        intro p hp
        have := hyoungU (p.1, p.2 + d) (by
          rw [← hsU']; simp only [shiftS, shiftL]
          exact List.mem_map.mpr ⟨p, hp, rfl⟩)
        rw [hrel] at this
        simp only [shiftS] at this
        omega
      obtain ⟨sB', d', hstepB, hrel', hsB'⟩ := tick_rel gtMax N M hM sB sB1 x y1 hsB hB1 hyoungB
      have hrel'' : sU' = shiftS (d' + d) sB' := by
        rw [← hsU', hrel', shiftS_shiftS]
      obtain ⟨r, hrun, sU'', d'', hinv'', hrel'''⟩ := ih sB' sU' (d' + d) (xs ++ [x]) hinv' hrel'' hsB'
      refine ⟨(r.1, y1 :: r.2), ?_, sU'', d'', by simpa [List.append_assoc] using hinv'', hrel'''⟩
      simp [Registry.stepRunO, hstepB, hrun]

/-- **C19 (max deque)**: from `Default`, after `k` samples the deque holds between 1 (for `k ≥ 1`) and `min k N`
entries, for every counter bound `M > N` -/
theorem taps_length_run [LinearOrder α] {N M : Nat} (hN : 1 ≤ N) (hM : N + 1 ≤ M) (xs : List α) :
    ∃ r, Registry.stepRunO (fun s x => step gtMax N (some M) s x) (init : DS α) xs = some r ∧
      r.1.taps.length ≤ min xs.length N ∧ (xs ≠ [] → 1 ≤ r.1.taps.length) := by
  obtain ⟨r, hrun, sU', d', hinv, hrel⟩ :=
    runB_state hN hM xs init init 0 [] (invU_init N) (by simp [shiftS, shiftL, init]) (by simp [init])
  have hb := taps_length_of_invU hN hinv
  have hlen : sU'.taps.length = r.1.taps.length := by rw [hrel]; simp [shiftS, shiftL]
  simp only [List.nil_append] at hb
  rw [hlen] at hb
  exact ⟨r, hrun, hb⟩

end SignaloModel.Deque

namespace SignaloModel.Registry
open SignaloModel SignaloModel.Deque

variable {α : Type} [LinearOrder α] [Add α] [Sub α] [Mul α] [Div α] [Neg α] [OfNat α 0] [OfNat α 1]
  [BEq α] [Median.POrd α]

/-- **C19 (moving max) at registry level** -/
theorem owned_max_registry (N : Nat) (hN : 1 ≤ N) (hM : N + 1 ≤ usizeMax) (xs : List α) :
    ∃ s' ys, (Cfg.max N : Cfg α).init.run (sing xs) = some (s', ys) ∧
      s'.owned ≤ min xs.length N ∧ (xs ≠ [] → 1 ≤ s'.owned) := by
  obtain ⟨r, hrun, hb⟩ := taps_length_run (α := α) hN hM xs
  have h1 := run_of_stepO (St.max N) (fun s x => Deque.step gtB N (some usizeMax) s x)
    (by intro s x; simp only [St.filter]; cases Deque.step gtB N (some usizeMax) s x <;> simp) Deque.init xs
  have hgt : (gtB : α → α → Bool) = gtMax := rfl
  rw [hgt, hrun] at h1
  exact ⟨St.max N r.1, sing r.2, by simpa [Cfg.init] using h1, hb⟩

/-- **C19 (moving min) at registry level** -/
theorem owned_min_registry (N : Nat) (hN : 1 ≤ N) (hM : N + 1 ≤ usizeMax) (xs : List α) :
    ∃ s' ys, (Cfg.min N : Cfg α).init.run (sing xs) = some (s', ys) ∧
      s'.owned ≤ min xs.length N ∧ (xs ≠ [] → 1 ≤ s'.owned) := by
  obtain ⟨r, hrun, hb⟩ := taps_length_run (α := αᵒᵈ) hN hM xs
  have h1 := run_of_stepO (St.min N) (fun s x => Deque.step ltB N (some usizeMax) s x)
    (by intro s x; simp only [St.filter]; cases Deque.step ltB N (some usizeMax) s x <;> simp) Deque.init xs
  have hgt : (ltB : α → α → Bool) = gtMin := rfl
  rw [hgt] at h1
  have hrun' : stepRunO (fun s x => Deque.step gtMin N (some usizeMax) s x) (Deque.init : DS α) xs = some r := hrun
  have h1' : (St.min N (Deque.init : DS α)).run (sing xs) = some (St.min N r.1, sing r.2) := by
    rw [h1, hrun']; rfl
  exact ⟨St.min N r.1, sing r.2, h1', hb⟩

/-- **C19 (moving bounds) at registry level**: the two deques together hold between 2 and `2·min k N` samples -/
theorem owned_bounds_registry (N : Nat) (hN : 1 ≤ N) (hM : N + 1 ≤ usizeMax) (xs : List α) :
    ∃ s' ys, (Cfg.bounds N : Cfg α).init.run (sing xs) = some (s', ys) ∧
      s'.owned ≤ 2 * min xs.length N ∧ (xs ≠ [] → 2 ≤ s'.owned) := by
  obtain ⟨rmax, hmax, hbmax⟩ : ∃ r : DS α × List α,
      stepRunO (fun s x => Deque.step gtB N (some usizeMax) s x) (Deque.init : DS α) xs = some r ∧
      r.1.taps.length ≤ min xs.length N ∧ (xs ≠ [] → 1 ≤ r.1.taps.length) := taps_length_run (α := α) hN hM xs
  obtain ⟨rmin, hmin, hbmin⟩ : ∃ r : DS α × List α,
      stepRunO (fun s x => Deque.step ltB N (some usizeMax) s x) (Deque.init : DS α) xs = some r ∧
      r.1.taps.length ≤ min xs.length N ∧ (xs ≠ [] → 1 ≤ r.1.taps.length) := taps_length_run (α := αᵒᵈ) hN hM xs
  have h := bounds_run (α := α) N xs Deque.init Deque.init
  rw [hmin, hmax] at h
  refine ⟨St.bounds N rmin.1 rmax.1, _, by rw [Cfg.init, h]; rfl, ?_, ?_⟩
  · simp only [St.owned]; omega
  · intro hne
    have := hbmax.2 hne
    have := hbmin.2 hne
    simp only [St.owned]; omega

end SignaloModel.Registry

#print axioms SignaloModel.Registry.owned_bounds_registry
#print axioms SignaloModel.Registry.owned_max_registry
#print axioms SignaloModel.Registry.owned_min_registry
