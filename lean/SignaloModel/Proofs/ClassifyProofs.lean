import SignaloModel.Model.Classify
import Mathlib.Order.Defs.LinearOrder
import Mathlib.Order.Basic
/-! Proofs for C08/C09. -/
namespace SignaloModel.Classify

variable {α : Type}

/-! ### debounce: saturation is harmless -/

theorem debounce_eq_min [BEq α] (M : Nat) (pred : α) (r : Nat) (xs : List α) :
    debounceRun M pred (min r M) xs = min (runLenFrom pred r xs) M := by
  induction xs generalizing r with
  | nil => rfl
  | cons x xs ih =>
    simp only [debounceRun, runLenFrom, debounceStep]
    by_cases h : (x == pred) = true
    · simp only [h, ↓reduceIte]
      have : min (min r M + 1) M = min (r + 1) M := by omega
      rw [this]; exact ih (r + 1)
    · simp only [h, Bool.false_eq_true, ↓reduceIte]
      have := ih 0
      simpa using this

/-- on ⇔ the unbounded run length reaches the threshold, for every threshold a `usize` can hold -/
theorem debounce_on_iff [BEq α] (M thr : Nat) (hthr : thr ≤ M) (pred : α) (xs : List α) :
    decide (debounceRun M pred 0 xs ≥ thr) = decide (runLenFrom pred 0 xs ≥ thr) := by
  have h := debounce_eq_min M pred 0 xs
  simp only [Nat.zero_min] at h
  rw [h]
  congr 1
  apply propext
  constructor <;> intro h' <;> omega

theorem leadRun_all [BEq α] (pred : α) (l : List α) (h : l.all (· == pred) = true) :
    leadRun pred l = l.length := by
  induction l with
  | nil => rfl
  | cons a l ih =>
    simp only [List.all_cons, Bool.and_eq_true] at h
    simp [leadRun, h.1, ih h.2]

theorem leadRun_snoc [BEq α] (pred : α) (l : List α) (x : α) :
    leadRun pred (l ++ [x]) =
      if l.all (· == pred) = true then l.length + (if (x == pred) = true then 1 else 0)
      else leadRun pred l := by
  induction l with
  | nil => by_cases hx : (x == pred) = true <;> simp [leadRun, hx]
  | cons a l ih =>
    by_cases ha : (a == pred) = true
    · simp only [List.cons_append, leadRun, ha, ↓reduceIte, ih, List.all_cons, Bool.true_and,
        List.length_cons]
      split <;> omega
    · simp [leadRun, ha]

theorem runLenFrom_spec [BEq α] (pred : α) (r : Nat) (xs : List α) :
    runLenFrom pred r xs =
      trailingRun pred xs + (if xs.all (· == pred) = true then r else 0) := by
  induction xs generalizing r with
  | nil => simp [runLenFrom, trailingRun, leadRun]
  | cons x xs ih =>
    simp only [runLenFrom]
    rw [ih]
    unfold trailingRun
    rw [List.reverse_cons, leadRun_snoc]
    have hrev : xs.reverse.all (· == pred) = xs.all (· == pred) := by simp
    rw [hrev]
    by_cases hall : xs.all (· == pred) = true
    · have hl := leadRun_all pred xs.reverse (by rw [hrev]; exact hall)
      by_cases hx : (x == pred) = true
      · simp [hall, hx, hl]; omega
      · simp [hall, hx, hl]
    · by_cases hx : (x == pred) = true <;> simp [hall, hx]

/-! ### Schmitt trigger against its reference automaton (total orders) -/

instance [LinearOrder α] : Cmp α where
  ge a b := decide (b ≤ a)
  gt a b := decide (b < a)
  pcmp a b := some (compare a b)

/-- reference: turn on only strictly above `high`, off only strictly below `low`, else keep -/
def schmittRef [LinearOrder α] (low high : α) (on : Bool) (x : α) : Bool :=
  if on then (if x < low then false else true) else (if high < x then true else false)

theorem schmitt_ref [LinearOrder α] (low high : α) (on : Bool) (x : α) :
    schmittStep low high on x = schmittRef low high on x := by
  unfold schmittStep schmittRef
  cases on
  · simp [Cmp.gt]
  · by_cases h : x < low
    · simp [Cmp.ge, h, not_le.mpr h]
    · simp [Cmp.ge, h, not_lt.mp h]

/-! ### peaks -/

/-- what the property demands at sample `x` given the two previous samples -/
def peakSpec [LinearOrder α] (p2 p1 : Option α) (x : α) : Peak :=
  match p2, p1 with
  | some a, some b =>
    if a < b ∧ x < b then .max else if b < a ∧ b < x then .min else .none
  | _, _ => .none

def peakSpecRun [LinearOrder α] (p2 p1 : Option α) : List α → List Peak
  | [] => []
  | x :: xs => peakSpec p2 p1 x :: peakSpecRun p1 (some x) xs

/-- the filter state that corresponds to "the previous two samples were `p2`, `p1`" -/
def stateOf [LinearOrder α] (p2 p1 : Option α) : PeaksState α :=
  { prevInput := p1,
    slope := match p1 with
      | none => none
      | some b => some (slopeOf p2 b) }

theorem slopeOf_lin [LinearOrder α] (a x : α) :
    slopeOf (some a) x = if a < x then .rising else if x < a then .falling else .flat := by
  unfold slopeOf
  simp only [Cmp.pcmp]
  rcases lt_trichotomy a x with h | h | h
  · simp [compare_lt_iff_lt.mpr h, h]
  · subst h; simp
  · simp [compare_gt_iff_gt.mpr h, h, not_lt.mpr h.le]

theorem peaks_correct [LinearOrder α] (xs : List α) (p2 p1 : Option α)
    (hwf : p1 = none → p2 = none) :
    peaksRun (stateOf p2 p1) xs = peakSpecRun p2 p1 xs := by
  induction xs generalizing p2 p1 with
  | nil => rfl
  | cons x xs ih =>
    simp only [peaksRun, peakSpecRun]
    have hstep : (peaksStep (stateOf p2 p1) x).1 = stateOf p1 (some x) := by
      simp [peaksStep, stateOf]
    rw [hstep, ih p1 (some x) (by simp)]
    congr 1
    -- the decision table against the three-sample specification
    cases p1 with
    | none =>
      have := hwf rfl; subst this
      simp [peaksStep, stateOf, peakOf, peakSpec]
    | some b =>
      cases p2 with
      | none => simp [peaksStep, stateOf, peakOf, peakSpec, slopeOf]
      | some a =>
        simp only [peaksStep, stateOf, peakSpec, slopeOf_lin]
        by_cases h1 : a < b <;> by_cases h1' : b < a <;> by_cases h2 : b < x <;>
          by_cases h2' : x < b <;>
          first
          | exact absurd h1 (lt_asymm h1')
          | exact absurd h2 (lt_asymm h2')
          | simp [peakOf, h1, h1', h2, h2']

/-- driving the peak filter with samples or with their slopes gives the same outputs -/
theorem peaks_value_eq_slope [Cmp α] (xs : List α) (st : PeaksState α) :
    peaksRun st xs = peaksSlopeRun st.slope (slopesRun st.prevInput xs) := by
  induction xs generalizing st with
  | nil => rfl
  | cons x xs ih =>
    simp only [peaksRun, slopesRun, peaksSlopeRun]
    rw [ih]
    simp [peaksStep]

end SignaloModel.Classify

#print axioms SignaloModel.Classify.peaks_correct
#print axioms SignaloModel.Classify.runLenFrom_spec
