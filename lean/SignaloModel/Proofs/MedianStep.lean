import SignaloModel.Proofs.MedianLoop
/-! Closed form of a whole `Median::filter` step on the list-level model . -/
namespace SignaloModel.Median

variable {α : Type}

theorem foldl_closed [POrd α] (o1 : List (Nat × Option α)) (m1 J c : Nat) (x : α)
    (H : WalkHyp o1 m1 J x) (i : Nat) (hi : i ≤ o1.length + 1) :
    (List.range i).foldl (loopBody (o1.length + 1) c x) { ord := o1, ins := .no, med := 0 }
      = loopSt o1 m1 J c x i := by
  induction i with
  | zero => simp [loopSt]
  | succ k ih =>
    rw [List.range_succ, List.foldl_append, ih (by omega)]
    simp only [List.foldl_cons, List.foldl_nil]
    exact loopBody_closed o1 m1 J c x H k (by omega)

/-- the list after the step: the new node sits at position `J` of the remaining nodes -/
def insFinal (o1 : List (Nat × Option α)) (J c : Nat) (x : α) : List (Nat × Option α) :=
  o1.take J ++ (c, some x) :: o1.drop J

/-- `≥` and `≤` are dual (Rust: `a >= b` iff `b <= a`); holds for every lawful `PartialOrd`. -/
class DualOrd (α : Type) [POrd α] : Prop where
  dual : ∀ a b : α, POrd.le a b = POrd.ge b a

theorem rotateLeft_append_singleton (o : List (Nat × Option α)) (e : Nat × Option α) :
    (o ++ [e]).rotateLeft o.length = e :: o := by
  unfold List.rotateLeft
  by_cases h : o.length = 0
  · have : o = [] := List.eq_nil_of_length_eq_zero h
    subst this; simp
  · have h1 : ¬ (o ++ [e]).length ≤ 1 := by
      rw [List.length_append, List.length_singleton]; omega
    rw [if_neg h1]
    simp only [List.length_append, List.length_singleton]
    rw [Nat.mod_eq_of_lt (by omega)]
    simp

theorem findIdx_append_singleton (o : List (Nat × Option α)) (c : Nat) (v : Option α)
    (hc : ∀ p ∈ o, p.1 ≠ c) : (o ++ [(c, v)]).findIdx (fun p => p.1 == c) = o.length := by
  induction o with
  | nil => simp [List.findIdx_cons]
  | cons a o ih =>
    have ha : (a.1 == c) = false := by
      have := hc a (by simp)
      simpa using this
    simp only [List.cons_append, List.findIdx_cons, ha, cond_false, List.length_cons]
    rw [ih (fun p hp => hc p (by simp [hp]))]

theorem insertIdx_eq_take_drop {β : Type} (l : List β) (j : Nat) (a : β) (h : j ≤ l.length) :
    l.insertIdx j a = l.take j ++ a :: l.drop j := by
  induction l generalizing j with
  | nil =>
    have : j = 0 := by simpa using h
    subst this; simp
  | cons b l ih =>
    cases j with
    | zero => simp
    | succ j =>
      have := ih j (by simpa using h)
      simp [List.insertIdx_succ_cons, this]

/-- arithmetic of the median position after `update_head` and the even-width adjustment -/
theorem med_final (n m1 : Nat) (hm : m1 ≤ n) :
    (if (n + 1) % 2 = 0 then (cnt (n + 1) m1 (n + 1) + (n + 1) - 1) % (n + 1)
      else cnt (n + 1) m1 (n + 1)) = m1 / 2 := by
  unfold cnt
  have hmin : min (n + 1) m1 = m1 := by omega
  rw [hmin]
  by_cases he : (n + 1) % 2 = 0
  · have : (n + 1 = n + 1 ∧ (n + 1) % 2 = 0) := ⟨rfl, he⟩
    simp only [he, this, and_self, ↓reduceIte]
    have : m1 / 2 + 1 + (n + 1) - 1 = m1 / 2 + (n + 1) := by omega
    rw [this, Nat.add_mod_right, Nat.mod_eq_of_lt (by omega)]
  · simp [he]

theorem med_rot (n S : Nat) (hS : S < n + 1) :
    (S + (n + 1) - 1 + (n + 1) - n) % (n + 1) = S := by
  have : S + (n + 1) - 1 + (n + 1) - n = S + (n + 1) := by omega
  rw [this, Nat.add_mod_right, Nat.mod_eq_of_lt hS]

theorem cnt_lt (n m1 : Nat) (hm : m1 ≤ n) : cnt (n + 1) m1 (n + 1) < n + 1 := by
  unfold cnt
  have hmin : min (n + 1) m1 = m1 := by omega
  rw [hmin]
  split <;> omega

theorem finish_closed [POrd α] [DualOrd α] (o1 : List (Nat × Option α)) (m1 J c : Nat) (x : α)
    (hc : ∀ p ∈ o1, p.1 ≠ c) (H : WalkHyp o1 m1 J x) :
    ∃ y, valAt (insFinal o1 J c x) (m1 / 2) = some y ∧
      finish (o1.length + 1) c x
          { ord := insJ o1 J (c, some x), ins := kindJ o1.length J,
            med := cnt (o1.length + 1) m1 (o1.length + 1) }
        = some ({ order := insFinal o1 J c x, cursor := (c + 1) % (o1.length + 1),
                  med := m1 / 2 }, y) := by
  obtain ⟨hm, hJ, hsome, hnone⟩ := H
  generalize hn : o1.length = n at *
  have hmf := med_final n m1 hm
  have hcl := cnt_lt n m1 hm
  -- the final list and the rotation flag, by cases on where the node was inserted
  have hord : ∃ rot : Bool,
      shouldHead x (valAt (insJ o1 J (c, some x)) 0) = rot ∧
      (if rot = true then (insJ o1 J (c, some x)).rotateLeft
          ((insJ o1 J (c, some x)).findIdx (fun p => p.1 == c)) else insJ o1 J (c, some x))
        = insFinal o1 J c x ∧
      (if rot = true then (cnt (n + 1) m1 (n + 1) + (n + 1) - 1 + (n + 1)
          - (insJ o1 J (c, some x)).findIdx (fun p => p.1 == c)) % (n + 1)
        else cnt (n + 1) m1 (n + 1)) = cnt (n + 1) m1 (n + 1) := by
    by_cases hn0 : n = 0
    · -- width 1: the list is the single new node whatever the comparison says
      subst hn0
      have ho : o1 = [] := List.eq_nil_of_length_eq_zero hn
      subst ho
      have hJ0 : J = 0 := by omega
      subst hJ0
      refine ⟨shouldHead x (valAt (insJ [] 0 (c, some x)) 0), rfl, ?_, ?_⟩
      · simp [insJ, insFinal]
      · have : cnt (0 + 1) m1 (0 + 1) = 0 := by omega
        simp [insJ, this]
    · by_cases hJ0 : J = 0
      · -- inserted before the head: it becomes the new head
        subst hJ0
        have hins : insJ o1 0 (c, some x) = o1 ++ [(c, some x)] := by simp [insJ]
        have hrot : shouldHead x (valAt (o1 ++ [(c, some x)]) 0) = true := by
          rw [valAt_append_left _ _ _ (by omega)]
          by_cases hm0 : 0 < m1
          · obtain ⟨v, hv, _, hge⟩ := hsome 0 hm0
            simp [hv, shouldHead, DualOrd.dual, hge rfl]
          · simp [hnone 0 (by omega), shouldHead]
        refine ⟨true, by rw [hins, hrot], ?_, ?_⟩
        · simp only [↓reduceIte, hins, findIdx_append_singleton o1 c (some x) hc, hn]
          rw [← hn, rotateLeft_append_singleton]
          simp [insFinal]
        · simp only [↓reduceIte, hins, findIdx_append_singleton o1 c (some x) hc, hn]
          exact med_rot n _ hcl
      · -- inserted after the head: head and median stay
        have hm0 : 0 < m1 := by omega
        obtain ⟨v, hv, hlt, _⟩ := hsome 0 hm0
        have hge : POrd.ge v x = false := hlt (by omega)
        have hhead : valAt (insJ o1 J (c, some x)) 0 = some v := by
          unfold insJ
          split
          · rw [valAt_append_left _ _ _ (by omega), hv]
          · rw [valAt_insertIdx_lt _ _ _ _ (by omega), hv]
        refine ⟨false, by simp [hhead, shouldHead, DualOrd.dual, hge], ?_, by simp⟩
        simp only [Bool.false_eq_true, ↓reduceIte, insJ, insFinal, hn]
        by_cases hz : J % n = 0
        · have hJn : J = n := by
            by_cases hb : J < n
            · rw [Nat.mod_eq_of_lt hb] at hz; omega
            · omega
          simp [hz, hJn, ← hn]
        · simp only [hz, ↓reduceIte]
          exact insertIdx_eq_take_drop _ _ _ (by omega)
  obtain ⟨rot, hrot, hord2, hmed2⟩ := hord
  -- the median node is non-empty
  have hval : ∃ y, valAt (insFinal o1 J c x) (m1 / 2) = some y := by
    unfold insFinal valAt
    by_cases h : m1 / 2 < J
    · obtain ⟨v, hv, _, _⟩ := hsome (m1 / 2) (by omega)
      refine ⟨v, ?_⟩
      rw [List.getElem?_append_left (by simp; omega)]
      simpa [valAt, List.getElem?_take, h] using hv
    · by_cases h2 : m1 / 2 = J
      · refine ⟨x, ?_⟩
        rw [List.getElem?_append_right (by simp; omega)]
        simp [List.length_take, h2, show min J n = J by omega, hn]
      · obtain ⟨v, hv, _, _⟩ := hsome (m1 / 2 - 1) (by omega)
        refine ⟨v, ?_⟩
        rw [List.getElem?_append_right (by simp; omega)]
        simp only [List.length_take, hn, show min J n = J by omega]
        have : m1 / 2 - J = (m1 / 2 - J - 1) + 1 := by omega
        rw [this, List.getElem?_cons_succ, List.getElem?_drop]
        have : J + (m1 / 2 - J - 1) = m1 / 2 - 1 := by omega
        rw [this]
        simpa [valAt] using hv
  obtain ⟨y, hy⟩ := hval
  refine ⟨y, hy, ?_⟩
  unfold finish
  simp only [hrot, hord2, hmed2, hmf, hy]

theorem step_closed [POrd α] [DualOrd α] (s : MS α) (x : α) (m1 J : Nat)
    (o1 : List (Nat × Option α)) (ho1 : o1 = s.order.filter (fun p => p.1 != s.cursor))
    (hlen : s.order.length = o1.length + 1)
    (hc : ∀ p ∈ o1, p.1 ≠ s.cursor)
    (H : WalkHyp o1 m1 J x) :
    ∃ y, valAt (insFinal o1 J s.cursor x) (m1 / 2) = some y ∧
      step s x = some ({ order := insFinal o1 J s.cursor x,
                         cursor := (s.cursor + 1) % (o1.length + 1),
                         med := m1 / 2 }, y) := by
  obtain ⟨y, hy, hfin⟩ := finish_closed o1 m1 J s.cursor x hc H
  refine ⟨y, hy, ?_⟩
  have hfold := foldl_closed o1 m1 J s.cursor x H (o1.length + 1) (Nat.le_refl _)
  have hNJ : ¬ (o1.length + 1 ≤ J) := by
    have := H.hm; have := H.hJ; omega
  unfold step
  simp only [hlen, ← ho1, hfold, loopSt, hNJ, ↓reduceIte]
  exact hfin

end SignaloModel.Median
