import SignaloModel.Proofs.BridgeSimple
set_option linter.unusedSectionVars false
/-!
One-step statements for ARBITRARY states (the recurrence clauses of C13 / C14 / C15 are stated "for all gains,
previous outputs, positions, velocities and samples as indeterminates"): whatever state the filter is in — reachable
from `Default` or re-injected through `from_guts` — one `filter` call is one step of the recurrence. No algebraic law is
needed, so this holds for every sample type.
-/
namespace SignaloModel.Registry
open SignaloModel SignaloModel.Smooth

variable {α : Type} [Add α] [Sub α] [Mul α] [Div α] [Neg α] [OfNat α 0] [OfNat α 1]
  [LT α] [DecidableLT α] [BEq α] [Median.POrd α] [Classify.Cmp α]

/-- **C14, one step from any state**: predict `x' = p + v`, residual `r = x - x'`, then `p := x' + alpha·r`,
`v := v + beta·r`, returning the new position -/
theorem alphaBeta_step (alpha beta p v x : α) :
    (St.alphaBeta alpha beta { velocity := v, value := some p }).filter [x] =
      some (St.alphaBeta alpha beta
        { velocity := v + beta * (x - (p + v)), value := some ((p + v) + alpha * (x - (p + v))) },
        [(p + v) + alpha * (x - (p + v))]) := by
  simp [St.filter, abStep]

/-- **C14, first sample** (no position yet): returned unchanged, the velocity is kept as it is (zero after
construction or reset) -/
theorem alphaBeta_first (alpha beta v x : α) :
    (St.alphaBeta alpha beta { velocity := v, value := none }).filter [x] =
      some (St.alphaBeta alpha beta { velocity := v, value := some x }, [x]) := by
  simp [St.filter, abStep]

/-- **C13 (EMA), one step from any state**: `y := y + (x - y)·w`; the first sample is returned unchanged -/
theorem ema_step (w y x : α) :
    (St.ema w (some y)).filter [x] = some (St.ema w (some (y + (x - y) * w)), [y + (x - y) * w]) := by
  simp [St.filter, emaStep]

theorem ema_first (w x : α) : (St.ema w none).filter [x] = some (St.ema w (some x), [x]) := by
  simp [St.filter, emaStep]

/-- **C15, one step from any state** -/
theorem integrate_step (acc x : α) :
    (St.integrate acc : St α).filter [x] = some (St.integrate (acc + x), [acc + x]) := by
  simp [St.filter]

theorem differentiate_step (p x : α) :
    (St.differentiate (some p) : St α).filter [x] = some (St.differentiate (some x), [x - p]) := by
  simp [St.filter]

theorem differentiate_first (x : α) :
    (St.differentiate none : St α).filter [x] = some (St.differentiate (some x), [0]) := by
  simp [St.filter]

end SignaloModel.Registry
#print axioms SignaloModel.Registry.alphaBeta_step
#print axioms SignaloModel.Registry.ema_step
#print axioms SignaloModel.Registry.differentiate_step
