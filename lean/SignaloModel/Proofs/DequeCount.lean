import SignaloModel.Proofs.DequeExact
import Mathlib.Data.Finset.Card
import Mathlib.Data.List.Nodup
set_option linter.unusedSectionVars false
/-!
C19 (min/max deques): closed form of the owned count. The number of entries the deque holds after any history is
the number of positions of the history that are suffix maxima inside the window.
-/
namespace SignaloModel.Deque

variable {α : Type}

open Classical in
/-- **C19 (max deque), closed form of the owned count**: for every counter bound `M > N` and every history `xs`,
the deque holds exactly as many samples as there are positions `j` of `xs` inside the last `N` whose sample is not
exceeded by any sample at or after `j` -/
theorem taps_count_run [LinearOrder α] {N M : Nat} (hN : 1 ≤ N) (hM : N + 1 ≤ M) (xs : List α) :
    ∃ r, Registry.stepRunO (fun s x => step gtMax N (some M) s x) (init : DS α) xs = some r ∧
      r.1.taps.length = ((Finset.range xs.length).filter (fun j => ∃ w, SuffixMaxAt N xs j w)).card := by
  obtain ⟨r, d, hrun, hincr, hiff⟩ := taps_exact_run hN hM xs
  refine ⟨r, hrun, ?_⟩
  set l := (shiftL d r.1.taps).map (·.2) with hl
  have hnd : l.Nodup := by
    have : l.Pairwise (· < ·) := by
      rw [hl]; simp only [shiftL, List.map_map, List.pairwise_map, Function.comp]
      exact hincr.imp (by intro a b h; omega)
    exact this.imp (fun h => Nat.ne_of_lt h)
  have hlen : r.1.taps.length = l.length := by simp [hl, shiftL]
  rw [hlen, ← List.toFinset_card_of_nodup hnd]
  congr 1
  ext j
  simp only [List.mem_toFinset, Finset.mem_filter, Finset.mem_range]
  constructor
  · intro hj
    obtain ⟨p, hp, rfl⟩ := List.mem_map.mp hj
    have hsm := (hiff p.2 p.1).mp hp
    exact ⟨(List.getElem?_eq_some_iff.mp hsm.1).1, p.1, hsm⟩
  · rintro ⟨_, w, hw⟩
    exact List.mem_map.mpr ⟨(w, j), (hiff j w).mpr hw, rfl⟩

end SignaloModel.Deque

namespace SignaloModel.Registry
open SignaloModel SignaloModel.Deque

variable {α : Type} [LinearOrder α] [Add α] [Sub α] [Mul α] [Div α] [Neg α] [OfNat α 0] [OfNat α 1]
  [BEq α] [Median.POrd α]

open Classical in
/-- **C19 (moving max) at registry level, closed form**: the count of samples the filter instance owns after any
history from `Default` (what the harness's ledger is compared with on every operation) -/
theorem owned_max_registry_count (N : Nat) (hN : 1 ≤ N) (hM : N + 1 ≤ usizeMax) (xs : List α) :
    ∃ s' ys, (Cfg.max N : Cfg α).init.run (sing xs) = some (s', ys) ∧
      s'.owned = ((Finset.range xs.length).filter (fun j => ∃ w, SuffixMaxAt N xs j w)).card := by
  obtain ⟨r, hrun, hb⟩ := taps_count_run (α := α) hN hM xs
  have h1 := run_of_stepO (St.max N) (fun s x => Deque.step gtB N (some usizeMax) s x)
    (by intro s x; simp only [St.filter]; cases Deque.step gtB N (some usizeMax) s x <;> simp) Deque.init xs
  have hgt : (gtB : α → α → Bool) = gtMax := rfl
  rw [hgt, hrun] at h1
  exact ⟨St.max N r.1, sing r.2, by simpa [Cfg.init] using h1, hb⟩

end SignaloModel.Registry

#print axioms SignaloModel.Registry.owned_max_registry_count
#print axioms SignaloModel.Deque.taps_count_run
