import SignaloModel.Proofs.OwnedDeque
set_option linter.unusedSectionVars false
/-!
C04: the deque is *monotonic* in every reachable state — values never increase from front to back, timestamps
strictly increase — for every counter bound (the name-giving invariant of the algorithm, which makes the front
entry the window maximum).
-/
namespace SignaloModel.Deque

variable {α : Type}

theorem taps_monotonic_run [LinearOrder α] {N M : Nat} (hN : 1 ≤ N) (hM : N + 1 ≤ M) (xs : List α) :
    ∃ r, Registry.stepRunO (fun s x => step gtMax N (some M) s x) (init : DS α) xs = some r ∧
      r.1.taps.Pairwise (fun a b => b.1 ≤ a.1 ∧ a.2 < b.2) := by
  obtain ⟨r, hrun, sU', d', hinv, hrel⟩ :=
    runB_state hN hM xs init init 0 [] (invU_init N) (by simp [shiftS, shiftL, init]) (by simp [init])
  refine ⟨r, hrun, ?_⟩
  have h1 := hinv.mono
  have h2 := hinv.incr
  rw [hrel] at h1 h2
  simp only [shiftS, shiftL, List.pairwise_map] at h1 h2
  exact (h1.and h2).imp (by intro a b h; exact ⟨h.1, by omega⟩)

end SignaloModel.Deque

#print axioms SignaloModel.Deque.taps_monotonic_run
