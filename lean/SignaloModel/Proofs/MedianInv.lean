import SignaloModel.Proofs.MedianStep
/-! Invariant of the list-level median model and the end-to-end theorem . -/
namespace SignaloModel.Median

variable {α : Type}

/-! ### list facts -/

theorem filter_eq_eraseIdx (o : List (Nat × Option α)) (c q : Nat) (v : Option α)
    (hnd : (o.map (·.1)).Nodup) (hq : o[q]? = some (c, v)) :
    o.filter (fun p => p.1 != c) = o.eraseIdx q := by
  induction o generalizing q with
  | nil => simp at hq
  | cons a o ih =>
    simp only [List.map_cons, List.nodup_cons] at hnd
    cases q with
    | zero =>
      simp only [List.getElem?_cons_zero, Option.some.injEq] at hq
      subst hq
      simp only [List.eraseIdx_zero, List.tail_cons]
      rw [List.filter_cons_of_neg (by simp)]
      apply List.filter_eq_self.mpr
      intro p hp
      have : p.1 ≠ c := by
        intro h
        have hmem : c ∈ o.map (·.1) := by
          rw [← h]; exact List.mem_map_of_mem (f := (·.1)) hp
        exact hnd.1 hmem
      simpa using this
    | succ q =>
      simp only [List.getElem?_cons_succ] at hq
      have hmem : (c, v) ∈ o := List.mem_of_getElem? hq
      have hne : a.1 ≠ c := by
        intro h; apply hnd.1; rw [h]
        exact List.mem_map_of_mem (f := (·.1)) hmem
      rw [List.filter_cons_of_pos (by simpa using hne), List.eraseIdx_cons_succ, ih q hnd.2 hq]

theorem valAt_eraseIdx (o : List (Nat × Option α)) (q i : Nat) :
    valAt (o.eraseIdx q) i = valAt o (if i < q then i else i + 1) := by
  simp only [valAt, List.getElem?_eraseIdx]
  split <;> rfl

theorem getElem?_ins {β : Type} (l : List β) (J : Nat) (a : β) (hJ : J ≤ l.length) (i : Nat) :
    (l.take J ++ a :: l.drop J)[i]? =
      if i < J then l[i]? else if i = J then some a else l[i - 1]? := by
  by_cases h1 : i < J
  · rw [if_pos h1, List.getElem?_append_left (by simp; omega), List.getElem?_take, if_pos h1]
  · rw [if_neg h1, List.getElem?_append_right (by simp; omega)]
    simp only [List.length_take, show min J l.length = J by omega]
    by_cases h2 : i = J
    · subst h2; simp
    · rw [if_neg h2]
      have : i - J = (i - J - 1) + 1 := by omega
      rw [this, List.getElem?_cons_succ, List.getElem?_drop]
      congr 1; omega

theorem valAt_insFinal (o1 : List (Nat × Option α)) (J c : Nat) (x : α) (hJ : J ≤ o1.length)
    (i : Nat) :
    valAt (insFinal o1 J c x) i =
      if i < J then valAt o1 i else if i = J then some x else valAt o1 (i - 1) := by
  unfold valAt insFinal
  rw [getElem?_ins _ _ _ hJ]
  split
  · rfl
  · split <;> rfl

/-! ### ring content: which sample a ring slot holds -/

/-- age of the sample in ring slot `sl` when the cursor is at `c` (0 = most recent) -/
def age (N c sl : Nat) : Nat := if sl < c then c - 1 - sl else c + N - 1 - sl

/-- content of ring slot `sl` for window `ws` (oldest first) -/
def slotVal (N c : Nat) (ws : List α) (sl : Nat) : Option α :=
  if age N c sl < ws.length then ws[ws.length - 1 - age N c sl]? else none

/-- the window after one more sample -/
def push (N : Nat) (ws : List α) (x : α) : List α :=
  if ws.length < N then ws ++ [x] else ws.drop 1 ++ [x]

theorem length_push (N : Nat) (ws : List α) (x : α) (h : ws.length ≤ N) (hN : 0 < N) :
    (push N ws x).length = min (ws.length + 1) N := by
  unfold push; split <;> simp <;> omega

theorem slotVal_cursor (N c : Nat) (ws : List α) (hc : c < N) (hw : ws.length ≤ N) :
    slotVal N c ws c = if ws.length = N then ws[0]? else none := by
  unfold slotVal age
  simp only [Nat.lt_irrefl, ↓reduceIte]
  have : c + N - 1 - c = N - 1 := by omega
  rw [this]
  by_cases h : ws.length = N
  · rw [if_pos (by omega), if_pos h]; congr 1; omega
  · rw [if_neg (by omega), if_neg h]

theorem age_succ (N c sl : Nat) (hc : c < N) (hsl : sl < N) (hne : sl ≠ c) :
    age N ((c + 1) % N) sl = age N c sl + 1 ∧ age N c sl + 1 < N := by
  unfold age
  by_cases h : c + 1 < N
  · rw [Nat.mod_eq_of_lt h]
    split <;> split <;> omega
  · have : c + 1 = N := by omega
    rw [this, Nat.mod_self]
    split <;> split <;> omega

theorem slotVal_other (N c sl : Nat) (ws : List α) (x : α) (hc : c < N) (hsl : sl < N)
    (hne : sl ≠ c) (hw : ws.length ≤ N) :
    slotVal N ((c + 1) % N) (push N ws x) sl = slotVal N c ws sl := by
  obtain ⟨ha, hb⟩ := age_succ N c sl hc hsl hne
  unfold slotVal push
  rw [ha]
  generalize age N c sl = a at *
  by_cases h : ws.length < N
  · simp only [h, ↓reduceIte, List.length_append, List.length_singleton]
    by_cases h2 : a < ws.length
    · rw [if_pos (by omega), if_pos h2, List.getElem?_append_left (by omega)]
      congr 1; omega
    · rw [if_neg (by omega), if_neg h2]
  · have hl : ws.length = N := by omega
    simp only [h, ↓reduceIte, List.length_append, List.length_singleton, List.length_drop]
    rw [if_pos (by omega), if_pos (by omega), List.getElem?_append_left (by simp; omega),
      List.getElem?_drop]
    congr 1; omega

theorem slotVal_new (N c : Nat) (ws : List α) (x : α) (hc : c < N) (hw : ws.length ≤ N) :
    slotVal N ((c + 1) % N) (push N ws x) c = some x := by
  have ha : age N ((c + 1) % N) c = 0 := by
    unfold age
    by_cases h : c + 1 < N
    · rw [Nat.mod_eq_of_lt h]; simp
    · have : c + 1 = N := by omega
      rw [this, Nat.mod_self]; simp; omega
  unfold slotVal push
  rw [ha]
  by_cases h : ws.length < N
  · simp [h]
  · simp only [h, ↓reduceIte, List.length_append, List.length_singleton, List.length_drop]
    rw [if_pos (by omega), List.getElem?_append_right (by simp)]
    simp

/-! ### order facts -/

/-- lawful total order, in the vocabulary of Rust's `PartialOrd` methods used by the filter -/
class TotalOrd (α : Type) [POrd α] : Prop extends DualOrd α where
  total : ∀ a b : α, POrd.le a b = true ∨ POrd.le b a = true
  trans : ∀ a b c : α, POrd.le a b = true → POrd.le b c = true → POrd.le a c = true
  antisymm : ∀ a b : α, POrd.le a b = true → POrd.le b a = true → a = b

abbrev LeP [POrd α] (a b : α) : Prop := POrd.le a b = true

theorem sorted_insert [POrd α] [TotalOrd α] (vs : List α) (x : α)
    (hs : vs.Pairwise LeP) :
    let J := vs.findIdx (fun v => POrd.ge v x)
    (vs.take J ++ x :: vs.drop J).Pairwise LeP := by
  intro J
  have hsplit : vs.take J ++ vs.drop J = vs := List.take_append_drop J vs
  rw [← hsplit] at hs
  obtain ⟨h1, h2, h3⟩ := List.pairwise_append.mp hs
  rw [List.pairwise_append]
  refine ⟨h1, ?_, ?_⟩
  · rw [List.pairwise_cons]
    refine ⟨?_, h2⟩
    intro b hb
    -- b is at or after the first element `≥ x`
    by_cases hJ : J < vs.length
    · have hge : POrd.ge vs[J] x = true := List.findIdx_getElem (w := hJ)
      have hxJ : LeP x vs[J] := by
        show POrd.le x vs[J] = true
        rw [DualOrd.dual]; exact hge
      have hd : vs.drop J = vs[J] :: vs.drop (J + 1) := by
        rw [List.drop_eq_getElem_cons hJ]
      rw [hd] at hb h2
      rcases List.mem_cons.mp hb with rfl | hb'
      · exact hxJ
      · exact TotalOrd.trans _ _ _ hxJ ((List.pairwise_cons.mp h2).1 b hb')
    · have : vs.drop J = [] := List.drop_eq_nil_of_le (by omega)
      rw [this] at hb; simp at hb
  · intro a ha b hb
    have hax : LeP a x := by
      obtain ⟨i, hi, rfl⟩ := List.mem_iff_getElem.mp ha
      simp only [List.length_take] at hi
      have hiJ : i < J := by omega
      have hnot : POrd.ge (vs[i]'(by omega)) x = false := List.not_of_lt_findIdx hiJ
      rw [List.getElem_take]
      rcases TotalOrd.total (vs[i]'(by omega)) x with h | h
      · exact h
      · exfalso; rw [DualOrd.dual, hnot] at h; exact Bool.false_ne_true h
    rcases List.mem_cons.mp hb with rfl | hb'
    · exact hax
    · exact h3 a ha b hb'

theorem perm_eraseIdx {β : Type} (l : List β) (q : Nat) (h : q < l.length) :
    l.Perm (l[q] :: l.eraseIdx q) := by
  rw [List.eraseIdx_eq_take_drop_succ]
  have : l = l.take q ++ l[q] :: l.drop (q + 1) := by
    conv => lhs; rw [← List.take_append_drop q l, List.drop_eq_getElem_cons h]
  conv => lhs; rw [this]
  exact List.perm_middle

theorem perm_ins {β : Type} (l : List β) (J : Nat) (a : β) :
    (l.take J ++ a :: l.drop J).Perm (a :: l) := by
  have := @List.perm_middle _ a (l.take J) (l.drop J)
  rw [List.take_append_drop] at this
  exact this

end SignaloModel.Median
