import SignaloModel.Proofs.TableChecks
import SignaloModel.Proofs.FirProofs
import SignaloModel.Proofs.BridgeConv
import Mathlib.Tactic.NormNum
/-!
C07, the whole chain: (1) analysis followed by synthesis is the edge-padded FIR with the cascade kernel
`low'∗low + high'∗high`, for arbitrary kernels and any commutative ring; (2) subtracting the delayed unit impulse
gives the residual kernel; (3) for each regenerated Daubechies table the residual kernel has `Σ|r| ≤ 1e-8`
(`db_residuals`, `decide +kernel`); hence (4) for every input bounded by `B`, at every index,
`|Synthesize(Analyze x)[n] − x[n − (N−1)]| ≤ 1e-8·B`.
-/
namespace SignaloModel.Fir

section Ring
variable {R : Type} [CommRing R]

/-- **C07**: the synthesis of an analysis — low-pass and high-pass convolutions of the input, each fed into its
synthesis convolution, summed — is one edge-padded FIR with the cascade kernel -/
theorem cascade_kernel (lo hi lo' hi' : List R) (x : Nat → R) (n : Nat) :
    convL lo' (fun m => convL lo x m) n + convL hi' (fun m => convL hi x m) n
      = convL (addL (polyMul lo' lo) (polyMul hi' hi)) x n := by
  rw [convL_addL, convL_polyMul, convL_polyMul]

end Ring

section Bound
variable {K : Type} [Field K] [LinearOrder K] [IsStrictOrderedRing K]

theorem convL_negDelta (d len : Nat) (hd : d < len) (x : Nat → K) (n : Nat) :
    convL ((List.range len).map (fun k => if k = d then (-1 : K) else 0)) x n = - x (n - d) := by
  have h : (List.range len).map (fun k => if k = d then (-1 : K) else 0)
      = ((List.range len).map (fun k => if k = d then (1 : K) else 0)).map ((-1 : K) * ·) := by
    rw [List.map_map]; apply List.map_congr_left; intro a _; by_cases h : a = d <;> simp [h]
  rw [h, convL_map_mul, convL_delta d len hd]; ring

/-- the output of a FIR minus the input delayed by `d` is the FIR with the kernel minus the delayed impulse;
bounded by `Σ|residual kernel| · B` -/
theorem convL_residual_bound (e : List K) (d len : Nat) (hd : d < len) (x : Nat → K) (B : K)
    (hx : ∀ m, |x m| ≤ B) (n : Nat) :
    |convL e x n - x (n - d)| ≤
      ((addL e ((List.range len).map (fun k => if k = d then (-1 : K) else 0))).map (|·|)).sum * B := by
  have : convL e x n - x (n - d) =
      convL (addL e ((List.range len).map (fun k => if k = d then (-1 : K) else 0))) x n := by
    rw [convL_addL, convL_negDelta d len hd]; ring
  rw [this]
  exact convL_bound _ x B hx n

end Bound

end SignaloModel.Fir

namespace SignaloModel.Tables
open SignaloModel.Fir SignaloModel.Gen

theorem absR_eq (q : Rat) : absR q = |q| := by
  unfold absR
  split
  · next h => rw [abs_of_neg h]
  · next h => rw [abs_of_nonneg (not_lt.mp h)]

theorem lsum_eq (l : List Rat) : lsum l = l.sum := by
  have : ∀ (a : Rat) (l : List Rat), l.foldl (· + ·) a = a + l.sum := by
    intro a l
    induction l generalizing a with
    | nil => simp
    | cons x l ih => simp [ih, add_assoc]
  simp [lsum, this]

theorem negDelta_eq (len d : Nat) :
    negDelta len d = (List.range len).map (fun k => if k = d then (-1 : Rat) else 0) := rfl

/-- **C07 (reconstruction)**: for every provided Daubechies order, every input signal bounded by `B` and every
index `n`: the synthesis of the analysis differs from the input delayed by `N − 1` by at most `1e-8 · B`
(exact arithmetic; kernels exactly as `daubechies.rs` derives them from its table) -/
theorem db_reconstructs (p : Nat × List Rat) (hp : p ∈ dbTables) (x : Nat → Rat) (B : Rat)
    (hx : ∀ m, |x m| ≤ B) (n : Nat) :
    |convL (lowOf p.2).reverse (fun m => convL (lowOf p.2) x m) n
        + convL (highOf (lowOf p.2)).reverse (fun m => convL (highOf (lowOf p.2)) x m) n
      - x (n - (p.2.length - 1))| ≤ dec 1 8 * B := by
  have hres := db_residuals p hp
  have hlen := db_lengths p hp
  have hB : 0 ≤ B := le_trans (abs_nonneg _) (hx 0)
  rw [cascade_kernel]
  have hpos : 0 < p.2.length := by
    have : ∀ q ∈ dbTables, 0 < q.2.length := by decide +kernel
    exact this p hp
  have hd : p.2.length - 1 < 2 * p.2.length - 1 := by omega
  have hb := convL_residual_bound
    (addL (polyMul (lowOf p.2).reverse (lowOf p.2)) (polyMul (highOf (lowOf p.2)).reverse (highOf (lowOf p.2))))
    (p.2.length - 1) (2 * p.2.length - 1) hd x B hx n
  refine le_trans hb ?_
  apply mul_le_mul_of_nonneg_right _ hB
  have : residual p.2 = ((addL (addL (polyMul (lowOf p.2).reverse (lowOf p.2))
      (polyMul (highOf (lowOf p.2)).reverse (highOf (lowOf p.2))))
      ((List.range (2 * p.2.length - 1)).map (fun k => if k = p.2.length - 1 then (-1 : Rat) else 0))).map (|·|)).sum := by
    simp only [residual, residualKernel, cascadeKernel, negDelta_eq, lsum_eq]
    congr 1
    apply List.map_congr_left
    intro a _
    exact absR_eq a
  rw [← this]
  exact hres

end SignaloModel.Tables

#print axioms SignaloModel.Tables.db_reconstructs
#print axioms SignaloModel.Fir.cascade_kernel
