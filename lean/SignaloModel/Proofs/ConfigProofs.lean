import SignaloModel.Proofs.RegistryProofs
/-!
C12, second half: `Filter::filter` never changes a filter's configuration (for the `Default`-constructed filters:
its width). Together with `reset_eq_init` this gives: after ANY history, `reset` yields exactly the filter that
construction from the ORIGINAL configuration yields.
-/
namespace SignaloModel.MedianL
open SignaloModel
open SignaloModel.Median (POrd)

variable {α : Type}

theorem setNode_length (b b' : List (Node α)) (i : Nat) (n : Node α) (h : setNode b i n = some b') :
    b'.length = b.length := by
  unfold setNode at h
  split at h
  · simp only [Option.some.injEq] at h; subst h; simp
  · simp at h

theorem setNext_length (b b' : List (Node α)) (i v : Nat) (h : setNext b i v = some b') :
    b'.length = b.length := by
  unfold setNext at h
  cases hb : b[i]? with
  | none => simp [hb] at h
  | some n =>
    simp only [hb, Option.bind_eq_bind, Option.bind_some] at h
    exact setNode_length _ _ _ _ h

theorem setPrev_length (b b' : List (Node α)) (i v : Nat) (h : setPrev b i v = some b') :
    b'.length = b.length := by
  unfold setPrev at h
  cases hb : b[i]? with
  | none => simp [hb] at h
  | some n =>
    simp only [hb, Option.bind_eq_bind, Option.bind_some] at h
    exact setNode_length _ _ _ _ h

theorem unlink_length (b b' : List (Node α)) (c : Nat) (h : unlink b c = some b') : b'.length = b.length := by
  unfold unlink at h
  cases hb : b[c]? with
  | none => simp [hb] at h
  | some node =>
    simp only [hb, Option.bind_eq_bind, Option.bind_some] at h
    cases h1 : setNext b node.prev node.next with
    | none => simp [h1] at h
    | some b1 =>
      simp only [h1, Option.bind_some] at h
      cases h2 : setNode b1 c { value := none, prev := sentinel, next := sentinel } with
      | none => simp [h2] at h
      | some b2 =>
        simp only [h2, Option.bind_some] at h
        rw [setPrev_length _ _ _ _ h, setNode_length _ _ _ _ h2, setNext_length _ _ _ _ h1]

theorem linkBefore_length (b b' : List (Node α)) (c : Nat) (x : α) (cur : Nat)
    (h : linkBefore b c x cur = some b') : b'.length = b.length := by
  unfold linkBefore at h
  cases hb : b[cur]? with
  | none => simp [hb] at h
  | some node =>
    simp only [hb, Option.bind_eq_bind, Option.bind_some] at h
    cases h1 : setNext b node.prev c with
    | none => simp [h1] at h
    | some b1 =>
      simp only [h1, Option.bind_some] at h
      cases h2 : setNode b1 c { value := some x, prev := node.prev, next := cur } with
      | none => simp [h2] at h
      | some b2 =>
        simp only [h2, Option.bind_some] at h
        rw [setPrev_length _ _ _ _ h, setNode_length _ _ _ _ h2, setNext_length _ _ _ _ h1]

theorem shiftMedian_length (s s2 : LS α) (i c : Nat) (h : shiftMedian s i c = some s2) :
    s2.buffer.length = s.buffer.length := by
  unfold shiftMedian at h
  cases hn : s.buffer[c]? with
  | none => simp [hn] at h
  | some n =>
    simp only [hn, Option.bind_eq_bind, Option.bind_some] at h
    split at h
    · cases hm : s.buffer[s.median]? with
      | none => simp [hm] at h
      | some m =>
        simp only [hm, Option.bind_some, Option.pure_def, Option.some.injEq] at h
        subst h; rfl
    · simp only [Option.pure_def, Option.some.injEq] at h; subst h; rfl

theorem insert_length (s s' : LS α) (x : α) (cur : Nat) (h : insert s x cur = some s') :
    s'.buffer.length = s.buffer.length := by
  unfold insert at h
  cases hl : linkBefore s.buffer s.cursor x cur with
  | none => simp [hl] at h
  | some b' =>
    simp only [hl, Option.bind_eq_bind, Option.bind_some, Option.pure_def, Option.some.injEq] at h
    subst h
    exact linkBefore_length _ _ _ _ _ hl

theorem walk_tail_length (s0 : LS α) (index cur : Nat) (ins : Bool) (w' : WalkL α)
    (h : ((shiftMedian s0 index cur).bind fun s2 =>
      s2.buffer[cur]?.bind fun c => some ({ s := s2, current := c.next, inserted := ins } : WalkL α)) = some w') :
    w'.s.buffer.length = s0.buffer.length := by
  cases hsm : shiftMedian s0 index cur with
  | none => simp [hsm] at h
  | some s2 =>
    simp only [hsm, Option.bind_some] at h
    cases hc : s2.buffer[cur]? with
    | none => simp [hc] at h
    | some c =>
      simp only [hc, Option.bind_some, Option.some.injEq] at h
      subst h
      exact shiftMedian_length _ _ _ _ hsm

theorem walkBody_length [POrd α] (x : α) (w w' : WalkL α) (index : Nat) (h : walkBody x w index = some w') :
    w'.s.buffer.length = w.s.buffer.length := by
  unfold walkBody at h
  simp only [Option.bind_eq_bind, Option.pure_def] at h
  by_cases hi : w.inserted = false
  · simp only [hi, Bool.not_false, ↓reduceIte] at h
    cases hs : shouldInsert w.s x w.current index with
    | none => simp [hs] at h
    | some b =>
      simp only [hs, Option.bind_some] at h
      cases b with
      | true =>
        simp only [↓reduceIte] at h
        cases hins : insert w.s x w.current with
        | none => simp [hins] at h
        | some s' =>
          simp only [hins, Option.bind_some] at h
          rw [walk_tail_length s' index w.current true w' h, insert_length _ _ _ _ hins]
      | false =>
        simp only [Bool.false_eq_true, ↓reduceIte, Option.bind_some] at h
        exact walk_tail_length w.s index w.current _ w' h
  · have hi' : w.inserted = true := by simpa using hi
    simp only [hi', Bool.not_true, Bool.false_eq_true, ↓reduceIte, Option.bind_some] at h
    exact walk_tail_length w.s index w.current _ w' h

theorem foldlM_walk_length [POrd α] (x : α) (l : List Nat) :
    ∀ (w w' : WalkL α), l.foldlM (walkBody x) w = some w' → w'.s.buffer.length = w.s.buffer.length := by
  induction l with
  | nil => intro w w' h; simp only [List.foldlM_nil, Option.pure_def, Option.some.injEq] at h; subst h; rfl
  | cons i l ih =>
    intro w w' h
    simp only [List.foldlM_cons, Option.bind_eq_bind] at h
    cases hb : walkBody x w i with
    | none => simp [hb] at h
    | some w1 =>
      simp only [hb, Option.bind_some] at h
      rw [ih w1 w' h, walkBody_length x w w1 i hb]

theorem updateHead_length [POrd α] (s s5 : LS α) (x : α) (h : updateHead s x = some s5) :
    s5.buffer.length = s.buffer.length := by
  unfold updateHead at h
  cases hh : s.buffer[s.head]? with
  | none => simp [hh] at h
  | some hd =>
    simp only [hh, Option.bind_eq_bind, Option.bind_some, Option.pure_def] at h
    have key : ∀ (should : Bool),
        (if should = true then (s.buffer[s.median]?).bind (fun m => some ({ s with head := s.cursor, median := m.prev } : LS α))
         else some s) = some s5 → s5.buffer.length = s.buffer.length := by
      intro should hs
      cases should with
      | true =>
        simp only [↓reduceIte] at hs
        cases hm : s.buffer[s.median]? with
        | none => simp [hm] at hs
        | some m => simp only [hm, Option.bind_some, Option.some.injEq] at hs; subst hs; rfl
      | false =>
        simp only [Bool.false_eq_true, ↓reduceIte, Option.some.injEq] at hs; subst hs; rfl
    cases hv : hd.value with
    | none => simp only [hv] at h; exact key true h
    | some v => simp only [hv] at h; exact key (POrd.le x v) h

/-- one `Median::filter` call never changes the number of ring slots -/
theorem step_length [POrd α] (s s' : LS α) (x y : α) (h : step s x = some (s', y)) :
    s'.buffer.length = s.buffer.length := by
  unfold step at h
  simp only [Option.bind_eq_bind, Option.pure_def] at h
  cases h1 : moveHeadForward s with
  | none => simp [h1] at h
  | some s1 =>
    have hl1 : s1.buffer.length = s.buffer.length := by
      unfold moveHeadForward at h1
      split at h1
      · cases hn : s.buffer[s.head]? with
        | none => simp [hn] at h1
        | some n =>
          simp only [hn, Option.bind_eq_bind, Option.bind_some, Option.pure_def, Option.some.injEq] at h1
          subst h1; rfl
      · simp only [Option.pure_def, Option.some.injEq] at h1; subst h1; rfl
    simp only [h1, Option.bind_some] at h
    cases h2 : removeNode s1 with
    | none => simp [h2] at h
    | some s2 =>
      have hl2 : s2.buffer.length = s1.buffer.length := by
        unfold removeNode at h2
        cases hu : unlink s1.buffer s1.cursor with
        | none => simp [hu] at h2
        | some b =>
          simp only [hu, Option.bind_eq_bind, Option.bind_some, Option.pure_def, Option.some.injEq] at h2
          subst h2
          exact unlink_length _ _ _ hu
      simp only [h2, Option.bind_some] at h
      cases h4 : insertValue { s2 with median := s2.head } x with
      | none => simp [h4] at h
      | some s4 =>
        have hl4 : s4.buffer.length = s2.buffer.length := by
          unfold insertValue at h4
          simp only [Option.bind_eq_bind, Option.pure_def] at h4
          cases hf : (List.range ({ s2 with median := s2.head } : LS α).buffer.length).foldlM (walkBody x)
              { s := { s2 with median := s2.head }, current := ({ s2 with median := s2.head } : LS α).head,
                inserted := false } with
          | none => simp [hf] at h4
          | some w =>
            simp only [hf, Option.bind_some, Option.some.injEq] at h4
            subst h4
            exact foldlM_walk_length x _ _ _ hf
        simp only [h4, Option.bind_some] at h
        cases h5 : updateHead s4 x with
        | none => simp [h5] at h
        | some s5 =>
          have hl5 : s5.buffer.length = s4.buffer.length := updateHead_length s4 s5 x h5
          simp only [h5, Option.bind_some] at h
          cases h6 : adjustEven s5 with
          | none => simp [h6] at h
          | some s6 =>
            have hl6 : s6.buffer.length = s5.buffer.length := by
              unfold adjustEven at h6
              split at h6
              · cases hm : s5.buffer[s5.median]? with
                | none => simp [hm] at h6
                | some m =>
                  simp only [hm, Option.bind_eq_bind, Option.bind_some, Option.pure_def, Option.some.injEq] at h6
                  subst h6; rfl
              · simp only [Option.pure_def, Option.some.injEq] at h6; subst h6; rfl
            simp only [h6, Option.bind_some] at h
            cases h7 : ({ s6 with cursor := (s6.cursor + 1) % s6.buffer.length } : LS α).buffer[
                ({ s6 with cursor := (s6.cursor + 1) % s6.buffer.length } : LS α).median]? with
            | none => simp [h7] at h
            | some m =>
              simp only [h7, Option.bind_some] at h
              cases hv : m.value with
              | none => simp [hv] at h
              | some v =>
                simp only [hv, Option.bind_some, Option.some.injEq, Prod.mk.injEq] at h
                obtain ⟨hs, _⟩ := h
                subst hs
                simp only
                omega

end SignaloModel.MedianL

namespace SignaloModel.Registry
open SignaloModel

variable {α : Type} [Add α] [Sub α] [Mul α] [Div α] [Neg α] [OfNat α 0] [OfNat α 1]
  [LT α] [DecidableLT α] [BEq α] [Median.POrd α] [Classify.Cmp α]

/-- **C12**: `Filter::filter` never changes the configuration -/
theorem config_filter (s s' : St α) (xs y : List α) (h : s.filter xs = some (s', y)) : s'.config = s.config := by
  induction s generalizing s' xs y with
  | cache i c ih =>
    simp only [St.filter, Option.bind_eq_bind, Option.pure_def] at h
    cases hi : i.filter xs with
    | none => simp [hi] at h
    | some r =>
      simp only [hi, Option.bind_some, Option.some.injEq, Prod.mk.injEq] at h
      obtain ⟨hs, _⟩ := h
      subst hs
      simp [St.config, ih r.1 xs r.2 (by rw [hi])]
  | unit i ih =>
    simp only [St.filter, Option.bind_eq_bind, Option.pure_def] at h
    cases hi : i.filter xs with
    | none => simp [hi] at h
    | some r =>
      simp only [hi, Option.bind_some, Option.some.injEq, Prod.mk.injEq] at h
      obtain ⟨hs, _⟩ := h
      subst hs
      simp [St.config, ih r.1 xs r.2 (by rw [hi])]
  | median s =>
    match xs, h with
    | [x], h =>
      simp only [St.filter, Option.bind_eq_bind, Option.pure_def] at h
      cases hm : MedianL.step s x with
      | none => simp [hm] at h
      | some r =>
        simp only [hm, Option.bind_some, Option.some.injEq, Prod.mk.injEq] at h
        obtain ⟨hs, _⟩ := h
        subst hs
        simp [St.config, MedianL.step_length s r.1 x r.2 (by rw [hm])]
  | hampel t f med =>
    match xs, h with
    | [x], h =>
      simp only [St.filter, hampelStep, Option.bind_eq_bind, Option.pure_def] at h
      cases hm : MedianL.step med x with
      | none => simp [hm] at h
      | some r =>
        simp only [hm, Option.bind_some, Option.some.injEq, Prod.mk.injEq] at h
        obtain ⟨hs, _⟩ := h
        subst hs
        simp [St.config, MedianL.step_length med r.1 x r.2 (by rw [hm])]
  | mean N s => match xs, h with | [x], h => simp only [St.filter, Option.some.injEq, Prod.mk.injEq] at h; rw [← h.1]; rfl
  | max N s =>
    match xs, h with
    | [x], h =>
      simp only [St.filter, Option.bind_eq_bind, Option.pure_def] at h
      cases hd : Deque.step gtB N (some usizeMax) s x with
      | none => simp [hd] at h
      | some r => simp only [hd, Option.bind_some, Option.some.injEq, Prod.mk.injEq] at h; rw [← h.1]; rfl
  | min N s =>
    match xs, h with
    | [x], h =>
      simp only [St.filter, Option.bind_eq_bind, Option.pure_def] at h
      cases hd : Deque.step ltB N (some usizeMax) s x with
      | none => simp [hd] at h
      | some r => simp only [hd, Option.bind_some, Option.some.injEq, Prod.mk.injEq] at h; rw [← h.1]; rfl
  | bounds N a b =>
    match xs, h with
    | [x], h =>
      simp only [St.filter, Option.bind_eq_bind, Option.pure_def] at h
      cases h1 : Deque.step ltB N (some usizeMax) a x with
      | none => simp [h1] at h
      | some r1 =>
        simp only [h1, Option.bind_some] at h
        cases h2 : Deque.step gtB N (some usizeMax) b x with
        | none => simp [h2] at h
        | some r2 => simp only [h2, Option.bind_some, Option.some.injEq, Prod.mk.injEq] at h; rw [← h.1]; rfl
  | convolve c t => match xs, h with | [x], h => simp only [St.filter, Option.some.injEq, Prod.mk.injEq] at h; rw [← h.1]; rfl
  | delay N t =>
    match xs, h with
    | [x], h =>
      simp only [St.filter, Option.bind_eq_bind, Option.pure_def] at h
      cases hd : (Conv.delayStep N t x).2 with
      | none => simp [hd] at h
      | some e => simp only [hd, Option.bind_some, Option.some.injEq, Prod.mk.injEq] at h; rw [← h.1]; rfl
  | differentiate p => match xs, h with | [x], h => simp only [St.filter, Option.some.injEq, Prod.mk.injEq] at h; rw [← h.1]; rfl
  | integrate a => match xs, h with | [x], h => simp only [St.filter, Option.some.injEq, Prod.mk.injEq] at h; rw [← h.1]; rfl
  | kalman c s =>
    match xs, h with
    | [z], h => simp only [St.filter, Option.some.injEq, Prod.mk.injEq] at h; rw [← h.1]; rfl
    | [z, u], h => simp only [St.filter, Option.some.injEq, Prod.mk.injEq] at h; rw [← h.1]; rfl
  | alphaBeta a b s => match xs, h with | [x], h => simp only [St.filter, Option.some.injEq, Prod.mk.injEq] at h; rw [← h.1]; rfl
  | ema w s => match xs, h with | [x], h => simp only [St.filter, Option.some.injEq, Prod.mk.injEq] at h; rw [← h.1]; rfl
  | emedian p m q s => match xs, h with | [x], h => simp only [St.filter, Option.some.injEq, Prod.mk.injEq] at h; rw [← h.1]; rfl
  | meanVar N m v => match xs, h with | [x], h => simp only [St.filter, Option.some.injEq, Prod.mk.injEq] at h; rw [← h.1]; rfl
  | emeanVar w s => match xs, h with | [x], h => simp only [St.filter, Option.some.injEq, Prod.mk.injEq] at h; rw [← h.1]; rfl
  | threshold t o =>
    match xs, h with
    | [x], h =>
      simp only [St.filter, Option.map_eq_some_iff] at h
      obtain ⟨_, _, hs⟩ := h
      simp only [Prod.mk.injEq] at hs; rw [← hs.1]
  | schmitt l hi o on =>
    match xs, h with
    | [x], h =>
      simp only [St.filter, Option.map_eq_some_iff] at h
      obtain ⟨_, _, hs⟩ := h
      simp only [Prod.mk.injEq] at hs; rw [← hs.1]; rfl
  | debounce t p o c =>
    match xs, h with
    | [x], h =>
      simp only [St.filter, Option.map_eq_some_iff] at h
      obtain ⟨_, _, hs⟩ := h
      simp only [Prod.mk.injEq] at hs; rw [← hs.1]; rfl
  | slopes o p =>
    match xs, h with
    | [x], h =>
      simp only [St.filter, Option.map_eq_some_iff] at h
      obtain ⟨_, _, hs⟩ := h
      simp only [Prod.mk.injEq] at hs; rw [← hs.1]; rfl
  | peaks o s =>
    match xs, h with
    | [x], h =>
      simp only [St.filter, Option.map_eq_some_iff] at h
      obtain ⟨_, _, hs⟩ := h
      simp only [Prod.mk.injEq] at hs; rw [← hs.1]; rfl
  | peaksSlopes o p => simp [St.filter] at h
  | analyze l hp tl th => match xs, h with | [x], h => simp only [St.filter, Option.some.injEq, Prod.mk.injEq] at h; rw [← h.1]; rfl
  | synthesize l hp tl th => match xs, h with | [lo, hi], h => simp only [St.filter, Option.some.injEq, Prod.mk.injEq] at h; rw [← h.1]; rfl

/-- the configuration is constant along every run -/
theorem config_run (s s' : St α) (xs ys : List (List α)) (h : s.run xs = some (s', ys)) : s'.config = s.config := by
  induction xs generalizing s s' ys with
  | nil => simp only [St.run, Option.some.injEq, Prod.mk.injEq] at h; rw [← h.1]
  | cons x xs ih =>
    simp only [St.run, Option.bind_eq_bind, Option.pure_def] at h
    cases hf : s.filter x with
    | none => simp [hf] at h
    | some r =>
      simp only [hf, Option.bind_some] at h
      cases hr : r.1.run xs with
      | none => simp [hr] at h
      | some q =>
        simp only [hr, Option.bind_some, Option.some.injEq, Prod.mk.injEq] at h
        rw [← h.1, ih r.1 q.1 q.2 (by rw [hr]), config_filter s r.1 x r.2 (by rw [hf])]

/-- **C12, full statement**: construct from configuration `c`, feed ANY history, reset — the result is exactly the
freshly constructed filter `c.init`, and hence responds to every later input sequence as that one does -/
theorem reset_after_history (c : Cfg α) (history : List (List α)) (s' : St α) (ys : List (List α))
    (h : c.init.run history = some (s', ys)) : s'.reset = c.init := by
  rw [reset_eq_init, config_run _ _ _ _ h, config_init]

end SignaloModel.Registry

#print axioms SignaloModel.Registry.config_filter
#print axioms SignaloModel.Registry.reset_after_history
