import SignaloModel.Proofs.Sources2Proofs
/-! Proofs for C10: constant pad and cycle. -/
namespace SignaloModel.Sources

variable {α : Type}

/-! ### constant pad -/

theorem Content.appendList_nil_fin (l : List α) : Content.appendList (.fin []) l = .fin l := by
  simp [Content.appendList]

theorem Content.appendList_answer_zero (c : Content α) (l : List α) (w : α)
    (h : c.answer 0 = some w) : (c.appendList l).answer 0 = some w := by
  cases c with
  | fin xs =>
    cases xs with
    | nil => simp [Content.answer] at h
    | cons a xs => simpa [Content.appendList, Content.answer] using h
  | inf f => simpa [Content.appendList] using h

theorem Content.appendList_tail (c : Content α) (l : List α) (w : α) (h : c.answer 0 = some w) :
    (c.appendList l).tail = c.tail.appendList l := by
  cases c with
  | fin xs =>
    cases xs with
    | nil => simp [Content.answer] at h
    | cons a xs => simp [Content.appendList, Content.tail]
  | inf f => simp [Content.appendList, Content.tail]

def PadCRel (s : Src α) (v : α) : (padConst s v).σ → Content α → Prop
  | (st, fl, bl, .front), c' =>
      ∃ c, Implements s st c ∧
        c' = Content.prependRep fl v (Content.appendList c (List.replicate bl v))
  | (st, _, bl, .inner), c' =>
      ∃ c, Implements s st c ∧ c' = Content.appendList c (List.replicate bl v)
  | (_, _, bl, .back), c' => c' = .fin (List.replicate bl v)

/-- constant pad: `n` copies of `v`, the inner items, `n` copies of `v` -/
theorem padConst_correct (s : Src α) (st : s.σ) (c : Content α) (v : α) (n : Nat)
    (h : Implements s st c) :
    Implements (padConst s v) (st, n, n, .front)
      (Content.prependRep n v (Content.appendList c (List.replicate n v))) := by
  apply implements_of_bisim (padConst s v) (PadCRel s v)
  · rintro ⟨st, fl, bl, ph⟩ c' hrel
    -- what happens when the inner source is asked
    have inner_case : ∀ (c : Content α) (fl' : Nat), Implements s st c →
        ((padConst s v).next (st, fl', bl, .inner)).1 =
            (Content.appendList c (List.replicate bl v)).answer 0 ∧
          PadCRel s v ((padConst s v).next (st, fl', bl, .inner)).2
            (Content.appendList c (List.replicate bl v)).tail := by
      intro c fl' hc
      obtain ⟨h0, ht⟩ := (implements_step s st c).mp hc
      cases hn : s.next st with
      | mk o st' =>
        rw [hn] at h0 ht
        simp only at h0 ht
        cases o with
        | some w =>
          simp only [padConst, hn]
          exact ⟨(Content.appendList_answer_zero c _ w h0.symm).symm, c.tail, ht,
            Content.appendList_tail c _ w h0.symm⟩
        | none =>
          have hcnil : c = .fin [] := Content.answer_zero_none c h0.symm
          subst hcnil
          simp only [padConst, hn, Content.appendList_nil_fin]
          by_cases hb : bl = 0
          · subst hb; simp [Content.answer, Content.tail, PadCRel]
          · obtain ⟨m, rfl⟩ : ∃ m, bl = m + 1 := ⟨bl - 1, by omega⟩
            simp [Content.answer, Content.tail, PadCRel, List.replicate_succ]
    cases ph with
    | front =>
      obtain ⟨c, hc, rfl⟩ := hrel
      by_cases hf : fl = 0
      · subst hf
        have := inner_case c 0 hc
        simp only [Content.prependRep]
        -- with no front padding left the adapter behaves as in the inner phase
        obtain ⟨h0, ht⟩ := (implements_step s st c).mp hc
        cases hn : s.next st with
        | mk o st' =>
          rw [hn] at h0 ht
          simp only at h0 ht
          cases o with
          | some w =>
            simp only [padConst, ne_eq, not_true_eq_false, ↓reduceIte, hn]
            exact ⟨(Content.appendList_answer_zero c _ w h0.symm).symm, c.tail, ht,
              Content.appendList_tail c _ w h0.symm⟩
          | none =>
            have hcnil : c = .fin [] := Content.answer_zero_none c h0.symm
            subst hcnil
            simp only [padConst, ne_eq, not_true_eq_false, ↓reduceIte, hn,
              Content.appendList_nil_fin]
            by_cases hb : bl = 0
            · subst hb; simp [Content.answer, Content.tail, PadCRel]
            · obtain ⟨m, rfl⟩ : ∃ m, bl = m + 1 := ⟨bl - 1, by omega⟩
              simp [Content.answer, Content.tail, PadCRel, List.replicate_succ]
      · obtain ⟨m, rfl⟩ : ∃ m, fl = m + 1 := ⟨fl - 1, by omega⟩
        simp only [padConst, ne_eq, Nat.add_one_ne_zero, not_false_eq_true, ↓reduceIte,
          Content.prependRep, Content.cons_answer_zero, Content.cons_tail, Nat.add_sub_cancel]
        exact ⟨trivial, c, hc, rfl⟩
    | inner =>
      obtain ⟨c, hc, rfl⟩ := hrel
      exact inner_case c fl hc
    | back =>
      have hrel' : c' = .fin (List.replicate bl v) := hrel
      subst hrel'
      by_cases hb : bl = 0
      · subst hb; simp [padConst, Content.answer, Content.tail, PadCRel]
      · obtain ⟨m, rfl⟩ : ∃ m, bl = m + 1 := ⟨bl - 1, by omega⟩
        simp [padConst, Content.answer, Content.tail, PadCRel, List.replicate_succ]
  · exact ⟨c, h, rfl⟩

/-! ### cycle -/

/-- what a cycling source still has to yield: the rest of the current pass, then `l` forever -/
def cycFrom (l : List α) (d : α) (rest : List α) : Content α :=
  .inf (fun k => if k < rest.length then rest.getD k d else l.getD ((k - rest.length) % l.length) d)

theorem cycFrom_tail_cons (l : List α) (d r : α) (rest : List α) :
    (cycFrom l d (r :: rest)).tail = cycFrom l d rest := by
  simp only [cycFrom, Content.tail, List.length_cons]
  congr 1
  funext k
  by_cases hk : k < rest.length
  · simp [hk, List.getD_cons_succ]
  · have h1 : ¬ (k + 1 < rest.length + 1) := by omega
    have h2 : k + 1 - (rest.length + 1) = k - rest.length := by omega
    simp [hk, h1, h2]

theorem cycFrom_restart (l : List α) (d : α) (hl : l ≠ []) :
    (cycFrom l d []).tail = cycFrom l d l.tail := by
  simp only [cycFrom, Content.tail, List.length_nil, List.length_tail]
  congr 1
  funext k
  have hpos : 0 < l.length := List.length_pos_iff.mpr hl
  simp only [Nat.not_lt_zero, ↓reduceIte, Nat.sub_zero]
  by_cases hk : k < l.length - 1
  · rw [if_pos hk, Nat.mod_eq_of_lt (by omega)]
    cases l with
    | nil => exact absurd rfl hl
    | cons a t => simp [List.getD_cons_succ]
  · rw [if_neg hk]
    have : k + 1 = (k - (l.length - 1)) + l.length := by omega
    rw [this, Nat.add_mod_right]

/-- `Cycle`: a finite non-empty source is repeated endlessly -/
theorem cycle_correct_fin (s : Src α) (orig : s.σ) (a : α) (t : List α)
    (h : Implements s orig (.fin (a :: t))) :
    Implements (cycle s orig) orig (cycFrom (a :: t) a (a :: t)) := by
  apply implements_of_bisim (cycle s orig)
    (fun st c' => ∃ rest, Implements s st (.fin rest) ∧ c' = cycFrom (a :: t) a rest)
  · rintro st c' ⟨rest, hrest, rfl⟩
    obtain ⟨h0, ht⟩ := (implements_step s st _).mp hrest
    cases hn : s.next st with
    | mk o st' =>
      rw [hn] at h0 ht
      simp only at h0 ht
      cases rest with
      | cons r rest' =>
        have ho : o = some r := by simpa [Content.answer] using h0
        subst ho
        simp only [cycle, hn]
        refine ⟨by simp [cycFrom, Content.answer], rest', ?_, cycFrom_tail_cons _ _ _ _⟩
        simpa [Content.tail] using ht
      | nil =>
        have ho : o = none := by simpa [Content.answer] using h0
        subst ho
        -- restart from the pristine clone
        obtain ⟨g0, gt⟩ := (implements_step s orig _).mp h
        simp only [cycle, hn]
        refine ⟨?_, t, by simpa [Content.tail] using gt, ?_⟩
        · rw [g0]; simp [cycFrom, Content.answer]
        · rw [cycFrom_restart _ _ (by simp)]; rfl
  · exact ⟨a :: t, h, rfl⟩

/-- an empty source cycled stays empty -/
theorem cycle_correct_nil (s : Src α) (orig : s.σ) (h : Implements s orig (.fin [])) :
    Implements (cycle s orig) orig (.fin []) := by
  apply implements_of_bisim (cycle s orig)
    (fun st c' => Implements s st (.fin []) ∧ c' = .fin [])
  · rintro st c' ⟨hst, rfl⟩
    obtain ⟨h0, _⟩ := (implements_step s st _).mp hst
    obtain ⟨g0, gt⟩ := (implements_step s orig _).mp h
    cases hn : s.next st with
    | mk o st' =>
      rw [hn] at h0
      have ho : o = none := by simpa [Content.answer] using h0
      subst ho
      simp only [cycle, hn]
      exact ⟨g0, by simpa [Content.tail] using gt, rfl⟩
  · exact ⟨h, rfl⟩

end SignaloModel.Sources

#print axioms SignaloModel.Sources.cycle_correct_fin
#print axioms SignaloModel.Sources.padConst_correct
