import SignaloModel.Model.Median
/-! Closed form of the `insert_value` walk (prototype of the crux lemma for C02). -/
namespace SignaloModel.Median

variable {α : Type}

theorem valAt_append_left (o : List (Nat × Option α)) (e : Nat × Option α) (p : Nat)
    (h : p < o.length) : valAt (o ++ [e]) p = valAt o p := by
  simp [valAt, List.getElem?_append_left h]

theorem valAt_append_last (o : List (Nat × Option α)) (e : Nat × Option α) :
    valAt (o ++ [e]) o.length = e.2 := by
  simp [valAt]

theorem valAt_insertIdx_lt (o : List (Nat × Option α)) (e : Nat × Option α) (j p : Nat)
    (hp : p < j) : valAt (o.insertIdx j e) p = valAt o p := by
  simp [valAt, List.getElem?_insertIdx_of_lt hp]

theorem valAt_insertIdx_gt (o : List (Nat × Option α)) (e : Nat × Option α) (j p : Nat)
    (hp : j < p) : valAt (o.insertIdx j e) p = valAt o (p - 1) := by
  simp [valAt, List.getElem?_insertIdx_of_gt hp]

/-- the count of median shifts after `i` iterations -/
def cnt (N m1 i : Nat) : Nat := (min i m1) / 2 + (if i = N ∧ N % 2 = 0 then 1 else 0)

theorem med_step_at_J (n m1 i : Nat) (hm : m1 ≤ n) (hJ : i ≤ m1) :
    (if (decide (i % 2 = 1) && decide (i < m1 ∨ (i = n ∧ 0 < n))) = true
      then (i / 2 + 1) % (n + 1) else i / 2) = cnt (n + 1) m1 (i + 1) := by
  unfold cnt
  by_cases hodd : i % 2 = 1
  · have hmod : (i / 2 + 1) % (n + 1) = i / 2 + 1 := Nat.mod_eq_of_lt (by omega)
    by_cases ha : i < m1 ∨ (i = n ∧ 0 < n)
    · have hc : (decide (i % 2 = 1) && decide (i < m1 ∨ (i = n ∧ 0 < n))) = true := by
        simp [hodd, ha]
      rw [if_pos hc, hmod]
      split <;> omega
    · have hc : ¬ (decide (i % 2 = 1) && decide (i < m1 ∨ (i = n ∧ 0 < n))) = true := by
        simp [ha]
      rw [if_neg hc]
      split <;> omega
  · have hc : ¬ (decide (i % 2 = 1) && decide (i < m1 ∨ (i = n ∧ 0 < n))) = true := by
      simp [hodd]
    rw [if_neg hc]
    split <;> omega

theorem med_step_after_J (n m1 i : Nat) (hm : m1 ≤ n) (hi : i < n + 1) :
    (if (decide (i % 2 = 1) && decide (i < m1 ∨ i = n)) = true
      then (cnt (n + 1) m1 i + 1) % (n + 1) else cnt (n + 1) m1 i) = cnt (n + 1) m1 (i + 1) := by
  unfold cnt
  have hne : ¬ (i = n + 1 ∧ (n + 1) % 2 = 0) := by omega
  simp only [hne, ↓reduceIte, Nat.add_zero]
  by_cases hodd : i % 2 = 1
  · have hmod : (min i m1 / 2 + 1) % (n + 1) = min i m1 / 2 + 1 := Nat.mod_eq_of_lt (by omega)
    by_cases ha : i < m1 ∨ i = n
    · have hc : (decide (i % 2 = 1) && decide (i < m1 ∨ i = n)) = true := by simp [hodd, ha]
      rw [if_pos hc, hmod]
      split <;> omega
    · have hc : ¬ (decide (i % 2 = 1) && decide (i < m1 ∨ i = n)) = true := by simp [ha]
      rw [if_neg hc]
      split <;> omega
  · have hc : ¬ (decide (i % 2 = 1) && decide (i < m1 ∨ i = n)) = true := by simp [hodd]
    rw [if_neg hc]
    split <;> omega

/-- result of inserting at walk index `J` -/
def insJ (o1 : List (Nat × Option α)) (J : Nat) (e : Nat × Option α) : List (Nat × Option α) :=
  if J % o1.length = 0 then o1 ++ [e] else o1.insertIdx J e

def kindJ (n J : Nat) : Ins := if J % n = 0 then .tail else .mid

/-- closed form of the loop state after `i` iterations -/
def loopSt (o1 : List (Nat × Option α)) (m1 J c : Nat) (x : α) (i : Nat) : Loop α :=
  if i ≤ J then { ord := o1, ins := .no, med := i / 2 }
  else { ord := insJ o1 J (c, some x), ins := kindJ o1.length J, med := cnt (o1.length + 1) m1 i }

/-- hypotheses on the list after removal: `m1` values, of which exactly the first `J` are not `≥ x`. -/
structure WalkHyp [POrd α] (o1 : List (Nat × Option α)) (m1 J : Nat) (x : α) : Prop where
  hm : m1 ≤ o1.length
  hJ : J ≤ m1
  some_lt : ∀ i, i < m1 → ∃ v, valAt o1 i = some v ∧ (i < J → POrd.ge v x = false) ∧ (i = J → POrd.ge v x = true)
  none_ge : ∀ i, m1 ≤ i → valAt o1 i = none

theorem length_insJ (o1 : List (Nat × Option α)) (J : Nat) (e) (hJ : J ≤ o1.length) :
    (insJ o1 J e).length = o1.length + 1 := by
  unfold insJ; split <;> simp [List.length_insertIdx, hJ]

theorem loopBody_closed [POrd α] (o1 : List (Nat × Option α)) (m1 J c : Nat) (x : α)
    (H : WalkHyp o1 m1 J x) (i : Nat) (hi : i < o1.length + 1) :
    loopBody (o1.length + 1) c x (loopSt o1 m1 J c x i) i = loopSt o1 m1 J c x (i + 1) := by
  obtain ⟨hm, hJ, hsome, hnone⟩ := H
  generalize hn : o1.length = n at *
  by_cases h1 : i < J
  · -- before the insertion point: nothing happens except the median hop
    have hle : i ≤ J := Nat.le_of_lt h1
    have hle' : i + 1 ≤ J := h1
    obtain ⟨v, hv, hlt, _⟩ := hsome i (by omega)
    have hge := hlt h1
    have hin : i % n = i := Nat.mod_eq_of_lt (by omega)
    have hN : (i + 1 == n + 1) = false := by simp; omega
    simp only [loopSt, hle, hle', ↓reduceIte, loopBody, curPosOf, hn,
      show (Ins.no = Ins.mid) = False by simp, Nat.add_zero, hin, hv, shouldInsert, hge, hN,
      Bool.or_false, Bool.and_false, Bool.false_eq_true, shiftMedian, Option.isSome_some,
      Bool.and_true]
    by_cases hodd : i % 2 = 1
    · have : (i / 2 + 1) % n = (i + 1) / 2 := by
        rw [Nat.mod_eq_of_lt (by omega)]; omega
      simp [hodd, this]
    · have : (i + 1) / 2 = i / 2 := by omega
      simp [hodd, this]
  · by_cases h2 : i = J
    · -- the insertion step
      subst h2
      have hcv : ∃ cv, valAt o1 (i % n) = cv ∧ shouldInsert (n + 1) i x cv = true ∧
          cv.isSome = decide (i < m1 ∨ (i = n ∧ 0 < n)) := by
        by_cases ha : i < m1
        · obtain ⟨v, hv, _, heq⟩ := hsome i ha
          have hin : i % n = i := Nat.mod_eq_of_lt (by omega)
          refine ⟨some v, by rw [hin, hv], ?_, ?_⟩
          · simp [shouldInsert, heq rfl]
          · simp [ha]
        · have him : i = m1 := by omega
          by_cases hb : i < n
          · have hin : i % n = i := Nat.mod_eq_of_lt hb
            refine ⟨none, by rw [hin]; exact hnone i (by omega), by simp [shouldInsert], ?_⟩
            simp; omega
          · have hin : i = n := by omega
            refine ⟨valAt o1 (i % n), rfl, ?_, ?_⟩
            · cases valAt o1 (i % n) with
              | none => rfl
              | some v => simp [shouldInsert, hin]
            · subst hin
              by_cases hz : i = 0
              · subst hz
                have : valAt o1 (0 % 0) = none := hnone _ (by omega)
                simp [this]
                omega
              · have h0 : 0 < m1 := by omega
                obtain ⟨v, hv, _, _⟩ := hsome 0 h0
                have : i % i = 0 := Nat.mod_self i
                rw [this, hv]
                simp; omega
      obtain ⟨cv, hcv1, hcv2, hcv3⟩ := hcv
      have hJ1 : ¬ (i + 1 ≤ i) := by omega
      have key := med_step_at_J n m1 i hm hJ
      simp only [loopSt, Nat.le_refl, ↓reduceIte, hJ1, loopBody, curPosOf, hn,
        show (Ins.no = Ins.mid) = False by simp, Nat.add_zero, hcv1, hcv2, decide_true,
        Bool.and_true, insertAt]
      by_cases hz : i % n = 0
      · -- insertion before the head = at the tail
        simp only [hz, ↓reduceIte, insJ, kindJ, hn, shiftMedian, hcv3, List.length_append,
          List.length_singleton]
        rw [← key]
        split <;> rfl
      · -- insertion in the middle
        have hlt : i < n := by
          by_cases hb : i < n
          · exact hb
          · have : i = n := by omega
            subst this; simp at hz
        have hin : i % n = i := Nat.mod_eq_of_lt hlt
        have hi0 : ¬ (i = 0) := by intro h; subst h; simp at hz
        have hmed : ¬ (i ≤ i / 2) := by omega
        simp only [hz, ↓reduceIte, insJ, kindJ, hn, hin, hi0, hmed, shiftMedian, hcv3,
          List.length_insertIdx, show i ≤ n from by omega]
        rw [← key]
        split <;> rfl
    · -- after the insertion: only median hops
      have h3 : ¬ (i ≤ J) := by omega
      have h3' : ¬ (i + 1 ≤ J) := by omega
      have hJn : J ≤ n := by omega
      have key := med_step_after_J n m1 i hm hi
      have hlen : (insJ o1 J (c, some x)).length = n + 1 := by
        rw [length_insJ _ _ _ (by omega), hn]
      have hkind : (kindJ n J = Ins.no) = False := by
        unfold kindJ; split <;> simp
      -- value under `current`
      have hcv : (valAt (insJ o1 J (c, some x))
          ((i + (if kindJ n J = Ins.mid then 1 else 0)) % (n + 1))).isSome
            = decide (i < m1 ∨ i = n) := by
        have hval : ∀ p, p < n → (valAt o1 p).isSome = decide (p < m1) := by
          intro p hp
          by_cases hpm : p < m1
          · obtain ⟨v, hv, _, _⟩ := hsome p hpm
            simp [hv, hpm]
          · simp [hnone p (by omega), hpm]
        unfold insJ kindJ
        rw [hn]
        by_cases hz : J % n = 0
        · -- tail: J = 0 here
          have hJ0 : J = 0 := by
            by_cases hb : J < n
            · rw [Nat.mod_eq_of_lt hb] at hz; exact hz
            · omega
          simp only [hz, ↓reduceIte, show (Ins.tail = Ins.mid) = False by simp, Nat.add_zero]
          rw [Nat.mod_eq_of_lt hi]
          by_cases hin : i < n
          · rw [valAt_append_left _ _ _ (by omega), hval i hin]
            simp; omega
          · have : i = n := by omega
            subst this
            rw [← hn, valAt_append_last]
            simp
        · -- middle: 0 < J < n
          have hJpos : 0 < J := by
            apply Nat.pos_of_ne_zero; intro h; subst h; simp at hz
          have hJlt : J < n := by
            by_cases hb : J < n
            · exact hb
            · have : J = n := by omega
              subst this; simp at hz
          simp only [hz, ↓reduceIte]
          by_cases hin : i + 1 < n + 1
          · rw [Nat.mod_eq_of_lt hin, valAt_insertIdx_gt _ _ _ _ (by omega)]
            simp only [Nat.add_sub_cancel]
            rw [hval i (by omega)]
            simp; omega
          · have : i = n := by omega
            subst this
            rw [Nat.mod_self, valAt_insertIdx_lt _ _ _ _ hJpos, hval 0 (by omega)]
            simp; omega
      simp only [loopSt, h3, h3', ↓reduceIte, loopBody, curPosOf, hn, hlen, hkind, decide_false,
        Bool.false_and, Bool.false_eq_true, shiftMedian, hcv]
      rw [← key]
      split <;> rfl

end SignaloModel.Median
