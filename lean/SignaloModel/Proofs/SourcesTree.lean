import SignaloModel.Proofs.Sources3Proofs
/-! Model/proofs for C10: every adapter expression tree implements its denotation. -/
namespace SignaloModel.Sources

variable {α : Type}

/-- infinite inner source: `Cycle` never restarts -/
theorem cycle_correct_inf (s : Src α) (orig : s.σ) (f : Nat → α)
    (h : Implements s orig (.inf f)) : Implements (cycle s orig) orig (.inf f) := by
  apply implements_of_bisim (cycle s orig) (fun st c' => ∃ g, Implements s st (.inf g) ∧ c' = .inf g)
  · rintro st c' ⟨g, hg, rfl⟩
    obtain ⟨h0, ht⟩ := (implements_step s st _).mp hg
    cases hn : s.next st with
    | mk o st' =>
      rw [hn] at h0 ht
      simp only at h0 ht
      have ho : o = some (g 0) := by simpa [Content.answer] using h0
      subst ho
      simp only [cycle, hn]
      exact ⟨rfl, _, ht, rfl⟩
  · exact ⟨f, h, rfl⟩

/-- adapter expression trees, as the harness generates them -/
inductive Expr (α : Type) where
  | iter (xs : List α)
  | const (v : α)
  | incr (start step : α)
  | take (n : Nat) (e : Expr α)
  | skip (n : Nat) (e : Expr α)
  | chain (a b : Expr α)
  | cycle (e : Expr α)
  | rep (v : α) (n : Nat)
  | padc (v : α) (n : Nat) (e : Expr α)
  | pade (n : Nat) (e : Expr α)
  | cache (e : Expr α)
  /-- `FromIter::from(IntoIter::from(e))`: a source turned into an iterator and back -/
  | rt (e : Expr α)

/-- a machine together with its initial state -/
structure Started (α : Type) where
  src : Src α
  st : src.σ

variable [Add α]

def Expr.compile : Expr α → Started α
  | .iter xs => ⟨fromList, xs⟩
  | .const v => ⟨constant v, ()⟩
  | .incr start step => ⟨increment step, start⟩
  | .take n e => ⟨Sources.take e.compile.src, (e.compile.st, n)⟩
  | .skip n e => ⟨Sources.skip e.compile.src, (e.compile.st, n)⟩
  | .chain a b => ⟨Sources.chain a.compile.src b.compile.src, (a.compile.st, b.compile.st, .front)⟩
  | .cycle e => ⟨Sources.cycle e.compile.src e.compile.st, e.compile.st⟩
  | .rep v n => ⟨Sources.take (constant v), ((), n)⟩
  | .padc v n e => ⟨padConst e.compile.src v, (e.compile.st, n, n, .front)⟩
  | .pade n e => ⟨padEdge e.compile.src n, (e.compile.st, .before)⟩
  | .cache e => ⟨Sources.cache e.compile.src, (e.compile.st, none)⟩
  | .rt e => e.compile

def cycleDen : Content α → Content α
  | .fin [] => .fin []
  | .fin (a :: t) => cycFrom (a :: t) a (a :: t)
  | .inf f => .inf f

/-- the iterator analogue of an expression -/
def Expr.den : Expr α → Content α
  | .iter xs => .fin xs
  | .const v => .inf (fun _ => v)
  | .incr start step => .inf (incrSeq step start)
  | .take n e => e.den.take n
  | .skip n e => e.den.skip n
  | .chain a b => a.den.chain b.den
  | .cycle e => cycleDen e.den
  | .rep v n => .fin (List.replicate n v)
  | .padc v n e => Content.prependRep n v (Content.appendList e.den (List.replicate n v))
  | .pade n e => Content.padEdge' n e.den
  | .cache e => e.den
  | .rt e => e.den

/-- **C10**: every adapter tree, of any depth, yields exactly what its iterator analogue yields,
and keeps answering `none` after a finite end -/
theorem tree_correct (e : Expr α) : Implements e.compile.src e.compile.st e.den := by
  induction e with
  | iter xs => exact fromList_correct xs
  | const v => exact constant_correct v
  | incr start step => exact increment_correct step start
  | take n e ih => exact take_correct _ _ _ n ih
  | skip n e ih => exact skip_correct _ _ _ n ih
  | chain a b iha ihb => exact chain_correct _ _ _ _ _ _ iha ihb
  | cycle e ih =>
    simp only [Expr.compile, Expr.den]
    cases hd : e.den with
    | fin xs =>
      rw [hd] at ih
      cases xs with
      | nil => exact cycle_correct_nil _ _ ih
      | cons a t => exact cycle_correct_fin _ _ a t ih
    | inf f =>
      rw [hd] at ih
      exact cycle_correct_inf _ _ f ih
  | rep v n => exact repeat_correct v n
  | padc v n e ih => exact padConst_correct _ _ _ v n ih
  | pade n e ih => exact padEdge_correct _ _ _ n ih
  | cache e ih => exact cache_correct _ _ _ none ih
  | rt e ih => exact ih

end SignaloModel.Sources

#print axioms SignaloModel.Sources.tree_correct
