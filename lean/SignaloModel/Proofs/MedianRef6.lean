import SignaloModel.Proofs.MedianRef5
import SignaloModel.Proofs.MedianThm
/-! Model: `L ⊑ A`, part 6: initial states, whole runs, the property on the pointer-level model. -/
namespace SignaloModel.MedianL
open SignaloModel.Median (POrd valAt MS)

variable {α : Type}

theorem rep_init (N : Nat) (hN : 2 ≤ N) : Rep (init N : LS α) (SignaloModel.Median.init N : MS α) := by
  have hslot : ∀ k, k < N → slotAt ((List.range N).map (fun i => (i, (none : Option α)))) k = k := by
    intro k hk
    simp [slotAt, List.getElem?_map, List.getElem?_range hk]
  have hval : ∀ k, valAt ((List.range N).map (fun i => (i, (none : Option α)))) k = none := by
    intro k
    simp only [valAt, List.getElem?_map]
    cases (List.range N)[k]? <;> simp
  refine ⟨by simp [init, SignaloModel.Median.init], ⟨?_, ?_⟩, ?_, rfl, by simp [init, SignaloModel.Median.init]; omega, ?_,
    by simp [SignaloModel.Median.init]; omega, ?_⟩
  · simp [SignaloModel.Median.init, List.map_map, Function.comp_def, List.nodup_range]
  · intro k hk
    simp only [SignaloModel.Median.init, List.length_map, List.length_range] at hk ⊢
    have hp : predIdx N k < N := by unfold predIdx; split <;> omega
    have hs : succIdx N k < N := by unfold succIdx; split <;> omega
    rw [hslot k hk, hslot _ hp, hslot _ hs, hval]
    simp only [init, List.getElem?_map, List.getElem?_range hk, Option.map_some,
      predIdx_eq_mod N k hk, succIdx_eq_mod N k hk]
  · simp only [init, SignaloModel.Median.init]; rw [hslot 0 (by omega)]
  · simp only [init, SignaloModel.Median.init]; rw [hslot 0 (by omega)]
  · simp [init, SignaloModel.Median.init, List.map_map, Function.comp_def]

theorem run_sim [POrd α] (xs : List α) :
    ∀ (sl : LS α) (sa : MS α), 2 ≤ sl.buffer.length → Rep sl sa → ∀ ys,
      SignaloModel.Median.run sa xs = some ys → run sl xs = some ys := by
  induction xs with
  | nil => intro sl sa _ _ ys h; simpa [run, SignaloModel.Median.run] using h
  | cons x xs ih =>
    intro sl sa hN hrep ys h
    simp only [SignaloModel.Median.run, Option.bind_eq_bind] at h
    cases hst : SignaloModel.Median.step sa x with
    | none => rw [hst] at h; simp at h
    | some r =>
      obtain ⟨sa', y⟩ := r
      rw [hst] at h
      simp only [Option.bind_some] at h
      cases hr : SignaloModel.Median.run sa' xs with
      | none => rw [hr] at h; simp at h
      | some ys' =>
        rw [hr] at h
        simp only [Option.bind_some, Option.pure_def, Option.some.injEq] at h
        obtain ⟨sl', hsl', hrep', hl'⟩ := refine_step sl sa hN hrep x sa' y hst
        have hlen' : 2 ≤ sl'.buffer.length := by omega
        have := ih sl' sa' hlen' hrep' ys' hr
        simp [run, hsl', this, ← h]

/-- **C02 on the pointer-level model** (widths ≥ 2): the literal ring-buffer / linked-list
algorithm never panics and returns the lower median of the window. -/
theorem medianL_correct [POrd α] [SignaloModel.Median.TotalOrd α] (N : Nat) (hN : 2 ≤ N) (xs : List α) :
    ∃ ys, run (init N : LS α) xs = some ys ∧
      ys.map some = SignaloModel.Median.specRun N [] xs := by
  obtain ⟨ys, hrun, hspec⟩ := SignaloModel.Median.median_correct N (by omega) xs
  exact ⟨ys, run_sim xs _ _ (by simp [init]; omega) (rep_init N hN) ys hrun, hspec⟩

theorem medianL_robust [POrd α] [SignaloModel.Median.DualOrd α] (N : Nat) (hN : 2 ≤ N) (xs : List α) :
    ∃ ys, run (init N : LS α) xs = some ys ∧ SignaloModel.Median.MemRun N [] xs ys := by
  obtain ⟨ys, hrun, hspec⟩ := SignaloModel.Median.median_robust N (by omega) xs
  exact ⟨ys, run_sim xs _ _ (by simp [init]; omega) (rep_init N hN) ys hrun, hspec⟩

end SignaloModel.MedianL

#print axioms SignaloModel.MedianL.medianL_correct
#print axioms SignaloModel.MedianL.medianL_robust
