import SignaloModel.Proofs.MedianRef3
import SignaloModel.Proofs.MedianMain
/-! Model: `L ⊑ A`, part 4: whole walk, prologue. -/
namespace SignaloModel.MedianL
open SignaloModel.Median (POrd valAt Loop Ins curPosOf MS)

variable {α : Type}

theorem walk_sim [POrd α] (N c : Nat) (x : α) (w0 : WalkL α) (st0 : Loop α) (hN : 2 ≤ N)
    (h0 : RepW N c w0 st0 0) (k : Nat) (hk : k ≤ N) :
    ∃ w, (List.range k).foldlM (walkBody x) w0 = some w ∧
      RepW N c w ((List.range k).foldl (SignaloModel.Median.loopBody N c x) st0) k := by
  induction k with
  | zero => exact ⟨w0, rfl, h0⟩
  | succ k ih =>
    obtain ⟨w, hw, hr⟩ := ih (by omega)
    obtain ⟨w', hw', hr'⟩ := walkBody_sim N c x w _ k hN (by omega) hr
    refine ⟨w', ?_, ?_⟩
    · rw [List.range_succ, List.foldlM_append, hw]
      simp [hw']
    · rw [List.range_succ, List.foldl_append]
      simpa using hr'

theorem loopBody_ins_ne [POrd α] (N c : Nat) (x : α) (st : Loop α) (i : Nat) (h : st.ins ≠ .no) :
    (SignaloModel.Median.loopBody N c x st i).ins ≠ .no := by
  have : decide (st.ins = Ins.no) = false := by simp [h]
  simp only [SignaloModel.Median.loopBody, this, Bool.false_and, Bool.false_eq_true, ↓reduceIte,
    shiftMedian_ins]
  exact h

theorem loopBody_last [POrd α] (N c : Nat) (x : α) (st : Loop α) (hN : 1 ≤ N) :
    (SignaloModel.Median.loopBody N c x st (N - 1)).ins ≠ .no := by
  by_cases h : st.ins = .no
  · have hsh : SignaloModel.Median.shouldInsert N (N - 1) x (valAt st.ord (curPosOf st (N - 1))) = true := by
      unfold SignaloModel.Median.shouldInsert
      cases valAt st.ord (curPosOf st (N - 1)) with
      | none => rfl
      | some v =>
        have : (N - 1 + 1 == N) = true := by simp; omega
        simp [this]
    simp only [SignaloModel.Median.loopBody, h, decide_true, Bool.true_and, hsh, ↓reduceIte,
      shiftMedian_ins, SignaloModel.Median.insertAt]
    split <;> simp
  · exact loopBody_ins_ne N c x st _ h

theorem walk_inserts [POrd α] (N c : Nat) (x : α) (st0 : Loop α) (hN : 1 ≤ N) :
    ((List.range N).foldl (SignaloModel.Median.loopBody N c x) st0).ins ≠ .no := by
  obtain ⟨n, rfl⟩ : ∃ n, N = n + 1 := ⟨N - 1, by omega⟩
  rw [List.range_succ, List.foldl_append]
  simp only [List.foldl_cons, List.foldl_nil]
  exact loopBody_last (n + 1) c x _ (by omega)

/-- the pointer-level state represents the list-level state -/
structure Rep (sl : LS α) (sa : MS α) : Prop where
  len : sa.order.length = sl.buffer.length
  circ : Circ sl.buffer sa.order
  head : sl.head = slotAt sa.order 0
  cursor : sl.cursor = sa.cursor
  curlt : sa.cursor < sl.buffer.length
  med : sl.median = slotAt sa.order sa.med
  medlt : sa.med < sa.order.length
  perm : (sa.order.map (·.1)).Perm (List.range sl.buffer.length)

/-- `move_head_forward`, `remove_node`, `initialize_median` -/
theorem pre_sim (sl : LS α) (sa : MS α) (hN : 2 ≤ sl.buffer.length) (h : Rep sl sa) :
    ∃ s3 : LS α,
      ((moveHeadForward sl).bind fun s1 => (removeNode s1).bind fun s2 =>
        some ({ s2 with median := s2.head } : LS α)) = some s3 ∧
      RepW sl.buffer.length sa.cursor { s := s3, current := s3.head, inserted := false }
        { ord := sa.order.filter (fun p => p.1 != sa.cursor), ins := .no, med := 0 } 0 := by
  obtain ⟨hlen, hC, hhead, hcursor, hcurlt, hmed, hmedlt, hperm⟩ := h
  generalize hNdef : sl.buffer.length = N at *
  have hnd : (sa.order.map (·.1)).Nodup := (hperm.nodup_iff).mpr List.nodup_range
  have hcmem : sa.cursor ∈ sa.order.map (·.1) := hperm.mem_iff.mpr (List.mem_range.mpr hcurlt)
  obtain ⟨q, hq⟩ := List.getElem?_of_mem hcmem
  rw [List.getElem?_map] at hq
  obtain ⟨p, hp, hpc⟩ := Option.map_eq_some_iff.mp hq
  obtain ⟨pc, v⟩ := p
  simp only at hpc
  subst hpc
  have hqlt : q < sa.order.length := (List.getElem?_eq_some_iff.mp hp).1
  have hslq : slotAt sa.order q = sa.cursor := by simp [slotAt, hp]
  have hfilter := SignaloModel.Median.filter_eq_eraseIdx _ _ _ _ hnd hp
  -- move_head_forward
  have hnode0 := hC.node 0 (by omega)
  have hmove : ∃ s1 : LS α, moveHeadForward sl = some s1 ∧ s1.buffer = sl.buffer ∧
      s1.cursor = sl.cursor ∧
      s1.head = slotAt sa.order (if q = 0 then 1 else 0) := by
    unfold moveHeadForward
    by_cases hch : sl.cursor = sl.head
    · have hq0 : q = 0 := by
        apply slotAt_inj hnd hqlt (by omega)
        rw [hslq, ← hcursor, hch, hhead]
      rw [if_pos hch, hhead, hnode0]
      refine ⟨_, rfl, rfl, rfl, ?_⟩
      simp only [hq0, ↓reduceIte, succIdx]
      rw [if_neg (by omega)]
    · have hq0 : ¬ q = 0 := by
        intro h0; apply hch; rw [hcursor, ← hslq, h0, hhead]
      rw [if_neg hch]
      exact ⟨sl, rfl, rfl, rfl, by simp [hq0, hhead]⟩
  obtain ⟨s1, hs1, hb1, hc1, hh1⟩ := hmove
  -- remove_node
  obtain ⟨b', hun, hlen', hC', hdet⟩ := circ_unlink sl.buffer sa.order q hC (by omega) hqlt
  rw [hslq] at hun hdet
  refine ⟨{ buffer := b', cursor := s1.cursor, head := s1.head, median := s1.head }, ?_, ?_⟩
  · simp only [hs1, Option.bind_some, removeNode, hb1, hc1, hcursor, hun, Option.bind_eq_bind,
      Option.pure_def]
  · rw [hfilter]
    have hlenE : (sa.order.eraseIdx q).length = N - 1 := by
      rw [List.length_eraseIdx, if_pos hqlt]; omega
    have hhead' : s1.head = slotAt (sa.order.eraseIdx q) 0 := by
      rw [hh1, slotAt_eraseIdx]
      by_cases hq0 : q = 0
      · simp [hq0]
      · have : 0 < q := Nat.pos_of_ne_zero hq0
        simp [hq0, this]
    refine ⟨by simpa using (by rw [hlen', hNdef] : b'.length = N), hC', by simp [hc1, hcursor],
      hcurlt, ?_, ?_, ?_, hhead', by simp only; omega, hhead', ?_⟩
    · intro _
      refine ⟨rfl, by simp only; omega, ?_⟩
      simp only
      rw [← hfilter]
      intro hmem
      obtain ⟨p', hp', hpe⟩ := List.mem_map.mp hmem
      have := (List.mem_filter.mp hp').2
      simp [hpe] at this
    · intro hcontra; exact absurd rfl hcontra
    · intro _
      simp only [curPosOf, ↓reduceIte, Nat.add_zero, Nat.zero_mod]
      exact hhead'
    · simp only [↓reduceIte]
      have := SignaloModel.Median.perm_eraseIdx (sa.order.map (·.1)) q (by simpa using hqlt)
      have hget : (sa.order.map (·.1))[q]'(by simpa using hqlt) = sa.cursor := by
        have := (List.getElem?_eq_some_iff.mp hp).2
        simp [List.getElem_map, this]
      rw [hget] at this
      rw [SignaloModel.Median.map_eraseIdx']
      exact this.symm.trans hperm

end SignaloModel.MedianL
