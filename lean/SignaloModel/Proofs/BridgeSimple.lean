import SignaloModel.Proofs.RunLemmas
import SignaloModel.Proofs.ClassifyProofs
/-!
Bridges for the filters whose specification is a recurrence or a closed form on the last few samples
(C06 textbook Kalman recursion, C08 threshold / Schmitt / debounce, C09 slopes / peaks, C13 EMA,
C14 alpha-beta, C15 differentiate / integrate): the registry-level model equals the `Spec.*` function of
the input history. No algebraic laws are needed (the specification functions are written in the code's own
operation order), so these hold for *every* sample type, floats included.
-/
namespace SignaloModel.Registry
open SignaloModel SignaloModel.Classify

variable {α : Type}

/-! ### C15 -/

section c15
variable [Add α] [Sub α] [OfNat α 0]

omit [Add α] in
theorem diff_spec (pre : List α) (x : α) :
    (match pre.getLast? with | none => (0 : α) | some p => x - p) = Spec.diffAt (pre ++ [x]) := by
  simp only [Spec.diffAt, List.reverse_append, List.reverse_cons, List.reverse_nil, List.nil_append,
    List.singleton_append]
  cases h : pre.reverse with
  | nil =>
    have : pre = [] := by simpa using h
    subst this; rfl
  | cons p r =>
    have : pre.getLast? = some p := by
      rw [List.getLast?_eq_head?_reverse, h]; rfl
    simp [this]

omit [Add α] in
/-- state of `Differentiate` after a history: the last sample -/
theorem diff_state (xs : List α) :
    (stepRun (fun (prev : Option α) x => (some x, match prev with | none => (0 : α) | some p => x - p)) none xs).1
      = xs.getLast? := by
  induction xs using snocInd with
  | nil => rfl
  | snoc xs x _ => rw [stepRun_append]; simp [stepRun]

omit [Sub α] in
theorem sum_snoc (pre : List α) (x : α) : Spec.sum (pre ++ [x]) = Spec.sum pre + x := by
  simp [Spec.sum, List.foldl_append]

omit [Sub α] in
theorem int_state (xs : List α) :
    (stepRun (fun (acc : α) x => (acc + x, acc + x)) (0 : α) xs).1 = Spec.sum xs := by
  induction xs using snocInd with
  | nil => rfl
  | snoc xs x ih => rw [stepRun_append, ih, sum_snoc]; simp [stepRun]

end c15

/-! ### C13 / C14: recurrences as folds -/

section c13
variable [Add α] [Sub α] [Mul α]

theorem emaRec_snoc (w : α) (pre : List α) (x : α) :
    Spec.emaRec w (pre ++ [x]) = some (Smooth.emaStep w (Spec.emaRec w pre) x) := by
  simp only [Spec.emaRec, List.foldl_append, List.foldl_cons, List.foldl_nil, Smooth.emaStep]
  cases List.foldl _ none pre <;> rfl

theorem ema_state (w : α) (xs : List α) :
    (stepRun (fun (s : Option α) x => (some (Smooth.emaStep w s x), Smooth.emaStep w s x)) none xs).1
      = Spec.emaRec w xs := by
  induction xs using snocInd with
  | nil => rfl
  | snoc xs x ih => rw [stepRun_append, ih, emaRec_snoc]; simp [stepRun]

variable [OfNat α 0]

/-- abstraction of the alpha-beta state to (position, velocity) -/
def abAbs (s : Smooth.ABState α) : Option (α × α) := s.value.map (fun v => (v, s.velocity))

theorem abRec_snoc (a b : α) (pre : List α) (x : α) :
    Spec.abRec a b (pre ++ [x]) =
      some (match Spec.abRec a b pre with
        | none => (x, 0)
        | some (p, v) => (p + v + a * (x - (p + v)), v + b * (x - (p + v)))) := by
  simp only [Spec.abRec, List.foldl_append, List.foldl_cons, List.foldl_nil]
  cases List.foldl _ none pre with
  | none => rfl
  | some pv => obtain ⟨p, v⟩ := pv; rfl

theorem ab_state (a b : α) (xs : List α) :
    abAbs (stepRun (Smooth.abStep a b) { velocity := (0 : α), value := none } xs).1 = Spec.abRec a b xs ∧
    ((stepRun (Smooth.abStep a b) { velocity := (0 : α), value := none } xs).1.value = none →
      (stepRun (Smooth.abStep a b) { velocity := (0 : α), value := none } xs).1.velocity = 0) := by
  induction xs using snocInd with
  | nil => exact ⟨rfl, fun _ => rfl⟩
  | snoc xs x ih =>
    rw [stepRun_append, abRec_snoc, ← ih.1]
    generalize (stepRun (Smooth.abStep a b) { velocity := (0 : α), value := none } xs).1 = s at ih ⊢
    obtain ⟨vel, val⟩ := s
    cases val with
    | none =>
      have hv : vel = 0 := ih.2 rfl
      subst hv
      simp [stepRun, Smooth.abStep, abAbs]
    | some p => simp [stepRun, Smooth.abStep, abAbs]

end c13

/-! ### C06: the model step is the textbook step -/

section c06
variable [Add α] [Sub α] [Mul α] [Div α]

def kAbs (s : KState α) : Option (α × α) := s.value.map (fun v => (v, s.cov))

/-- **C06**: one call of `Kalman::process` is one step of the textbook recursion
(first estimate `z/c` with covariance `q/c²`; predict with `a, b, r`; gain `P⁻c/(P⁻c²+q)`; correct) -/
theorem kalman_step_textbook (c : KCfg α) (s : KState α) (z u : α) :
    Spec.kalmanTextbook c (kAbs s) (z, u) = ((kalmanStep c s z u).2, (kalmanStep c s z u).1.cov) ∧
    kAbs (kalmanStep c s z u).1 = some ((kalmanStep c s z u).2, (kalmanStep c s z u).1.cov) := by
  obtain ⟨cov, value⟩ := s
  cases value with
  | none => exact ⟨rfl, rfl⟩
  | some v => exact ⟨rfl, rfl⟩

theorem kalmanTextbookRun_snoc (c : KCfg α) (pre : List (α × α)) (zu : α × α) :
    Spec.kalmanTextbookRun c (pre ++ [zu]) = some (Spec.kalmanTextbook c (Spec.kalmanTextbookRun c pre) zu) := by
  simp [Spec.kalmanTextbookRun, List.foldl_append]

/-- **C06**: after any history of (measurement, control) pairs the filter's (estimate, covariance) are those
of the textbook recursion -/
theorem kalman_state [OfNat α 0] (c : KCfg α) (zs : List (α × α)) :
    kAbs (stepRun (fun s (zu : α × α) => kalmanStep c s zu.1 zu.2) { cov := (0 : α), value := none } zs).1
      = Spec.kalmanTextbookRun c zs := by
  induction zs using snocInd with
  | nil => rfl
  | snoc zs zu ih =>
    rw [stepRun_append, kalmanTextbookRun_snoc, ← ih]
    simp only [stepRun]
    exact ((kalman_step_textbook c _ zu.1 zu.2).2).trans (congrArg some (kalman_step_textbook c _ zu.1 zu.2).1.symm)

end c06

/-! ### C08 -/

section c08
variable [Cmp α]

theorem schmitt_state (low high : α) (xs : List α) (on : Bool) :
    xs.foldl (fun on x => schmittStep low high on x) on =
      xs.foldl (fun on x => if on then (if Cmp.ge x low then true else false)
        else (if Cmp.gt x high then true else false)) on := by
  induction xs generalizing on with
  | nil => rfl
  | cons x xs ih =>
    simp only [List.foldl_cons]
    rw [ih]
    congr 1
    cases on <;> simp [schmittStep]

/-- **C08 (Schmitt)**: the trigger's state after any history is that of the reference automaton
(starts off; on only by a sample `> high`; stays on while samples are `>= low`) -/
theorem schmitt_registry (low high : α) (xs : List α) :
    xs.foldl (fun on x => schmittStep low high on x) false = Spec.schmittRefRun low high xs :=
  schmitt_state low high xs false

omit [Cmp α] in
/-- **C08 (debounce)**: with the counter saturating at `M` and any threshold `thr ≤ M`, the filter is on
exactly when the current run of predicate-equal samples has length `≥ thr` -/
theorem debounce_registry [BEq α] (M thr : Nat) (hthr : thr ≤ M) (pred : α) (xs : List α) :
    decide (thr ≤ debounceRun M pred 0 xs) = decide (thr ≤ Spec.trailingRun pred xs) := by
  have h := debounce_on_iff M thr hthr pred xs
  have hs := runLenFrom_spec pred 0 xs
  simp only [ite_self, Nat.add_zero] at hs
  rw [hs] at h
  exact h

end c08

/-! ### C09 -/

section c09

theorem slope_spec [Cmp α] (pre : List α) (x : α) :
    slopeOf pre.getLast? x = Spec.slopeAt (pre ++ [x]) := by
  simp only [Spec.slopeAt, List.reverse_append, List.reverse_cons, List.reverse_nil, List.nil_append,
    List.singleton_append]
  cases h : pre.reverse with
  | nil =>
    have : pre = [] := by simpa using h
    subst this; rfl
  | cons p r =>
    have : pre.getLast? = some p := by
      rw [List.getLast?_eq_head?_reverse, h]; rfl
    simp [this]

/-- **C09 (peaks)**: the three-sample specification of `ClassifyProofs` is the executable `Spec.peakAt` -/
theorem peak_spec [LinearOrder α] (pre : List α) (x : α) :
    peakSpec (pre.dropLast.getLast?) pre.getLast? x = Spec.peakAt (pre ++ [x]) := by
  simp only [Spec.peakAt, List.reverse_append, List.reverse_cons, List.reverse_nil, List.nil_append,
    List.singleton_append]
  cases h : pre.reverse with
  | nil =>
    have : pre = [] := by simpa using h
    subst this; rfl
  | cons p1 r =>
    have h1 : pre.getLast? = some p1 := by rw [List.getLast?_eq_head?_reverse, h]; rfl
    have hpre : pre = r.reverse ++ [p1] := by
      have := congrArg List.reverse h; simpa using this
    cases r with
    | nil =>
      subst hpre
      simp [peakSpec]
    | cons p2 r' =>
      have h2 : pre.dropLast.getLast? = some p2 := by
        rw [hpre]; simp
      simp only [h1, h2, peakSpec, Cmp.gt, Bool.and_eq_true, decide_eq_true_eq]

end c09

end SignaloModel.Registry

#print axioms SignaloModel.Registry.kalman_state
#print axioms SignaloModel.Registry.ab_state
#print axioms SignaloModel.Registry.peak_spec
#print axioms SignaloModel.Registry.debounce_registry

/-! ### whole runs of the registry instances (what the driver executes) against the `Spec.*` functions -/

namespace SignaloModel.Registry
open SignaloModel SignaloModel.Classify

variable {α : Type} [Add α] [Sub α] [Mul α] [Div α] [Neg α] [OfNat α 0] [OfNat α 1]
  [LT α] [DecidableLT α] [BEq α] [Median.POrd α] [Classify.Cmp α]

omit [Add α] [Sub α] [Mul α] [Div α] [Neg α] [OfNat α 0] [OfNat α 1] [LT α] [DecidableLT α] [BEq α]
  [Median.POrd α] [Classify.Cmp α] in
theorem take_succ_snoc (xs : List α) (k : Nat) (x : α) (hx : xs[k]? = some x) :
    xs.take (k + 1) = xs.take k ++ [x] := by
  rw [List.take_add_one, hx]; rfl

/-- **C13 (EMA) at registry level**: output `k` is the recurrence `y[n] = y[n-1] + (x[n] - y[n-1])·w`, `y[0] = x[0]`,
evaluated on the first `k+1` samples — for every sample type -/
theorem ema_registry_correct (w : α) (xs : List α) :
    ∃ s' ys, (Cfg.ema w).init.run (sing xs) = some (s', sing ys) ∧ ys.length = xs.length ∧
      ∀ k x, xs[k]? = some x → (ys[k]?).map some = some (Spec.emaRec w (xs.take (k + 1))) := by
  have hrun := run_of_step (St.ema w) (fun (s : Option α) x => (some (Smooth.emaStep w s x), Smooth.emaStep w s x))
    (by intro s x; simp [St.filter]) none xs
  refine ⟨_, _, hrun, stepRun_length _ _ _, ?_⟩
  intro k x hx
  rw [stepRun_getElem _ _ _ k x hx, ema_state, take_succ_snoc xs k x hx, emaRec_snoc]
  rfl

/-- **C14 at registry level**: output `k` is the position of the alpha-beta recurrence on the first `k+1` samples
(first sample unchanged with zero velocity; then predict, residual, correct) — for every sample type -/
theorem alphaBeta_registry_correct (a b : α) (xs : List α) :
    ∃ s' ys, (Cfg.alphaBeta a b).init.run (sing xs) = some (s', sing ys) ∧ ys.length = xs.length ∧
      ∀ k x, xs[k]? = some x → (ys[k]?).map some = some ((Spec.abRec a b (xs.take (k + 1))).map (·.1)) := by
  have hrun := run_of_step (St.alphaBeta a b) (Smooth.abStep a b) (by intro s x; simp [St.filter])
    { velocity := (0 : α), value := none } xs
  refine ⟨_, _, hrun, stepRun_length _ _ _, ?_⟩
  intro k x hx
  rw [stepRun_getElem _ _ _ k x hx, take_succ_snoc xs k x hx, abRec_snoc]
  obtain ⟨hst, hvel⟩ := ab_state a b (xs.take k)
  rw [← hst]
  generalize (stepRun (Smooth.abStep a b) { velocity := (0 : α), value := none } (xs.take k)).1 = s at hvel ⊢
  obtain ⟨vel, val⟩ := s
  cases val with
  | none =>
    have : vel = 0 := hvel rfl
    subst this
    simp [Smooth.abStep, abAbs]
  | some p => simp [Smooth.abStep, abAbs]

/-- **C15 (differentiate) at registry level**: zero for the first sample, `x[k] - x[k-1]` afterwards -/
theorem differentiate_registry_correct (xs : List α) :
    ∃ s' ys, (Cfg.differentiate : Cfg α).init.run (sing xs) = some (s', sing ys) ∧ ys.length = xs.length ∧
      ∀ k x, xs[k]? = some x → ys[k]? = some (Spec.diffAt (xs.take (k + 1))) := by
  have hrun := run_of_step St.differentiate
    (fun (prev : Option α) x => (some x, match prev with | none => (0 : α) | some p => x - p))
    (by intro s x; cases s <;> rfl) none xs
  refine ⟨_, _, hrun, stepRun_length _ _ _, ?_⟩
  intro k x hx
  rw [stepRun_getElem _ _ _ k x hx, diff_state, take_succ_snoc xs k x hx, ← diff_spec]

/-- **C15 (integrate) at registry level**: the running sum `x[0] + … + x[k]` (left to right) -/
theorem integrate_registry_correct (xs : List α) :
    ∃ s' ys, (Cfg.integrate : Cfg α).init.run (sing xs) = some (s', sing ys) ∧ ys.length = xs.length ∧
      ∀ k x, xs[k]? = some x → ys[k]? = some (Spec.sum (xs.take (k + 1))) := by
  have hrun := run_of_step St.integrate (fun (acc : α) x => (acc + x, acc + x))
    (by intro s x; simp [St.filter]) (0 : α) xs
  refine ⟨_, _, hrun, stepRun_length _ _ _, ?_⟩
  intro k x hx
  rw [stepRun_getElem _ _ _ k x hx, int_state, take_succ_snoc xs k x hx, sum_snoc]

/-- **C08 (threshold)**: on exactly when the sample is `>=` the threshold; the configured value is emitted -/
theorem threshold_registry (t off on x : α) :
    (St.threshold t [off, on]).filter [x] =
      some (St.threshold t [off, on], [if Cmp.ge x t then on else off]) := by
  simp only [St.filter, pick]
  by_cases h : Cmp.ge x t = true <;> simp [h]

/-- **C08 (Schmitt) at registry level**: the state after a history is the reference automaton's, and the configured
value for that state is emitted -/
theorem schmitt_registry_correct (low high off on : α) (xs : List α) :
    ∃ s' ys, (Cfg.schmitt low high [off, on]).init.run (sing xs) = some (s', sing ys) ∧ ys.length = xs.length ∧
      ∀ k x, xs[k]? = some x →
        ys[k]? = some (if Spec.schmittRefRun low high (xs.take (k + 1)) then on else off) := by
  have hrun := run_of_step (fun st => St.schmitt low high [off, on] st)
    (fun (st : Bool) x => (schmittStep low high st x, if schmittStep low high st x then on else off))
    (by
      intro s x
      simp only [St.filter, pick]
      by_cases h : schmittStep low high s x = true <;> simp [h]) false xs
  refine ⟨_, _, hrun, stepRun_length _ _ _, ?_⟩
  intro k x hx
  rw [stepRun_getElem _ _ _ k x hx, take_succ_snoc xs k x hx]
  have hstate : ∀ l : List α, (stepRun (fun (st : Bool) x => (schmittStep low high st x,
      if schmittStep low high st x then on else off)) false l).1 = Spec.schmittRefRun low high l := by
    intro l
    rw [stepRun_state_foldl]
    exact schmitt_registry low high l
  rw [hstate]
  have : Spec.schmittRefRun low high (xs.take k ++ [x]) =
      schmittStep low high (Spec.schmittRefRun low high (xs.take k)) x := by
    rw [← schmitt_registry, ← schmitt_registry, List.foldl_append]
    rfl
  rw [this]

/-- **C09 (slopes) at registry level**: flat for the first sample, then by comparison with the predecessor -/
theorem slopes_registry_correct (o0 o1 o2 : α) (xs : List α) :
    ∃ s' ys, (Cfg.slopes [o0, o1, o2]).init.run (sing xs) = some (s', sing ys) ∧ ys.length = xs.length ∧
      ∀ k x, xs[k]? = some x →
        ys[k]? = some (match Spec.slopeAt (xs.take (k + 1)) with | .rising => o0 | .flat => o1 | .falling => o2) := by
  have hrun := run_of_step (fun p => St.slopes [o0, o1, o2] p)
    (fun (p : Option α) x => (some x, match slopeOf p x with | .rising => o0 | .flat => o1 | .falling => o2))
    (by
      intro s x
      simp only [St.filter, pick, slopeIdx]
      cases slopeOf s x <;> simp) none xs
  refine ⟨_, _, hrun, stepRun_length _ _ _, ?_⟩
  intro k x hx
  rw [stepRun_getElem _ _ _ k x hx, take_succ_snoc xs k x hx, ← slope_spec]
  have hstate : ∀ l : List α, (stepRun (fun (p : Option α) x => (some x,
      match slopeOf p x with | .rising => o0 | .flat => o1 | .falling => o2)) none l).1 = l.getLast? := by
    intro l
    induction l using snocInd with
    | nil => rfl
    | snoc l y _ => rw [stepRun_append]; simp [stepRun]
  rw [hstate]

end SignaloModel.Registry

#print axioms SignaloModel.Registry.ema_registry_correct
#print axioms SignaloModel.Registry.alphaBeta_registry_correct
#print axioms SignaloModel.Registry.schmitt_registry_correct
#print axioms SignaloModel.Registry.slopes_registry_correct

namespace SignaloModel.Registry
open SignaloModel SignaloModel.Classify

variable {α : Type} [Add α] [Sub α] [Mul α] [Div α] [Neg α] [OfNat α 0] [OfNat α 1]
  [LT α] [DecidableLT α] [BEq α] [Median.POrd α] [Classify.Cmp α]

/-- **C08 (debounce) at registry level**: for every threshold a `usize` can hold, the filter emits the "on" value
exactly when the current run of predicate-equal samples has length `≥ threshold` (counter saturating at `2^64-1`) -/
theorem debounce_registry_correct (thr : Nat) (hthr : thr ≤ usizeMax) (pred off on : α) (xs : List α) :
    ∃ s' ys, (Cfg.debounce thr pred [off, on]).init.run (sing xs) = some (s', sing ys) ∧ ys.length = xs.length ∧
      ∀ k x, xs[k]? = some x →
        ys[k]? = some (if thr ≤ Spec.trailingRun pred (xs.take (k + 1)) then on else off) := by
  have hrun := run_of_step (fun c => St.debounce thr pred [off, on] c)
    (fun (c : Nat) x => (debounceStep usizeMax pred c x,
      if thr ≤ debounceStep usizeMax pred c x then on else off))
    (by
      intro s x
      simp only [St.filter, pick]
      by_cases h : thr ≤ debounceStep usizeMax pred s x <;> simp [h]) 0 xs
  refine ⟨_, _, hrun, stepRun_length _ _ _, ?_⟩
  intro k x hx
  rw [stepRun_getElem _ _ _ k x hx, take_succ_snoc xs k x hx, stepRun_state_foldl]
  have hfold : ∀ (l : List α) (c : Nat), l.foldl (fun c x => debounceStep usizeMax pred c x) c = debounceRun usizeMax pred c l := by
    intro l
    induction l with
    | nil => intro c; rfl
    | cons a l ih => intro c; simp [debounceRun, ih]
  simp only [hfold]
  have hsnoc : debounceStep usizeMax pred (debounceRun usizeMax pred 0 (xs.take k)) x
      = debounceRun usizeMax pred 0 (xs.take k ++ [x]) := by
    rw [← hfold, ← hfold, List.foldl_append]; rfl
  rw [hsnoc]
  have := debounce_registry usizeMax thr hthr pred (xs.take k ++ [x])
  by_cases h1 : thr ≤ debounceRun usizeMax pred 0 (xs.take k ++ [x])
  · have h2 : thr ≤ Spec.trailingRun pred (xs.take k ++ [x]) := by simpa [h1] using this
    simp [h1, h2]
  · have h2 : ¬ thr ≤ Spec.trailingRun pred (xs.take k ++ [x]) := by simpa [h1] using this
    simp [h1, h2]

/-- **C06 at registry level**: fed (measurement, control) pairs, output `k` is the estimate of the textbook recursion
after the first `k+1` pairs — for every sample type and configuration -/
theorem kalman_registry_correct (c : KCfg α) (zs : List (α × α)) :
    ∃ s' ys, (Cfg.kalman c).init.run (zs.map (fun p => [p.1, p.2])) = some (s', sing ys) ∧ ys.length = zs.length ∧
      ∀ k zu, zs[k]? = some zu →
        (ys[k]?).map some = some ((Spec.kalmanTextbookRun c (zs.take (k + 1))).map (·.1)) := by
  -- the run over pairs, by induction (the generic lemma is for single inputs)
  have hrun : ∀ (zs : List (α × α)) (s : KState α),
      (St.kalman c s).run (zs.map (fun p => [p.1, p.2])) =
        some (St.kalman c (stepRun (fun s (zu : α × α) => kalmanStep c s zu.1 zu.2) s zs).1,
              sing (stepRun (fun s (zu : α × α) => kalmanStep c s zu.1 zu.2) s zs).2) := by
    intro zs
    induction zs with
    | nil => intro s; rfl
    | cons zu zs ih => intro s; simp [St.run, St.filter, ih, stepRun]
  refine ⟨_, _, hrun zs _, stepRun_length _ _ _, ?_⟩
  intro k zu hzu
  rw [stepRun_getElem _ _ _ k zu hzu]
  have htake : zs.take (k + 1) = zs.take k ++ [zu] := by rw [List.take_add_one, hzu]; rfl
  rw [htake, kalmanTextbookRun_snoc, ← kalman_state c (zs.take k)]
  simp only [Option.map_some]
  rw [(kalman_step_textbook c _ zu.1 zu.2).1]

end SignaloModel.Registry

#print axioms SignaloModel.Registry.debounce_registry_correct
#print axioms SignaloModel.Registry.kalman_registry_correct

namespace SignaloModel.Registry
open SignaloModel SignaloModel.Classify

section peaks
variable {α : Type} [LinearOrder α] [Add α] [Sub α] [Mul α] [Div α] [Neg α] [OfNat α 0] [OfNat α 1]
  [BEq α] [Median.POrd α]

theorem peaksStep_spec (p2 p1 : Option α) (hwf : p1 = none → p2 = none) (x : α) :
    (peaksStep (stateOf p2 p1) x).2 = peakSpec p2 p1 x ∧ (peaksStep (stateOf p2 p1) x).1 = stateOf p1 (some x) := by
  have h := peaks_correct [x] p2 p1 hwf
  simp only [peaksRun, peakSpecRun, List.cons.injEq, and_true] at h
  exact ⟨h, by simp [peaksStep, stateOf]⟩

theorem dropLast_getLast_snoc (l : List α) (x : α) :
    ((l ++ [x]).dropLast.getLast? = l.getLast?) ∧ ((l ++ [x]).getLast? = some x) := by
  simp

/-- **C09 (peaks) at registry level**, total orders: output `k` is a maximum exactly when `x[k-2] < x[k-1] > x[k]`, a
minimum exactly when `x[k-2] > x[k-1] < x[k]`, none otherwise (always none for the first two samples) -/
theorem peaks_registry_correct (o0 o1 o2 : α) (xs : List α) :
    ∃ s' ys, (Cfg.peaks [o0, o1, o2]).init.run (sing xs) = some (s', sing ys) ∧ ys.length = xs.length ∧
      ∀ k x, xs[k]? = some x →
        ys[k]? = some (match Spec.peakAt (xs.take (k + 1)) with | .max => o0 | .none => o1 | .min => o2) := by
  have hrun := run_of_step (fun s => St.peaks [o0, o1, o2] s)
    (fun (s : PeaksState α) x => ((peaksStep s x).1, match (peaksStep s x).2 with | .max => o0 | .none => o1 | .min => o2))
    (by
      intro s x
      simp only [St.filter, pick, peakIdx]
      cases (peaksStep s x).2 <;> simp) { prevInput := none, slope := none } xs
  refine ⟨_, _, hrun, stepRun_length _ _ _, ?_⟩
  intro k x hx
  rw [stepRun_getElem _ _ _ k x hx, take_succ_snoc xs k x hx, ← peak_spec]
  have hstate : ∀ l : List α, (stepRun (fun (s : PeaksState α) x => ((peaksStep s x).1,
      match (peaksStep s x).2 with | .max => o0 | .none => o1 | .min => o2)) { prevInput := none, slope := none } l).1
      = stateOf l.dropLast.getLast? l.getLast? := by
    intro l
    induction l using snocInd with
    | nil => rfl
    | snoc l y ih =>
      rw [stepRun_append, ih]
      simp only [stepRun]
      have hwf : l.getLast? = none → l.dropLast.getLast? = none := by
        intro h
        have : l = [] := by simpa [List.getLast?_eq_none_iff] using h
        subst this; rfl
      rw [(peaksStep_spec _ _ hwf y).2]
      simp
  rw [hstate]
  have hwf : (xs.take k).getLast? = none → (xs.take k).dropLast.getLast? = none := by
    intro h
    have : xs.take k = [] := by simpa [List.getLast?_eq_none_iff] using h
    rw [this]; rfl
  rw [(peaksStep_spec _ _ hwf x).1]

end peaks

end SignaloModel.Registry

#print axioms SignaloModel.Registry.peaks_registry_correct

namespace SignaloModel.Registry
open SignaloModel

section emed
variable {α : Type} [Add α] [Sub α] [Mul α]

theorem emedRec_snoc (p m q : α) (pre : List α) (x : α) :
    Spec.emedRec p m q (pre ++ [x]) =
      some (match Spec.emedRec p m q pre with
        | none => (x, x)
        | some (ps, prev) =>
          (ps + (x - ps) * p, prev + ((prev + ((ps + (x - ps) * p) - prev) * m) - prev) * q)) := by
  simp only [Spec.emedRec, List.foldl_append, List.foldl_cons, List.foldl_nil]
  cases List.foldl _ none pre with
  | none => rfl
  | some s => obtain ⟨ps, prev⟩ := s; rfl

/-- state of the exponential median after a history: (pre-average, previous output) of the recurrence; the post
average's state is the previous output -/
theorem emed_state (p m q : α) (xs : List α) :
    let s := (stepRun (Smooth.emedStep p m q) { pre := none, post := none, median := none } xs).1
    (match s.pre, s.median with | some a, some b => some (a, b) | _, _ => none) = Spec.emedRec p m q xs ∧
      s.post = s.median ∧ (s.pre = none ↔ s.median = none) := by
  induction xs using snocInd with
  | nil => exact ⟨rfl, rfl, Iff.rfl⟩
  | snoc xs x ih =>
    simp only at ih ⊢
    rw [stepRun_append, emedRec_snoc, ← ih.1]
    generalize (stepRun (Smooth.emedStep p m q) { pre := none, post := none, median := none } xs).1 = s at ih ⊢
    obtain ⟨pre, post, med⟩ := s
    obtain ⟨_, hpost, hiff⟩ := ih
    simp only at hpost hiff
    cases pre with
    | none =>
      have h1 : med = none := hiff.mp rfl
      subst h1
      have h2 : post = none := hpost
      subst h2
      simp [stepRun, Smooth.emedStep, Smooth.emaStep]
    | some a =>
      cases med with
      | none => exact absurd (hiff.mpr rfl) (by simp)
      | some b =>
        have h2 : post = some b := hpost
        subst h2
        simp [stepRun, Smooth.emedStep, Smooth.emaStep]

end emed

variable {α : Type} [Add α] [Sub α] [Mul α] [Div α] [Neg α] [OfNat α 0] [OfNat α 1]
  [LT α] [DecidableLT α] [BEq α] [Median.POrd α] [Classify.Cmp α]

/-- **C13 (exponential median) at registry level**: output `k` is `post(prev + mid·(pre(x[k]) − prev))`, `out[0] = x[0]`,
evaluated on the first `k+1` samples — for every sample type and all gains -/
theorem emedian_registry_correct (p m q : α) (xs : List α) :
    ∃ s' ys, (Cfg.emedian p m q).init.run (sing xs) = some (s', sing ys) ∧ ys.length = xs.length ∧
      ∀ k x, xs[k]? = some x → (ys[k]?).map some = some ((Spec.emedRec p m q (xs.take (k + 1))).map (·.2)) := by
  have hrun := run_of_step (St.emedian p m q) (Smooth.emedStep p m q) (by intro s x; simp [St.filter])
    { pre := none, post := none, median := none } xs
  refine ⟨_, _, hrun, stepRun_length _ _ _, ?_⟩
  intro k x hx
  rw [stepRun_getElem _ _ _ k x hx, take_succ_snoc xs k x hx, emedRec_snoc]
  obtain ⟨hst, hpost, hiff⟩ := emed_state p m q (xs.take k)
  rw [← hst]
  generalize (stepRun (Smooth.emedStep p m q) { pre := none, post := none, median := none } (xs.take k)).1 = s
    at hpost hiff ⊢
  obtain ⟨pre, post, med⟩ := s
  simp only at hpost hiff
  cases pre with
  | none =>
    have h1 : med = none := hiff.mp rfl
    subst h1
    have h2 : post = none := hpost
    subst h2
    simp [Smooth.emedStep, Smooth.emaStep]
  | some a =>
    cases med with
    | none => exact absurd (hiff.mpr rfl) (by simp)
    | some b =>
      have h2 : post = some b := hpost
      subst h2
      simp [Smooth.emedStep, Smooth.emaStep]

end SignaloModel.Registry

#print axioms SignaloModel.Registry.emedian_registry_correct
