import SignaloModel.Proofs.SourcesProofs
/-! Model/proofs for C10: the repaired edge `Pad` implements edge padding for every count and content. -/
namespace SignaloModel.Sources

variable {α : Type}

def Content.cons (x : α) : Content α → Content α
  | .fin xs => .fin (x :: xs)
  | .inf f => .inf (fun k => match k with | 0 => x | k + 1 => f k)

def Content.prependRep : Nat → α → Content α → Content α
  | 0, _, c => c
  | n + 1, x, c => Content.cons x (Content.prependRep n x c)

/-- the inner items followed by `n` copies of the last one (`dflt` if there is none) -/
def Content.withBack (n : Nat) (dflt : α) : Content α → Content α
  | .fin xs => .fin (xs ++ List.replicate n (xs.getLast?.getD dflt))
  | .inf f => .inf f

/-- edge padding, in the order the adapter emits it: first item, `n` copies of it, the rest,
`n` copies of the last item; nothing at all for an empty source -/
def Content.padEdge' (n : Nat) (c : Content α) : Content α :=
  match c.answer 0 with
  | none => .fin []
  | some x => Content.cons x (Content.prependRep n x (Content.withBack n x c.tail))

@[simp] theorem Content.cons_answer_zero (x : α) (c : Content α) : (Content.cons x c).answer 0 = some x := by
  cases c <;> simp [Content.cons, Content.answer]

@[simp] theorem Content.cons_tail (x : α) (c : Content α) : (Content.cons x c).tail = c := by
  cases c <;> simp [Content.cons, Content.tail]

theorem Content.withBack_answer_zero (n : Nat) (d w : α) (c : Content α) (h : c.answer 0 = some w) :
    (Content.withBack n d c).answer 0 = some w := by
  cases c with
  | fin xs =>
    cases xs with
    | nil => simp [Content.answer] at h
    | cons a xs => simpa [Content.withBack, Content.answer] using h
  | inf f => simpa [Content.withBack] using h

theorem Content.withBack_tail (n : Nat) (d w : α) (c : Content α) (h : c.answer 0 = some w) :
    (Content.withBack n d c).tail = Content.withBack n w c.tail := by
  cases c with
  | fin xs =>
    cases xs with
    | nil => simp [Content.answer] at h
    | cons a xs =>
      have ha : a = w := by simpa [Content.answer] using h
      subst ha
      cases xs with
      | nil => simp [Content.withBack, Content.tail]
      | cons b xs =>
        have hl : ∀ e : α, (b :: xs).getLast?.getD e = (b :: xs).getLast (by simp) := by
          intro e; rw [List.getLast?_eq_getLast (by simp)]; rfl
        simp [Content.withBack, Content.tail, List.getLast?_cons_cons, hl]
  | inf f => simp [Content.withBack, Content.tail]

theorem Content.withBack_nil (n : Nat) (d : α) :
    Content.withBack n d (.fin []) = .fin (List.replicate n d) := by
  simp [Content.withBack]

/-- the relation between adapter states and what they still have to yield -/
def PadRel (s : Src α) (n : Nat) : (padEdge s n).σ → Content α → Prop
  | (st, .before), c' => ∃ c, Implements s st c ∧ c' = Content.padEdge' n c
  | (st, .front v left first), c' =>
      v = first ∧ ∃ c, Implements s st c ∧
        c' = Content.prependRep left first (Content.withBack n first c)
  | (st, .inner last), c' => ∃ c, Implements s st c ∧ c' = Content.withBack n last c
  | (_, .back v left), c' => c' = .fin (List.replicate left v)
  | (_, .after), c' => c' = .fin []

theorem padEdge_correct (s : Src α) (st : s.σ) (c : Content α) (n : Nat)
    (h : Implements s st c) :
    Implements (padEdge s n) (st, .before) (Content.padEdge' n c) := by
  apply implements_of_bisim (padEdge s n) (PadRel s n)
  · rintro ⟨st, ps⟩ c' hrel
    cases ps with
    | before =>
      obtain ⟨c, hc, rfl⟩ := hrel
      obtain ⟨h0, ht⟩ := (implements_step s st c).mp hc
      cases hn : s.next st with
      | mk o st' =>
        rw [hn] at h0 ht
        simp only at h0 ht
        cases o with
        | none =>
          simp only [padEdge, hn, Content.padEdge', ← h0]
          exact ⟨rfl, rfl⟩
        | some v =>
          simp only [padEdge, hn, Content.padEdge', ← h0, Content.cons_answer_zero,
            Content.cons_tail]
          exact ⟨trivial, rfl, c.tail, ht, rfl⟩
    | front v left first =>
      obtain ⟨rfl, c, hc, rfl⟩ := hrel
      by_cases hl : left = 0
      · subst hl
        obtain ⟨h0, ht⟩ := (implements_step s st c).mp hc
        cases hn : s.next st with
        | mk o st' =>
          rw [hn] at h0 ht
          simp only at h0 ht
          cases o with
          | some w =>
            simp only [padEdge, ne_eq, not_true_eq_false, ↓reduceIte, hn, Content.prependRep]
            exact ⟨(Content.withBack_answer_zero n v w c h0.symm).symm, c.tail, ht,
              Content.withBack_tail n v w c h0.symm⟩
          | none =>
            have hcnil : c = .fin [] := Content.answer_zero_none c h0.symm
            subst hcnil
            simp only [padEdge, ne_eq, not_true_eq_false, ↓reduceIte, hn, Content.prependRep,
              Content.withBack_nil]
            by_cases hn0 : n = 0
            · subst hn0; simp [Content.answer, Content.tail, PadRel]
            · obtain ⟨m, rfl⟩ : ∃ m, n = m + 1 := ⟨n - 1, by omega⟩
              simp [Content.answer, Content.tail, PadRel, List.replicate_succ]
      · obtain ⟨m, rfl⟩ : ∃ m, left = m + 1 := ⟨left - 1, by omega⟩
        simp only [padEdge, ne_eq, Nat.add_one_ne_zero, not_false_eq_true, ↓reduceIte,
          Content.prependRep, Content.cons_answer_zero, Content.cons_tail, Nat.add_sub_cancel]
        exact ⟨trivial, rfl, c, hc, rfl⟩
    | inner last =>
      obtain ⟨c, hc, rfl⟩ := hrel
      obtain ⟨h0, ht⟩ := (implements_step s st c).mp hc
      cases hn : s.next st with
      | mk o st' =>
        rw [hn] at h0 ht
        simp only at h0 ht
        cases o with
        | some w =>
          simp only [padEdge, hn]
          exact ⟨(Content.withBack_answer_zero n last w c h0.symm).symm, c.tail, ht,
            Content.withBack_tail n last w c h0.symm⟩
        | none =>
          have hcnil : c = .fin [] := Content.answer_zero_none c h0.symm
          subst hcnil
          simp only [padEdge, hn, Content.withBack_nil]
          by_cases hn0 : n = 0
          · subst hn0; simp [Content.answer, Content.tail, PadRel]
          · obtain ⟨m, rfl⟩ : ∃ m, n = m + 1 := ⟨n - 1, by omega⟩
            simp [Content.answer, Content.tail, PadRel, List.replicate_succ]
    | back v left =>
      have hrel' : c' = .fin (List.replicate left v) := hrel
      subst hrel'
      by_cases hl : left = 0
      · subst hl; simp [padEdge, Content.answer, Content.tail, PadRel]
      · obtain ⟨m, rfl⟩ : ∃ m, left = m + 1 := ⟨left - 1, by omega⟩
        simp [padEdge, Content.answer, Content.tail, PadRel, List.replicate_succ]
    | after =>
      have hrel' : c' = .fin [] := hrel
      subst hrel'
      simp [padEdge, Content.answer, Content.tail, PadRel]
  · exact ⟨c, h, rfl⟩

/-- for a finite non-empty source this is `n` copies of the first, the items, `n` copies of the last -/
theorem padEdge'_fin (n : Nat) (x : α) (xs : List α) :
    ∃ l, Content.padEdge' n (.fin (x :: xs)) = .fin l ∧
      l = List.replicate n x ++ (x :: xs) ++ List.replicate n ((x :: xs).getLast (by simp)) := by
  have hrep : ∀ (m : Nat) (ys : List α),
      Content.prependRep m x (.fin ys) = .fin (List.replicate m x ++ ys) := by
    intro m ys
    induction m with
    | zero => simp [Content.prependRep]
    | succ m ih => simp [Content.prependRep, ih, Content.cons, List.replicate_succ]
  refine ⟨x :: (List.replicate n x ++ (xs ++ List.replicate n (xs.getLast?.getD x))), ?_, ?_⟩
  · simp [Content.padEdge', Content.answer, Content.tail, Content.withBack, hrep, Content.cons]
  · have hlast : (x :: xs).getLast (by simp) = xs.getLast?.getD x := by
      cases xs with
      | nil => simp
      | cons b xs => simp [List.getLast?_eq_some_getLast]
    rw [hlast]
    have hcr : ∀ (k : Nat) (r : List α), x :: (List.replicate k x ++ r) = List.replicate k x ++ x :: r := by
      intro k r
      induction k with
      | zero => rfl
      | succ k ih => simp only [List.replicate_succ, List.cons_append, ih]
    rw [hcr]
    simp

end SignaloModel.Sources

#print axioms SignaloModel.Sources.padEdge_correct
