import SignaloModel.Proofs.MedianThm
/-! C17 on the list-level model: accessors . -/
namespace SignaloModel.Median

variable {α : Type}

theorem acc_min [POrd α] [TotalOrd α] {N : Nat} {s : MS α} {ws vs : List α}
    (h : Inv N s ws vs) :
    minAcc s = (ws.mergeSort (fun a b => POrd.le a b))[0]? := by
  rw [← sorted_unique vs ws h.2 h.1.perm]
  exact h.1.vals 0

theorem acc_med [POrd α] [TotalOrd α] {N : Nat} {s : MS α} {ws vs : List α}
    (h : Inv N s ws vs) : medAcc s = lowerMedian ws := by
  unfold medAcc lowerMedian
  rw [← sorted_unique vs ws h.2 h.1.perm, h.1.med]
  exact h.1.vals _

theorem age_prev (N c : Nat) (hc : c < N) : age N c ((c + N - 1) % N) = 0 := by
  unfold age
  by_cases h0 : c = 0
  · subst h0
    have : (0 + N - 1) % N = N - 1 := by
      rw [Nat.zero_add]; exact Nat.mod_eq_of_lt (by omega)
    rw [this]; simp
  · have : (c + N - 1) % N = c - 1 := by
      have : c + N - 1 = (c - 1) + N := by omega
      rw [this, Nat.add_mod_right, Nat.mod_eq_of_lt (by omega)]
    rw [this, if_pos (by omega)]; omega

/-- what `Median::max()` really returns: the most recently inserted sample -/
theorem acc_max_is_latest [POrd α] {N : Nat} {s : MS α} {ws vs : List α}
    (h : InvP N s ws vs) : maxAcc s = ws.getLast? := by
  obtain ⟨hlen, hcur, hwlen, hslots, hvals, hring, hperm, hmed⟩ := h
  unfold maxAcc
  rw [hlen]
  have hslt : (s.cursor + N - 1) % N < N := Nat.mod_lt _ (by omega)
  have hmem : (s.cursor + N - 1) % N ∈ s.order.map (·.1) :=
    hslots.mem_iff.mpr (List.mem_range.mpr hslt)
  obtain ⟨p, hp, hpe⟩ := List.mem_map.mp hmem
  -- `find?` returns some node with that slot
  cases hf : s.order.find? (fun p => p.1 == (s.cursor + N - 1) % N) with
  | none =>
    have := List.find?_eq_none.mp hf p hp
    simp [hpe] at this
  | some r =>
    have hr := List.find?_some hf
    have hrm := List.mem_of_find?_eq_some hf
    simp only [beq_iff_eq] at hr
    show (List.find? (fun p => p.1 == (s.cursor + N - 1) % N) s.order).bind (·.2) = ws.getLast?
    rw [hf, Option.bind_some, hring r hrm, hr, slotVal, age_prev N s.cursor hcur]
    cases ws with
    | nil => simp
    | cons a l => simp [List.getLast?_eq_getElem?]

/-- non-vacuity and the known finding: window {1, 9, 3}, `max()` answers 3 -/
example : (do
    let (s1, _) ← step (init 3 : MS Int) 1
    let (s2, _) ← step s1 9
    let (s3, _) ← step s2 3
    pure (minAcc s3, medAcc s3, maxAcc s3)) = some (some 1, some 3, some 3) := by decide

end SignaloModel.Median

#print axioms SignaloModel.Median.acc_max_is_latest
