import SignaloModel.Proofs.RegistryProofs
import SignaloModel.Model.Spec
/-!
Generic facts about `Registry.St.run` for single-sample filters: if a constructor's `filter` is a
(total or partial) step function on its payload, then running it is folding that step function.
Used by the bridge theorems (registry-level model = `Spec.*` function of the history). Core Lean only.
-/
namespace SignaloModel.Registry
open SignaloModel

variable {α : Type}

/-- inputs / outputs of single-sample filters on the list-valued registry interface -/
def sing (xs : List α) : List (List α) := xs.map (fun x => [x])

@[simp] theorem sing_nil : sing ([] : List α) = [] := rfl
@[simp] theorem sing_cons (x : α) (xs : List α) : sing (x :: xs) = [x] :: sing xs := rfl
@[simp] theorem sing_length (xs : List α) : (sing xs).length = xs.length := by simp [sing]

theorem sing_injective {a b : List α} (h : sing a = sing b) : a = b := by
  induction a generalizing b with
  | nil => cases b with
    | nil => rfl
    | cons y b => simp [sing] at h
  | cons x a ih => cases b with
    | nil => simp [sing] at h
    | cons y b =>
      simp only [sing_cons, List.cons.injEq] at h
      rw [h.1.1, ih h.2]

/-- induction over lists from the right -/
theorem snocInd {motive : List α → Prop} (nil : motive [])
    (snoc : ∀ xs x, motive xs → motive (xs ++ [x])) (l : List α) : motive l := by
  have h : ∀ r : List α, motive r.reverse := by
    intro r
    induction r with
    | nil => exact nil
    | cons a r ih => rw [List.reverse_cons]; exact snoc _ _ ih
  simpa using h l.reverse

/-- fold a total step function, collecting the outputs -/
def stepRun {σ β : Type} (step : σ → α → σ × β) : σ → List α → σ × List β
  | s, [] => (s, [])
  | s, x :: xs => ((stepRun step (step s x).1 xs).1, (step s x).2 :: (stepRun step (step s x).1 xs).2)

/-- fold a partial step function (`none` = panic) -/
def stepRunO {σ β : Type} (step : σ → α → Option (σ × β)) : σ → List α → Option (σ × List β)
  | s, [] => some (s, [])
  | s, x :: xs =>
    match step s x with
    | none => none
    | some r =>
      match stepRunO step r.1 xs with
      | none => none
      | some q => some (q.1, r.2 :: q.2)

theorem stepRun_length {σ β : Type} (step : σ → α → σ × β) (s : σ) (xs : List α) :
    (stepRun step s xs).2.length = xs.length := by
  induction xs generalizing s with
  | nil => rfl
  | cons x xs ih => simp [stepRun, ih]

/-- the `k`-th output is the output of the step taken from the state reached after `k` inputs -/
theorem stepRun_getElem {σ β : Type} (step : σ → α → σ × β) (s : σ) (xs : List α) (k : Nat) (x : α)
    (hx : xs[k]? = some x) :
    (stepRun step s xs).2[k]? = some (step (stepRun step s (xs.take k)).1 x).2 := by
  induction xs generalizing s k with
  | nil => simp at hx
  | cons a xs ih =>
    cases k with
    | zero =>
      simp only [List.getElem?_cons_zero, Option.some.injEq] at hx
      subst hx
      simp [stepRun]
    | succ k =>
      simp only [List.getElem?_cons_succ] at hx
      simp [stepRun, ih _ k hx]

theorem stepRun_state_foldl {σ β : Type} (step : σ → α → σ × β) (s : σ) (xs : List α) :
    (stepRun step s xs).1 = xs.foldl (fun s x => (step s x).1) s := by
  induction xs generalizing s with
  | nil => rfl
  | cons x xs ih => simp [stepRun, ih]

theorem stepRun_append {σ β : Type} (step : σ → α → σ × β) (s : σ) (xs ys : List α) :
    (stepRun step s (xs ++ ys)).1 = (stepRun step (stepRun step s xs).1 ys).1 := by
  induction xs generalizing s with
  | nil => rfl
  | cons x xs ih => simp [stepRun, ih]

theorem stepRunO_snoc {σ β : Type} (step : σ → α → Option (σ × β)) (s : σ) (l : List α) (x : α) :
    stepRunO step s (l ++ [x]) =
      (stepRunO step s l).bind (fun r => (step r.1 x).map (fun q => (q.1, r.2 ++ [q.2]))) := by
  induction l generalizing s with
  | nil =>
    simp only [List.nil_append, stepRunO, Option.bind_some, List.nil_append]
    cases step s x <;> simp
  | cons a l ih =>
    simp only [List.cons_append, stepRunO]
    cases hs : step s a with
    | none => simp
    | some r =>
      simp only [ih r.1]
      cases hq : stepRunO step r.1 l with
      | none => simp
      | some q =>
        simp only [Option.bind_some]
        cases step q.1 x <;> simp

section
variable [Add α] [Sub α] [Mul α] [Div α] [Neg α] [OfNat α 0] [OfNat α 1]
  [LT α] [DecidableLT α] [BEq α] [Median.POrd α] [Classify.Cmp α]

/-- a constructor whose `filter` is a total one-output step: its run is the fold -/
theorem run_of_step {σ : Type} (mk : σ → St α) (step : σ → α → σ × α)
    (hf : ∀ s x, (mk s).filter [x] = some (mk (step s x).1, [(step s x).2])) (s : σ) (xs : List α) :
    (mk s).run (sing xs) = some (mk (stepRun step s xs).1, sing (stepRun step s xs).2) := by
  induction xs generalizing s with
  | nil => rfl
  | cons x xs ih => simp [St.run, hf, ih, stepRun]

/-- the same for steps with a list of outputs (pairs) -/
theorem run_of_stepL {σ : Type} (mk : σ → St α) (step : σ → α → σ × List α)
    (hf : ∀ s x, (mk s).filter [x] = some (mk (step s x).1, (step s x).2)) (s : σ) (xs : List α) :
    (mk s).run (sing xs) = some (mk (stepRun step s xs).1, (stepRun step s xs).2) := by
  induction xs generalizing s with
  | nil => rfl
  | cons x xs ih => simp [St.run, hf, ih, stepRun]

/-- a constructor whose `filter` is a partial one-output step -/
theorem run_of_stepO {σ : Type} (mk : σ → St α) (step : σ → α → Option (σ × α))
    (hf : ∀ s x, (mk s).filter [x] = (step s x).map (fun r => (mk r.1, [r.2]))) (s : σ) (xs : List α) :
    (mk s).run (sing xs) = (stepRunO step s xs).map (fun r => (mk r.1, sing r.2)) := by
  induction xs generalizing s with
  | nil => rfl
  | cons x xs ih =>
    simp only [sing_cons, St.run, hf, stepRunO]
    cases hs : step s x with
    | none => simp
    | some r =>
      simp only [Option.map_some, Option.bind_eq_bind, Option.bind_some, ih]
      cases stepRunO step r.1 xs <;> simp

end

end SignaloModel.Registry
