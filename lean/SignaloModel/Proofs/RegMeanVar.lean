import SignaloModel.Proofs.BridgeMeanVar
import SignaloModel.Proofs.BridgeMean
import SignaloModel.Proofs.BridgeHull
set_option linter.unusedSectionVars false
/-!
C16 at registry level (what the driver executes): the mean-variance filters' runs, their mean component against the
registry's mean filters on the same samples, non-negativity, constants, and (exponential) offset invariance.
-/
namespace SignaloModel.Registry
open SignaloModel

/-- a list of (mean, variance) pairs as the registry emits it -/
def pairs {α : Type} (ps : List (α × α)) : List (List α) := ps.map (fun p => [p.1, p.2])

section generic
variable {α : Type} [Add α] [Sub α] [Mul α] [Div α] [Neg α] [OfNat α 0] [OfNat α 1]
  [LT α] [DecidableLT α] [BEq α] [Median.POrd α] [Classify.Cmp α]

theorem stepRun_smv (N : Nat) (s : Sinks.SM α × Sinks.SM α) (xs : List α) :
    (stepRun (fun (s : Sinks.SM α × Sinks.SM α) x =>
      ((DIV.smvStep N s x).1, [(DIV.smvStep N s x).2.1, (DIV.smvStep N s x).2.2])) s xs).2
      = pairs (DIV.smvRun N s xs) := by
  induction xs generalizing s with
  | nil => rfl
  | cons x xs ih => simp [stepRun, DIV.smvRun, pairs, ih]

theorem stepRun_emv (w : α) (s : DIV.EMV α) (xs : List α) :
    (stepRun (fun (s : DIV.EMV α) x =>
      ((DIV.emvStep w s x).1, [(DIV.emvStep w s x).2.1, (DIV.emvStep w s x).2.2])) s xs).2
      = pairs (DIV.emvRun w s xs) := by
  induction xs generalizing s with
  | nil => rfl
  | cons x xs ih => simp [stepRun, DIV.emvRun, pairs, ih]

/-- the sliding mean-variance filter's run -/
theorem meanVar_run (N : Nat) (xs : List α) :
    ∃ s', (Cfg.meanVar N : Cfg α).init.run (sing xs) =
      some (s', pairs (DIV.smvRun N (Sinks.smInit, Sinks.smInit) xs)) := by
  have hrun := run_of_stepL (fun (s : Sinks.SM α × Sinks.SM α) => St.meanVar N s.1 s.2)
    (fun s x => ((DIV.smvStep N s x).1, [(DIV.smvStep N s x).2.1, (DIV.smvStep N s x).2.2]))
    (by intro s x; simp [St.filter]) (Sinks.smInit, Sinks.smInit) xs
  rw [stepRun_smv] at hrun
  exact ⟨_, hrun⟩

/-- the exponential mean-variance filter's run -/
theorem emeanVar_run (w : α) (xs : List α) :
    ∃ s', (Cfg.emeanVar w : Cfg α).init.run (sing xs) =
      some (s', pairs (DIV.emvRun w { mean := none, var := none } xs)) := by
  have hrun := run_of_stepL (fun (s : DIV.EMV α) => St.emeanVar w s)
    (fun s x => ((DIV.emvStep w s x).1, [(DIV.emvStep w s x).2.1, (DIV.emvStep w s x).2.2]))
    (by intro s x; simp [St.filter]) { mean := none, var := none } xs
  rw [stepRun_emv] at hrun
  exact ⟨_, hrun⟩

/-- the mean components of the sliding filter are the moving average's outputs, from any pair of states -/
theorem smv_means (N : Nat) (s : Sinks.SM α × Sinks.SM α) (xs : List α) :
    (DIV.smvRun N s xs).map (·.1) = (stepRun (Sinks.smStep N) s.1 xs).2 := by
  induction xs generalizing s with
  | nil => rfl
  | cons x xs ih =>
    simp only [DIV.smvRun, List.map_cons, stepRun]
    rw [ih]
    rfl

/-- the mean components of the exponential filter are the exponential average's outputs -/
theorem emv_means (w : α) (s : DIV.EMV α) (xs : List α) :
    (DIV.emvRun w s xs).map (·.1) = Smooth.emaRun w s.mean xs := by
  induction xs generalizing s with
  | nil => rfl
  | cons x xs ih =>
    simp only [DIV.emvRun, List.map_cons, Smooth.emaRun]
    rw [ih]
    rfl

/-- **C16 (sliding) at registry level, mean clause**: the mean component of every output is exactly what the
registry's moving-average filter of the same width emits for the same samples — for every sample type -/
theorem meanVar_registry_mean_eq (N : Nat) (xs : List α) :
    ∃ s₁ s₂ ps ys, (Cfg.meanVar N : Cfg α).init.run (sing xs) = some (s₁, pairs ps) ∧
      (Cfg.mean N : Cfg α).init.run (sing xs) = some (s₂, sing ys) ∧ ps.map (·.1) = ys := by
  obtain ⟨s₁, h₁⟩ := meanVar_run N xs
  have h₂ := run_of_step (St.mean N) (Sinks.smStep N) (by intro s x; simp [St.filter]) (Sinks.smInit : Sinks.SM α) xs
  exact ⟨s₁, _, _, _, h₁, h₂, smv_means N _ xs⟩

/-- **C16 (exponential) at registry level, mean clause** -/
theorem emeanVar_registry_mean_eq (w : α) (xs : List α) :
    ∃ s₁ s₂ ps ys, (Cfg.emeanVar w : Cfg α).init.run (sing xs) = some (s₁, pairs ps) ∧
      (Cfg.ema w : Cfg α).init.run (sing xs) = some (s₂, sing ys) ∧ ps.map (·.1) = ys := by
  obtain ⟨s₁, h₁⟩ := emeanVar_run w xs
  have h₂ := run_of_step (St.ema w) (fun (s : Option α) x => (some (Smooth.emaStep w s x), Smooth.emaStep w s x))
    (by intro s x; simp [St.filter]) none xs
  rw [stepRun_ema] at h₂
  exact ⟨s₁, _, _, _, h₁, h₂, emv_means w _ xs⟩

end generic

variable {K : Type} [Field K] [LinearOrder K] [IsStrictOrderedRing K] [BEq K] [Median.POrd K] [Classify.Cmp K]

/-- **C16 (sliding) at registry level**: the variance output is never negative -/
theorem meanVar_registry_nonneg (N : Nat) (hN : 1 ≤ N) (xs : List K) :
    ∃ s' ps, (Cfg.meanVar N : Cfg K).init.run (sing xs) = some (s', pairs ps) ∧ ∀ p ∈ ps, 0 ≤ p.2 := by
  obtain ⟨s', h⟩ := meanVar_run N xs
  exact ⟨s', _, h, DIV.smv_var_nonneg N hN xs _ [] (Sinks.minv_init N) (by intro v hv; cases hv)⟩

/-- **C16 (sliding) at registry level**: a constant signal has zero variance from the first sample on -/
theorem meanVar_registry_const (N : Nat) (hN : 1 ≤ N) (c : K) (n : Nat) :
    ∃ s' ps, (Cfg.meanVar N : Cfg K).init.run (sing (List.replicate n c)) = some (s', pairs ps) ∧
      ∀ p ∈ ps, p.2 = 0 := by
  obtain ⟨s', h⟩ := meanVar_run N (List.replicate n c)
  exact ⟨s', _, h, DIV.smv_var_const N hN c n _ [] [] (Sinks.minv_init N) (by intro v hv; cases hv)
    (Sinks.minv_init N) (by intro v hv; cases hv)⟩

/-- **C16 (exponential) at registry level**: gain in `[0,1]` — the variance output is never negative -/
theorem emeanVar_registry_nonneg (w : K) (hw0 : 0 ≤ w) (hw1 : w ≤ 1) (xs : List K) :
    ∃ s' ps, (Cfg.emeanVar w : Cfg K).init.run (sing xs) = some (s', pairs ps) ∧ ∀ p ∈ ps, 0 ≤ p.2 := by
  obtain ⟨s', h⟩ := emeanVar_run w xs
  exact ⟨s', _, h, DIV.emv_var_nonneg w hw0 hw1 xs _ (by intro m hm; cases hm)⟩

/-- **C16 (exponential) at registry level**: adding the same offset to every sample shifts the mean output by it and
leaves the variance output unchanged — for every gain -/
theorem emeanVar_registry_offset (w c : K) (xs : List K) :
    ∃ s₁ s₂ ps, (Cfg.emeanVar w : Cfg K).init.run (sing xs) = some (s₁, pairs ps) ∧
      (Cfg.emeanVar w : Cfg K).init.run (sing (xs.map (· + c))) =
        some (s₂, pairs (ps.map (fun p => (p.1 + c, p.2)))) := by
  obtain ⟨s₁, h₁⟩ := emeanVar_run w xs
  obtain ⟨s₂, h₂⟩ := emeanVar_run w (xs.map (· + c))
  rw [DIV.emv_offset w c xs { mean := none, var := none } { mean := none, var := none } rfl rfl] at h₂
  exact ⟨s₁, s₂, _, h₁, h₂⟩

end SignaloModel.Registry

#print axioms SignaloModel.Registry.meanVar_registry_mean_eq
#print axioms SignaloModel.Registry.emeanVar_registry_mean_eq
#print axioms SignaloModel.Registry.meanVar_registry_nonneg
#print axioms SignaloModel.Registry.meanVar_registry_const
#print axioms SignaloModel.Registry.emeanVar_registry_nonneg
#print axioms SignaloModel.Registry.emeanVar_registry_offset
