import SignaloModel.Proofs.RunLemmas
import SignaloModel.Proofs.MeanProofs
/-!
C03 at the level the driver executes: `Registry.St.run` of the moving average against `Spec.windowMean`.
-/
namespace SignaloModel.Registry
open SignaloModel

variable {K : Type} [CommRing K] [Div K]

theorem spec_sum_foldl (a : K) (l : List K) : l.foldl (· + ·) a = a + l.sum := by
  induction l generalizing a with
  | nil => simp
  | cons x l ih => simp [ih, add_assoc]

theorem spec_sum_eq (l : List K) : Spec.sum l = l.sum := by
  simp [Spec.sum, spec_sum_foldl]

theorem spec_natCast_eq (n : Nat) : (Spec.natCast n : K) = (n : K) := by
  induction n with
  | zero => simp [Spec.natCast]
  | succ n ih => simp [Spec.natCast, ih]

omit [CommRing K] [Div K] in
theorem spec_window_eq (N : Nat) (xs : List K) : Spec.window N xs = Sinks.window N xs := rfl

theorem minv_run_from (N : Nat) (hN : 1 ≤ N) (xs : List K) :
    ∀ (s : Sinks.SM K) (pre : List K), Sinks.MInv N s pre →
      Sinks.MInv N (stepRun (Sinks.smStep N) s xs).1 (pre ++ xs) := by
  induction xs with
  | nil => intro s pre h; simpa [stepRun] using h
  | cons x xs ih =>
    intro s pre h
    have := ih _ (pre ++ [x]) (Sinks.minv_step N hN s pre x h).1
    simpa [stepRun, List.append_assoc] using this

/-- the invariant holds after every prefix -/
theorem minv_run (N : Nat) (hN : 1 ≤ N) (xs : List K) :
    Sinks.MInv N (stepRun (Sinks.smStep N) (Sinks.smInit : Sinks.SM K) xs).1 xs := by
  simpa using minv_run_from N hN xs Sinks.smInit [] (Sinks.minv_init N)

/-- **C03, finite memory**: two histories that agree on their last `N` samples give the same next output -/
theorem mean_registry_forgets (N : Nat) (hN : 1 ≤ N) (xs ys : List K) (x : K)
    (hw : Spec.window N (xs ++ [x]) = Spec.window N (ys ++ [x])) :
    (Sinks.smStep N (stepRun (Sinks.smStep N) (Sinks.smInit : Sinks.SM K) xs).1 x).2 =
    (Sinks.smStep N (stepRun (Sinks.smStep N) (Sinks.smInit : Sinks.SM K) ys).1 x).2 :=
  Sinks.mean_forgets N hN _ _ xs ys x (minv_run N hN xs) (minv_run N hN ys) hw

/-- **C03, constants**: a constant signal is reproduced exactly from the first sample on
(fields of characteristic 0: the window length is invertible) -/
theorem mean_registry_const {K : Type} [Field K] [CharZero K] (N : Nat) (hN : 1 ≤ N) (c : K) (n k : Nat) (hk : k < n) :
    Spec.windowMean N ((List.replicate n c).take (k + 1)) = c := by
  have h1 : (List.replicate n c).take (k + 1) = List.replicate (k + 1) c := by
    rw [List.take_replicate]; congr 1; omega
  rw [h1]
  simp only [Spec.windowMean, Spec.window, List.drop_replicate, List.length_replicate, spec_sum_eq,
    spec_natCast_eq, List.sum_replicate, nsmul_eq_mul]
  have hpos : (((k + 1 - (k + 1 - N) : Nat)) : K) ≠ 0 := by
    have : 0 < k + 1 - (k + 1 - N) := by omega
    exact_mod_cast this.ne'
  field_simp

variable [LT K] [DecidableLT K] [BEq K] [Median.POrd K] [Classify.Cmp K]

/-- **C03 at registry level**: for every width `N ≥ 1` and every input sequence over a commutative ring with ANY
division operation (a field's, or the truncating division of machine integers — "the sample type's own
arithmetic"), the `k`-th output of the moving average is (sum of the last `min (k+1) N` samples) / (their number) -/
theorem mean_registry_correct (N : Nat) (hN : 1 ≤ N) (xs : List K) :
    ∃ s' ys, (Cfg.mean N : Cfg K).init.run (sing xs) = some (s', sing ys) ∧ ys.length = xs.length ∧
      ∀ k x, xs[k]? = some x → ys[k]? = some (Spec.windowMean N (xs.take (k + 1))) := by
  have hrun := run_of_step (St.mean N) (Sinks.smStep N) (by intro s x; simp [St.filter]) Sinks.smInit xs
  refine ⟨_, _, hrun, stepRun_length _ _ _, ?_⟩
  intro k x hx
  rw [stepRun_getElem _ _ _ k x hx]
  have hinv := minv_run N hN (xs.take k)
  have hstep := (Sinks.minv_step N hN _ (xs.take k) x hinv).2
  have htake : xs.take (k + 1) = xs.take k ++ [x] := by
    rw [List.take_add_one, hx]; rfl
  rw [hstep, htake]
  simp [Spec.windowMean, spec_sum_eq, spec_natCast_eq, spec_window_eq]

end SignaloModel.Registry

#print axioms SignaloModel.Registry.mean_registry_correct
#print axioms SignaloModel.Registry.mean_registry_const
