import SignaloModel.Proofs.DequeExact
set_option linter.unusedSectionVars false
/-!
C04 / C19: `taps_exact_run` from any *time-shifted reachable* state instead of `Default` — the situation of the
correspondence check's injected states (a deque reached after history `xs` whose clock and timestamps have all been
moved by the same amount, e.g. to just below `usize::MAX`): continuing with any further inputs `xs'`, through any
number of rebases, the deque is again exactly the suffix-maximum records of the window of `xs ++ xs'`.
-/
namespace SignaloModel.Deque

variable {α : Type}

theorem taps_exact_from [LinearOrder α] {N M : Nat} (hN : 1 ≤ N) (hM : N + 1 ≤ M)
    (sB sU : DS α) (d : Nat) (xs xs' : List α)
    (hinv : InvU N sU xs) (hfull : Full N sU xs) (hrel : sU = shiftS d sB) (hsB : sB.time ≤ M) :
    ∃ r d', Registry.stepRunO (fun s x => step gtMax N (some M) s x) sB xs' = some r ∧
      ∀ j w, (w, j) ∈ shiftL d' r.1.taps ↔ SuffixMaxAt N (xs ++ xs') j w := by
  obtain ⟨r, hrun, sU', d', hinv', hfull', hrel'⟩ := runB_state_full hN hM xs' sB sU d xs hinv hfull hrel hsB
  have htaps : sU'.taps = shiftL d' r.1.taps := by rw [hrel']; rfl
  refine ⟨r, d', hrun, ?_⟩
  intro j w
  rw [← htaps]
  exact ⟨fun hmem => tap_suffixMax_of_invU hinv' _ hmem, hfull' j w⟩

/-- the hypotheses are met by `Default` (and, by `runB_state_full`, by every state reached from it, shifted) -/
example : InvU 3 (init : DS Nat) [] ∧ Full 3 (init : DS Nat) [] ∧ (init : DS Nat) = shiftS 0 init :=
  ⟨invU_init 3, full_init 3, by simp [shiftS, shiftL, init]⟩

end SignaloModel.Deque

#print axioms SignaloModel.Deque.taps_exact_from
