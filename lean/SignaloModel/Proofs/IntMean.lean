import SignaloModel.Model.SinkModels
import SignaloModel.Model.IntVal
import Mathlib.Tactic.Ring
import Mathlib.Tactic.Linarith
import Mathlib.Data.List.Induction
/-!
C11 at machine integers: the mean sink's recurrence `mean + (x - mean) / count` with TRUNCATING division. In general every
step truncates and no closed form exists; but when every prefix mean is an integer, no step truncates and the sink
holds exactly `(sum of all samples) / (their number)` after every sample. This is the clause the correspondence check
asserts for the integer sinks (`C11.running` / `C11.finalize` on integral-prefix-mean streams).
-/
namespace SignaloModel.SinkModels
open SignaloModel

/-- one step from a state holding `k ≥ 0` samples with exact mean `m`, when the new mean `m'` is an integer too -/
theorem meanStep_exact (k m m' x : Int) (hk : 0 ≤ k) (h : k * m + x = (k + 1) * m') :
    meanStep (some ((⟨k⟩ : I64), (⟨m⟩ : I64))) ⟨x⟩ = ((⟨k + 1⟩ : I64), (⟨m'⟩ : I64)) := by
  have hne : k + 1 ≠ 0 := by omega
  have hx : x - m = (k + 1) * (m' - m) := by linarith
  have hdiv : Int.tdiv (x - m) (k + 1) = m' - m := by
    rw [hx]; exact Int.mul_tdiv_cancel_left _ hne
  show ((⟨k⟩ : I64) + 1, (⟨m⟩ : I64) + (((⟨x⟩ : I64) - ⟨m⟩) / ((⟨k⟩ : I64) + 1))) = _
  show ((⟨k + 1⟩ : I64), (⟨m + Int.tdiv (x - m) (k + 1)⟩ : I64)) = _
  rw [hdiv]
  congr 2
  ring

/-- the first sample -/
theorem meanStep_first (x : Int) :
    meanStep (none : Option (I64 × I64)) ⟨x⟩ = ((⟨1⟩ : I64), (⟨x⟩ : I64)) := by
  have h : meanStep (none : Option (I64 × I64)) ⟨x⟩ = meanStep (some ((⟨0⟩ : I64), (⟨0⟩ : I64))) ⟨x⟩ := rfl
  rw [h, meanStep_exact 0 0 x x (by omega) (by ring)]
  simp

/-- the sink's state after a stream -/
def meanRun (xs : List Int) : Option (I64 × I64) :=
  xs.foldl (fun s x => some (meanStep s ⟨x⟩)) none

/-- **C11 (mean sink at integers)**: if the mean of every non-empty prefix is an integer, the sink holds the exact
mean of everything it has received -/
theorem mean_exact (xs : List Int) (hne : xs ≠ [])
    (hdiv : ∀ k : Nat, 0 < k → k ≤ xs.length → ((xs.take k).sum) % (k : Int) = 0) :
    meanRun xs = some ((⟨(xs.length : Int)⟩ : I64), (⟨xs.sum / (xs.length : Int)⟩ : I64)) := by
  induction xs using List.reverseRecOn with
  | nil => exact absurd rfl hne
  | append_singleton xs x ih =>
    unfold meanRun at *
    rw [List.foldl_append]
    simp only [List.foldl_cons, List.foldl_nil]
    by_cases hx : xs = []
    · subst hx
      simp only [List.foldl_nil, List.nil_append, List.length_singleton, List.sum_singleton]
      rw [meanStep_first]
      simp
    · have hdiv' : ∀ k : Nat, 0 < k → k ≤ xs.length → ((xs.take k).sum) % (k : Int) = 0 := by
        intro k hk hle
        have := hdiv k hk (by simp; omega)
        rwa [List.take_append_of_le_length hle] at this
      rw [ih hx hdiv']
      have hlen : 0 < xs.length := List.length_pos_iff.mpr hx
      have h1 := hdiv xs.length hlen (by simp)
      have h2 := hdiv (xs.length + 1) (by omega) (by simp)
      rw [List.take_append_of_le_length (le_refl _), List.take_length] at h1
      have ht : (xs ++ [x]).take (xs.length + 1) = xs ++ [x] := by
        rw [List.take_of_length_le]; simp
      rw [ht] at h2
      have e1 : (xs.length : Int) * (xs.sum / (xs.length : Int)) = xs.sum :=
        Int.mul_ediv_cancel' (Int.dvd_of_emod_eq_zero h1)
      have e2 : ((xs.length : Int) + 1) * ((xs ++ [x]).sum / ((xs.length : Int) + 1)) = (xs ++ [x]).sum := by
        have := Int.mul_ediv_cancel' (Int.dvd_of_emod_eq_zero h2)
        simpa using this
      have hstep := meanStep_exact (xs.length : Int) (xs.sum / (xs.length : Int))
        ((xs ++ [x]).sum / ((xs.length : Int) + 1)) x (by omega)
        (by rw [e1, e2]; simp)
      rw [hstep]
      simp

theorem feed_mean (ys : List I64) (s : Option (I64 × I64)) :
    ys.foldl Sk.sink (Sk.mean s) = Sk.mean (ys.foldl (fun s x => some (meanStep s x)) s) := by
  induction ys generalizing s with
  | nil => rfl
  | cons y ys ih => simp only [List.foldl_cons]; exact ih _

/-- the same at the level of the sink model the driver executes: `Sink::sink` every sample, then `Finalize::finalize` -/
theorem sk_mean_exact (xs : List Int) (hne : xs ≠ [])
    (hdiv : ∀ k : Nat, 0 < k → k ≤ xs.length → ((xs.take k).sum) % (k : Int) = 0) :
    ((xs.map (fun x => (⟨x⟩ : I64))).foldl Sk.sink (Sk.mean none)).finalize
      = some [(⟨xs.sum / (xs.length : Int)⟩ : I64)] := by
  rw [feed_mean]
  have h : (xs.map (fun x => (⟨x⟩ : I64))).foldl (fun s x => some (meanStep s x)) none = meanRun xs := by
    unfold meanRun; rw [List.foldl_map]
  rw [h, mean_exact xs hne hdiv]
  rfl

end SignaloModel.SinkModels
