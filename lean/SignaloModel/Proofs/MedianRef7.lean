import SignaloModel.Proofs.MedianRef6
/-! Model: width 1 of the pointer-level model, by direct computation. -/
namespace SignaloModel.MedianL
open SignaloModel.Median (POrd)

variable {α : Type}

/-- with a single slot every step stores the sample and returns it -/
theorem step_one [POrd α] (v : Option α) (x : α) :
    step ({ buffer := [{ value := v, prev := 0, next := 0 }], cursor := 0, head := 0, median := 0 } : LS α) x
      = some ({ buffer := [{ value := some x, prev := 0, next := 0 }], cursor := 0, head := 0,
                median := 0 }, x) := by
  cases hle : POrd.le x x <;>
    simp [step, moveHeadForward, removeNode, unlink, setNext, setNode, setPrev, insertValue,
      walkBody, shouldInsert, insert, linkBefore, shiftMedian, updateHead, adjustEven,
      List.range_succ, hle]

theorem run_one [POrd α] (v : Option α) (xs : List α) :
    run ({ buffer := [{ value := v, prev := 0, next := 0 }], cursor := 0, head := 0, median := 0 } : LS α) xs
      = some xs := by
  induction xs generalizing v with
  | nil => rfl
  | cons x xs ih => simp [run, step_one, ih]

theorem medianL_one [POrd α] (xs : List α) : run (init 1 : LS α) xs = some xs := by
  have : (init 1 : LS α) =
      { buffer := [{ value := none, prev := 0, next := 0 }], cursor := 0, head := 0, median := 0 } := by
    simp [init]
  rw [this]; exact run_one none xs

end SignaloModel.MedianL

#print axioms SignaloModel.MedianL.medianL_one
