import SignaloModel.Model.Sinks
import SignaloModel.Proofs.MedianThm
import Mathlib.Tactic.Ring
import Mathlib.Tactic.FieldSimp
import Mathlib.Algebra.BigOperators.Group.List.Basic
import Mathlib.Algebra.Field.Basic
import Mathlib.Data.Nat.Cast.Basic
/-! Proofs for C03: the (repaired) sliding mean returns Σ window / |window|. -/
namespace SignaloModel.Sinks
open SignaloModel.Median (push push_lastN)

variable {K : Type} [CommRing K] [Div K]

def window (N : Nat) (xs : List K) : List K := xs.drop (xs.length - N)

/-- state after the samples `xs` -/
structure MInv (N : Nat) (s : SM K) (xs : List K) : Prop where
  taps : s.taps = window N xs
  sum : s.mean.getD 0 = (window N xs).sum
  weight : s.weight = ((window N xs).length : K)

theorem minv_init (N : Nat) : MInv N (smInit : SM K) [] := by
  refine ⟨by simp [smInit, window], by simp [smInit, window], by simp [smInit, window]⟩

theorem window_length (N : Nat) (xs : List K) : (window N xs).length = min xs.length N := by
  simp [window]; omega

theorem minv_step (N : Nat) (hN : 1 ≤ N) (s : SM K) (xs : List K) (x : K) (h : MInv N s xs) :
    MInv N (smStep N s x).1 (xs ++ [x]) ∧
      (smStep N s x).2 = (window N (xs ++ [x])).sum / ((window N (xs ++ [x])).length : K) := by
  obtain ⟨htaps, hsum, hw⟩ := h
  have hN0 : ¬ N = 0 := by omega
  have hwin : window N (xs ++ [x]) = push N (window N xs) x := (push_lastN N hN xs x).symm
  have hM : ∀ s' : SM K, (s'.taps = push N (window N xs) x ∧
      s'.mean.getD 0 = (push N (window N xs) x).sum ∧
      s'.weight = ((push N (window N xs) x).length : K)) → MInv N s' (xs ++ [x]) := by
    intro s' h'
    exact ⟨by rw [hwin]; exact h'.1, by rw [hwin]; exact h'.2.1, by rw [hwin]; exact h'.2.2⟩
  rw [hwin]
  generalize window N xs = w at *
  unfold push at hM ⊢
  by_cases hfull : N ≤ w.length
  · -- the ring is full: the oldest tap is evicted
    cases w with
    | nil => simp at hfull; omega
    | cons a t =>
      have hnl : ¬ (a :: t).length < N := by omega
      simp only [hnl, ↓reduceIte, List.drop_one, List.tail_cons] at hM
      simp only [smStep, hN0, ↓reduceIte, htaps, hfull, hnl, List.drop_one, List.tail_cons]
      refine ⟨hM _ ⟨rfl, ?_, ?_⟩, ?_⟩
      · simp only [Option.getD_some, hsum, List.sum_cons, List.sum_append, List.sum_singleton,
          List.sum_nil]
        ring
      · simp [hw]
      · rw [hsum, hw]
        simp only [List.sum_cons, List.sum_append, List.sum_singleton, List.length_cons,
          List.length_append, List.length_singleton, List.length_nil, List.sum_nil]
        congr 1; ring
  · -- still filling
    have hlt : w.length < N := by omega
    simp only [hlt, ↓reduceIte] at hM
    simp only [smStep, hN0, ↓reduceIte, htaps, hfull, hlt]
    refine ⟨hM _ ⟨rfl, ?_, ?_⟩, ?_⟩
    · simp [hsum, List.sum_append]
    · simp [hw]
    · simp [hsum, hw, List.sum_append]

/-- C03: samples older than the window have no influence -/
theorem mean_forgets (N : Nat) (hN : 1 ≤ N) (s1 s2 : SM K) (xs ys : List K) (x : K)
    (h1 : MInv N s1 xs) (h2 : MInv N s2 ys) (hw : window N (xs ++ [x]) = window N (ys ++ [x])) :
    (smStep N s1 x).2 = (smStep N s2 x).2 := by
  rw [(minv_step N hN s1 xs x h1).2, (minv_step N hN s2 ys x h2).2, hw]

end SignaloModel.Sinks

#print axioms SignaloModel.Sinks.minv_step
