import SignaloModel.Model.MedianL
import SignaloModel.Proofs.MedianInv
/-! Model: the pointer-level model `L` refines the list-level model `A` (part 1: list surgery). -/
namespace SignaloModel.MedianL
open SignaloModel.Median (POrd valAt getElem?_ins)

variable {α : Type}

def succIdx (n k : Nat) : Nat := if k + 1 = n then 0 else k + 1
def predIdx (n k : Nat) : Nat := if k = 0 then n - 1 else k - 1

/-- ring slot of the node at a position of the circular list -/
def slotAt (ord : List (Nat × Option α)) (k : Nat) : Nat := ((ord[k]?).map (·.1)).getD 0

/-- the buffer holds exactly the circular doubly linked list `ord` -/
structure Circ (b : List (Node α)) (ord : List (Nat × Option α)) : Prop where
  nodup : (ord.map (·.1)).Nodup
  node : ∀ k, k < ord.length →
    b[slotAt ord k]? = some { value := valAt ord k,
                               prev := slotAt ord (predIdx ord.length k),
                               next := slotAt ord (succIdx ord.length k) }

theorem slotAt_inj {ord : List (Nat × Option α)} (hnd : (ord.map (·.1)).Nodup) {i j : Nat}
    (hi : i < ord.length) (hj : j < ord.length) (h : slotAt ord i = slotAt ord j) : i = j := by
  have hi' : i < (ord.map (·.1)).length := by simpa using hi
  have hj' : j < (ord.map (·.1)).length := by simpa using hj
  apply (List.getElem_inj (h₀ := hi') (h₁ := hj') hnd).mp
  simp only [slotAt, List.getElem?_eq_getElem hi, List.getElem?_eq_getElem hj, Option.map_some,
    Option.getD_some] at h
  simpa using h

theorem slotAt_mem {ord : List (Nat × Option α)} {k : Nat} (hk : k < ord.length) :
    slotAt ord k ∈ ord.map (·.1) := by
  simp only [slotAt, List.getElem?_eq_getElem hk, Option.map_some, Option.getD_some]
  exact List.mem_map_of_mem (List.getElem_mem hk)

theorem slotAt_ins (ord : List (Nat × Option α)) (J c : Nat) (v : Option α) (hJ : J ≤ ord.length)
    (k : Nat) :
    slotAt (ord.take J ++ (c, v) :: ord.drop J) k =
      if k < J then slotAt ord k else if k = J then c else slotAt ord (k - 1) := by
  unfold slotAt
  rw [getElem?_ins _ _ _ hJ]
  split
  · rfl
  · split <;> simp

theorem valAt_ins (ord : List (Nat × Option α)) (J c : Nat) (v : Option α) (hJ : J ≤ ord.length)
    (k : Nat) :
    valAt (ord.take J ++ (c, v) :: ord.drop J) k =
      if k < J then valAt ord k else if k = J then v else valAt ord (k - 1) := by
  unfold valAt
  rw [getElem?_ins _ _ _ hJ]
  split
  · rfl
  · split <;> simp

/-! ### buffer writes -/

theorem setNode_spec (b : List (Node α)) (i : Nat) (n : Node α) (hi : i < b.length) :
    setNode b i n = some (b.set i n) := by simp [setNode, hi]

theorem getElem?_set' (b : List (Node α)) (i j : Nat) (n : Node α) (hi : i < b.length) :
    (b.set i n)[j]? = if j = i then some n else b[j]? := by
  rw [List.getElem?_set]
  by_cases h : i = j
  · subst h; simp [hi]
  · have : ¬ j = i := fun h' => h h'.symm
    simp [h, this]

theorem lt_of_getElem? {b : List (Node α)} {i : Nat} {n : Node α} (h : b[i]? = some n) :
    i < b.length := (List.getElem?_eq_some_iff.mp h).1

/-- pointwise effect of `insert` on the buffer -/
theorem linkBefore_spec (b : List (Node α)) (c : Nat) (x : α) (cur pred : Nat)
    (nc np : Node α) (hcur : b[cur]? = some nc) (hpred : b[pred]? = some np)
    (hprev : nc.prev = pred) (hcb : c < b.length) (hcc : cur ≠ c) (hpc : pred ≠ c) :
    ∃ b', linkBefore b c x cur = some b' ∧ b'.length = b.length ∧
      ∀ s, b'[s]? =
        if s = cur then
          some { value := nc.value, prev := c, next := if pred = cur then c else nc.next }
        else if s = c then some { value := some x, prev := pred, next := cur }
        else if s = pred then some { np with next := c }
        else b[s]? := by
  have hpl := lt_of_getElem? hpred
  have hcl := lt_of_getElem? hcur
  -- the node found at `cur` after the first two writes
  let n3 : Node α := if pred = cur then { np with next := c } else nc
  have hb2cur : ((b.set pred { np with next := c }).set c
      { value := some x, prev := pred, next := cur })[cur]? = some n3 := by
    rw [getElem?_set' _ _ _ _ (by simpa using hcb), if_neg hcc, getElem?_set' _ _ _ _ hpl]
    by_cases h : cur = pred
    · subst h; simp [n3]
    · have : ¬ pred = cur := fun h' => h h'.symm
      simp [h, this, n3, hcur]
  refine ⟨((b.set pred { np with next := c }).set c
      { value := some x, prev := pred, next := cur }).set cur { n3 with prev := c }, ?_, by simp, ?_⟩
  · simp only [linkBefore, hcur, Option.bind_eq_bind, Option.bind_some, hprev, setNext, hpred,
      setNode, hpl, ↓reduceIte, List.length_set, hcb, setPrev, hb2cur, hcl]
  · intro s
    rw [getElem?_set' _ _ _ _ (by simpa using hcl)]
    by_cases h1 : s = cur
    · subst h1
      simp only [↓reduceIte, n3]
      by_cases h : pred = s
      · subst h
        have : np = nc := by rw [hpred] at hcur; exact Option.some.inj hcur
        simp [this]
      · simp [h]
    · simp only [h1, ↓reduceIte]
      rw [getElem?_set' _ _ _ _ (by simpa using hcb)]
      by_cases h2 : s = c
      · simp [h2]
      · simp only [h2, ↓reduceIte]
        rw [getElem?_set' _ _ _ _ hpl]

theorem node_eq {v v' : Option α} {p p' n n' : Nat} (hv : v = v') (hp : p = p') (hn : n = n') :
    (some ({ value := v, prev := p, next := n } : Node α)) =
      some { value := v', prev := p', next := n' } := by
  subst hv hp hn; rfl

/-- finishing tactic for index bookkeeping: unfold, split every `if`, close the leaves -/
macro "fin_idx" : tactic =>
  `(tactic| ((try simp only [succIdx, predIdx]) <;> (repeat' split) <;>
      first | rfl | omega | (congr 1 <;> omega) | (exfalso; omega)))

/-- linking a detached slot `c` between positions `J-1` and `J % n` of the circular list -/
theorem circ_link (b : List (Node α)) (ord : List (Nat × Option α)) (c : Nat) (x : α) (J : Nat)
    (hC : Circ b ord) (hJ1 : 1 ≤ J) (hJn : J ≤ ord.length)
    (hcn : c ∉ ord.map (·.1)) (hcb : c < b.length) :
    ∃ b', linkBefore b c x (slotAt ord (J % ord.length)) = some b' ∧ b'.length = b.length ∧
      Circ b' (ord.take J ++ (c, some x) :: ord.drop J) := by
  obtain ⟨hnd, hnode⟩ := hC
  have hinj : ∀ i j, i < ord.length → j < ord.length →
      (slotAt ord i = slotAt ord j ↔ i = j) :=
    fun i j hi hj => ⟨slotAt_inj hnd hi hj, fun h => by rw [h]⟩
  have hne : ∀ i, i < ord.length → slotAt ord i ≠ c :=
    fun i hi h => hcn (h ▸ slotAt_mem hi)
  generalize hn : ord.length = n at *
  have hci : J % n < n := Nat.mod_lt _ (by omega)
  have hmodJ : J % n = if J = n then 0 else J := by
    split
    · next h => subst h; exact Nat.mod_self J
    · exact Nat.mod_eq_of_lt (by omega)
  have hpi : predIdx n (J % n) = J - 1 := by rw [hmodJ]; fin_idx
  have hcur := hnode (J % n) hci
  have hpred := hnode (J - 1) (by omega)
  obtain ⟨b', hlink, hlen, hspec⟩ := linkBefore_spec b c x _ _ _ _ hcur hpred
    (by simp [hpi]) hcb (hne _ hci) (hne _ (by omega))
  refine ⟨b', hlink, hlen, ?_, ?_⟩
  · -- slots stay distinct
    have : ((ord.take J ++ (c, some x) :: ord.drop J).map (·.1)).Perm (c :: ord.map (·.1)) := by
      simp only [List.map_append, List.map_cons, List.map_take, List.map_drop]
      exact SignaloModel.Median.perm_ins _ _ _
    exact this.nodup_iff.mpr (List.nodup_cons.mpr ⟨hcn, hnd⟩)
  · intro k hk
    have hlen' : (ord.take J ++ (c, some x) :: ord.drop J).length = n + 1 := by
      simp; omega
    rw [hlen'] at hk ⊢
    have hJ' : J ≤ ord.length := by omega
    simp only [slotAt_ins ord J c (some x) hJ', valAt_ins ord J c (some x) hJ']
    -- slot equalities are position equalities
    have e3 : (slotAt ord (J - 1) = slotAt ord (J % n)) ↔ n = 1 := by
      rw [hinj (J - 1) (J % n) (by omega) (by omega), hmodJ]; fin_idx
    by_cases hk1 : k < J
    · -- an element before the new node
      simp only [hk1, ↓reduceIte]
      rw [hspec]
      have e1 : (slotAt ord k = slotAt ord (J % n)) ↔ (J = n ∧ k = 0) := by
        rw [hinj k (J % n) (by omega) (by omega), hmodJ]; fin_idx
      have e2 : (slotAt ord k = slotAt ord (J - 1)) ↔ k = J - 1 :=
        hinj k (J - 1) (by omega) (by omega)
      have hold := hnode k (by omega)
      by_cases c1 : J = n ∧ k = 0
      · obtain ⟨rfl, rfl⟩ := c1
        rw [if_pos (e1.mpr ⟨rfl, rfl⟩)]
        have hJJ : J % J = 0 := Nat.mod_self J
        by_cases h1 : J = 1
        · rw [if_pos (e3.mpr h1)]
          apply node_eq
          · rw [hJJ]
          · simp [predIdx]
          · fin_idx
        · rw [if_neg (fun h => h1 (e3.mp h))]
          apply node_eq
          · rw [hJJ]
          · simp [predIdx]
          · rw [hJJ]; fin_idx
      · rw [if_neg (fun h => c1 (e1.mp h)), if_neg (hne k (by omega))]
        by_cases c2 : k = J - 1
        · rw [if_pos (e2.mpr c2)]
          subst c2
          apply node_eq
          · rfl
          · fin_idx
          · fin_idx
        · rw [if_neg (fun h => c2 (e2.mp h)), hold]
          apply node_eq
          · rfl
          · fin_idx
          · fin_idx
    · by_cases hk2 : k = J
      · -- the new node
        subst hk2
        simp only [Nat.lt_irrefl, ↓reduceIte]
        rw [hspec, if_neg (fun h => hne _ hci h.symm), if_pos rfl]
        apply node_eq
        · rfl
        · fin_idx
        · rw [hmodJ]; fin_idx
      · -- an element after the new node
        have hkJ : J < k := by omega
        simp only [hk1, hk2, ↓reduceIte]
        have hJn' : J < n := by omega
        have hmod : J % n = J := Nat.mod_eq_of_lt hJn'
        rw [hspec]
        have e1 : (slotAt ord (k - 1) = slotAt ord (J % n)) ↔ k = J + 1 := by
          rw [hinj (k - 1) (J % n) (by omega) (by omega), hmod]; omega
        have e2 : ¬ (slotAt ord (k - 1) = slotAt ord (J - 1)) := by
          rw [hinj (k - 1) (J - 1) (by omega) (by omega)]; omega
        have hold := hnode (k - 1) (by omega)
        by_cases c1 : k = J + 1
        · subst c1
          rw [if_pos (e1.mpr rfl), if_neg (fun h => by have := e3.mp h; omega)]
          apply node_eq
          · rw [hmod]; rfl
          · fin_idx
          · rw [hmod]; fin_idx
        · rw [if_neg (fun h => c1 (e1.mp h)), if_neg (hne _ (by omega)), if_neg e2, hold]
          apply node_eq
          · rfl
          · fin_idx
          · fin_idx

end SignaloModel.MedianL
