import SignaloModel.Model.Hampel
import Mathlib.Tactic.Ring
import Mathlib.Tactic.Linarith
import Mathlib.Tactic.Positivity
import Mathlib.Algebra.Order.Ring.Abs
import Mathlib.Algebra.Order.Field.Basic
/-! Proofs for C18. -/
namespace SignaloModel.Hampel

variable {K : Type} [Field K] [LinearOrder K] [IsStrictOrderedRing K]

theorem absG_eq (x : K) : absG x = |x| := by
  unfold absG
  split
  · next h => rw [abs_of_neg h]
  · next h => rw [abs_of_nonneg (not_lt.mp h)]

/-- never any third value -/
theorem decide_two_valued (f t mn md mx x : K) :
    decide f t mn md mx x = x ∨ decide f t mn md mx x = md := by
  unfold decide
  simp only
  generalize (if absG (md - mn) < absG (mx - md) then absG (mx - md) else absG (md - mn)) * f * t = thr
  by_cases h : thr < absG (x - md)
  · right; rw [if_pos h]
  · left; rw [if_neg h]

/-- the first sample (empty window: all three accessors default to the input) passes -/
theorem decide_first (f t x : K) : decide f t x x x x = x := by
  unfold decide; simp [absG_eq]

theorem thr_ge (f t mn md mx : K) (hf : 0 < f) (ht : 0 ≤ t) :
    |md - mn| * f * t ≤
      (if absG (md - mn) < absG (mx - md) then absG (mx - md) else absG (md - mn)) * f * t := by
  simp only [absG_eq]
  have hft : 0 ≤ f * t := mul_nonneg hf.le ht
  split
  · next h =>
    rw [mul_assoc, mul_assoc]; exact mul_le_mul_of_nonneg_right h.le hft
  · exact le_refl _

/-- inlier clause: within `t·f·(median − min)` of the median ⇒ passed through -/
theorem decide_inlier (f t mn md mx x : K) (hf : 0 < f) (ht : 0 ≤ t)
    (h : |x - md| ≤ t * f * (md - mn)) : decide f t mn md mx x = x := by
  unfold decide
  simp only
  rw [if_neg]
  rw [not_lt, absG_eq]
  have h1 : t * f * (md - mn) ≤ |md - mn| * f * t := by
    have : md - mn ≤ |md - mn| := le_abs_self _
    have hft : 0 ≤ t * f := mul_nonneg ht hf.le
    calc t * f * (md - mn) ≤ t * f * |md - mn| := mul_le_mul_of_nonneg_left this hft
      _ = |md - mn| * f * t := by ring
  exact le_trans h (le_trans h1 (thr_ge f t mn md mx hf ht))

/-- outlier clause: farther than `t·f·D` from the median, where `D` bounds the distance of the
window samples read by the filter (`min` and the latest sample), ⇒ replaced by the median -/
theorem decide_outlier (f t mn md mx x D : K) (hf : 0 < f) (ht : 0 ≤ t)
    (hmn : |md - mn| ≤ D) (hmx : |mx - md| ≤ D) (h : t * f * D < |x - md|) :
    decide f t mn md mx x = md := by
  unfold decide
  simp only
  rw [if_pos]
  rw [absG_eq (x - md)]
  have hft : 0 ≤ f * t := mul_nonneg hf.le ht
  have hle : (if absG (md - mn) < absG (mx - md) then absG (mx - md) else absG (md - mn)) ≤ D := by
    simp only [absG_eq]; split <;> assumption
  calc _ ≤ D * f * t := by
        rw [mul_assoc, mul_assoc]; exact mul_le_mul_of_nonneg_right hle hft
    _ = t * f * D := by ring
    _ < |x - md| := h

/-- in particular any sample differing from a constant window is replaced -/
theorem decide_const_window (f t c x : K) (hf : 0 < f) (ht : 0 ≤ t) (hx : x ≠ c) :
    decide f t c c c x = c := by
  apply decide_outlier f t c c c x 0 hf ht (by simp) (by simp)
  simp only [mul_zero]
  exact abs_pos.mpr (sub_ne_zero.mpr hx)

end SignaloModel.Hampel

#print axioms SignaloModel.Hampel.decide_outlier
