import SignaloModel.Model.Fir
import Mathlib.Tactic.Ring
import Mathlib.Tactic.Linarith
import Mathlib.Algebra.Order.Ring.Abs
import Mathlib.Algebra.Order.Field.Basic
/-! Proofs for C05/C07: linearity, cascade = kernel product, error bound. -/
namespace SignaloModel.Fir

section Ring
variable {R : Type} [CommRing R]

@[simp] theorem convL_nil (x : Nat → R) (n : Nat) : convL ([] : List R) x n = 0 := rfl
@[simp] theorem convL_cons (a : R) (as : List R) (x : Nat → R) (n : Nat) :
    convL (a :: as) x n = a * x n + convL as x (n - 1) := rfl

theorem convL_addL (u v : List R) (x : Nat → R) (n : Nat) :
    convL (addL u v) x n = convL u x n + convL v x n := by
  induction u generalizing v n with
  | nil => simp [addL]
  | cons a u ih =>
    cases v with
    | nil => simp [addL]
    | cons b v => simp [addL, ih]; ring

theorem convL_map_mul (a : R) (bs : List R) (x : Nat → R) (n : Nat) :
    convL (bs.map (a * ·)) x n = a * convL bs x n := by
  induction bs generalizing n with
  | nil => simp
  | cons b bs ih => simp [ih]; ring

/-- superposition and homogeneity in the signal -/
theorem convL_linear (c : List R) (x y : Nat → R) (a b : R) (n : Nat) :
    convL c (fun m => a * x m + b * y m) n = a * convL c x n + b * convL c y n := by
  induction c generalizing n with
  | nil => simp
  | cons c0 c ih => simp [ih]; ring

/-- shift invariance with edge padding: delaying the (edge-extended) input delays the output -/
theorem convL_shift (c : List R) (x : Nat → R) (d n : Nat) :
    convL c (fun m => x (m - d)) n = convL c x (n - d) := by
  induction c generalizing n with
  | nil => simp
  | cons c0 c ih =>
    simp only [convL_cons, ih]
    congr 2
    omega

/-- **cascade = kernel product**: feeding the output of one edge-padded FIR into another is the
edge-padded FIR of the polynomial product of the kernels -/
theorem convL_polyMul (as bs : List R) (x : Nat → R) (n : Nat) :
    convL (polyMul as bs) x n = convL as (fun m => convL bs x m) n := by
  induction as generalizing n with
  | nil => simp [polyMul]
  | cons a as ih =>
    simp only [polyMul, convL_addL, convL_map_mul, convL_cons, zero_mul, zero_add, ih]

/-- a constant signal is scaled by the coefficient sum (unit gain when the sum is 1) -/
theorem convL_const (c : List R) (v : R) (n : Nat) :
    convL c (fun _ => v) n = c.sum * v := by
  induction c generalizing n with
  | nil => simp
  | cons a c ih => simp [ih]; ring

end Ring

section Bound
variable {K : Type} [Field K] [LinearOrder K] [IsStrictOrderedRing K]

/-- `|Σ r[k] x[n-k]| ≤ (Σ |r[k]|) · B` for every signal bounded by `B` -/
theorem convL_bound (r : List K) (x : Nat → K) (B : K) (hx : ∀ m, |x m| ≤ B) (n : Nat) :
    |convL r x n| ≤ (r.map (|·|)).sum * B := by
  induction r generalizing n with
  | nil => simp
  | cons a r ih =>
    simp only [convL_cons, List.map_cons, List.sum_cons]
    have h1 : |a * x n| ≤ |a| * B := by
      rw [abs_mul]; exact mul_le_mul_of_nonneg_left (hx n) (abs_nonneg a)
    have h2 := ih (n - 1)
    calc |a * x n + convL r x (n - 1)| ≤ |a * x n| + |convL r x (n - 1)| := abs_add_le _ _
      _ ≤ |a| * B + (r.map (|·|)).sum * B := add_le_add h1 h2
      _ = (|a| + (r.map (|·|)).sum) * B := by ring

/-- the unit impulse delayed by `d` picks out `x[n-d]` -/
theorem convL_delta (d : Nat) (len : Nat) (hd : d < len) (x : Nat → K) (n : Nat) :
    convL ((List.range len).map (fun k => if k = d then (1 : K) else 0)) x n = x (n - d) := by
  induction len generalizing d n with
  | zero => omega
  | succ len ih =>
    rw [List.range_succ_eq_map, List.map_cons, List.map_map, convL_cons]
    cases d with
    | zero =>
      have hz : convL (List.map ((fun k => if k = 0 then (1 : K) else 0) ∘ Nat.succ) (List.range len)) x (n - 1) = 0 := by
        have : (List.map ((fun k => if k = 0 then (1 : K) else 0) ∘ Nat.succ) (List.range len))
            = (List.range len).map (fun _ => (0 : K)) := by
          apply List.map_congr_left; intro a _; simp
        rw [this]
        generalize n - 1 = m
        induction (List.range len) generalizing m with
        | nil => simp
        | cons _ _ ih2 => simp [ih2]
      simp [hz]
    | succ d =>
      have : (List.map ((fun k => if k = d + 1 then (1 : K) else 0) ∘ Nat.succ) (List.range len))
          = (List.range len).map (fun k => if k = d then (1 : K) else 0) := by
        apply List.map_congr_left; intro a _; simp
      rw [this, ih d (by omega)]
      simp
      congr 1; omega

end Bound

end SignaloModel.Fir

#print axioms SignaloModel.Fir.convL_polyMul
#print axioms SignaloModel.Fir.convL_bound
