import SignaloModel.Model.Sources2
import SignaloModel.Proofs.SourcesPad
/-! Proofs for C10: constant, increment, repeat, skip, constant pad, cache, peek. -/
namespace SignaloModel.Sources

variable {α : Type}

theorem constant_correct (v : α) : Implements (constant v) () (.inf (fun _ => v)) := by
  apply implements_of_bisim (constant v) (fun _ c => c = .inf (fun _ => v))
  · rintro st c rfl
    exact ⟨rfl, rfl⟩
  · rfl

theorem increment_correct [Add α] (step start : α) :
    Implements (increment step) start (.inf (incrSeq step start)) := by
  apply implements_of_bisim (increment step) (fun st c => c = .inf (incrSeq step st))
  · rintro st c rfl
    refine ⟨rfl, ?_⟩
    simp [increment, Content.tail, incrSeq]
  · rfl

/-- `Repeat = Take<Constant>`: `n` copies -/
theorem repeat_correct (v : α) (n : Nat) :
    Implements (take (constant v)) ((), n) (.fin (List.replicate n v)) := by
  have hmapL : ∀ l : List Nat, l.map (fun _ => v) = List.replicate l.length v := by
    intro l
    induction l with
    | nil => rfl
    | cons a l ih => simp [List.replicate_succ, ih]
  have hmap : (List.range n).map (fun _ => v) = List.replicate n v := by
    rw [hmapL, List.length_range]
  have h := take_correct (constant v) () _ n (constant_correct v)
  have : (Content.inf (fun _ : Nat => v)).take n = .fin (List.replicate n v) := by
    simp only [Content.take, hmap]
  rw [this] at h
  exact h

/-! ### skip -/

theorem Content.skip_zero (c : Content α) : c.skip 0 = c := by
  cases c <;> simp [Content.skip]

theorem Content.skip_succ (c : Content α) (n : Nat) : c.skip (n + 1) = c.tail.skip n := by
  cases c with
  | fin xs => cases xs <;> simp [Content.skip, Content.tail]
  | inf f =>
    simp only [Content.skip, Content.tail]
    try rfl

theorem Content.skip_nil (n : Nat) : (Content.fin ([] : List α)).skip n = .fin [] := by
  simp [Content.skip]

/-- draining `n` items leaves a source that implements the content minus its first `n` items -/
theorem drain_correct (s : Src α) (n : Nat) (st : s.σ) (c : Content α) (h : Implements s st c) :
    Implements s (drain s st n) (c.skip n) := by
  induction n generalizing st c with
  | zero => simpa [drain, Content.skip_zero] using h
  | succ n ih =>
    obtain ⟨h0, ht⟩ := (implements_step s st c).mp h
    cases hn : s.next st with
    | mk o st' =>
      rw [hn] at h0 ht
      simp only at h0 ht
      cases o with
      | some w =>
        simp only [drain, hn]
        rw [Content.skip_succ]
        exact ih st' c.tail ht
      | none =>
        have hc : c = .fin [] := Content.answer_zero_none c h0.symm
        subst hc
        simp only [drain, hn, Content.skip_nil]
        simpa [Content.tail] using ht

theorem skip_correct (s : Src α) (st : s.σ) (c : Content α) (n : Nat) (h : Implements s st c) :
    Implements (skip s) (st, n) (c.skip n) := by
  apply implements_of_bisim (skip s)
    (fun st' c' => ∃ c, Implements s st'.1 c ∧ c' = c.skip st'.2)
  · rintro ⟨st, n⟩ c' ⟨c, hc, rfl⟩
    have hd := drain_correct s n st c hc
    obtain ⟨h0, ht⟩ := (implements_step s _ _).mp hd
    simp only [skip]
    exact ⟨h0, (c.skip n).tail, ht, by simp [Content.skip_zero]⟩
  · exact ⟨c, h, rfl⟩

/-! ### cache -/

/-- the cache passes every answer through, and its slot holds the last answer -/
theorem cache_correct (s : Src α) (st : s.σ) (c : Content α) (o : Option α)
    (h : Implements s st c) : Implements (cache s) (st, o) c := by
  apply implements_of_bisim (cache s) (fun st' c' => Implements s st'.1 c')
  · rintro ⟨st, o⟩ c' hc
    obtain ⟨h0, ht⟩ := (implements_step s st c').mp hc
    exact ⟨h0, ht⟩
  · exact h

theorem cache_slot (s : Src α) (st : s.σ) (o : Option α) :
    ((cache s).next (st, o)).2.2 = ((cache s).next (st, o)).1 := rfl

/-! ### peek -/

/-- peeking does not consume: a peek followed by a pull returns the same item twice, and leaves
the adapter where a plain pull would have left it -/
theorem peek_then_pull (s : Src α) (p : PeekState s) :
    (peekPull s (peekOp s p).2).1 = (peekOp s p).1 ∧
    (peekPull s (peekOp s p).2) = peekPull s p := by
  unfold peekOp peekPull
  cases hp : p.peeked with
  | none => simp [hp]
  | some o => simp [hp]

/-- repeated peeks are idempotent -/
theorem peek_idem (s : Src α) (p : PeekState s) :
    peekOp s (peekOp s p).2 = peekOp s p := by
  unfold peekOp
  cases hp : p.peeked with
  | none => simp [hp]
  | some o => simp [hp]

/-- without a pending look-ahead, pulls are the inner source's pulls -/
theorem peek_pull_plain (s : Src α) (st : s.σ) :
    peekPull s { st := st, peeked := none } =
      ((s.next st).1, { st := (s.next st).2, peeked := none }) := rfl

end SignaloModel.Sources

#print axioms SignaloModel.Sources.skip_correct
#print axioms SignaloModel.Sources.repeat_correct
