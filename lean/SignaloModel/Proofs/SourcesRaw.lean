import SignaloModel.Proofs.SourcesTree
/-!
Adapter trees whose leaves may be scripted sources that are NOT fused (raw answers: an end marker may be followed by
further items). They have no iterator analogue as a list; the machines are the same adapter models, so the driver can
compare the real adapters with them on sources that report the end and yield again (C10: "once a finite adapter over a
fused source has reported the end it keeps reporting the end" is a statement about fused sources only; what the adapters do
over the others is fixed by their code, e.g. `Chain` never polls its first source again after its end, like
`Iterator::chain`).
-/
namespace SignaloModel.Sources

variable {α : Type}

/-- a scripted source: one raw answer per pull, end markers for ever once the script is used up -/
def scripted : Src α :=
  { σ := List (Option α), next := fun l => match l with | [] => (none, []) | o :: r => (o, r) }

inductive RExpr (α : Type) where
  | fused (e : Expr α)
  | burst (items : List (Option α))
  | take (n : Nat) (e : RExpr α)
  | skip (n : Nat) (e : RExpr α)
  | chain (a b : RExpr α)
  | cycle (e : RExpr α)
  | padc (v : α) (n : Nat) (e : RExpr α)
  | pade (n : Nat) (e : RExpr α)
  | cache (e : RExpr α)

variable [Add α]

def RExpr.compile : RExpr α → Started α
  | .fused e => e.compile
  | .burst items => ⟨scripted, items⟩
  | .take n e => ⟨Sources.take e.compile.src, (e.compile.st, n)⟩
  | .skip n e => ⟨Sources.skip e.compile.src, (e.compile.st, n)⟩
  | .chain a b => ⟨Sources.chain a.compile.src b.compile.src, (a.compile.st, b.compile.st, .front)⟩
  | .cycle e => ⟨Sources.cycle e.compile.src e.compile.st, e.compile.st⟩
  | .padc v n e => ⟨padConst e.compile.src v, (e.compile.st, n, n, .front)⟩
  | .pade n e => ⟨padEdge e.compile.src n, (e.compile.st, .before)⟩
  | .cache e => ⟨Sources.cache e.compile.src, (e.compile.st, none)⟩

end SignaloModel.Sources
