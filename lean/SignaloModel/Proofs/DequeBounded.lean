import SignaloModel.Proofs.DequeProofs
/-! Proofs for C04, layer 2: the `usize` counter with rebase is a time shift of the
unbounded counter; no checked operation fails. -/
namespace SignaloModel.Deque

variable {α : Type}

def shiftL (d : Nat) (l : List (α × Nat)) : List (α × Nat) := l.map (fun p => (p.1, p.2 + d))
def shiftS (d : Nat) (s : DS α) : DS α := { time := s.time + d, taps := shiftL d s.taps }

theorem expire_shift (N t d : Nat) (l : List (α × Nat)) :
    expire N (t + d) (shiftL d l) = (expire N t l).map (shiftL d) := by
  induction l with
  | nil => simp [expire, shiftL]
  | cons a l ih =>
    obtain ⟨v, ti⟩ := a
    simp only [shiftL, List.map_cons, expire] at ih ⊢
    by_cases h1 : ti ≤ t
    · have h1' : ti + d ≤ t + d := by omega
      have he : t + d - (ti + d) = t - ti := by omega
      simp only [h1, h1', ↓reduceIte, he]
      by_cases h2 : N ≤ t - ti
      · simp only [h2, ↓reduceIte]; exact ih
      · simp [h2, shiftL]
    · have h1' : ¬ (ti + d ≤ t + d) := by omega
      simp [h1, h1']

theorem popBack_shift (gt : α → α → Bool) (x : α) (d : Nat) (l : List (α × Nat)) :
    popBack gt x (shiftL d l) = shiftL d (popBack gt x l) := by
  unfold popBack shiftL
  rw [← List.map_reverse, List.dropWhile_map, ← List.map_reverse]
  rfl

theorem pushBack_shift (N d t : Nat) (x : α) (l : List (α × Nat)) :
    pushBack N (shiftL d l) (x, t + d) = shiftL d (pushBack N l (x, t)) := by
  unfold pushBack shiftL
  simp only [List.length_map]
  split
  · rfl
  · split <;> simp [List.map_drop]

theorem head_shift (d : Nat) (l : List (α × Nat)) :
    (shiftL d l).head? = l.head?.map (fun p => (p.1, p.2 + d)) := by
  cases l <;> simp [shiftL]

theorem shiftS_shiftS (d d' : Nat) (s : DS α) : shiftS d (shiftS d' s) = shiftS (d' + d) s := by
  simp [shiftS, shiftL, List.map_map, Function.comp_def, Nat.add_assoc]

/-- unbounded steps commute with a uniform shift of all timestamps -/
theorem step_shift (gt : α → α → Bool) (N d : Nat) (s : DS α) (x : α) :
    step gt N none (shiftS d s) x = (step gt N none s x).map (fun r => (shiftS d r.1, r.2)) := by
  simp only [step, shiftS, expire_shift]
  cases h : expire N s.time s.taps with
  | none => simp
  | some r1 =>
    simp only [Option.map_some, Option.bind_eq_bind, Option.bind_some, popBack_shift,
      pushBack_shift, head_shift]
    cases h2 : (pushBack N (popBack gt x r1) (x, s.time)).head? with
    | none => simp
    | some p => simp [shiftS]; omega

/-- the bounded step is the unbounded step followed by a (possibly trivial) rebase -/
theorem tick_rel (gt : α → α → Bool) (N M : Nat) (hM : N + 1 ≤ M) (s s1 : DS α) (x y : α)
    (hs : s.time ≤ M) (h : step gt N none s x = some (s1, y))
    (hyoung : ∀ p ∈ s1.taps, s.time < p.2 + N) :
    ∃ s' d', step gt N (some M) s x = some (s', y) ∧ s1 = shiftS d' s' ∧ s'.time ≤ M := by
  simp only [step] at h ⊢
  cases h1 : expire N s.time s.taps with
  | none => simp [h1] at h
  | some r1 =>
    simp only [h1, Option.bind_eq_bind, Option.bind_some] at h ⊢
    generalize htaps : pushBack N (popBack gt x r1) (x, s.time) = taps3 at h ⊢
    cases hh : taps3.head? with
    | none => simp [hh] at h
    | some p =>
      simp only [hh, Option.some.injEq, Prod.mk.injEq] at h
      obtain ⟨hs1, hy⟩ := h
      subst hs1
      simp only at hyoung
      by_cases hlt : s.time < M
      · refine ⟨{ time := s.time + 1, taps := taps3 }, 0, ?_, ?_, by simp; omega⟩
        · simp [tick, hlt, hh, hy]
        · simp [shiftS, shiftL]
      · have hMe : s.time = M := by omega
        have hall : taps3.all (fun p => decide (s.time - N ≤ p.2)) = true := by
          rw [List.all_eq_true]
          intro q hq
          have := hyoung q hq
          simp; omega
        have hcond : N ≤ s.time ∧ N + 1 ≤ M ∧
            taps3.all (fun p => decide (s.time - N ≤ p.2)) = true := ⟨by omega, hM, hall⟩
        refine ⟨{ time := N + 1, taps := taps3.map (fun p => (p.1, p.2 - (s.time - N))) },
          s.time - N, ?_, ?_, by simp; omega⟩
        · simp only [tick, hlt, ↓reduceIte, hcond, and_self, Option.bind_some]
          cases taps3 with
          | nil => simp at hh
          | cons a l =>
            simp at hh; subst hh
            simp [hy]
        · simp only [shiftS, shiftL, List.map_map, DS.mk.injEq]
          refine ⟨by omega, ?_⟩
          symm
          rw [List.map_congr_left (g := id)]
          · simp
          · intro q hq
            have := hyoung q hq
            simp only [Function.comp, id]
            ext <;> simp; omega

/-- specification of a whole run: each output is the maximum of the current window -/
def SpecMax [LinearOrder α] (N : Nat) : List α → List α → List α → Prop
  | _, [], [] => True
  | xs, x :: xs', y :: ys => IsMax y (window N (xs ++ [x])) ∧ SpecMax N (xs ++ [x]) xs' ys
  | _, _, _ => False

theorem runB_correct [LinearOrder α] {N M : Nat} (hN : 1 ≤ N) (hM : N + 1 ≤ M) (xs' : List α) :
    ∀ (sB sU : DS α) (d : Nat) (xs : List α), InvU N sU xs → sU = shiftS d sB → sB.time ≤ M →
      ∃ ys, run gtMax N (some M) sB xs' = some ys ∧ SpecMax N xs xs' ys := by
  induction xs' with
  | nil => intro _ _ _ _ _ _ _; exact ⟨[], rfl, trivial⟩
  | cons x xs' ih =>
    intro sB sU d xs hinv hrel hsB
    obtain ⟨sU', y, hstepU, hinv', hmax, _, hyoungU⟩ := stepU_correct hN hinv x
    -- transport the unbounded step to the bounded state
    rw [hrel, step_shift] at hstepU
    cases hB1 : step gtMax N none sB x with
    | none => simp [hB1] at hstepU
    | some r =>
      obtain ⟨sB1, y1⟩ := r
      simp only [hB1, Option.map_some, Option.some.injEq, Prod.mk.injEq] at hstepU
      obtain ⟨hsU', hy⟩ := hstepU
      subst hy
      have hyoungB : ∀ p ∈ sB1.taps, sB.time < p.2 + N := by
        intro p hp
        have := hyoungU (p.1, p.2 + d) (by
          rw [← hsU']; simp only [shiftS, shiftL]
          exact List.mem_map.mpr ⟨p, hp, rfl⟩)
        rw [hrel] at this
        simp only [shiftS] at this
        omega
      obtain ⟨sB', d', hstepB, hrel', hsB'⟩ := tick_rel gtMax N M hM sB sB1 x y1 hsB hB1 hyoungB
      have hrel'' : sU' = shiftS (d' + d) sB' := by
        rw [← hsU', hrel', shiftS_shiftS]
      obtain ⟨ys, hrun, hspec⟩ := ih sB' sU' (d' + d) (xs ++ [x]) hinv' hrel'' hsB'
      exact ⟨y1 :: ys, by simp [run, hstepB, hrun], hmax, hspec⟩

/-- **C04 (max filter)**: for every width `N ≥ 1`, every counter bound `M > N`, every history,
the filter with the bounded, rebasing counter never fails a checked operation and returns the
maximum of the last `min k N` samples. -/
theorem max_correct [LinearOrder α] {N M : Nat} (hN : 1 ≤ N) (hM : N + 1 ≤ M) (xs : List α) :
    ∃ ys, run gtMax N (some M) (init : DS α) xs = some ys ∧ SpecMax N [] xs ys :=
  runB_correct hN hM xs init init 0 [] (invU_init N) (by simp [shiftS, shiftL, init]) (by simp [init])

end SignaloModel.Deque

#print axioms SignaloModel.Deque.max_correct
#print axioms SignaloModel.Deque.runB_correct
