import SignaloModel.Gen.Tables
import SignaloModel.Model.Fir
/-! Table obligations (C05 Savitzky-Golay, C07 Daubechies), by `decide +kernel` over core `Rat`; the tables are
regenerated from the Rust source on every run, so these theorems are re-checked against what the code says now. -/
namespace SignaloModel.Tables
open SignaloModel.Gen

def lsum (l : List Rat) : Rat := l.foldl (· + ·) 0
def absR (q : Rat) : Rat := if q < 0 then -q else q

def normalize (l : List Rat) : List Rat :=
  let s := lsum l
  if s == 0 then l else l.map (· / s)

def altNeg : Nat → List Rat → List Rat
  | _, [] => []
  | i, x :: xs => (if i % 2 != 0 then -x else x) :: altNeg (i + 1) xs

def highOf (low : List Rat) : List Rat := altNeg 0 low.reverse

open SignaloModel.Fir (addL polyMul)

/-- the analysis kernels as `daubechies.rs` builds them: normalised low-pass; high-pass = reversed low-pass with
alternating signs -/
def lowOf (raw : List Rat) : List Rat := normalize raw

/-- kernel of the analysis→synthesis cascade (synthesis kernels = reversed analysis kernels):
`low'∗low + high'∗high` -/
def cascadeKernel (raw : List Rat) : List Rat :=
  addL (polyMul (lowOf raw).reverse (lowOf raw)) (polyMul (highOf (lowOf raw)).reverse (highOf (lowOf raw)))

/-- `-δ[k = d]` of length `len` -/
def negDelta (len d : Nat) : List Rat := (List.range len).map (fun k => if k = d then (-1 : Rat) else 0)

/-- cascade kernel minus the unit impulse delayed by `N - 1` -/
def residualKernel (raw : List Rat) : List Rat :=
  addL (cascadeKernel raw) (negDelta (2 * raw.length - 1) (raw.length - 1))

/-- Σ_k |e[k] − δ[k = n−1]| for the analysis→synthesis cascade built as daubechies.rs builds it -/
def residual (raw : List Rat) : Rat := lsum ((residualKernel raw).map absR)

def highGain (raw : List Rat) : Rat := absR (lsum (highOf (normalize raw)))
def lowGain (raw : List Rat) : Rat := lsum (normalize raw)

#eval dbTables.map (fun (n, t) => (n, residual t, highGain t, lowGain t))

theorem db_residuals : ∀ p ∈ dbTables, residual p.2 ≤ dec 1 8 := by decide +kernel
theorem db_high_gain : ∀ p ∈ dbTables, highGain p.2 ≤ dec 1 8 := by decide +kernel
theorem db_low_gain : ∀ p ∈ dbTables, lowGain p.2 = 1 := by decide +kernel
theorem db_lengths : ∀ p ∈ dbTables, p.2.length = p.1 := by decide +kernel

end SignaloModel.Tables

#print axioms SignaloModel.Tables.db_residuals
