import SignaloModel.Proofs.MedianInv
/-! Invariant preservation and the end-to-end median theorem . -/
namespace SignaloModel.Median

variable {α : Type}

theorem map_eraseIdx' {β γ : Type} (f : β → γ) (l : List β) (q : Nat) :
    (l.eraseIdx q).map f = (l.map f).eraseIdx q := by
  induction l generalizing q with
  | nil => simp
  | cons a l ih =>
    cases q with
    | zero => simp
    | succ q => simp [List.eraseIdx_cons_succ, ih]

/-- where the walk puts a new value: before the first element `≥ x` -/
def insSorted [POrd α] (vs1 : List α) (x : α) : List α :=
  vs1.take (vs1.findIdx (fun v => POrd.ge v x)) ++ x :: vs1.drop (vs1.findIdx (fun v => POrd.ge v x))

/-- order-free part of the invariant.
`vs` = the window values in list order; `ws` = the window in arrival order -/
structure InvP [POrd α] (N : Nat) (s : MS α) (ws vs : List α) : Prop where
  len : s.order.length = N
  cur : s.cursor < N
  wlen : ws.length ≤ N
  slots : (s.order.map (·.1)).Perm (List.range N)
  vals : ∀ i, valAt s.order i = vs[i]?
  ring : ∀ p ∈ s.order, p.2 = slotVal N s.cursor ws p.1
  perm : vs.Perm ws
  med : s.med = (ws.length - 1) / 2

theorem invP_init [POrd α] (N : Nat) (hN : 0 < N) : InvP N (init N : MS α) [] [] := by
  refine ⟨by simp [init], by simpa [init] using hN, by simp, ?_, ?_, ?_, by simp,
    by simp [init]⟩
  · simp [init, List.map_map, Function.comp_def]
  · intro i
    simp only [init, valAt, List.getElem?_map, List.getElem?_nil]
    cases (List.range N)[i]? <;> simp
  · intro p hp
    simp only [init, List.mem_map] at hp
    obtain ⟨a, _, rfl⟩ := hp
    simp [slotVal]

theorem invP_step [POrd α] [DualOrd α] {N : Nat} {s : MS α} {ws vs : List α}
    (h : InvP N s ws vs) (x : α) :
    ∃ s' y q, step s x = some (s', y) ∧
      InvP N s' (push N ws x) (insSorted (vs.eraseIdx q) x) ∧
      (insSorted (vs.eraseIdx q) x)[((push N ws x).length - 1) / 2]? = some y := by
  obtain ⟨hlen, hcur, hwlen, hslots, hvals, hring, hperm, hmed⟩ := h
  have hN : 0 < N := by omega
  have hnd : (s.order.map (·.1)).Nodup := (hslots.nodup_iff).mpr List.nodup_range
  -- the node about to be overwritten
  have hcmem : s.cursor ∈ s.order.map (·.1) := hslots.mem_iff.mpr (List.mem_range.mpr hcur)
  obtain ⟨q, hq⟩ := List.getElem?_of_mem hcmem
  rw [List.getElem?_map] at hq
  obtain ⟨p, hp, hpc⟩ := Option.map_eq_some_iff.mp hq
  obtain ⟨pc, v⟩ := p
  simp only at hpc
  subst hpc
  have hqlt : q < s.order.length := (List.getElem?_eq_some_iff.mp hp).1
  -- its value, from the ring content and from the sorted view
  have hv1 : v = slotVal N s.cursor ws s.cursor := hring _ (List.mem_of_getElem? hp)
  rw [slotVal_cursor N s.cursor ws hcur hwlen] at hv1
  have hv2 : v = vs[q]? := by
    have := hvals q
    simp only [valAt, hp, Option.bind_some] at this
    exact this
  have hvl : vs.length = ws.length := hperm.length_eq
  -- the list after removal
  have ho1 : s.order.filter (fun p => p.1 != s.cursor) = s.order.eraseIdx q :=
    filter_eq_eraseIdx _ _ _ _ hnd hp
  generalize hdef : s.order.eraseIdx q = o1 at ho1
  have ho1len : o1.length = N - 1 := by
    rw [← hdef, List.length_eraseIdx, if_pos hqlt, hlen]
  have hc : ∀ p ∈ o1, p.1 ≠ s.cursor := by
    intro p hp'
    rw [← ho1] at hp'
    have := (List.mem_filter.mp hp').2
    simpa using this
  have hvals1 : ∀ i, valAt o1 i = (vs.eraseIdx q)[i]? := by
    intro i
    rw [← hdef, valAt_eraseIdx, List.getElem?_eraseIdx, hvals]
    split <;> rfl
  -- the remaining window
  have hw1 : ∃ w1, push N ws x = w1 ++ [x] ∧ (vs.eraseIdx q).Perm w1 ∧
      w1.length = (push N ws x).length - 1 := by
    unfold push
    by_cases hfull : ws.length < N
    · refine ⟨ws, by simp [hfull], ?_, by simp [hfull]⟩
      have : v = none := by rw [hv1, if_neg (by omega)]
      rw [this] at hv2
      have : vs.length ≤ q := by
        have := hv2.symm
        simpa using this
      rw [List.eraseIdx_of_length_le this]
      exact hperm
    · have hl : ws.length = N := by omega
      refine ⟨ws.drop 1, by simp [hfull], ?_, by simp [hfull]⟩
      rw [hv1, if_pos hl] at hv2
      have hws : ws = ws[0]'(by omega) :: ws.drop 1 := by
        rw [← List.drop_eq_getElem_cons (by omega)]; simp
      have h0 : ws[0]? = some (ws[0]'(by omega)) := List.getElem?_eq_getElem _
      rw [h0] at hv2
      obtain ⟨hqv, hqe⟩ := List.getElem?_eq_some_iff.mp hv2.symm
      have hp1 := perm_eraseIdx vs q hqv
      rw [hqe] at hp1
      have hp2 : (ws[0]'(by omega) :: vs.eraseIdx q).Perm (ws[0]'(by omega) :: ws.drop 1) := by
        rw [← hws]; exact hp1.symm.trans hperm
      exact (List.perm_cons _).mp hp2
  obtain ⟨w1, hpush, hperm1, hw1len⟩ := hw1
  generalize hvs1 : vs.eraseIdx q = vs1 at *
  have hm1 : vs1.length = w1.length := hperm1.length_eq
  have hpl : (push N ws x).length = min (ws.length + 1) N := length_push N ws x hwlen hN
  have hm1le : vs1.length ≤ o1.length := by omega
  -- the walk hypotheses
  let J := vs1.findIdx (fun v => POrd.ge v x)
  have hJle : J ≤ vs1.length := List.findIdx_le_length
  have hwalk : WalkHyp o1 vs1.length J x := by
    refine ⟨hm1le, hJle, ?_, ?_⟩
    · intro i hi
      refine ⟨vs1[i], by rw [hvals1, List.getElem?_eq_getElem hi], ?_, ?_⟩
      · intro hiJ; exact List.not_of_lt_findIdx hiJ
      · intro hiJ
        have : J < vs1.length := by omega
        have := List.findIdx_getElem (w := this) (p := fun v => POrd.ge v x)
        simp only [hiJ]
        exact this
    · intro i hi
      rw [hvals1, List.getElem?_eq_none hi]
  have hlen' : s.order.length = o1.length + 1 := by omega
  obtain ⟨y, hy, hstep⟩ := step_closed s x vs1.length J o1 ho1.symm hlen' hc hwalk
  have hN1 : o1.length + 1 = N := by omega
  rw [hN1] at hstep
  let vs' := vs1.take J ++ x :: vs1.drop J
  have hvals' : ∀ i, valAt (insFinal o1 J s.cursor x) i = vs'[i]? := by
    intro i
    rw [valAt_insFinal _ _ _ _ (by omega), getElem?_ins _ _ _ hJle]
    split
    · exact hvals1 i
    · split
      · rfl
      · exact hvals1 (i - 1)
  refine ⟨_, y, q, hstep, ?_, ?_⟩
  · rw [hvs1]
    show InvP N _ _ vs'
    refine ⟨?_, Nat.mod_lt _ hN, by rw [hpl]; omega, ?_, hvals', ?_, ?_, ?_⟩
    · -- length
      simp only [insFinal, List.length_append, List.length_take, List.length_cons,
        List.length_drop]
      omega
    · -- slots
      have h1 : ((insFinal o1 J s.cursor x).map (·.1)).Perm
          (s.cursor :: o1.map (·.1)) := by
        simp only [insFinal, List.map_append, List.map_cons, List.map_take, List.map_drop]
        exact perm_ins _ _ _
      have h2 : (s.order.map (·.1)).Perm (s.cursor :: o1.map (·.1)) := by
        have hq' : q < (s.order.map (·.1)).length := by simpa using hqlt
        have hget : (s.order.map (·.1))[q]'hq' = s.cursor := by
          have := (List.getElem?_eq_some_iff.mp hp).2
          simp [List.getElem_map, this]
        have := perm_eraseIdx (s.order.map (·.1)) q hq'
        rw [hget] at this
        rw [← hdef, map_eraseIdx']
        exact this
      exact h1.trans (h2.symm.trans hslots)
    · -- ring content
      intro p hp'
      simp only [insFinal, List.mem_append, List.mem_cons] at hp'
      have hcase : p = (s.cursor, some x) ∨ p ∈ o1 := by
        rcases hp' with h | h | h
        · exact Or.inr (List.mem_of_mem_take h)
        · exact Or.inl h
        · exact Or.inr (List.mem_of_mem_drop h)
      rcases hcase with rfl | hpo
      · exact (slotVal_new N s.cursor ws x hcur hwlen).symm
      · have hpne := hc p hpo
        have hpord : p ∈ s.order := by
          rw [← hdef] at hpo; exact List.mem_of_mem_eraseIdx hpo
        have hplt : p.1 < N := by
          have : p.1 ∈ s.order.map (·.1) := List.mem_map_of_mem (f := (·.1)) hpord
          exact List.mem_range.mp (hslots.mem_iff.mp this)
        rw [slotVal_other N s.cursor p.1 ws x hcur hplt hpne hwlen]
        exact hring p hpord
    · -- permutation of the new window
      rw [hpush]
      have : vs'.Perm (x :: vs1) := perm_ins _ _ _
      exact this.trans ((List.Perm.cons x hperm1).trans (List.perm_append_singleton x w1).symm)
    · show vs1.length / 2 = ((push N ws x).length - 1) / 2
      rw [hm1, hw1len]
  · rw [hvs1]
    show vs'[((push N ws x).length - 1) / 2]? = some y
    rw [← hvals', ← hw1len, ← hm1]
    exact hy

/-- the full invariant for total orders: additionally the values are sorted -/
def Inv [POrd α] (N : Nat) (s : MS α) (ws vs : List α) : Prop :=
  InvP N s ws vs ∧ vs.Pairwise LeP

theorem inv_init [POrd α] (N : Nat) (hN : 0 < N) : Inv N (init N : MS α) [] [] :=
  ⟨invP_init N hN, by simp⟩

theorem inv_step [POrd α] [TotalOrd α] {N : Nat} {s : MS α} {ws vs : List α}
    (h : Inv N s ws vs) (x : α) :
    ∃ s' y vs', step s x = some (s', y) ∧ Inv N s' (push N ws x) vs' ∧
      vs'[((push N ws x).length - 1) / 2]? = some y := by
  obtain ⟨hp, hs⟩ := h
  obtain ⟨s', y, q, hstep, hinv, hy⟩ := invP_step hp x
  exact ⟨s', y, _, hstep,
    ⟨hinv, sorted_insert _ x (hs.sublist (List.eraseIdx_sublist _ _))⟩, hy⟩

end SignaloModel.Median
