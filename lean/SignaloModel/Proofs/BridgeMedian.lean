import SignaloModel.Proofs.MedianRef7
import SignaloModel.Proofs.MedianAccL
import SignaloModel.Proofs.RunLemmas
/-!
C02 / C17 at the level the driver executes: `Registry.St.run` of the median filter against the
executable specification `Spec.lowerMedian (Spec.window N history)`.
-/
namespace SignaloModel.Registry
open SignaloModel
open SignaloModel.Median (POrd TotalOrd DualOrd)

variable {α : Type}

theorem spec_lowerMedian_eq [POrd α] (w : List α) : Spec.lowerMedian w = Median.lowerMedian w := rfl

/-- the specification run of `MedianThm`, position by position, in terms of the history -/
theorem specRun_getElem [POrd α] (N : Nat) (hN : 0 < N) (xs pre : List α) (k : Nat) (hk : k < xs.length) :
    (Median.specRun N (pre.drop (pre.length - N)) xs)[k]? =
      some (Spec.lowerMedian (Spec.window N (pre ++ xs.take (k + 1)))) := by
  induction xs generalizing pre k with
  | nil => simp at hk
  | cons x xs ih =>
    simp only [Median.specRun]
    rw [Median.push_lastN N hN pre x]
    cases k with
    | zero =>
      simp [Spec.window, spec_lowerMedian_eq]
    | succ k =>
      simp only [List.getElem?_cons_succ, List.take_succ_cons]
      have := ih (pre ++ [x]) k (by simpa using hk)
      simpa [List.append_assoc] using this

section
variable [Add α] [Sub α] [Mul α] [Div α] [Neg α] [OfNat α 0] [OfNat α 1]
  [LT α] [DecidableLT α] [BEq α] [Median.POrd α] [Classify.Cmp α]

/-- the registry's median instance runs the pointer-level model -/
theorem run_median (s : MedianL.LS α) (xs ys : List α) (h : MedianL.run s xs = some ys) :
    ∃ s', (St.median s).run (sing xs) = some (St.median s', sing ys) := by
  induction xs generalizing s ys with
  | nil =>
    simp only [MedianL.run, Option.some.injEq] at h
    subst h
    exact ⟨s, rfl⟩
  | cons x xs ih =>
    simp only [MedianL.run] at h
    cases hs : MedianL.step s x with
    | none => simp [hs] at h
    | some r =>
      obtain ⟨s1, y⟩ := r
      simp only [hs, Option.bind_eq_bind, Option.bind_some] at h
      cases hr : MedianL.run s1 xs with
      | none => simp [hr] at h
      | some ys' =>
        simp only [hr, Option.bind_some, Option.pure_def, Option.some.injEq] at h
        subst h
        obtain ⟨s', hs'⟩ := ih s1 ys' hr
        refine ⟨s', ?_⟩
        simp [sing, St.run, St.filter, hs] at hs' ⊢
        simp [hs']

/-- **C02 (total orders), at registry level**: for every width `N ≥ 1` and every input sequence the
median filter never panics and its `k`-th output is `Spec.lowerMedian` of the last `min (k+1) N` samples -/
theorem median_registry_correct [TotalOrd α] (N : Nat) (hN : 1 ≤ N) (xs : List α) :
    ∃ s' ys, (Cfg.median N : Cfg α).init.run (sing xs) = some (s', sing ys) ∧ ys.length = xs.length ∧
      ∀ k, k < xs.length → (ys[k]?).map some = some (Spec.lowerMedian (Spec.window N (xs.take (k + 1)))) := by
  have key : ∃ ys, MedianL.run (MedianL.init N : MedianL.LS α) xs = some ys ∧
      ys.map some = Median.specRun N [] xs := by
    by_cases h2 : 2 ≤ N
    · exact MedianL.medianL_correct N h2 xs
    · have h1 : N = 1 := by omega
      subst h1
      obtain ⟨ys, hrun, hspec⟩ := Median.median_correct 1 (by omega) xs
      refine ⟨xs, MedianL.medianL_one xs, ?_⟩
      -- width 1: the window is the last sample
      clear hrun hspec ys
      suffices ∀ ws : List α, ws.length ≤ 1 → xs.map some = Median.specRun 1 ws xs from this [] (by simp)
      induction xs with
      | nil => intro ws _; rfl
      | cons x xs ih =>
        intro ws hws
        have hp : Median.push 1 ws x = [x] := by
          unfold Median.push
          match ws, hws with
          | [], _ => simp
          | [a], _ => simp
        simp only [List.map_cons, Median.specRun, hp]
        rw [← ih [x] (by simp)]
        simp [Median.lowerMedian]
  obtain ⟨ys, hrun, hspec⟩ := key
  obtain ⟨s', hs'⟩ := run_median _ xs ys hrun
  have hlen : ys.length = xs.length := by
    have := congrArg List.length hspec
    have hl : ∀ (ws : List α) (l : List α), (Median.specRun N ws l).length = l.length := by
      intro ws l
      induction l generalizing ws with
      | nil => rfl
      | cons a l ih => simp [Median.specRun, ih]
    simpa [hl] using this
  refine ⟨St.median s', ys, hs', hlen, ?_⟩
  intro k hk
  have h1 := specRun_getElem N (by omega) xs [] k hk
  simp only [List.length_nil, Nat.zero_sub, List.drop_zero, List.nil_append] at h1
  rw [← hspec] at h1
  simpa using h1

/-- **C02 (robustness), at registry level**: for a merely dual comparison (floats with NaN) the filter
never panics and every output is one of the samples in its window -/
theorem median_registry_robust [DualOrd α] (N : Nat) (hN : 2 ≤ N) (xs : List α) :
    ∃ s' ys, (Cfg.median N : Cfg α).init.run (sing xs) = some (s', sing ys) ∧ Median.MemRun N [] xs ys := by
  obtain ⟨ys, hrun, hmem⟩ := MedianL.medianL_robust N hN xs
  obtain ⟨s', hs'⟩ := run_median _ xs ys hrun
  exact ⟨St.median s', ys, hs', hmem⟩

end

end SignaloModel.Registry

#print axioms SignaloModel.Registry.median_registry_correct
#print axioms SignaloModel.Registry.median_registry_robust
