import SignaloModel.Proofs.BridgeMedian
/-!
C17 (and the state facts C18 / C19 need) at the level the driver executes: after any run of the registry's
median instance from its initial state, the pointer-level state still represents (`Rep`) a list-level state
satisfying the invariant (`Inv`) for the window `Spec.window N history`; hence what the three accessors
return, and how many samples the buffer holds.
-/
namespace SignaloModel.Registry
open SignaloModel
open SignaloModel.Median (POrd TotalOrd DualOrd)

variable {α : Type}

section
variable [Add α] [Sub α] [Mul α] [Div α] [Neg α] [OfNat α 0] [OfNat α 1]
  [LT α] [DecidableLT α] [BEq α] [Median.POrd α] [Classify.Cmp α]

/-- a run of the registry's median instance keeps `Rep` and `Inv`, with the window pushed along -/
theorem run_median_inv [TotalOrd α] (N : Nat) (xs : List α) :
    ∀ (sl : MedianL.LS α) (sa : Median.MS α) (ws vs : List α),
      2 ≤ sl.buffer.length → MedianL.Rep sl sa → Median.Inv N sa ws vs →
      ∃ sl' sa' vs' ys, (St.median sl).run (sing xs) = some (St.median sl', sing ys) ∧
        MedianL.Rep sl' sa' ∧ Median.Inv N sa' (xs.foldl (Median.push N) ws) vs' ∧
        sl'.buffer.length = sl.buffer.length := by
  induction xs with
  | nil =>
    intro sl sa ws vs _ hrep hinv
    exact ⟨sl, sa, vs, [], rfl, hrep, hinv, rfl⟩
  | cons x xs ih =>
    intro sl sa ws vs hlen hrep hinv
    obtain ⟨sa1, y, vs1, hstepA, hinv1, _⟩ := Median.inv_step hinv x
    obtain ⟨sl1, hstepL, hrep1, hlen1⟩ := MedianL.refine_step sl sa hlen hrep x sa1 y hstepA
    obtain ⟨sl', sa', vs', ys, hrun, hrep', hinv', hlen'⟩ := ih sl1 sa1 _ vs1 (by omega) hrep1 hinv1
    refine ⟨sl', sa', vs', y :: ys, ?_, hrep', hinv', by omega⟩
    simp [sing, St.run, St.filter, hstepL] at hrun ⊢
    simp [hrun]

/-- **C17 at registry level** (widths ≥ 2): after any history `xs` from `Default`, `min()` is the smallest
and `median()` the lower median of the window `Spec.window N xs`; `max()` is the *latest* sample
(`getLast?` of the window) — which is what the code does, not the window maximum -/
theorem median_registry_accessors [TotalOrd α] (N : Nat) (hN : 2 ≤ N) (xs : List α) :
    ∃ sl' ys, (Cfg.median N : Cfg α).init.run (sing xs) = some (St.median sl', sing ys) ∧
      MedianL.minAcc sl' = Spec.minimum (Spec.window N xs) ∧
      MedianL.medAcc sl' = Spec.lowerMedian (Spec.window N xs) ∧
      MedianL.maxAcc sl' = (Spec.window N xs).getLast? := by
  obtain ⟨sl', sa', vs', ys, hrun, hrep', hinv', hlen'⟩ :=
    run_median_inv N xs (MedianL.init N) (Median.init N) [] [] (by simp [MedianL.init]; omega)
      (MedianL.rep_init N hN) (Median.inv_init N (by omega))
  have hw : xs.foldl (Median.push N) [] = Spec.window N xs := Median.window_eq_lastN N (by omega) xs
  rw [hw] at hinv'
  have hlen2 : 2 ≤ sl'.buffer.length := by
    rw [hlen']; simp [MedianL.init]; omega
  obtain ⟨h1, h2, h3⟩ := MedianL.accessors_L sl' sa' N _ vs' hlen2 hrep' hinv'
  exact ⟨sl', ys, hrun, h1, h2, h3⟩

end

/-- the accessors report nothing before the first sample -/
theorem median_registry_accessors_init (N : Nat) (hN : 1 ≤ N) :
    MedianL.minAcc (MedianL.init N : MedianL.LS α) = none ∧
    MedianL.medAcc (MedianL.init N : MedianL.LS α) = none ∧
    MedianL.maxAcc (MedianL.init N : MedianL.LS α) = none := by
  have h0 : 0 < N := by omega
  refine ⟨?_, ?_, ?_⟩ <;>
    simp [MedianL.minAcc, MedianL.medAcc, MedianL.maxAcc, MedianL.init, h0]

/-- the state after feeding `xs` to the pointer-level model from `Default`, and what `max()` then says -/
def maxAfter (N : Nat) (xs : List Int) : Option (Option Int) :=
  (xs.foldlM (fun s x => (MedianL.step s x).map (·.1)) (MedianL.init N : MedianL.LS Int)).map MedianL.maxAcc

/-- **C17, the max clause is false of the code**: window `{1, 9, 3}` — `max()` answers 3 although 9 is in the window -/
theorem median_max_counterexample :
    maxAfter 3 [1, 9, 3] = some (some 3) ∧ (9 : Int) ∈ Spec.window 3 ([1, 9, 3] : List Int) ∧ (3 : Int) < 9 := by
  decide

end SignaloModel.Registry

#print axioms SignaloModel.Registry.median_registry_accessors
#print axioms SignaloModel.Registry.median_max_counterexample
