import SignaloModel.Proofs.BridgeSinks
set_option linter.unusedSectionVars false
/-!
C11, the remaining clauses: the value a sink returns when used as a running filter is the statistic of the prefix seen
so far (min, max, bounds, sum, collect: any sample type; mean and mean-variance: ordered fields), the finalised
extrema, and the combined statistics sink finalising to what the individual sinks finalise to.
-/
namespace SignaloModel.SinkModels
open SignaloModel SignaloModel.Registry

section anytype
variable {α : Type} [Add α] [Sub α] [Mul α] [Div α] [OfNat α 0] [OfNat α 1] [Classify.Cmp α]

/-- what a state reports as running output -/
def Sk.current : Sk α → List α
  | .min s => s.toList
  | .max s => s.toList
  | .bounds a b => a.toList ++ b.toList
  | .last s => s.toList
  | .integrate s => s.toList
  | .mean s => (s.map (·.2)).toList
  | .meanVar s => match s with | none => [] | some r => [r.mean, r.m2]
  | .statistics a b mv => a.toList ++ b.toList ++ (match mv with | none => [] | some r => [r.mean, r.m2])
  | .collect l => l
  | .unitSum acc => [acc]

/-- the running output of `Filter::filter` is what the new state holds -/
theorem filter_out_current (k : Sk α) (x : α) : (k.filter x).2 = (k.filter x).1.current := by
  cases k <;> simp [Sk.filter, Sk.current]

/-- **C11 (running filter)**: after feeding `xs`, filtering `x` returns what the state reached on `xs ++ [x]` holds -/
theorem running_eq (k : Sk α) (xs : List α) (x : α) :
    ((k.feed xs).filter x).2 = (k.feed (xs ++ [x])).current := by
  rw [feed_snoc, filter_out_current]; rfl

/-- **C11 (min as a filter)**: the smallest sample of the prefix -/
theorem min_running (xs : List α) (x : α) :
    (((Sk.min (none : Option α)).feed xs).filter x).2 = (Spec.extremum ltB (xs ++ [x])).toList := by
  rw [running_eq, min_feed]; rfl

/-- **C11 (max as a filter)** -/
theorem max_running (xs : List α) (x : α) :
    (((Sk.max (none : Option α)).feed xs).filter x).2 = (Spec.extremum gtB (xs ++ [x])).toList := by
  rw [running_eq, max_feed]; rfl

/-- **C11 (bounds as a filter)** -/
theorem bounds_running (xs : List α) (x : α) :
    (((Sk.bounds (none : Option α) none).feed xs).filter x).2 =
      (Spec.extremum ltB (xs ++ [x])).toList ++ (Spec.extremum gtB (xs ++ [x])).toList := by
  rw [running_eq, bounds_feed]; rfl

/-- **C11 (sum as a filter)**: the running sum of the prefix -/
theorem integrate_running (xs : List α) (x : α) :
    (((Sk.integrate (none : Option α)).feed xs).filter x).2 = [Spec.sum (xs ++ [x])] := by
  rw [running_eq, integrate_feed]
  simp [Sk.current]

theorem integrate_finalize (xs : List α) (hx : xs ≠ []) :
    ((Sk.integrate (none : Option α)).feed xs).finalize = some [Spec.sum xs] := by
  rw [integrate_feed]
  cases xs with
  | nil => exact absurd rfl hx
  | cons a l => rfl

/-- **C11 (collect as a filter)** -/
theorem collect_running (xs : List α) (x : α) :
    (((Sk.collect ([] : List α)).feed xs).filter x).2 = xs ++ [x] := by
  rw [running_eq, collect_feed]; rfl

/-- **C11 (finalised extrema)** -/
theorem min_finalize (xs : List α) :
    ((Sk.min (none : Option α)).feed xs).finalize = (Spec.extremum ltB xs).map (fun v => [v]) := by
  rw [min_feed]; rfl

theorem max_finalize (xs : List α) :
    ((Sk.max (none : Option α)).feed xs).finalize = (Spec.extremum gtB xs).map (fun v => [v]) := by
  rw [max_feed]; rfl

theorem last_finalize (xs : List α) :
    ((Sk.last (none : Option α)).feed xs).finalize = xs.getLast?.map (fun v => [v]) := by
  rw [last_feed]; rfl

theorem collect_finalize (xs : List α) : ((Sk.collect ([] : List α)).feed xs).finalize = some xs := by
  rw [collect_feed]; rfl

end anytype

section field
variable {K : Type} [Field K] [LinearOrder K] [IsStrictOrderedRing K]

/-- **C11 (mean as a filter)**: the arithmetic mean of the prefix -/
theorem mean_running (xs : List K) (x : K) :
    (((Sk.mean (none : Option (K × K))).feed xs).filter x).2 = [Spec.batchMean (xs ++ [x])] := by
  obtain ⟨st, hs, _, hm, _⟩ := welford_correct (xs ++ [x]) (by simp)
  rw [running_eq, mean_feed, hs]
  simp [Sk.current, hm]

/-- **C11 (mean-variance as a filter)**: the prefix mean and the prefix sum of squared deviations from it -/
theorem meanVar_running (xs : List K) (x : K) :
    (((Sk.meanVar (none : Option (Sinks.MV K))).feed xs).filter x).2 =
      [Spec.batchMean (xs ++ [x]), Spec.sumSqDev (xs ++ [x])] := by
  obtain ⟨st, hs, _, hm, hv⟩ := welford_correct (xs ++ [x]) (by simp)
  rw [running_eq, meanVar_feed, hs]
  simp [Sk.current, hm, hv]

/-- **C11 (statistics)**: the combined sink finalises to what the individual sinks finalise to -/
theorem statistics_finalize (xs : List K) (hx : xs ≠ []) :
    ∃ mn mx, Spec.extremum ltB xs = some mn ∧ Spec.extremum gtB xs = some mx ∧
      ((Sk.statistics (none : Option K) none none).feed xs).finalize =
        some [mn, mx, Spec.batchMean xs, Spec.sampleVariance xs] := by
  obtain ⟨st, hs, hc, hm, hv⟩ := welford_correct xs hx
  have hmv := meanVar_finalize xs hx
  rw [meanVar_feed, hs] at hmv
  simp only [Sk.finalize, Option.map_some, Option.some.injEq] at hmv
  cases xs with
  | nil => exact absurd rfl hx
  | cons a l =>
    refine ⟨_, _, rfl, rfl, ?_⟩
    rw [statistics_feed, hs]
    simp only [Sk.finalize, Spec.extremum, hmv]
    rfl

end field
end SignaloModel.SinkModels

#print axioms SignaloModel.SinkModels.running_eq
#print axioms SignaloModel.SinkModels.mean_running
#print axioms SignaloModel.SinkModels.meanVar_running
#print axioms SignaloModel.SinkModels.statistics_finalize
#print axioms SignaloModel.SinkModels.integrate_running
