import SignaloModel.Model.Conv
import SignaloModel.Proofs.FirProofs
/-! Proofs for C05: tap ring = last `N` samples with edge padding; output = `convL`. -/
namespace SignaloModel.Conv
open SignaloModel.Fir

variable {α : Type}

/-- filling an under-full ring and evicting once -/
theorem pushLoop_fill (N : Nat) (hN : 1 ≤ N) (l : List α) (x : α) (hl : l.length ≤ N) (fuel : Nat)
    (hf : N - l.length + 1 ≤ fuel) :
    pushLoop N fuel l x =
      ((l ++ List.replicate (N - l.length) x).drop 1 ++ [x],
       (l ++ List.replicate (N - l.length) x).head?) := by
  induction fuel generalizing l with
  | zero => omega
  | succ fuel ih =>
    have hN0 : ¬ N = 0 := by omega
    by_cases hfull : N ≤ l.length
    · have : N - l.length = 0 := by omega
      cases l with
      | nil => simp at hfull; omega
      | cons a t =>
        have hfull' : N ≤ t.length + 1 := by simpa using hfull
        have this' : N - (t.length + 1) = 0 := by omega
        simp [pushLoop, pushBack, hN0, hfull', this']
    · have hlt : l.length < N := by omega
      simp only [pushLoop, pushBack, hN0, ↓reduceIte, hfull]
      rw [ih (l ++ [x]) (by simp; omega) (by simp; omega)]
      have h1 : N - l.length = (N - (l ++ [x]).length) + 1 := by simp; omega
      rw [h1, List.replicate_succ]
      simp

/-- taps after the sample at time `n`: position `i` holds `x (n - (N-1-i))` (oldest first) -/
def tapsAt (N : Nat) (x : Nat → α) (n : Nat) : List α :=
  (List.range N).map (fun i => x (n - (N - 1 - i)))

theorem tapsAt_succ (N : Nat) (hN : 1 ≤ N) (x : Nat → α) (n : Nat) :
    (tapsAt N x n).drop 1 ++ [x (n + 1)] = tapsAt N x (n + 1) := by
  apply List.ext_getElem
  · simp [tapsAt]; omega
  · intro i h1 h2
    simp only [tapsAt, List.length_append, List.length_drop, List.length_map, List.length_range,
      List.length_singleton] at h1 h2
    by_cases hi : i < N - 1
    · rw [List.getElem_append_left (by simp [tapsAt]; omega)]
      simp only [tapsAt, List.getElem_drop, List.getElem_map, List.getElem_range]
      congr 1; omega
    · have hiN : i = N - 1 := by omega
      rw [List.getElem_append_right (by simp [tapsAt]; omega)]
      simp only [tapsAt, List.getElem_map, List.getElem_range, List.length_drop, List.length_map,
        List.length_range, List.getElem_singleton]
      congr 1; omega

theorem tapsAt_zero (N : Nat) (x : Nat → α) : tapsAt N x 0 = List.replicate N (x 0) := by
  apply List.ext_getElem
  · simp [tapsAt]
  · intro i h1 h2
    simp [tapsAt]

/-- the ring after each sample: the last `N` samples, earlier ones replaced by the first -/
theorem taps_invariant (N : Nat) (hN : 1 ≤ N) (x : Nat → α) (n : Nat) :
    (pushLoop N (N + 1) (tapsAt N x n) (x (n + 1))).1 = tapsAt N x (n + 1) ∧
    (pushLoop N (N + 1) ([] : List α) (x 0)).1 = tapsAt N x 0 := by
  constructor
  · rw [pushLoop_fill N hN _ _ (by simp [tapsAt]) _ (by simp [tapsAt])]
    have : N - (tapsAt N x n).length = 0 := by simp [tapsAt]
    simp only [this, List.replicate_zero, List.append_nil]
    exact tapsAt_succ N hN x n
  · rw [pushLoop_fill N hN _ _ (by simp) _ (by simp)]
    obtain ⟨m, rfl⟩ : ∃ m, N = m + 1 := ⟨N - 1, by omega⟩
    rw [tapsAt_zero]
    simp only [List.length_nil, Nat.sub_zero, List.nil_append, List.replicate_succ,
      List.drop_succ_cons, List.drop_zero]
    rw [← List.replicate_succ', List.replicate_succ]

/-- C05, delay: the evicted element is `x[n - N]` (truncated), `n ≥ 0`, `N ≥ 1` -/
theorem delay_closed_form (N : Nat) (hN : 1 ≤ N) (x : Nat → α) (n : Nat) :
    (delayStep N (tapsAt N x n) (x (n + 1))).2 = some (x (n + 1 - N)) ∧
    (delayStep N ([] : List α) (x 0)).2 = some (x 0) := by
  unfold delayStep
  constructor
  · rw [pushLoop_fill N hN _ _ (by simp [tapsAt]) _ (by simp [tapsAt])]
    have : N - (tapsAt N x n).length = 0 := by simp [tapsAt]
    simp only [this, List.replicate_zero, List.append_nil]
    obtain ⟨m, rfl⟩ : ∃ m, N = m + 1 := ⟨N - 1, by omega⟩
    simp [tapsAt, List.range_succ_eq_map]
  · rw [pushLoop_fill N hN _ _ (by simp) _ (by simp)]
    obtain ⟨m, rfl⟩ : ∃ m, N = m + 1 := ⟨N - 1, by omega⟩
    simp [List.replicate_succ]

/-- width 0: `push_back` returns the item at once, so the delay is the identity -/
theorem delay_zero (taps : List α) (x : α) : (delayStep 0 taps x).2 = some x := by
  simp [delayStep, pushLoop, pushBack]

section Ring
variable {R : Type} [CommRing R]

theorem dot_snoc (A B : List R) (a b : R) (h : A.length = B.length) :
    dot (A ++ [a]) (B ++ [b]) = dot A B + a * b := by
  unfold dot
  rw [List.zip_append h, List.foldl_append]
  simp

/-- the zip with the reversed kernel is a re-indexing of `Σ_j c[j]·x[n-j]` -/
theorem dot_tapsAt (c : List R) (x : Nat → R) (n : Nat) :
    dot (tapsAt c.length x n) c.reverse = convL c x n := by
  induction c generalizing n with
  | nil => simp [dot, tapsAt]
  | cons a c ih =>
    have htaps : tapsAt (c.length + 1) x n = tapsAt c.length x (n - 1) ++ [x n] := by
      apply List.ext_getElem
      · simp [tapsAt]
      · intro i h1 h2
        simp only [tapsAt, List.length_map, List.length_range] at h1
        by_cases hi : i < c.length
        · rw [List.getElem_append_left (by simp [tapsAt]; exact hi)]
          simp only [tapsAt, List.getElem_map, List.getElem_range]
          congr 1; omega
        · have : i = c.length := by omega
          subst this
          rw [List.getElem_append_right (by simp [tapsAt])]
          simp [tapsAt]
    rw [List.length_cons, htaps, List.reverse_cons,
      dot_snoc _ _ _ _ (by simp [tapsAt]), ih (n - 1)]
    simp only [convL_cons]
    ring

/-- C05: the stateful convolution outputs `Σ_j c[j]·x[n-j]` with edge padding -/
theorem conv_closed_form (c : List R) (hN : 1 ≤ c.length) (x : Nat → R) (n : Nat) :
    (convStep c.length c (tapsAt c.length x n) (x (n + 1))).2 = convL c x (n + 1) ∧
    (convStep c.length c ([] : List R) (x 0)).2 = convL c x 0 := by
  unfold convStep
  obtain ⟨h1, h2⟩ := taps_invariant c.length hN x n
  simp only [h1, h2]
  exact ⟨dot_tapsAt c x (n + 1), dot_tapsAt c x 0⟩

end Ring

end SignaloModel.Conv

#print axioms SignaloModel.Conv.conv_closed_form
#print axioms SignaloModel.Conv.delay_closed_form
