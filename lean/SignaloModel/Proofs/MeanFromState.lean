import SignaloModel.Proofs.BridgeMean
/-!
C03 from ANY state that satisfies the moving average's invariant — in particular from a ring filled by hand to the brim
whose sum and weight are those of its taps (`from_guts` of the public state): every later output is the mean of the last
`min(k, N)` samples of `taps ++ continuation`. This is what lets the correspondence check assert the window-mean clause
after such an injection (and what pins down the order of the exported / injected taps).
-/
namespace SignaloModel.Registry
open SignaloModel

variable {K : Type} [CommRing K] [Div K]
variable [LT K] [DecidableLT K] [BEq K] [Median.POrd K] [Classify.Cmp K]

/-- **C03 from any invariant state**: if the state is what the history `pre` leaves behind, the outputs for a
continuation `zs` are the window means over `pre ++ zs` -/
theorem mean_from_inv (N : Nat) (hN : 1 ≤ N) (s : Sinks.SM K) (pre zs : List K) (h : Sinks.MInv N s pre) :
    ∃ s' ys, (St.mean N s).run (sing zs) = some (s', sing ys) ∧ ys.length = zs.length ∧
      ∀ k z, zs[k]? = some z → ys[k]? = some (Spec.windowMean N (pre ++ zs.take (k + 1))) := by
  have hrun := run_of_step (St.mean N) (Sinks.smStep N) (by intro s x; simp [St.filter]) s zs
  refine ⟨_, _, hrun, stepRun_length _ _ _, ?_⟩
  intro k z hz
  rw [stepRun_getElem _ _ _ k z hz]
  have hinv := minv_run_from N hN (zs.take k) s pre h
  have hstep := (Sinks.minv_step N hN _ (pre ++ zs.take k) z hinv).2
  have htake : zs.take (k + 1) = zs.take k ++ [z] := by
    rw [List.take_add_one, hz]; rfl
  rw [hstep, htake, ← List.append_assoc]
  simp [Spec.windowMean, spec_sum_eq, spec_natCast_eq, spec_window_eq]

omit [Div K] [LT K] [DecidableLT K] [BEq K] [Median.POrd K] [Classify.Cmp K] in
/-- the hand-built full ring satisfies the invariant of the history consisting of its taps -/
theorem mean_full_ring_inv (N : Nat) (ts : List K) (hl : ts.length = N) :
    Sinks.MInv N ({ mean := some ts.sum, taps := ts, weight := (N : K) } : Sinks.SM K) ts := by
  have hw : Sinks.window N ts = ts := by simp [Sinks.window, hl]
  exact ⟨by rw [hw], by rw [hw]; rfl, by rw [hw, hl]⟩

/-- **full ring = reached state (moving average)** -/
theorem mean_inject_full_run (N : Nat) (hN : 1 ≤ N) (ts zs : List K) (hl : ts.length = N) :
    ∃ s' ys, (St.mean N ({ mean := some ts.sum, taps := ts, weight := (N : K) } : Sinks.SM K)).run (sing zs)
        = some (s', sing ys) ∧ ys.length = zs.length ∧
      ∀ k z, zs[k]? = some z → ys[k]? = some (Spec.windowMean N (ts ++ zs.take (k + 1))) :=
  mean_from_inv N hN _ ts zs (mean_full_ring_inv N ts hl)

end SignaloModel.Registry
