import SignaloModel.Proofs.BridgeConv
import SignaloModel.Proofs.CascadeProofs
import SignaloModel.Proofs.BridgeHampel
set_option linter.unusedSectionVars false
/-!
C07 at registry level (what the driver executes): the analysis filter's two outputs are the edge-padded convolutions
of the input with its two kernels, the synthesis filter's output is the sum of the two convolutions of its two input
streams, and for every provided Daubechies table the cascade analysis → synthesis reproduces the input delayed by
`N − 1` within `1e-8·B` (exact arithmetic).
-/
namespace SignaloModel.Registry
open SignaloModel SignaloModel.Conv SignaloModel.Fir

variable {R : Type} [CommRing R] [Div R] [LT R] [DecidableLT R] [BEq R] [Median.POrd R] [Classify.Cmp R]

/-- the convolution filter's run as a fold, with its closed form -/
theorem conv_stepRun_correct (c : List R) (hN : 1 ≤ c.length) (xs : List R) :
    ∀ k x, xs[k]? = some x →
      (stepRun (convStep c.length c) ([] : List R) xs).2[k]? = some (Spec.firAt c (xs.take (k + 1))) := by
  obtain ⟨s', ys, hrun, _, hk⟩ := conv_registry_correct c hN xs
  have hrun' := run_of_step (St.convolve c) (convStep c.length c) (by intro s x; simp [St.filter]) [] xs
  simp only [Cfg.init] at hrun
  rw [hrun'] at hrun
  simp only [Option.some.injEq, Prod.mk.injEq] at hrun
  have := sing_injective hrun.2
  rw [this]
  exact hk

/-- the analysis filter runs its two convolutions side by side -/
theorem analyze_run (l h : List R) (xs : List R) :
    ∀ (tl th : List R), (St.analyze l h tl th).run (sing xs) =
      some (St.analyze l h (stepRun (convStep l.length l) tl xs).1 (stepRun (convStep h.length h) th xs).1,
        List.zipWith (fun a b => [a, b]) (stepRun (convStep l.length l) tl xs).2 (stepRun (convStep h.length h) th xs).2) := by
  induction xs with
  | nil => intro tl th; rfl
  | cons x xs ih => intro tl th; simp [sing_cons, St.run, St.filter, ih, stepRun]

/-- the synthesis filter convolves its two input streams and adds -/
theorem synthesize_run (l h : List R) (ps : List (R × R)) :
    ∀ (tl th : List R), (St.synthesize l h tl th).run (ps.map (fun p => [p.1, p.2])) =
      some (St.synthesize l h (stepRun (convStep l.length l) tl (ps.map (·.1))).1
          (stepRun (convStep h.length h) th (ps.map (·.2))).1,
        sing (List.zipWith (· + ·) (stepRun (convStep l.length l) tl (ps.map (·.1))).2
          (stepRun (convStep h.length h) th (ps.map (·.2))).2)) := by
  induction ps with
  | nil => intro tl th; rfl
  | cons p ps ih => intro tl th; simp [sing_cons, St.run, St.filter, ih, stepRun]

/-- **C07 (analysis) at registry level**: output `k` is the pair of convolutions of the input with the low- and
the high-pass kernel (samples before the first taken equal to the first) -/
theorem analyze_registry_correct (l h : List R) (hl : 1 ≤ l.length) (hh : 1 ≤ h.length) (xs : List R) :
    ∃ s' ys, (Cfg.analyze l h).init.run (sing xs) = some (s', ys) ∧ ys.length = xs.length ∧
      ∀ k x, xs[k]? = some x →
        ys[k]? = some [Spec.firAt l (xs.take (k + 1)), Spec.firAt h (xs.take (k + 1))] := by
  refine ⟨_, _, analyze_run l h xs [] [], by simp [stepRun_length], ?_⟩
  intro k x hx
  have h1 := conv_stepRun_correct l hl xs k x hx
  have h2 := conv_stepRun_correct h hh xs k x hx
  rw [List.getElem?_zipWith, h1, h2]

/-- **C07 (synthesis) at registry level**: output `k` is the sum of the convolutions of the two input streams with
the two configured kernels -/
theorem synthesize_registry_correct (l h : List R) (hl : 1 ≤ l.length) (hh : 1 ≤ h.length) (ps : List (R × R)) :
    ∃ s' ys, (Cfg.synthesize l h).init.run (ps.map (fun p => [p.1, p.2])) = some (s', sing ys) ∧
      ys.length = ps.length ∧
      ∀ k p, ps[k]? = some p →
        ys[k]? = some (Spec.firAt l ((ps.map (·.1)).take (k + 1)) + Spec.firAt h ((ps.map (·.2)).take (k + 1))) := by
  refine ⟨_, _, synthesize_run l h ps [] [], by simp [stepRun_length], ?_⟩
  intro k p hp
  have h1 := conv_stepRun_correct l hl (ps.map (·.1)) k p.1 (by simp [hp])
  have h2 := conv_stepRun_correct h hh (ps.map (·.2)) k p.2 (by simp [hp])
  rw [List.getElem?_zipWith, h1, h2]

end SignaloModel.Registry

namespace SignaloModel.Registry
open SignaloModel SignaloModel.Conv SignaloModel.Fir SignaloModel.Tables SignaloModel.Gen SignaloModel.LinOrd

theorem lowOf_length (raw : List Rat) : (lowOf raw).length = raw.length := by
  unfold lowOf normalize
  simp only
  split <;> simp

theorem altNeg_length (i : Nat) (l : List Rat) : (altNeg i l).length = l.length := by
  induction l generalizing i with
  | nil => rfl
  | cons x l ih => simp [altNeg, ih]

theorem highOf_length (low : List Rat) : (highOf low).length = low.length := by
  simp [highOf, altNeg_length]

/-- **C07 (reconstruction) at registry level**: for every provided Daubechies table, the registry's analysis filter
(kernels as `daubechies.rs` derives them) followed by the registry's synthesis filter (the reversed kernels), run on
any finite signal bounded by `B`, reproduces the signal delayed by `N − 1` within `1e-8·B` at every index `≥ N − 1`
(and the first sample before that: the edge padding) — in exact arithmetic -/
theorem daubechies_registry_reconstructs (p : Nat × List Rat) (hp : p ∈ dbTables) (xs : List Rat) (B : Rat)
    (hx : ∀ x ∈ xs, |x| ≤ B) (hB : 0 ≤ B) :
    ∃ sa ss, ∃ ps : List (Rat × Rat), ∃ ys,
      (Cfg.analyze (lowOf p.2) (highOf (lowOf p.2))).init.run (sing xs) = some (sa, ps.map (fun q => [q.1, q.2])) ∧
      (Cfg.synthesize (lowOf p.2).reverse (highOf (lowOf p.2)).reverse).init.run (ps.map (fun q => [q.1, q.2]))
        = some (ss, sing ys) ∧
      ys.length = xs.length ∧
      ∀ k y, ys[k]? = some y → |y - xs.getD (k - (p.2.length - 1)) 0| ≤ dec 1 8 * B := by
  have hlen := db_lengths p hp
  have hpos : 0 < p.2.length := by
    have : ∀ q ∈ dbTables, 0 < q.2.length := by decide +kernel
    exact this p hp
  set low := lowOf p.2 with hlow
  set high := highOf low with hhigh
  have hl1 : 1 ≤ low.length := by rw [hlow, lowOf_length]; omega
  have hh1 : 1 ≤ high.length := by rw [hhigh, highOf_length, hlow, lowOf_length]; omega
  -- the signal, zero-extended: bounded by B everywhere
  let X : Nat → Rat := fun i => xs.getD i 0
  have hX : ∀ m, |X m| ≤ B := by
    intro m
    simp only [X, List.getD]
    cases hm : xs[m]? with
    | none => simpa using hB
    | some v => exact hx v (List.mem_of_getElem? hm)
  -- the analysis run, as pairs
  let ps : List (Rat × Rat) :=
    List.zip (stepRun (convStep low.length low) ([] : List Rat) xs).2 (stepRun (convStep high.length high) ([] : List Rat) xs).2
  have hps : ps.map (fun q => [q.1, q.2]) =
      List.zipWith (fun a b => [a, b]) (stepRun (convStep low.length low) ([] : List Rat) xs).2
        (stepRun (convStep high.length high) ([] : List Rat) xs).2 := by
    simp only [ps, List.zip, List.map_zipWith]
  have hp1 : ps.map (·.1) = (stepRun (convStep low.length low) ([] : List Rat) xs).2 := by
    simp only [ps]; rw [List.map_fst_zip]; simp [stepRun_length]
  have hp2 : ps.map (·.2) = (stepRun (convStep high.length high) ([] : List Rat) xs).2 := by
    simp only [ps]; rw [List.map_snd_zip]; simp [stepRun_length]
  have hpl : ps.length = xs.length := by simp [ps, stepRun_length]
  obtain ⟨ss, ys, hrunS, hlenS, hkS⟩ := synthesize_registry_correct low.reverse high.reverse
    (by simpa using hl1) (by simpa using hh1) ps
  refine ⟨St.analyze low high (stepRun (convStep low.length low) ([] : List Rat) xs).1
    (stepRun (convStep high.length high) ([] : List Rat) xs).1, ss, ps, ys, ?_, hrunS, by rw [hlenS, hpl], ?_⟩
  · rw [hps]; exact analyze_run low high xs [] []
  · intro k y hy
    have hk : k < xs.length := by
      have := (List.getElem?_eq_some_iff.mp hy).1
      omega
    obtain ⟨q, hq⟩ : ∃ q, ps[k]? = some q := ⟨ps[k]'(by omega), List.getElem?_eq_getElem (by omega)⟩
    have hy' := hkS k q hq
    rw [hy] at hy'
    simp only [Option.some.injEq] at hy'
    -- analysis outputs as convolutions of X
    have hA : ∀ i, i ≤ k → (ps.map (·.1)).getD i 0 = convL low X i := by
      intro i hi
      have hi' : i < xs.length := by omega
      have := conv_stepRun_correct low hl1 xs i (xs[i]'hi') (List.getElem?_eq_getElem hi')
      rw [hp1]
      simp only [List.getD, this, Option.getD_some]
      exact firAt_take low xs i hi'
    have hBb : ∀ i, i ≤ k → (ps.map (·.2)).getD i 0 = convL high X i := by
      intro i hi
      have hi' : i < xs.length := by omega
      have := conv_stepRun_correct high hh1 xs i (xs[i]'hi') (List.getElem?_eq_getElem hi')
      rw [hp2]
      simp only [List.getD, this, Option.getD_some]
      exact firAt_take high xs i hi'
    have h1 : Spec.firAt low.reverse ((ps.map (·.1)).take (k + 1)) = convL low.reverse (fun m => convL low X m) k := by
      rw [firAt_take _ _ k (by simp; omega)]
      exact convL_congr _ _ _ k hA
    have h2 : Spec.firAt high.reverse ((ps.map (·.2)).take (k + 1)) = convL high.reverse (fun m => convL high X m) k := by
      rw [firAt_take _ _ k (by simp; omega)]
      exact convL_congr _ _ _ k hBb
    rw [hy', h1, h2]
    exact db_reconstructs p hp X B hX k

end SignaloModel.Registry
#print axioms SignaloModel.Registry.analyze_registry_correct
#print axioms SignaloModel.Registry.synthesize_registry_correct
#print axioms SignaloModel.Registry.daubechies_registry_reconstructs
