import SignaloModel.Proofs.DequeBounded
import Mathlib.Order.Basic
import Mathlib.Order.OrderDual
/-! Model/proofs for C04: the min filter is the max filter in the dual order; bounds = both. -/
namespace SignaloModel.Deque

variable {α : Type}

/-- `&input < value` pops from the back of the min filter -/
abbrev gtMin [LinearOrder α] : α → α → Bool := fun a b => decide (a < b)

def IsMin [LinearOrder α] (y : α) (w : List α) : Prop := y ∈ w ∧ ∀ z ∈ w, y ≤ z

def SpecMin [LinearOrder α] (N : Nat) : List α → List α → List α → Prop
  | _, [], [] => True
  | xs, x :: xs', y :: ys => IsMin y (window N (xs ++ [x])) ∧ SpecMin N (xs ++ [x]) xs' ys
  | _, _, _ => False

theorem specMax_dual [LinearOrder α] (N : Nat) (xs xs' ys : List α) :
    SpecMax (α := αᵒᵈ) N xs xs' ys ↔ SpecMin N xs xs' ys := by
  induction xs' generalizing xs ys with
  | nil => cases ys <;> simp [SpecMax, SpecMin]
  | cons x xs' ih =>
    cases ys with
    | nil => simp [SpecMax, SpecMin]
    | cons y ys =>
      simp only [SpecMax, SpecMin]
      exact and_congr Iff.rfl (ih _ _)

/-- **C04 (min filter)**: same statement as `max_correct`, in the dual order -/
theorem min_correct [LinearOrder α] {N M : Nat} (hN : 1 ≤ N) (hM : N + 1 ≤ M) (xs : List α) :
    ∃ ys, run gtMin N (some M) (init : DS α) xs = some ys ∧ SpecMin N [] xs ys := by
  obtain ⟨ys, hrun, hspec⟩ := max_correct (α := αᵒᵈ) hN hM xs
  exact ⟨ys, hrun, (specMax_dual N [] xs ys).mp hspec⟩

end SignaloModel.Deque

#print axioms SignaloModel.Deque.min_correct
