import SignaloModel.Model.Smooth
import SignaloModel.Proofs.KalmanProofs
/-! Proofs for C13 (hull), C14 (linearity, constants), C06 (hull over streams). -/
namespace SignaloModel.Smooth
open SignaloModel

variable {K : Type} [Field K] [LinearOrder K] [IsStrictOrderedRing K]

def InI (lo hi x : K) : Prop := lo ≤ x ∧ x ≤ hi
def OptInI (lo hi : K) (s : Option K) : Prop := ∀ m, s = some m → InI lo hi m

theorem mix_in (w m x lo hi : K) (hw0 : 0 ≤ w) (hw1 : w ≤ 1) (hm : InI lo hi m) (hx : InI lo hi x) :
    InI lo hi (m + ((x - m) * w)) := by
  obtain ⟨h1, h2⟩ := hm
  obtain ⟨h3, h4⟩ := hx
  constructor <;> nlinarith

theorem emaStep_in (w lo hi : K) (hw0 : 0 ≤ w) (hw1 : w ≤ 1) (s : Option K) (x : K)
    (hs : OptInI lo hi s) (hx : InI lo hi x) : InI lo hi (emaStep w s x) := by
  cases s with
  | none => exact hx
  | some m => exact mix_in w m x lo hi hw0 hw1 (hs m rfl) hx

/-- C13, EMA: every output stays in any interval that contains the samples -/
theorem ema_hull (w lo hi : K) (hw0 : 0 ≤ w) (hw1 : w ≤ 1) (xs : List K) (s : Option K)
    (hs : OptInI lo hi s) (hx : ∀ x ∈ xs, InI lo hi x) :
    ∀ y ∈ emaRun w s xs, InI lo hi y := by
  induction xs generalizing s with
  | nil => simp [emaRun]
  | cons x xs ih =>
    have h1 := emaStep_in w lo hi hw0 hw1 s x hs (hx x (by simp))
    intro y hy
    simp only [emaRun, List.mem_cons] at hy
    rcases hy with rfl | hy
    · exact h1
    · exact ih (some _) (by intro m hm; cases hm; exact h1) (fun z hz => hx z (by simp [hz])) y hy

/-- C13, exponential median: same for the three-stage cascade -/
theorem emed_hull (wpre mid wpost lo hi : K)
    (h1 : 0 ≤ wpre ∧ wpre ≤ 1) (h2 : 0 ≤ mid ∧ mid ≤ 1) (h3 : 0 ≤ wpost ∧ wpost ≤ 1)
    (xs : List K) (s : EMedState K)
    (hs : OptInI lo hi s.pre ∧ OptInI lo hi s.post ∧ OptInI lo hi s.median)
    (hx : ∀ x ∈ xs, InI lo hi x) :
    ∀ y ∈ emedRun wpre mid wpost s xs, InI lo hi y := by
  induction xs generalizing s with
  | nil => simp [emedRun]
  | cons x xs ih =>
    obtain ⟨hpre, hpost, hmed⟩ := hs
    have hmean := emaStep_in wpre lo hi h1.1 h1.2 s.pre x hpre (hx x (by simp))
    have hmd : InI lo hi (match s.median with
        | none => emaStep wpre s.pre x
        | some st => st + ((emaStep wpre s.pre x - st) * mid)) := by
      cases hm : s.median with
      | none => exact hmean
      | some st => exact mix_in mid st _ lo hi h2.1 h2.2 (hmed st hm) hmean
    have hout := emaStep_in wpost lo hi h3.1 h3.2 s.post _ hpost hmd
    intro y hy
    simp only [emedRun, List.mem_cons] at hy
    rcases hy with rfl | hy
    · exact hout
    · refine ih _ ⟨?_, ?_, ?_⟩ (fun z hz => hx z (by simp [hz])) y hy
      · intro m hm; simp only [emedStep, Option.some.injEq] at hm; rw [← hm]; exact hmean
      · intro m hm; simp only [emedStep, Option.some.injEq] at hm; rw [← hm]; exact hout
      · intro m hm; simp only [emedStep, Option.some.injEq] at hm; rw [← hm]; exact hout

/-- a constant signal is reproduced exactly (corollary of the hull with `lo = hi`) -/
theorem ema_const (w c : K) (hw0 : 0 ≤ w) (hw1 : w ≤ 1) (n : Nat) :
    ∀ y ∈ emaRun w none (List.replicate n c), y = c := by
  intro y hy
  have := ema_hull w c c hw0 hw1 (List.replicate n c) none (by intro m hm; cases hm)
    (by intro x hx; rw [List.eq_of_mem_replicate hx]; exact ⟨le_refl _, le_refl _⟩) y hy
  exact le_antisymm this.2 this.1

/-! ### alpha-beta: linear in the samples -/

section AB
variable {R : Type} [CommRing R]

/-- superposition and homogeneity: the filter run on `a·x + b·y` is `a·(run on x) + b·(run on y)` -/
theorem ab_linear (alpha beta a b : R) (xs ys : List R) (hlen : xs.length = ys.length)
    (s1 s2 s : ABState R)
    (hv : s.velocity = a * s1.velocity + b * s2.velocity)
    (hval : (s.value = none ∧ s1.value = none ∧ s2.value = none) ∨
      ∃ u1 u2, s1.value = some u1 ∧ s2.value = some u2 ∧ s.value = some (a * u1 + b * u2)) :
    abRun alpha beta s (List.zipWith (fun x y => a * x + b * y) xs ys) =
      List.zipWith (fun p q => a * p + b * q) (abRun alpha beta s1 xs) (abRun alpha beta s2 ys) := by
  induction xs generalizing ys s1 s2 s with
  | nil =>
    cases ys with
    | nil => rfl
    | cons _ _ => simp at hlen
  | cons x xs ih =>
    cases ys with
    | nil => simp at hlen
    | cons y ys =>
      simp only [List.length_cons, Nat.add_right_cancel_iff] at hlen
      simp only [List.zipWith_cons_cons, abRun]
      rcases hval with ⟨h0, h1, h2⟩ | ⟨u1, u2, h1, h2, h0⟩
      · have e : (abStep alpha beta s (a * x + b * y)).2 =
            a * (abStep alpha beta s1 x).2 + b * (abStep alpha beta s2 y).2 := by
          simp [abStep, h0, h1, h2]
        rw [e]
        congr 1
        apply ih ys hlen
        · simp [abStep, h0, h1, h2, hv]
        · right; exact ⟨x, y, by simp [abStep, h1], by simp [abStep, h2], by simp [abStep, h0]⟩
      · have e : (abStep alpha beta s (a * x + b * y)).2 =
            a * (abStep alpha beta s1 x).2 + b * (abStep alpha beta s2 y).2 := by
          simp only [abStep, h0, h1, h2, hv]; ring
        rw [e]
        congr 1
        apply ih ys hlen
        · simp only [abStep, h0, h1, h2, hv]; ring
        · right
          refine ⟨u1 + s1.velocity + alpha * (x - (u1 + s1.velocity)),
            u2 + s2.velocity + alpha * (y - (u2 + s2.velocity)),
            by simp [abStep, h1], by simp [abStep, h2], ?_⟩
          simp only [abStep, h0, h1, h2, hv, Option.some.injEq]; ring

/-- coefficients sum to one: a constant signal is reproduced, with zero velocity -/
theorem ab_const (alpha beta c : R) (n : Nat) :
    abRun alpha beta { velocity := 0, value := none } (List.replicate n c) = List.replicate n c := by
  have key : ∀ m, abRun alpha beta { velocity := 0, value := some c } (List.replicate m c)
      = List.replicate m c := by
    intro m
    induction m with
    | zero => rfl
    | succ m ih =>
      simp only [List.replicate_succ, abRun]
      have hs : abStep alpha beta { velocity := 0, value := some c } c =
          ({ velocity := 0, value := some c }, c) := by
        simp [abStep]
      rw [hs]; simp [ih]
  cases n with
  | zero => rfl
  | succ n =>
    simp only [List.replicate_succ, abRun]
    have hs : abStep alpha beta { velocity := (0 : R), value := none } c =
        ({ velocity := 0, value := some c }, c) := by simp [abStep]
    rw [hs]; simp [key n]

end AB

/-! ### Kalman: hull and non-negative covariance over whole streams -/

theorem kalman_hull (r q lo hi : K) (hr : 0 ≤ r) (hq : 0 < q) (zs : List (K × K))
    (s : KState K) (hcov : 0 ≤ s.cov) (hval : OptInI lo hi s.value)
    (hz : ∀ p ∈ zs, InI lo hi p.1) :
    ∀ y ∈ kalmanRun { r := r, q := q, a := 1, b := 0, c := 1 } s zs, InI lo hi y := by
  induction zs generalizing s with
  | nil => simp [kalmanRun]
  | cons p zs ih =>
    obtain ⟨z, u⟩ := p
    have hzin := hz (z, u) (by simp)
    -- one step keeps the estimate in the interval and the covariance non-negative
    have hstep : InI lo hi (kalmanStep { r := r, q := q, a := 1, b := 0, c := 1 } s z u).2 ∧
        0 ≤ (kalmanStep { r := r, q := q, a := 1, b := 0, c := 1 } s z u).1.cov ∧
        (kalmanStep { r := r, q := q, a := 1, b := 0, c := 1 } s z u).1.value =
          some (kalmanStep { r := r, q := q, a := 1, b := 0, c := 1 } s z u).2 := by
      cases hv : s.value with
      | none =>
        have : s = { cov := s.cov, value := none } := by cases s; simp_all
        rw [this]
        simp only [kalmanStep, div_one, mul_one]
        exact ⟨hzin, hq.le, trivial⟩
      | some x =>
        have : s = { cov := s.cov, value := some x } := by cases s; simp_all
        rw [this]
        have h := kalman_step_hull r q hr hq s.cov x z u lo hi hcov (hval x hv) hzin
        simp only at h
        exact ⟨h.1, h.2, by simp [kalmanStep]⟩
    obtain ⟨h1, h2, h3⟩ := hstep
    intro y hy
    simp only [kalmanRun, List.mem_cons] at hy
    rcases hy with rfl | hy
    · exact h1
    · exact ih _ h2 (by intro m hm; rw [h3] at hm; cases hm; exact h1)
        (fun p hp => hz p (by simp [hp])) y hy

end SignaloModel.Smooth

#print axioms SignaloModel.Smooth.emed_hull
#print axioms SignaloModel.Smooth.ab_linear
#print axioms SignaloModel.Smooth.kalman_hull
