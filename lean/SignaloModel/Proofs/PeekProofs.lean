import SignaloModel.Proofs.Sources2Proofs
/-!
C10, `Peek`: for **every interleaving** of `peek` and `pull`, pulls return the inner sequence in order and
every peek returns the next item without consuming it (and `none` at and after the end).
-/
namespace SignaloModel.Sources

variable {α : Type}

/-- answers of `Peek` over a machine to a log of operations (`true` = `peek`, `false` = `source`) -/
def runPeek (s : Src α) : PeekState s → List Bool → List (Option α)
  | _, [] => []
  | p, true :: rest => (peekOp s p).1 :: runPeek s (peekOp s p).2 rest
  | p, false :: rest => (peekPull s p).1 :: runPeek s (peekPull s p).2 rest

/-- specification: with `k` items consumed so far, both operations answer item `k`; only a pull consumes -/
def peekSpec (c : Content α) : Nat → List Bool → List (Option α)
  | _, [] => []
  | k, true :: rest => c.answer k :: peekSpec c k rest
  | k, false :: rest => c.answer k :: peekSpec c (k + 1) rest

theorem Content.skip_answer (c : Content α) (k i : Nat) : (c.skip k).answer i = c.answer (k + i) := by
  cases c with
  | fin xs => simp [Content.skip, Content.answer]
  | inf f => simp [Content.skip, Content.answer, Nat.add_comm]

theorem Content.skip_tail (c : Content α) (k : Nat) : (c.skip k).tail = c.skip (k + 1) := by
  cases c with
  | fin xs => simp [Content.skip, Content.tail, List.drop_drop]
  | inf f =>
    simp only [Content.skip, Content.tail]
    congr 1; funext i; congr 1; omega

/-- the state of `Peek` after consuming `k` items: either nothing is buffered and the inner machine is `k` items
in, or item `k` is buffered and the inner machine is `k + 1` items in -/
def PeekInv (s : Src α) (c : Content α) (k : Nat) (p : PeekState s) : Prop :=
  (p.peeked = none ∧ Implements s p.st (c.skip k)) ∨
  (p.peeked = some (c.answer k) ∧ Implements s p.st (c.skip (k + 1)))

theorem runPeek_correct (s : Src α) (c : Content α) (log : List Bool) :
    ∀ (k : Nat) (p : PeekState s), PeekInv s c k p → runPeek s p log = peekSpec c k log := by
  induction log with
  | nil => intro k p _; rfl
  | cons op rest ih =>
    intro k p hinv
    cases op with
    | true =>
      simp only [runPeek, peekSpec]
      rcases hinv with ⟨hp, himp⟩ | ⟨hp, himp⟩
      · obtain ⟨h0, ht⟩ := (implements_step s p.st _).mp himp
        have ha : (s.next p.st).1 = c.answer k := by
          rw [h0, Content.skip_answer]; simp
        have hstep : peekOp s p = ((s.next p.st).1, { st := (s.next p.st).2, peeked := some (s.next p.st).1 }) := by
          simp [peekOp, hp]
        rw [hstep]
        simp only
        rw [ha]
        congr 1
        apply ih k
        right
        refine ⟨rfl, ?_⟩
        rw [← Content.skip_tail]; exact ht
      · have hstep : peekOp s p = (c.answer k, p) := by simp [peekOp, hp]
        rw [hstep]
        congr 1
        exact ih k p (Or.inr ⟨hp, himp⟩)
    | false =>
      simp only [runPeek, peekSpec]
      rcases hinv with ⟨hp, himp⟩ | ⟨hp, himp⟩
      · obtain ⟨h0, ht⟩ := (implements_step s p.st _).mp himp
        have ha : (s.next p.st).1 = c.answer k := by
          rw [h0, Content.skip_answer]; simp
        have hstep : peekPull s p = ((s.next p.st).1, { st := (s.next p.st).2, peeked := none }) := by
          simp [peekPull, hp]
        rw [hstep]
        simp only
        rw [ha]
        congr 1
        apply ih (k + 1)
        left
        refine ⟨rfl, ?_⟩
        rw [← Content.skip_tail]; exact ht
      · have hstep : peekPull s p = (c.answer k, { p with peeked := none }) := by simp [peekPull, hp]
        rw [hstep]
        congr 1
        exact ih (k + 1) _ (Or.inl ⟨rfl, himp⟩)

/-- **C10 (peek)**: `Peek` over any machine that implements content `c`, under any interleaving of `peek` and
`source`: pulls yield `c` in order, peeks yield the next item without consuming it -/
theorem peek_correct (s : Src α) (st : s.σ) (c : Content α) (h : Implements s st c) (log : List Bool) :
    runPeek s { st := st, peeked := none } log = peekSpec c 0 log :=
  runPeek_correct s c log 0 _ (Or.inl ⟨rfl, by rw [Content.skip_zero]; exact h⟩)

end SignaloModel.Sources

#print axioms SignaloModel.Sources.peek_correct
