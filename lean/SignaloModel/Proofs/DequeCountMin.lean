import SignaloModel.Proofs.DequeCount
set_option linter.unusedSectionVars false
/-!
C19 (moving min, moving bounds): the closed form of the owned count, by order duality from `taps_count_run`.
-/
namespace SignaloModel.Deque

variable {α : Type}

/-- position `j` of `xs` lies in the last `N` samples and nothing at or after it is smaller -/
def SuffixMinAt [LinearOrder α] (N : Nat) (xs : List α) (j : Nat) (w : α) : Prop :=
  xs[j]? = some w ∧ xs.length ≤ j + N ∧ ∀ i w', j ≤ i → xs[i]? = some w' → w ≤ w'

theorem suffixMaxAt_dual [LinearOrder α] (N : Nat) (xs : List α) (j : Nat) (w : α) :
    SuffixMaxAt (α := αᵒᵈ) N xs j w ↔ SuffixMinAt N xs j w := Iff.rfl

end SignaloModel.Deque

namespace SignaloModel.Registry
open SignaloModel SignaloModel.Deque

variable {α : Type} [LinearOrder α] [Add α] [Sub α] [Mul α] [Div α] [Neg α] [OfNat α 0] [OfNat α 1]
  [BEq α] [Median.POrd α]

open Classical in
/-- **C19 (moving min) at registry level, closed form** -/
theorem owned_min_registry_count (N : Nat) (hN : 1 ≤ N) (hM : N + 1 ≤ usizeMax) (xs : List α) :
    ∃ s' ys, (Cfg.min N : Cfg α).init.run (sing xs) = some (s', ys) ∧
      s'.owned = ((Finset.range xs.length).filter (fun j => ∃ w, SuffixMinAt N xs j w)).card := by
  obtain ⟨r, hrun, hb⟩ := taps_count_run (α := αᵒᵈ) hN hM xs
  have h1 := run_of_stepO (St.min N) (fun s x => Deque.step ltB N (some usizeMax) s x)
    (by intro s x; simp only [St.filter]; cases Deque.step ltB N (some usizeMax) s x <;> simp) Deque.init xs
  have hgt : (ltB : α → α → Bool) = gtMin := rfl
  rw [hgt] at h1
  have hrun' : stepRunO (fun s x => Deque.step gtMin N (some usizeMax) s x) (Deque.init : DS α) xs = some r := hrun
  have h1' : (St.min N (Deque.init : DS α)).run (sing xs) = some (St.min N r.1, sing r.2) := by
    rw [h1, hrun']; rfl
  refine ⟨St.min N r.1, sing r.2, h1', ?_⟩
  have hb' : r.1.taps.length =
      ((Finset.range xs.length).filter (fun j => ∃ w, SuffixMinAt N xs j w)).card := by
    rw [hb]
    congr 1
  exact hb'

end SignaloModel.Registry

#print axioms SignaloModel.Registry.owned_min_registry_count
