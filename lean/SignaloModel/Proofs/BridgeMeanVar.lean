import SignaloModel.Proofs.DiffIntVarProofs
import SignaloModel.Proofs.BridgeMean
/-!
C16 at the level the driver executes. Exponential variant: full (mean equality here; non-negativity and offset
invariance in `DiffIntVarProofs`). Sliding variant: mean equality, non-negativity and zero variance on constant
signals are proved (`…_partial`: everything but the offset clause); the offset clause is FALSE of the code —
`smv_offset_counterexample` (known finding `sliding-mv-reads-sum`).
-/
namespace SignaloModel.DIV
open SignaloModel SignaloModel.Registry

variable {K : Type} [Field K] [LinearOrder K] [IsStrictOrderedRing K]

/-- **C16 (exponential), mean clause**: the mean output is exactly the exponential mean filter's output, and the
inner mean state evolves as that filter's state -/
theorem emv_mean_eq (w : K) (s : EMV K) (x : K) :
    (emvStep w s x).2.1 = Smooth.emaStep w s.mean x ∧ (emvStep w s x).1.mean = some (Smooth.emaStep w s.mean x) :=
  ⟨rfl, rfl⟩

/-- **C16 (sliding), mean clause**: the mean output is exactly the moving-average filter's output on the same
samples, and the inner mean filter's state evolves as that filter's state -/
theorem smv_mean_eq (N : Nat) (s : Sinks.SM K × Sinks.SM K) (x : K) :
    (smvStep N s x).2.1 = (Sinks.smStep N s.1 x).2 ∧ (smvStep N s x).1.1 = (Sinks.smStep N s.1 x).1 :=
  ⟨rfl, rfl⟩

/-- the variance sub-filter is a moving average fed the products `|x - old| * |x - new|` -/
theorem smv_var_is_mean (N : Nat) (s : Sinks.SM K × Sinks.SM K) (x : K) :
    ∃ sq : K, 0 ≤ sq ∧ (smvStep N s x).2.2 = (Sinks.smStep N s.2 sq).2 ∧
      (smvStep N s x).1.2 = (Sinks.smStep N s.2 sq).1 := by
  refine ⟨absG (x - s.1.mean.getD x) * absG (x - (Sinks.smStep N s.1 x).2), ?_, rfl, rfl⟩
  rw [absG_eq, absG_eq]
  exact mul_nonneg (abs_nonneg _) (abs_nonneg _)

theorem list_sum_nonneg (l : List K) (h : ∀ v ∈ l, 0 ≤ v) : 0 ≤ l.sum := by
  induction l with
  | nil => simp
  | cons a l ih =>
    simp only [List.sum_cons]
    exact add_nonneg (h a (by simp)) (ih (fun v hv => h v (by simp [hv])))

theorem window_mean_nonneg (N : Nat) (l : List K) (h : ∀ v ∈ l, 0 ≤ v) :
    0 ≤ (Sinks.window N l).sum / ((Sinks.window N l).length : K) := by
  apply div_nonneg
  · apply list_sum_nonneg
    intro v hv
    exact h v (List.mem_of_mem_drop hv)
  · exact Nat.cast_nonneg _

/-- **C16 (sliding), non-negativity**: from any state whose variance sub-filter satisfies the moving-average
invariant over a history of non-negative values (in particular from `Default`), every variance output is `≥ 0` -/
theorem smv_var_nonneg (N : Nat) (hN : 1 ≤ N) (xs : List K) :
    ∀ (s : Sinks.SM K × Sinks.SM K) (sqs : List K), Sinks.MInv N s.2 sqs → (∀ v ∈ sqs, 0 ≤ v) →
      ∀ p ∈ smvRun N s xs, 0 ≤ p.2 := by
  induction xs with
  | nil => intro s sqs _ _ p hp; simp [smvRun] at hp
  | cons x xs ih =>
    intro s sqs hinv hnn p hp
    obtain ⟨sq, hsq, hout, hst⟩ := smv_var_is_mean N s x
    obtain ⟨hinv', hval⟩ := Sinks.minv_step N hN s.2 sqs sq hinv
    have hnn' : ∀ v ∈ sqs ++ [sq], 0 ≤ v := by
      intro v hv
      rcases List.mem_append.mp hv with h | h
      · exact hnn v h
      · simp at h; rw [h]; exact hsq
    simp only [smvRun, List.mem_cons] at hp
    rcases hp with rfl | hp
    · rw [hout, hval]; exact window_mean_nonneg N _ hnn'
    · exact ih _ (sqs ++ [sq]) (by rw [hst]; exact hinv') hnn' p hp

/-- **C16 (sliding), constants**: a constant signal has zero variance from the first sample on (this needs the
repaired moving average: its output on a constant signal is that constant) -/
theorem smv_var_const (N : Nat) (hN : 1 ≤ N) (c : K) (n : Nat) :
    ∀ (s : Sinks.SM K × Sinks.SM K) (pre zs : List K), Sinks.MInv N s.1 pre → (∀ v ∈ pre, v = c) →
      Sinks.MInv N s.2 zs → (∀ v ∈ zs, v = 0) →
      ∀ p ∈ smvRun N s (List.replicate n c), p.2 = 0 := by
  induction n with
  | zero => intro s pre zs _ _ _ _ p hp; simp [smvRun] at hp
  | succ n ih =>
    intro s pre zs h1 hc h2 hz p hp
    obtain ⟨h1', hmean⟩ := Sinks.minv_step N hN s.1 pre c h1
    -- the mean output on a constant history is the constant
    have hwin : ∀ v ∈ Sinks.window N (pre ++ [c]), v = c := by
      intro v hv
      have := List.mem_of_mem_drop hv
      rcases List.mem_append.mp this with h | h
      · exact hc v h
      · simpa using h
    have hlen : 0 < (Sinks.window N (pre ++ [c])).length := by
      rw [Sinks.window_length]; simp; omega
    have hmean_c : (Sinks.smStep N s.1 c).2 = c := by
      rw [hmean]
      have hsum : (Sinks.window N (pre ++ [c])).sum = ((Sinks.window N (pre ++ [c])).length : K) * c := by
        have : Sinks.window N (pre ++ [c]) = List.replicate (Sinks.window N (pre ++ [c])).length c :=
          List.eq_replicate_iff.mpr ⟨rfl, hwin⟩
        rw [this]; simp
      rw [hsum]
      have : ((Sinks.window N (pre ++ [c])).length : K) ≠ 0 := by exact_mod_cast hlen.ne'
      field_simp
    have hsq : absG (c - s.1.mean.getD c) * absG (c - (Sinks.smStep N s.1 c).2) = 0 := by
      rw [hmean_c]; simp [absG]
    obtain ⟨h2', hvar⟩ := Sinks.minv_step N hN s.2 zs 0 h2
    have hz' : ∀ v ∈ zs ++ [(0 : K)], v = 0 := by
      intro v hv
      rcases List.mem_append.mp hv with h | h
      · exact hz v h
      · simpa using h
    have hvar0 : (Sinks.smStep N s.2 0).2 = 0 := by
      rw [hvar]
      have : (Sinks.window N (zs ++ [0])).sum = 0 := by
        apply List.sum_eq_zero
        intro v hv
        exact hz' v (List.mem_of_mem_drop hv)
      rw [this]; simp
    simp only [List.replicate_succ, smvRun, List.mem_cons] at hp
    rcases hp with rfl | hp
    · simp only [smvStep, hsq]; exact hvar0
    · refine ih _ (pre ++ [c]) (zs ++ [0]) ?_ ?_ ?_ hz' p hp
      · exact h1'
      · intro v hv
        rcases List.mem_append.mp hv with h | h
        · exact hc v h
        · simpa using h
      · simp only [smvStep, hsq]; exact h2'

end SignaloModel.DIV

namespace SignaloModel.DIV

/-- **C16 (sliding), the offset clause is false of the code**: width 3 on `1, 2, 4` and on the same signal
offset by 100 — the third variances are `13/18` and `331/6` -/
theorem smv_offset_counterexample :
    ((smvRun 3 (Sinks.smInit, Sinks.smInit) ([1, 2, 4] : List Rat)).map (·.2),
     (smvRun 3 (Sinks.smInit, Sinks.smInit) ([101, 102, 104] : List Rat)).map (·.2))
      = ([0, 1/4, 13/18], [0, 1/4, 331/6]) := by
  simp only [smvRun, smvStep, Sinks.smStep, Sinks.smInit, absG, List.map]
  norm_num

end SignaloModel.DIV

#print axioms SignaloModel.DIV.smv_var_nonneg
#print axioms SignaloModel.DIV.smv_var_const
#print axioms SignaloModel.DIV.smv_offset_counterexample
