import SignaloModel.Proofs.MedianMain
/-! C02 (total-order clause) on the list-level model: prototype of the property theorem. -/
namespace SignaloModel.Median

variable {α : Type}

/-- the element of rank ⌊(m-1)/2⌋ in ascending order -/
def lowerMedian [POrd α] (w : List α) : Option α :=
  (w.mergeSort (fun a b => POrd.le a b))[(w.length - 1) / 2]?

/-- specification: after each sample, the lower median of the window `push`ed so far -/
def specRun [POrd α] (N : Nat) : List α → List α → List (Option α)
  | _, [] => []
  | ws, x :: xs => lowerMedian (push N ws x) :: specRun N (push N ws x) xs

theorem sorted_unique [POrd α] [TotalOrd α] (vs ws : List α) (hs : vs.Pairwise LeP)
    (hp : vs.Perm ws) : vs = ws.mergeSort (fun a b => POrd.le a b) := by
  apply List.Perm.eq_of_pairwise (le := LeP)
  · intro a b _ _ h1 h2; exact TotalOrd.antisymm a b h1 h2
  · exact hs
  · apply List.pairwise_mergeSort
    · intro a b c h1 h2; exact TotalOrd.trans a b c h1 h2
    · intro a b
      rcases TotalOrd.total a b with h | h <;> simp [h]
  · exact hp.trans (List.mergeSort_perm ws _).symm

theorem run_correct [POrd α] [TotalOrd α] (N : Nat) (xs : List α) :
    ∀ (s : MS α) (ws vs : List α), Inv N s ws vs →
      ∃ ys, run s xs = some ys ∧ ys.map some = specRun N ws xs := by
  induction xs with
  | nil => intro s ws vs _; exact ⟨[], rfl, rfl⟩
  | cons x xs ih =>
    intro s ws vs h
    obtain ⟨s', y, vs', hstep, hinv', hy⟩ := inv_step h x
    obtain ⟨ys, hrun, hys⟩ := ih s' _ _ hinv'
    refine ⟨y :: ys, ?_, ?_⟩
    · simp [run, hstep, hrun]
    · have hm : lowerMedian (push N ws x) = some y := by
        unfold lowerMedian
        rw [← sorted_unique vs' _ hinv'.2 hinv'.1.perm]
        exact hy
      simp [specRun, hm, hys]

/-- **C02, total-order clause, on the list-level model**: for every width `N ≥ 1` and every input
sequence the filter never panics and its `k`-th output is the lower median of the window. -/
theorem median_correct [POrd α] [TotalOrd α] (N : Nat) (hN : 0 < N) (xs : List α) :
    ∃ ys, run (init N : MS α) xs = some ys ∧ ys.map some = specRun N [] xs :=
  run_correct N xs _ _ _ (inv_init N hN)

/-- outputs are members of the window, position by position -/
def MemRun (N : Nat) : List α → List α → List α → Prop
  | _, [], [] => True
  | ws, x :: xs, y :: ys => y ∈ push N ws x ∧ MemRun N (push N ws x) xs ys
  | _, _, _ => False

theorem run_robust [POrd α] [DualOrd α] (N : Nat) (xs : List α) :
    ∀ (s : MS α) (ws vs : List α), InvP N s ws vs →
      ∃ ys, run s xs = some ys ∧ MemRun N ws xs ys := by
  induction xs with
  | nil => intro s ws vs _; exact ⟨[], rfl, trivial⟩
  | cons x xs ih =>
    intro s ws vs h
    obtain ⟨s', y, q, hstep, hinv', hy⟩ := invP_step h x
    obtain ⟨ys, hrun, hys⟩ := ih s' _ _ hinv'
    refine ⟨y :: ys, by simp [run, hstep, hrun], ?_, hys⟩
    exact hinv'.perm.mem_iff.mp (List.mem_of_getElem? hy)

/-- **C02, robustness clause, on the list-level model**: for any comparison that is merely dual
(`a >= b ⇔ b <= a`, e.g. floats with NaN) the filter never panics and every output is one of the
samples currently in the window. -/
theorem median_robust [POrd α] [DualOrd α] (N : Nat) (hN : 0 < N) (xs : List α) :
    ∃ ys, run (init N : MS α) xs = some ys ∧ MemRun N [] xs ys :=
  run_robust N xs _ _ _ (invP_init N hN)

/-- the `push`ed window is the last `min k N` samples -/
theorem push_lastN (N : Nat) (hN : 0 < N) (pre : List α) (x : α) :
    push N (pre.drop (pre.length - N)) x = (pre ++ [x]).drop ((pre ++ [x]).length - N) := by
  simp only [push, List.length_drop, List.length_append, List.length_singleton]
  by_cases h : pre.length < N
  · have h1 : pre.length - N = 0 := by omega
    have h2 : pre.length + 1 - N = 0 := by omega
    simp [h1, h2, h]
  · have h1 : ¬ (pre.length - (pre.length - N) < N) := by omega
    rw [if_neg h1, List.drop_drop]
    have : pre.length + 1 - N = pre.length - N + 1 := by omega
    rw [this, List.drop_append_of_le_length (by omega)]

theorem window_eq_lastN_aux (N : Nat) (hN : 0 < N) (xs pre : List α) :
    xs.foldl (push N) (pre.drop (pre.length - N))
      = (pre ++ xs).drop ((pre ++ xs).length - N) := by
  induction xs generalizing pre with
  | nil => simp
  | cons x xs ih =>
    rw [List.foldl_cons, push_lastN N hN, ih (pre ++ [x])]
    simp

theorem window_eq_lastN (N : Nat) (hN : 0 < N) (xs : List α) :
    xs.foldl (push N) [] = xs.drop (xs.length - N) := by
  have := window_eq_lastN_aux N hN xs []
  simpa using this

instance : DualOrd Int := ⟨by intro a b; simp [POrd.le, POrd.ge]⟩
instance : TotalOrd Int where
  total := by intro a b; simp [POrd.le]; omega
  trans := by intro a b c; simp [POrd.le]; omega
  antisymm := by intro a b; simp [POrd.le]; omega

/-- non-vacuity: the hypotheses are met by `Int`, and the theorem computes -/
example : ∃ ys, run (init 4 : MS Int) [10, 20, 30, 100, 30, 20, 10] = some ys ∧
    ys.map some = specRun 4 [] [10, 20, 30, 100, 30, 20, 10] :=
  median_correct 4 (by decide) _

end SignaloModel.Median

#print axioms SignaloModel.Median.median_correct
#print axioms SignaloModel.Median.median_robust
#print axioms SignaloModel.Median.window_eq_lastN
