import SignaloModel.Proofs.DequeSuffix
set_option linter.unusedSectionVars false
/-!
C04 / C19: the *exact* content of the moving-max deque. `taps_suffixMax_run` says every entry is a suffix maximum
of the history inside the window; here the converse is added (ties included: the implementation pops only entries
*strictly* smaller than the input), so the deque is, as a list in arrival order, precisely the suffix-maximum
records of the last `min k N` samples — its length is therefore a function of the input history alone.
-/
namespace SignaloModel.Deque

variable {α : Type}

/-- position `j` of `xs` lies in the last `N` samples and nothing at or after it is greater -/
def SuffixMaxAt [LinearOrder α] (N : Nat) (xs : List α) (j : Nat) (w : α) : Prop :=
  xs[j]? = some w ∧ xs.length ≤ j + N ∧ ∀ i w', j ≤ i → xs[i]? = some w' → w' ≤ w

/-- every suffix maximum inside the window is held (with its timestamp) -/
def Full [LinearOrder α] (N : Nat) (s : DS α) (xs : List α) : Prop :=
  ∀ j w, SuffixMaxAt N xs j w → (w, j) ∈ s.taps

theorem full_init [LinearOrder α] (N : Nat) : Full N (init : DS α) [] := by
  intro j w h; simp [SuffixMaxAt] at h

/-- one unbounded step preserves completeness -/
theorem stepU_full [LinearOrder α] {N : Nat} (hN : 1 ≤ N) {s : DS α} {xs : List α}
    (h : InvU N s xs) (hfull : Full N s xs) (x : α) (s' : DS α) (y : α)
    (hs' : step gtMax N none s x = some (s', y)) : Full N s' (xs ++ [x]) := by
  obtain ⟨htime, hincr, hmono, htap, hdom⟩ := h
  obtain ⟨r1, hr1, hsuf1, hlt1, hkeep1⟩ :=
    expire_spec N s.time s.taps (fun p hp => Nat.le_of_lt (htap p hp).1) hincr
  obtain ⟨r2, hr2, hpre2, hge2, hdrop2⟩ :=
    popBack_spec x r1 (hmono.sublist hsuf1.sublist)
  have hsub2 : r2.Sublist s.taps := hpre2.sublist.trans hsuf1.sublist
  have hmem2 : ∀ p ∈ r2, p ∈ s.taps := fun p hp => hsub2.subset hp
  have hmem21 : ∀ p ∈ r2, p ∈ r1 := fun p hp => hpre2.sublist.subset hp
  have hlen : r2.length ≤ N - 1 := by
    have hinc : (r2.map (·.2)).Pairwise (· < ·) := by
      rw [List.pairwise_map]; exact hincr.sublist hsub2
    have := length_le_of_increasing (r2.map (·.2)) (s.time + 1 - N) s.time hinc (by
      intro a ha
      obtain ⟨p, hp, rfl⟩ := List.mem_map.mp ha
      have h1 := hlt1 p (hmem21 p hp)
      have h2 := (htap p (hmem2 p hp)).1
      omega)
    simp at this; omega
  have hpush : pushBack N r2 (x, s.time) = r2 ++ [(x, s.time)] := by
    unfold pushBack
    rw [if_neg (by omega), if_neg (by omega)]
  have htaps : s'.taps = r2 ++ [(x, s.time)] := by
    simp only [step, hr1, hr2, hpush, Option.bind_eq_bind, Option.bind_some] at hs'
    cases hh : (r2 ++ [(x, s.time)]).head? with
    | none => simp [hh] at hs'
    | some p0 =>
      simp only [hh, Option.some.injEq, Prod.mk.injEq] at hs'
      rw [← hs'.1]
  intro j w ⟨hj, hjN, hsm⟩
  rw [htaps]
  simp only [List.length_append, List.length_singleton] at hjN
  by_cases hjt : j < xs.length
  · rw [List.getElem?_append_left hjt] at hj
    have hold : (w, j) ∈ s.taps := hfull j w ⟨hj, by omega, fun i w' hi hw' =>
      hsm i w' hi (by
        have hi' : i < xs.length := (List.getElem?_eq_some_iff.mp hw').1
        rw [List.getElem?_append_left hi']; exact hw')⟩
    have h1 : (w, j) ∈ r1 := hkeep1 _ hold (by simp only; omega)
    rcases hdrop2 _ h1 with h2 | hlt
    · exact List.mem_append_left _ h2
    · have hx : x ≤ w := hsm xs.length x (by omega) (by simp)
      exact absurd hlt (not_lt.mpr hx)
  · have hlen' : j < (xs ++ [x]).length := (List.getElem?_eq_some_iff.mp hj).1
    simp at hlen'
    have hjeq : j = xs.length := by omega
    subst hjeq
    simp at hj
    subst hj
    simp [htime]

/-- the bounded (rebasing) run stays a time shift of a state satisfying the invariant *and* completeness -/
theorem runB_state_full [LinearOrder α] {N M : Nat} (hN : 1 ≤ N) (hM : N + 1 ≤ M) (xs' : List α) :
    ∀ (sB sU : DS α) (d : Nat) (xs : List α), InvU N sU xs → Full N sU xs → sU = shiftS d sB → sB.time ≤ M →
      ∃ r, Registry.stepRunO (fun s x => step gtMax N (some M) s x) sB xs' = some r ∧
        ∃ sU' d', InvU N sU' (xs ++ xs') ∧ Full N sU' (xs ++ xs') ∧ sU' = shiftS d' r.1 := by
  induction xs' with
  | nil =>
    intro sB sU d xs hinv hfull hrel _
    exact ⟨(sB, []), rfl, sU, d, by simpa using hinv, by simpa using hfull, hrel⟩
  | cons x xs' ih =>
    intro sB sU d xs hinv hfull hrel hsB
    obtain ⟨sU', y, hstepU, hinv', _, _, hyoungU⟩ := stepU_correct hN hinv x
    have hfull' := stepU_full hN hinv hfull x sU' y hstepU
    rw [hrel, step_shift] at hstepU
    cases hB1 : step gtMax N none sB x with
    | none => simp [hB1] at hstepU
    | some r =>
      obtain ⟨sB1, y1⟩ := r
      simp only [hB1, Option.map_some, Option.some.injEq, Prod.mk.injEq] at hstepU
      obtain ⟨hsU', hy⟩ := hstepU
      subst hy
      have hyoungB : ∀ p ∈ sB1.taps, sB.time < p.2 + N := by
        intro p hp
        have := hyoungU (p.1, p.2 + d) (by
          rw [← hsU']; simp only [shiftS, shiftL]
          exact List.mem_map.mpr ⟨p, hp, rfl⟩)
        rw [hrel] at this
        simp only [shiftS] at this
        omega
      obtain ⟨sB', d', hstepB, hrel', hsB'⟩ := tick_rel gtMax N M hM sB sB1 x y1 hsB hB1 hyoungB
      have hrel'' : sU' = shiftS (d' + d) sB' := by
        rw [← hsU', hrel', shiftS_shiftS]
      obtain ⟨r, hrun, sU'', d'', hinv'', hfull'', hrel'''⟩ :=
        ih sB' sU' (d' + d) (xs ++ [x]) hinv' hfull' hrel'' hsB'
      refine ⟨(r.1, y1 :: r.2), ?_, sU'', d'', by simpa [List.append_assoc] using hinv'',
        by simpa [List.append_assoc] using hfull'', hrel'''⟩
      simp [Registry.stepRunO, hstepB, hrun]

/-- **C04/C19 (max deque), exact content**: from `Default`, for every counter bound `M > N` and every history, the
deque is — up to the uniform offset `d` by which the `usize` clock has been rebased so far — exactly the set of
`(sample, arrival index)` pairs that are suffix maxima of the history inside the window; timestamps strictly
increase along the deque, so the list itself (and its length, the number of samples the filter owns) is determined
by the input history alone -/
theorem taps_exact_run [LinearOrder α] {N M : Nat} (hN : 1 ≤ N) (hM : N + 1 ≤ M) (xs : List α) :
    ∃ r d, Registry.stepRunO (fun s x => step gtMax N (some M) s x) (init : DS α) xs = some r ∧
      (r.1.taps.Pairwise (fun a b => a.2 < b.2)) ∧
      ∀ j w, (w, j) ∈ shiftL d r.1.taps ↔ SuffixMaxAt N xs j w := by
  obtain ⟨r, hrun, sU', d', hinv, hfull, hrel⟩ :=
    runB_state_full hN hM xs init init 0 [] (invU_init N) (full_init N)
      (by simp [shiftS, shiftL, init]) (by simp [init])
  simp only [List.nil_append] at hinv hfull
  have htaps : sU'.taps = shiftL d' r.1.taps := by rw [hrel]; rfl
  refine ⟨r, d', hrun, ?_, ?_⟩
  · have := hinv.incr
    rw [htaps] at this
    simp only [shiftL, List.pairwise_map] at this
    exact this.imp (by intro a b h; omega)
  · intro j w
    rw [← htaps]
    constructor
    · intro hmem
      exact tap_suffixMax_of_invU hinv _ hmem
    · exact hfull j w

/-- non-vacuity with ties: window 4 over `[9, 3, 3, 1, 3]` — the deque keeps all three `3`s of the window (equal
samples are not popped) and nothing else -/
example : (Registry.stepRunO (fun s x => step (gtMax (α := Nat)) 4 (some 9) s x) init [9, 3, 3, 1, 3]).map
    (fun r => r.1.taps) = some [(3, 1), (3, 2), (3, 4)] := by decide

end SignaloModel.Deque

#print axioms SignaloModel.Deque.taps_exact_run
