import SignaloModel.Proofs.BridgeMean
import SignaloModel.Model.IntVal
import Mathlib.Tactic.Ring
import Mathlib.Tactic.Linarith
/-!
C03 at a bounded machine integer ("evaluated in the sample type's own arithmetic" includes its bounds): every quantity
the moving average forms on the way to its output — the updated window sum, the sum with the evicted sample taken out,
the grown weight — is the SUM or the LENGTH of a contiguous block of at most `N` samples of the signal. So wherever all
those block sums and `N` itself are representable, no step of the filter leaves the type's range, and the model's
unbounded integers compute what the machine type computes. (A filter that forms anything else on the way — a weight
grown once more than needed, the difference of two samples — needs more room than the property's formula does.)
-/
set_option linter.unusedSimpArgs false
namespace SignaloModel.Sinks
open SignaloModel.Registry (stepRun)

/-- what `Mean::filter` computes before the division, in the order it computes it -/
def smIntermediates (N : Nat) (s : SM Int) (x : Int) : List Int :=
  if N = 0 then []
  else if N ≤ s.taps.length then
    match s.taps with
    | [] => []
    | old :: _ => [s.mean.getD 0 - old, s.mean.getD 0 - old + x]
  else [s.mean.getD 0 + x, s.weight + 1]

/-- a contiguous block of the signal -/
def IsBlock (blk xs : List Int) : Prop := ∃ pre post, xs = pre ++ blk ++ post

theorem intermediates_are_blocks (N : Nat) (hN : 1 ≤ N) (xs : List Int) (x : Int) (s : SM Int)
    (h : MInv N s xs) :
    ∀ v ∈ smIntermediates N s x,
      ∃ blk, IsBlock blk (xs ++ [x]) ∧ blk.length ≤ N ∧ (v = blk.sum ∨ v = (blk.length : Int)) := by
  obtain ⟨htaps, hsum, hw⟩ := h
  have hN0 : ¬ N = 0 := by omega
  have hwl : (window N xs).length = min xs.length N := window_length N xs
  have hsplit : xs = xs.take (xs.length - N) ++ window N xs := by simp [window]
  intro v hv
  unfold smIntermediates at hv
  rw [if_neg hN0] at hv
  by_cases hfull : N ≤ s.taps.length
  · rw [if_pos hfull] at hv
    cases hwin : window N xs with
    | nil => rw [htaps, hwin] at hfull; simp at hfull; omega
    | cons old rest =>
      rw [htaps, hwin] at hv
      have hlen : rest.length + 1 ≤ N := by
        have := hwl; rw [hwin] at this; simp at this; omega
      rw [hsum, hwin] at hv
      simp only [List.sum_cons, List.mem_cons, List.not_mem_nil, or_false] at hv
      rcases hv with rfl | rfl
      · refine ⟨rest, ⟨xs.take (xs.length - N) ++ [old], [x], ?_⟩, by omega, Or.inl (by first | rfl | ring)⟩
        conv_lhs => rw [hsplit, hwin]
        simp
      · refine ⟨rest ++ [x], ⟨xs.take (xs.length - N) ++ [old], [], ?_⟩, by simp; omega, Or.inl (by simp)⟩
        conv_lhs => rw [hsplit, hwin]
        simp
  · rw [if_neg hfull] at hv
    have hshort : xs.length < N := by
      rw [htaps, hwl] at hfull; omega
    have hwx : window N xs = xs := by
      unfold window
      have : xs.length - N = 0 := by omega
      rw [this]; simp
    rw [hsum, hw, hwx] at hv
    simp only [List.mem_cons, List.not_mem_nil, or_false] at hv
    rcases hv with rfl | rfl
    · exact ⟨xs ++ [x], ⟨[], [], by simp⟩, by simp; omega, Or.inl (by simp)⟩
    · exact ⟨xs ++ [x], ⟨[], [], by simp⟩, by simp; omega, Or.inr (by simp)⟩

/-- along a run from the fresh filter: every quantity formed at every step is the sum or the length of a block of at
most `N` consecutive samples -/
theorem run_intermediates_are_blocks (N : Nat) (hN : 1 ≤ N) (xs : List Int) (x : Int) :
    ∀ v ∈ smIntermediates N (stepRun (smStep N) (smInit : SM Int) xs).1 x,
      ∃ blk, IsBlock blk (xs ++ [x]) ∧ blk.length ≤ N ∧ (v = blk.sum ∨ v = (blk.length : Int)) :=
  intermediates_are_blocks N hN xs x _ (SignaloModel.Registry.minv_run N hN xs)

/-- **no step needs more room than the property's formula**: if every block of at most `N` consecutive samples has its
sum within `[lo, hi]` and `N ≤ hi`, everything the filter forms stays within `[lo, hi]` -/
theorem run_intermediates_fit (N : Nat) (hN : 1 ≤ N) (xs : List Int) (x lo hi : Int)
    (hlo : lo ≤ 0) (hNhi : (N : Int) ≤ hi)
    (hfit : ∀ blk, IsBlock blk (xs ++ [x]) → blk.length ≤ N → lo ≤ blk.sum ∧ blk.sum ≤ hi) :
    ∀ v ∈ smIntermediates N (stepRun (smStep N) (smInit : SM Int) xs).1 x, lo ≤ v ∧ v ≤ hi := by
  intro v hv
  obtain ⟨blk, hb, hl, hv⟩ := run_intermediates_are_blocks N hN xs x v hv
  rcases hv with rfl | rfl
  · exact hfit blk hb hl
  · constructor
    · have : (0 : Int) ≤ (blk.length : Int) := Int.natCast_nonneg _
      omega
    · have : (blk.length : Int) ≤ (N : Int) := by exact_mod_cast hl
      omega

/-- the model's machine-integer state is the unbounded-integer state: the state update uses no division -/
@[simp] theorem I64.add_v (a b : I64) : (a + b).v = a.v + b.v := rfl
@[simp] theorem I64.sub_v (a b : I64) : (a - b).v = a.v - b.v := rfl
@[simp] theorem I64.zero_v : (0 : I64).v = 0 := rfl
@[simp] theorem I64.one_v : (1 : I64).v = 1 := rfl

def smToInt (s : SM I64) : SM Int := { mean := s.mean.map (·.v), taps := s.taps.map (·.v), weight := s.weight.v }

theorem smStep_toInt (N : Nat) (s : SM I64) (x : I64) :
    smToInt (smStep N s x).1 = (smStep N (smToInt s) x.v).1 := by
  unfold smStep smToInt
  by_cases h0 : N = 0
  · simp only [if_pos h0]
    cases hm : s.mean <;> simp [hm]
  · simp only [if_neg h0, List.length_map]
    by_cases hf : N ≤ s.taps.length
    · simp only [if_pos hf]
      cases ht : s.taps with
      | nil => simp [ht]
      | cons o r =>
        cases hm : s.mean <;> simp [ht, hm]
    · simp only [if_neg hf]
      cases hm : s.mean <;> simp [hm]

/-- (non-vacuity) width 2 after the samples 3, 4, next sample 5: the evicted sample taken out (4), then the new one added (9) -/
example : smIntermediates 2 (stepRun (smStep 2) (smInit : SM Int) [3, 4]).1 5 = [4, 9] := by decide
/-- ... and while the window fills: the grown sum and the grown weight -/
example : smIntermediates 3 (stepRun (smStep 3) (smInit : SM Int) [3]).1 5 = [8, 2] := by decide

end SignaloModel.Sinks

