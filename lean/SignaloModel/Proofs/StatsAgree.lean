import SignaloModel.Proofs.BridgeSinks
/-!
C11, "the combined statistics sink agrees with the individual ones": for every sample type and every stream, what the
combined sink finalises to is what the bounds sink and the mean-variance sink fed the same stream finalise to, side by
side — and `none` exactly when they do. (No algebraic law is used: the combined sink runs the same three recurrences.)
-/
namespace SignaloModel.SinkModels
open SignaloModel SignaloModel.Registry

variable {α : Type} [Add α] [Sub α] [Mul α] [Div α] [OfNat α 0] [OfNat α 1] [Classify.Cmp α]

theorem statistics_agrees (xs : List α) :
    ((Sk.statistics (none : Option α) none none).feed xs).finalize =
      (match ((Sk.bounds (none : Option α) none).feed xs).finalize,
             ((Sk.meanVar (none : Option (Sinks.MV α))).feed xs).finalize with
       | some b, some m => some (b ++ m)
       | _, _ => none) := by
  rw [statistics_feed, bounds_feed, meanVar_feed]
  cases Spec.extremum ltB xs <;> cases Spec.extremum gtB xs <;> cases Sinks.mvRun (none : Option (Sinks.MV α)) xs <;>
    simp [Sk.finalize]

end SignaloModel.SinkModels
