import SignaloModel.Proofs.SourcesRaw
/-!
C10 (chain) over sources that are NOT fused: `Chain` answers with its first source's raw answers up to (excluding) that
source's first end marker, then with its second source's raw answers — and never polls the first source again
(`Iterator::chain`). Stated on raw answer sequences, for any two machines.
-/
namespace SignaloModel.Sources

variable {α : Type}

/-- once in the back state, a chain is its second source -/
theorem pulls_chain_back (f b : Src α) (fs : f.σ) (bs : b.σ) (k : Nat) :
    pulls (chain f b) (fs, bs, .back) k = pulls b bs k := by
  induction k generalizing bs with
  | zero => rfl
  | succ k ih =>
    have hstep : (chain f b).next (fs, bs, .back) = ((b.next bs).1, (fs, (b.next bs).2, .back)) := rfl
    show ((chain f b).next (fs, bs, .back)).1 :: pulls (chain f b) ((chain f b).next (fs, bs, .back)).2 k = _
    rw [hstep]
    show (b.next bs).1 :: pulls (chain f b) (fs, (b.next bs).2, .back) k = _
    rw [ih]
    rfl

/-- **C10 (chain, any sources)**: the first `k` answers of a chain are the first source's answers before its first
end marker, followed by the second source's answers -/
theorem pulls_chain (f b : Src α) (k : Nat) :
    ∀ (fs : f.σ) (bs : b.σ),
      pulls (chain f b) (fs, bs, .front) k =
        match (pulls f fs k).findIdx? Option.isNone with
        | none => pulls f fs k
        | some j => (pulls f fs k).take j ++ pulls b bs (k - j) := by
  induction k with
  | zero => intro fs bs; rfl
  | succ k ih =>
    intro fs bs
    cases hn : f.next fs with
    | mk o fs' =>
      cases o with
      | some v =>
        have hstep : (chain f b).next (fs, bs, .front) = (some v, (fs', bs, .front)) := by
          simp [chain, hn]
        have h1 : pulls (chain f b) (fs, bs, .front) (k + 1) = some v :: pulls (chain f b) (fs', bs, .front) k := by
          show ((chain f b).next (fs, bs, .front)).1 :: pulls (chain f b) ((chain f b).next (fs, bs, .front)).2 k = _
          rw [hstep]
        have h2 : pulls f fs (k + 1) = some v :: pulls f fs' k := by simp [pulls, hn]
        rw [h1, h2, ih fs' bs]
        simp only [List.findIdx?_cons, Option.isNone_some, Bool.false_eq_true, ↓reduceIte]
        cases hf : (pulls f fs' k).findIdx? Option.isNone with
        | none => simp
        | some j => simp [Nat.succ_sub_succ]
      | none =>
        have hstep : (chain f b).next (fs, bs, .front) = ((b.next bs).1, (fs', (b.next bs).2, .back)) := by
          simp [chain, hn]
        have h1 : pulls (chain f b) (fs, bs, .front) (k + 1) = pulls b bs (k + 1) := by
          show ((chain f b).next (fs, bs, .front)).1 :: pulls (chain f b) ((chain f b).next (fs, bs, .front)).2 k = _
          rw [hstep]
          show (b.next bs).1 :: pulls (chain f b) (fs', (b.next bs).2, .back) k = _
          rw [pulls_chain_back]
          rfl
        have h2 : pulls f fs (k + 1) = none :: pulls f fs' k := by simp [pulls, hn]
        rw [h1, h2]
        simp [List.findIdx?_cons]

end SignaloModel.Sources

#print axioms SignaloModel.Sources.pulls_chain

namespace SignaloModel.Sources
variable {α : Type}

/-- **C10 (take, any source)**: `Take` hands out the inner source's first `n` raw answers (end markers included: every
poll counts), then end markers for ever -/
theorem pulls_take (s : Src α) (k : Nat) :
    ∀ (st : s.σ) (n : Nat),
      pulls (take s) (st, n) k = pulls s st (min k n) ++ List.replicate (k - n) none := by
  induction k with
  | zero => intro st n; simp [pulls]
  | succ k ih =>
    intro st n
    cases n with
    | zero =>
      have hstep : (take s).next (st, 0) = (none, (st, 0)) := by simp [take]
      show ((take s).next (st, 0)).1 :: pulls (take s) ((take s).next (st, 0)).2 k = _
      rw [hstep]
      show none :: pulls (take s) (st, 0) k = _
      rw [ih st 0]
      simp [pulls, List.replicate_succ]
    | succ n =>
      have hstep : (take s).next (st, n + 1) = ((s.next st).1, ((s.next st).2, n)) := by simp [take]
      show ((take s).next (st, n + 1)).1 :: pulls (take s) ((take s).next (st, n + 1)).2 k = _
      rw [hstep]
      show (s.next st).1 :: pulls (take s) ((s.next st).2, n) k = _
      rw [ih]
      have h1 : min (k + 1) (n + 1) = min k n + 1 := by omega
      have h2 : k + 1 - (n + 1) = k - n := by omega
      rw [h1, h2]
      rfl

end SignaloModel.Sources
#print axioms SignaloModel.Sources.pulls_take

namespace SignaloModel.Sources
variable {α : Type}

/-- **C10 / C20 (source cache, any source)**: the cache wrapper passes the raw answers through unchanged -/
theorem pulls_cache (s : Src α) (k : Nat) :
    ∀ (st : s.σ) (c : Option α), pulls (cache s) (st, c) k = pulls s st k := by
  induction k with
  | zero => intro st c; rfl
  | succ k ih =>
    intro st c
    have hstep : (cache s).next (st, c) = ((s.next st).1, ((s.next st).2, (s.next st).1)) := rfl
    show ((cache s).next (st, c)).1 :: pulls (cache s) ((cache s).next (st, c)).2 k = _
    rw [hstep]
    show (s.next st).1 :: pulls (cache s) ((s.next st).2, (s.next st).1) k = _
    rw [ih]
    rfl

end SignaloModel.Sources
#print axioms SignaloModel.Sources.pulls_cache
