import SignaloModel.Proofs.PeekProofs
/-!
C10 (peek), for sources that are NOT fused: `Peek` over ANY machine — whatever it answers, including an end marker
followed by further items — behaves like `core::iter::Peekable`: with `k` raw answers of the inner source consumed,
`peek` and `source` both report raw answer `k` (an end marker included); only `source` consumes it.
-/
namespace SignaloModel.Sources

variable {α : Type}

/-- the state of a machine after `k` pulls -/
def stateAfter (s : Src α) : s.σ → Nat → s.σ
  | st, 0 => st
  | st, k + 1 => stateAfter s (s.next st).2 k

/-- the `k`-th raw answer of a machine (counting from 0) -/
def rawAnswer (s : Src α) (st : s.σ) (k : Nat) : Option α := (s.next (stateAfter s st k)).1

/-- `Peekable` over a raw answer sequence -/
def peekSpecRaw (a : Nat → Option α) : Nat → List Bool → List (Option α)
  | _, [] => []
  | k, true :: rest => a k :: peekSpecRaw a k rest
  | k, false :: rest => a k :: peekSpecRaw a (k + 1) rest

theorem stateAfter_succ (s : Src α) (st : s.σ) (k : Nat) :
    stateAfter s st (k + 1) = (s.next (stateAfter s st k)).2 := by
  induction k generalizing st with
  | zero => rfl
  | succ k ih => simp only [stateAfter] at ih ⊢; exact ih _

theorem runPeek_raw (s : Src α) (st : s.σ) (log : List Bool) :
    ∀ (k : Nat) (p : PeekState s),
      ((p.peeked = none ∧ p.st = stateAfter s st k) ∨
       (p.peeked = some (rawAnswer s st k) ∧ p.st = stateAfter s st (k + 1))) →
      runPeek s p log = peekSpecRaw (rawAnswer s st) k log := by
  induction log with
  | nil => intro k p _; rfl
  | cons op rest ih =>
    intro k p hinv
    obtain ⟨pst, ppk⟩ := p
    cases op with
    | true =>
      simp only [runPeek, peekSpecRaw]
      rcases hinv with ⟨hp, hst⟩ | ⟨hp, hst⟩
      · simp only at hp hst; subst hp; subst hst
        have h1 : (peekOp s { st := stateAfter s st k, peeked := none }).1 = rawAnswer s st k := rfl
        rw [h1]
        congr 1
        exact ih k _ (Or.inr ⟨rfl, by simp [peekOp, stateAfter_succ]⟩)
      · simp only at hp hst; subst hp; subst hst
        have h1 : (peekOp s { st := stateAfter s st (k + 1), peeked := some (rawAnswer s st k) }).1 = rawAnswer s st k := rfl
        rw [h1]
        congr 1
        exact ih k _ (Or.inr ⟨rfl, rfl⟩)
    | false =>
      simp only [runPeek, peekSpecRaw]
      rcases hinv with ⟨hp, hst⟩ | ⟨hp, hst⟩
      · simp only at hp hst; subst hp; subst hst
        have h1 : (peekPull s { st := stateAfter s st k, peeked := none }).1 = rawAnswer s st k := rfl
        rw [h1]
        congr 1
        exact ih (k + 1) _ (Or.inl ⟨rfl, by simp [peekPull, stateAfter_succ]⟩)
      · simp only at hp hst; subst hp; subst hst
        have h1 : (peekPull s { st := stateAfter s st (k + 1), peeked := some (rawAnswer s st k) }).1 = rawAnswer s st k := rfl
        rw [h1]
        congr 1
        exact ih (k + 1) _ (Or.inl ⟨rfl, rfl⟩)

/-- **C10 (peek, any inner source)**: under any interleaving of `peek` and `source`, both report the next raw answer
of the inner source — an end marker included — and only `source` consumes it -/
theorem peek_raw_correct (s : Src α) (st : s.σ) (log : List Bool) :
    runPeek s { st := st, peeked := none } log = peekSpecRaw (rawAnswer s st) 0 log :=
  runPeek_raw s st log 0 _ (Or.inl ⟨rfl, rfl⟩)

end SignaloModel.Sources

#print axioms SignaloModel.Sources.peek_raw_correct
