import SignaloModel.Proofs.SgTableChecks
import SignaloModel.Proofs.FirProofs
import Mathlib.Tactic.NormNum
import Mathlib.Tactic.Linarith
/-!
C05, Savitzky-Golay presets: a kernel reproduces the ramp `a + b·m` exactly iff its coefficient sum is 1 and its
first moment `Σ j·c[j]` is 0; for each regenerated table both hold to within `1e-5` / `1e-4` (the tables carry five
decimals), which bounds the error on ramps explicitly; and every coefficient is within `5e-6` of the closed-form
least-squares end-point coefficient `(4N−2−6j)/(N(N+1))` (`sg_close`).
-/
namespace SignaloModel.Fir

variable {R : Type} [CommRing R]

/-- first moment `Σ_j j·c[j]` (index offset `j0`) -/
def wsum : Nat → List R → R
  | _, [] => 0
  | j, c :: cs => (j : R) * c + wsum (j + 1) cs

theorem wsum_shift (j : Nat) (c : List R) : wsum (j + 1) c = wsum j c + c.sum := by
  induction c generalizing j with
  | nil => simp [wsum]
  | cons a c ih =>
    simp only [wsum, List.sum_cons, ih (j + 1)]
    push_cast
    ring

/-- **C05**: once the window has slid past the first sample (`n + 1 ≥ N`), a FIR applied to the ramp `a + b·m`
gives `a·Σc + b·(n·Σc − Σ j·c[j])`: exactly `a + b·n` when `Σc = 1` and `Σ j·c[j] = 0` -/
theorem convL_ramp (c : List R) (a b : R) (n : Nat) (hn : c.length ≤ n + 1) :
    convL c (fun m => a + b * (m : R)) n = a * c.sum + b * ((n : R) * c.sum - wsum 0 c) := by
  induction c generalizing n with
  | nil => simp [wsum]
  | cons c0 c ih =>
    simp only [List.length_cons] at hn
    cases n with
    | zero =>
      have : c = [] := by
        cases c with
        | nil => rfl
        | cons _ _ => simp at hn
      subst this
      simp [wsum]
      ring
    | succ k =>
      have hk : c.length ≤ k + 1 := by omega
      simp only [convL_cons, Nat.add_sub_cancel, ih k hk, List.sum_cons, wsum, wsum_shift]
      push_cast
      ring

end SignaloModel.Fir

namespace SignaloModel.Tables
open SignaloModel.Fir SignaloModel.Gen

/-- **C05 (tables)**: coefficient sum within `1e-5` of 1 and first moment within `1e-4` of 0, for all 13 widths -/
theorem sg_moments : ∀ p ∈ sgTables, absS (lsumS p.2 - 1) ≤ dec 1 5 ∧ absS (wsum 0 p.2) ≤ dec 1 4 := by
  decide +kernel

end SignaloModel.Tables

#print axioms SignaloModel.Fir.convL_ramp
#print axioms SignaloModel.Tables.sg_moments
