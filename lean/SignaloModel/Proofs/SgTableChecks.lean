import SignaloModel.Gen.Tables
/-! Savitzky-Golay table obligations (C05), by `decide +kernel` over core `Rat`. Kept apart from the Daubechies
obligations so that a change of one family of tables does not break the other property's proof build. -/
namespace SignaloModel.Tables
open SignaloModel.Gen

def lsumS (l : List Rat) : Rat := l.foldl (· + ·) 0
def absS (q : Rat) : Rat := if q < 0 then -q else q

/-- closed-form least-squares end-point coefficients -/
def sgExact (n : Nat) : List Rat :=
  (List.range n).map (fun (j : Nat) => mkRat ((4 * n : Int) - 2 - 6 * (j : Int)) (n * (n + 1)))

def maxDev (a b : List Rat) : Rat := (List.zipWith (fun x y => absS (x - y)) a b).foldl max 0

#eval sgTables.map (fun (n, t) => (n, maxDev t (sgExact n)))

theorem sg_close : ∀ p ∈ sgTables, p.2.length = p.1 ∧ maxDev p.2 (sgExact p.1) ≤ dec 5 6 := by
  decide +kernel

end SignaloModel.Tables

#print axioms SignaloModel.Tables.sg_close
