import SignaloModel.Model.Sources
/-! Proofs for C10 (core Lean only). -/
namespace SignaloModel.Sources

variable {α : Type}

theorem Content.answer_tail (c : Content α) (k : Nat) : c.tail.answer k = c.answer (k + 1) := by
  cases c with
  | fin xs => simp [Content.tail, Content.answer]
  | inf f => simp [Content.tail, Content.answer]

theorem implements_step (s : Src α) (st : s.σ) (c : Content α) :
    Implements s st c ↔ (s.next st).1 = c.answer 0 ∧ Implements s (s.next st).2 c.tail := by
  constructor
  · intro h
    refine ⟨by simpa [pulls] using h 1, ?_⟩
    intro k
    have := h (k + 1)
    rw [pulls, List.range_succ_eq_map, List.map_cons, List.map_map] at this
    have h2 := (List.cons.inj this).2
    rw [h2]
    apply List.map_congr_left
    intro a _
    simp [Content.answer_tail]
  · intro ⟨h0, ht⟩ k
    cases k with
    | zero => simp [pulls]
    | succ k =>
      rw [pulls, List.range_succ_eq_map, List.map_cons, List.map_map, h0, ht k]
      congr 1
      apply List.map_congr_left
      intro a _
      simp [Content.answer_tail]

/-- coinduction principle: a relation closed under one pull proves `Implements` -/
theorem implements_of_bisim (s : Src α) (R : s.σ → Content α → Prop)
    (hR : ∀ st c, R st c → (s.next st).1 = c.answer 0 ∧ R (s.next st).2 c.tail)
    (st : s.σ) (c : Content α) (h : R st c) : Implements s st c := by
  intro k
  induction k generalizing st c with
  | zero => simp [pulls]
  | succ k ih =>
    obtain ⟨h0, ht⟩ := hR st c h
    rw [pulls, List.range_succ_eq_map, List.map_cons, List.map_map, h0, ih _ _ ht]
    congr 1
    apply List.map_congr_left
    intro a _
    simp [Content.answer_tail]

/-! ### FromIter -/

theorem fromList_correct (xs : List α) : Implements fromList xs (.fin xs) := by
  apply implements_of_bisim fromList (fun st c => c = .fin st)
  · intro st c h
    subst h
    refine ⟨?_, rfl⟩
    cases st <;> simp [fromList, Content.answer]
  · rfl

/-! ### Take -/

theorem Content.take_zero (c : Content α) : c.take 0 = .fin [] := by
  cases c <;> simp [Content.take]

theorem Content.take_answer_zero (c : Content α) (n : Nat) (hn : n ≠ 0) :
    (c.take n).answer 0 = c.answer 0 := by
  cases c with
  | fin xs => cases xs <;> cases n <;> simp_all [Content.take, Content.answer]
  | inf f =>
    cases n with
    | zero => simp at hn
    | succ n => simp [Content.take, Content.answer, List.range_succ_eq_map]

theorem Content.take_tail (c : Content α) (n : Nat) : (c.take n).tail = c.tail.take (n - 1) := by
  cases c with
  | fin xs =>
    cases n with
    | zero => simp [Content.take, Content.tail]
    | succ n => cases xs <;> simp [Content.take, Content.tail]
  | inf f =>
    cases n with
    | zero => simp [Content.take, Content.tail]
    | succ n =>
      simp only [Content.take, Content.tail, List.range_succ_eq_map, List.map_cons, List.tail_cons,
        List.map_map, Nat.add_sub_cancel]
      rfl

theorem take_correct (s : Src α) (st : s.σ) (c : Content α) (n : Nat)
    (h : Implements s st c) : Implements (take s) (st, n) (c.take n) := by
  apply implements_of_bisim (take s)
    (fun st' c' => ∃ c, Implements s st'.1 c ∧ c' = c.take st'.2)
  · rintro ⟨st, n⟩ c' ⟨c, hc, rfl⟩
    obtain ⟨h0, ht⟩ := (implements_step s st c).mp hc
    by_cases hn : n = 0
    · subst hn
      simp only [take, ↓reduceIte, Content.take_zero]
      exact ⟨rfl, c, hc, by simp [Content.take_zero, Content.tail]⟩
    · simp only [take, hn, ↓reduceIte]
      exact ⟨by rw [h0, Content.take_answer_zero c n hn], c.tail, ht, Content.take_tail c n⟩
  · exact ⟨c, h, rfl⟩

/-! ### Chain -/

theorem Content.answer_zero_none (c : Content α) (h : c.answer 0 = none) : c = .fin [] := by
  cases c with
  | fin xs => cases xs <;> simp_all [Content.answer]
  | inf f => simp [Content.answer] at h

theorem Content.nil_chain (c : Content α) : (Content.fin []).chain c = c := by
  cases c <;> simp [Content.chain]

theorem Content.chain_answer_zero (c₁ c₂ : Content α) (v : α) (h : c₁.answer 0 = some v) :
    (c₁.chain c₂).answer 0 = some v := by
  cases c₁ with
  | fin xs =>
    cases xs with
    | nil => simp [Content.answer] at h
    | cons x xs => cases c₂ <;> simp_all [Content.chain, Content.answer]
  | inf f => simpa [Content.chain] using h

theorem Content.chain_tail (c₁ c₂ : Content α) (v : α) (h : c₁.answer 0 = some v) :
    (c₁.chain c₂).tail = c₁.tail.chain c₂ := by
  cases c₁ with
  | fin xs =>
    cases xs with
    | nil => simp [Content.answer] at h
    | cons x xs =>
      cases c₂ with
      | fin ys => simp [Content.chain, Content.tail]
      | inf g =>
        simp only [Content.chain, Content.tail, List.length_cons, List.tail_cons]
        congr 1
        funext k
        by_cases hk : k < xs.length
        · simp [hk]
        · simp [hk]
  | inf f => simp [Content.chain, Content.tail]

theorem chain_correct (f b : Src α) (fs : f.σ) (bs : b.σ) (c₁ c₂ : Content α)
    (h₁ : Implements f fs c₁) (h₂ : Implements b bs c₂) :
    Implements (chain f b) (fs, bs, .front) (c₁.chain c₂) := by
  apply implements_of_bisim (chain f b)
    (fun st c' => match st with
      | (fs, bs, .front) => ∃ c₁ c₂, Implements f fs c₁ ∧ Implements b bs c₂ ∧ c' = c₁.chain c₂
      | (_, bs, .back) => Implements b bs c')
  · rintro ⟨fs, bs, cs⟩ c' h
    cases cs with
    | front =>
      obtain ⟨c₁, c₂, h₁, h₂, rfl⟩ := h
      obtain ⟨h0, ht⟩ := (implements_step f fs c₁).mp h₁
      cases hf : f.next fs with
      | mk o fs' =>
        rw [hf] at h0 ht
        simp only at h0 ht
        cases o with
        | some v =>
          simp only [chain, hf]
          exact ⟨(Content.chain_answer_zero c₁ c₂ v h0.symm).symm, c₁.tail, c₂, ht, h₂,
            Content.chain_tail c₁ c₂ v h0.symm⟩
        | none =>
          have hc : c₁ = .fin [] := Content.answer_zero_none c₁ h0.symm
          subst hc
          obtain ⟨hb0, hbt⟩ := (implements_step b bs c₂).mp h₂
          simp only [chain, hf, Content.nil_chain]
          exact ⟨hb0, hbt⟩
    | back =>
      obtain ⟨hb0, hbt⟩ := (implements_step b bs c').mp h
      simp only [chain]
      exact ⟨hb0, hbt⟩
  · exact ⟨c₁, c₂, h₁, h₂, rfl⟩

end SignaloModel.Sources

#print axioms SignaloModel.Sources.chain_correct
#print axioms SignaloModel.Sources.take_correct
