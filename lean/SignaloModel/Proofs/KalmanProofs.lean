import SignaloModel.Model.Kalman
import Mathlib.Tactic.Ring
import Mathlib.Tactic.FieldSimp
import Mathlib.Tactic.Linarith
import Mathlib.Tactic.Positivity
import Mathlib.Algebra.Order.Field.Basic

namespace SignaloModel
open SignaloModel

variable {K : Type} [Field K] [LinearOrder K] [IsStrictOrderedRing K]

/-- convex step lemma -/
theorem convex_step (g x z lo hi : K) (hg0 : 0 ≤ g) (hg1 : g ≤ 1)
    (hx : lo ≤ x ∧ x ≤ hi) (hz : lo ≤ z ∧ z ≤ hi) :
    lo ≤ x + g * (z - x) ∧ x + g * (z - x) ≤ hi := by
  obtain ⟨hx1, hx2⟩ := hx
  obtain ⟨hz1, hz2⟩ := hz
  constructor <;> nlinarith

/-- hull clause, one step: a = c = 1, b = 0, r ≥ 0, q > 0, cov ≥ 0 -/
theorem kalman_step_hull (r q : K) (hr : 0 ≤ r) (hq : 0 < q)
    (p x z u lo hi : K) (hp : 0 ≤ p) (hx : lo ≤ x ∧ x ≤ hi) (hz : lo ≤ z ∧ z ≤ hi) :
    let cfg : KCfg K := { r := r, q := q, a := 1, b := 0, c := 1 }
    let res := kalmanStep cfg { cov := p, value := some x } z u
    (lo ≤ res.2 ∧ res.2 ≤ hi) ∧ 0 ≤ res.1.cov := by
  intro cfg res
  have hP : 0 ≤ p + r := by linarith
  have hden : 0 < (p + r) + q := by linarith
  have hg0 : 0 ≤ (p + r) / ((p + r) + q) := div_nonneg hP hden.le
  have hg1 : (p + r) / ((p + r) + q) ≤ 1 := by
    rw [div_le_one hden]; linarith
  have hres2 : res.2 = x + (p + r) / ((p + r) + q) * (z - x) := by
    simp only [res, kalmanStep, cfg]; ring
  have hres1 : res.1.cov = (p + r) * q / ((p + r) + q) := by
    simp only [res, kalmanStep, cfg]; field_simp; ring
  refine ⟨?_, ?_⟩
  · rw [hres2]; exact convex_step _ _ _ _ _ hg0 hg1 hx hz
  · rw [hres1]; positivity

/-- textbook recursion identity (general config): control-free call equals zero control. -/
theorem kalman_zero_control (cfg : KCfg K) (s : KState K) (z : K) :
    kalmanStep cfg s z 0 = kalmanStep cfg s z (0 : K) := rfl

end SignaloModel

#print axioms SignaloModel.kalman_step_hull
